"""Per-property configuration of bin/check."""

TRUSTED_COMMON = [
    "Coq 8.16.1 kernel + coqc; vm_compute (bytecode VM) for model evaluation and computed witnesses; no native_compute",
    "no Axiom/Parameter/Admitted in the development (grep + Print Assumptions on every property theorem)",
    "tools/factx (go/ast pattern extractor producing coq/Generated/Facts.v from /repo on every run)",
    "Go harness /verif/harness (generators, canonicalisers, hooks behind build tag `verif`), Go toolchain",
    "modelled, not verified: Go runtime/scheduler, etcd/raft, Badger, gRPC, protobuf (see DESIGN.md §4)",
]

PROPS = {
    "C19": {
        "model_targets": ["PQ/Check.vo"],
        "n": {"quick": 400, "thorough": 6000},
        "facts": ["reverse_copies"],
        "theorems": ["C19_order", "C19_drain_sorted", "C19_reverse", "C19_scripts_ok", "C19_independent",
                     "C19_reverse_alias_refuted", "C19_facts_ok"],
        "axioms_allowed": [],
        "trusted": ["container/heap is transcribed by hand (up/down/Init/Push/Pop) and compared state-level (ToSlice) with the real package"],
        "assumptions": ["priorities are non-NaN; float32 order on non-negative values = order of bit patterns",
                        "values attached to items are opaque"],
        "explanation": "heap invariant + bag refinement proved for all histories; model tied to utils/priority_queue.go by fact reverse_copies and by state-level differential scripts over several handles",
    },
    "C10": {
        "model_targets": ["Routing/Model.vo"],
        "n": {"quick": 4000, "thorough": 60000},
        "facts": ["uuid_mod_shape", "owner_fn_shape", "write_paths_via_owner_fn"],
        "theorems": ["C10_range", "C10_total", "C10_value", "C10_paths", "C10_locality", "C10_write_total", "C10_zero_count_crashes", "C10_facts_ok"],
        "axioms_allowed": [],
        "trusted": ["factx shape facts for UuidMod / getPartitionForId / the six write paths; simulated 3-node cluster (in-memory RPC shims over the real service objects, single- and two-replica raft groups)"],
        "assumptions": ["partition_count > 0 (0 is a crash, see C12)", "restart recomputes the same function: the owner depends only on id bytes and the catalogue's partition count"],
        "explanation": "range/value/stability/locality proved for all ids and counts; UuidMod compared value-for-value with the model incl. every m in 1..1024 and boundary ids; holder partition observed after writes through all six paths via every entry node",
    },
    "C16": {
        "model_targets": ["Cluster/Placement.vo"],
        "n": {"quick": 160, "thorough": 3000},
        "facts": ["placement_copies", "placement_shuffle_per_partition"],
        "theorems": ["C16_valid", "C16_independent", "C16_alias_refuted", "C16_facts_ok"],
        "axioms_allowed": [],
        "trusted": ["math/rand's Shuffle is modelled as Fisher-Yates with draws recovered by replaying the seed with a recording swap; Go map iteration order of Conn.NodeIds() treated as an unknown injective renaming"],
        "assumptions": ["member ids are distinct (map keys)", "membership = Conn.NodeIds() at the time of the call (see C20)"],
        "explanation": "validity for all draws, surjectivity of the per-partition shuffles onto all tuples of member permutations (independence), aliasing collapse as regression; real getPartitionsNodeIds compared with the model up to renaming on seeded runs",
    },
    "C02": {
        "model_targets": ["Store/Check.vo"],
        "n": {"quick": 240, "thorough": 4000},
        "facts": ["update_allocates_nil_map", "update_merge_keeps_old", "update_reuses_level", "store_counters_shape", "vertex_bytes_shape", "process_dispatch_shape"],
        "theorems": ["C02_map", "C02_simple", "C02_counts", "C02_update_nilmeta_refuted", "C02_facts_ok"],
        "axioms_allowed": [],
        "trusted": ["protobuf decoding of log entries is not modelled (the harness marshals structured changes; the model receives the structured change)",
                    "the HNSW graph work inside Insert/Remove is abstracted by the store contract of C02_map (discharged for the simple index here, for the HNSW model in C01)"],
        "assumptions": ["BytesSize() = data-bytes counter + float64 link estimate; the estimate is checked on the implementation to lie in [0, len*bound(config)] (tested, not proved)",
                        "item sizes and sums below 2^64 for exactness (C02_counts states the wrap explicitly)"],
        "explanation": "refinement of the partition machine to a 30-line map spec for all logs (single and batch forms), exact uint64 counters; real partition.process fed with marshalled entries, outcomes/counters/contents compared after every entry",
    },
}
NOT_APPLICABLE = {}
