"""Per-property configuration of bin/check."""

TRUSTED_COMMON = [
    "Coq 8.16.1 kernel + coqc; vm_compute (bytecode VM) for model evaluation and computed witnesses; no native_compute",
    "no Axiom/Parameter/Admitted in the development (grep + Print Assumptions on every property theorem)",
    "tools/factx (go/ast pattern extractor producing coq/Generated/Facts.v from /repo on every run)",
    "Go harness /verif/harness (generators, canonicalisers, hooks behind build tag `verif`), Go toolchain",
    "modelled, not verified: Go runtime/scheduler, etcd/raft, Badger, gRPC, protobuf (see DESIGN.md §4)",
]

PROPS = {
    "C19": {
        "model_targets": ["PQ/Check.vo"],
        "n": {"quick": 400, "thorough": 6000},
        "facts": ["reverse_copies"],
        "theorems": ["C19_order", "C19_drain_sorted", "C19_reverse", "C19_scripts_ok", "C19_independent",
                     "C19_reverse_alias_refuted", "C19_facts_ok"],
        "axioms_allowed": [],
        "trusted": ["container/heap is transcribed by hand (up/down/Init/Push/Pop) and compared state-level (ToSlice) with the real package"],
        "assumptions": ["priorities are non-NaN; float32 order on non-negative values = order of bit patterns",
                        "values attached to items are opaque"],
        "explanation": "heap invariant + bag refinement proved for all histories; model tied to utils/priority_queue.go by fact reverse_copies and by state-level differential scripts over several handles",
    },
}
