(* Api/Translated.v — DatasetManager.Create's parameter check and the truncation of a dataset search as translated
   from storage/dataset_manager.go and storage/dataset.go on this run are the models'. *)
From Verif Require Import Base.Prelude Base.GoMinMax Api.Validate Generated.Translated.
From Coq Require Import ZArith NArith Lia ZifyN ZifyNat ZifyBool.

(* Create refuses exactly the parameter tuples the model's dataset_ok refuses (with the checks on and the partition
   bound the source declares); knownSpace is the outcome of the lookup in pb.Space_name - the spaces 0, 1, 2 *)
Theorem go_Create_refuses_is_model (lim : limits) (dim space parts repl : N) :
  l_dataset_checked lim = true ->
  go_Create_refuses (space <? 3)%N (Z.of_N dim) (Z.of_N parts) (Z.of_N (l_max_parts lim)) (Z.of_N repl) = negb (dataset_ok lim dim space parts repl).
Proof.
  intros L. unfold go_Create_refuses, dataset_ok. rewrite L.
  destruct (space <? 3)%N; destruct (Z.of_N dim <? 1)%Z eqn:A, (Z.of_N parts <? 1)%Z eqn:B, (Z.of_N (l_max_parts lim) <? Z.of_N parts)%Z eqn:C, (Z.of_N repl <? 1)%Z eqn:D,
    (1 <=? dim)%N eqn:A', (1 <=? parts)%N eqn:B', (parts <=? l_max_parts lim)%N eqn:C', (1 <=? repl)%N eqn:D'; simpl; try reflexivity; lia.
Qed.

(* a dataset search returns the first min(k, number of merged items) entries of the sorted merge *)
Theorem go_Search_cut_is_model (k n : nat) : (Z.of_nat k <= MaxIntVal)%Z -> (Z.of_nat n <= MaxIntVal)%Z ->
  go_Search_cut (Z.of_nat k) (Z.of_nat n) = Z.of_nat (Nat.min k n) /\ go_SearchPartitions_cut (Z.of_nat k) (Z.of_nat n) = Z.of_nat (Nat.min k n).
Proof. intros H1 H2. unfold go_Search_cut, go_SearchPartitions_cut. rewrite go_MinInt_pair by lia. split; lia. Qed.
