(* Api/Validate.v — what the write and search paths check before anything is logged or allocated (storage/dataset.go
   checkBatchItems / Insert / Update / Search*, storage/dataset_manager.go Create, index/metadata.go Validate), and what
   applying a logged item does to a partition's contents (storage/partition.go *Value functions) (C12).
   Executable; no proofs. *)
From Verif Require Import Base.Prelude Store.Spec Store.Partition.
From Coq Require Import String.
Open Scope N_scope.

(* which checks the source has (read off it by the fact extractor) *)
Record limits := {
  l_dataset_checked : bool; l_max_parts : N;
  l_items_checked : bool;            (* ids parse, dimension, metadata size — on every write path incl. the partition-level RPCs *)
  l_merge_checked : bool;            (* an update whose merged metadata outgrows the encoding is refused when applied *)
  l_search_dim_checked : bool;       (* Search and SearchPartitions check the query dimension *)
  l_k_allocates : bool               (* memory reserved in proportion to k *)
}.
Definition limits_safe : limits :=
  {| l_dataset_checked := true; l_max_parts := 1024; l_items_checked := true; l_merge_checked := true;
     l_search_dim_checked := true; l_k_allocates := false |}.

(* ---- items ---- *)
Record ritem := { it_id : option N;      (* None: the id bytes do not parse *)
                  it_vec : vec; it_meta : meta }.
Definition meta_fits (m : meta) : bool :=
  (N.of_nat (List.length m) <? 65536) &&
  forallb (fun kv => (N.of_nat (List.length (fst kv)) <? 256) && (N.of_nat (List.length (snd kv)) <? 65536)) m.
Definition item_ok (dim : nat) (with_value : bool) (it : ritem) : bool :=
  match it_id it with
  | None => false
  | Some _ => if with_value then Nat.eqb (List.length (it_vec it)) dim && meta_fits (it_meta it) else true
  end.
(* checkBatchItems: what goes to the log, how many are answered with an error *)
Definition check_items (lim : limits) (dim : nat) (with_value : bool) (its : list ritem) : list ritem * nat :=
  if l_items_checked lim then (filter (item_ok dim with_value) its, List.length (filter (fun i => negb (item_ok dim with_value i)) its))
  else (its, O).

(* ---- applying logged items to the contents of a partition ---- *)
Definition sitem := (vec * meta)%type.
Definition store := list (N * sitem).
Inductive wkind := WInsert | WUpdate | WRemove.
Fixpoint sset (id : N) (x : sitem) (st : store) : store :=
  match st with [] => [] | (k, y) :: t => if k =? id then (k, x) :: t else (k, y) :: sset id x t end.
(* None = the apply function returns an error: RaftGroup.run calls log.Fatal, and again at every replay *)
Definition apply1 (lim : limits) (k : wkind) (st : store) (it : ritem) : option store :=
  match it_id it with
  | None => None
  | Some id =>
      match k with
      | WInsert => match alookup id st with Some _ => Some st | None => Some ((id, (it_vec it, it_meta it)) :: st) end
      | WUpdate =>
          match alookup id st with
          | None => Some st
          | Some old =>
              let m := merge (it_meta it) (snd old) in
              if l_merge_checked lim && negb (meta_fits m) then Some st else Some (sset id (it_vec it, m) st)
          end
      | WRemove => Some (aremove id st)
      end
  end.
Fixpoint apply_all (lim : limits) (k : wkind) (st : store) (its : list ritem) : option store :=
  match its with
  | [] => Some st
  | it :: r => match apply1 lim k st it with Some st' => apply_all lim k st' r | None => None end
  end.
(* what the index, the distance kernels and the snapshot encoding rely on *)
Definition store_ok (dim : nat) (st : store) : Prop :=
  Forall (fun p => List.length (fst (snd p)) = dim /\ meta_fits (snd (snd p)) = true) st.
Definition store_ok_b (dim : nat) (st : store) : bool :=
  forallb (fun p => Nat.eqb (List.length (fst (snd p))) dim && meta_fits (snd (snd p))) st.

(* ---- datasets ---- *)
Definition dataset_ok (lim : limits) (dim space parts repl : N) : bool :=
  if l_dataset_checked lim then (1 <=? dim) && (space <? 3) && (1 <=? parts) && (parts <=? l_max_parts lim) && (1 <=? repl) else true.

(* ---- searches ---- *)
Definition search_ok (lim : limits) (dim qlen : nat) : bool := if l_search_dim_checked lim then Nat.eqb qlen dim else true.
Definition reserved_slots (lim : limits) (k parts : N) : N := if l_k_allocates lim then k * parts else 0.

(* ---- requests as the harness reports them ---- *)
Record rsumm := { ri_id_ok : bool; ri_dim : nat; ri_nkeys : N; ri_maxkey : N; ri_maxval : N }.
Record request := {
  rq_kind : string; rq_id_ok : bool; rq_dim : nat; rq_nkeys : N; rq_maxkey : N; rq_maxval : N; rq_k : N;
  rq_items : list rsumm; rq_cdim : N; rq_cspace : N; rq_cparts : N; rq_crepl : N }.
Definition summ_meta_fits (nkeys maxkey maxval : N) : bool := (nkeys <? 65536) && (maxkey <? 256) && (maxval <? 65536).
(* requests the server must answer with an error whatever its state (d0 of the harness has dimension 3) *)
Definition must_reject (lim : limits) (r : request) : bool :=
  let k := rq_kind r in
  if String.eqb k "Create" then negb (dataset_ok lim (rq_cdim r) (rq_cspace r) (rq_cparts r) (rq_crepl r))
  else if String.eqb k "Insert" || String.eqb k "Update" then
    negb (rq_id_ok r) || (l_items_checked lim && negb (summ_meta_fits (rq_nkeys r) (rq_maxkey r) (rq_maxval r)))
  else if String.eqb k "Remove" then negb (rq_id_ok r)
  else false.
Definition req_case_model_ok (lim : limits) (c : request * string) : bool :=
  let out := snd c in
  if String.eqb out "not-sent" then true
  else if must_reject lim (fst c) then String.eqb out "error" else String.eqb out "ok" || String.eqb out "error".
Definition req_case_oracle_ok (c : request * string) : bool := negb (String.eqb (snd c) "no-answer").
Fixpoint bad_idx {A} (f : A -> bool) (l : list A) (i : nat) : list nat :=
  match l with [] => [] | a :: t => if f a then bad_idx f t (S i) else i :: bad_idx f t (S i) end.
