(* Api/ValidateProofs.v — C12: whatever the requests, everything the current write paths log can be applied by every
   replica, now and at every replay, and leaves contents that the kernels and the snapshot encoding can handle. *)
From Verif Require Import Base.Prelude Store.Spec Store.Partition Codec.Model Codec.Proofs Api.Validate.
Open Scope N_scope.

Lemma check_items_logged lim dim wv its : l_items_checked lim = true ->
  Forall (fun it => item_ok dim wv it = true) (fst (check_items lim dim wv its)).
Proof. intros H. unfold check_items. rewrite H. simpl. apply Forall_forall. intros x Hx. apply filter_In in Hx. tauto. Qed.
(* every item of the request is either logged or answered with an error *)
Lemma check_items_partition lim dim wv its :
  (length (fst (check_items lim dim wv its)) + snd (check_items lim dim wv its) = length its)%nat.
Proof.
  unfold check_items. destruct (l_items_checked lim); simpl; [|lia].
  induction its as [|x r IH]; simpl; auto. destruct (item_ok dim wv x); simpl; lia.
Qed.

Lemma store_ok_lookup dim st id x : store_ok dim st -> alookup id st = Some x -> length (fst x) = dim /\ meta_fits (snd x) = true.
Proof.
  induction st as [|[k y] t IH]; simpl; intros S E; [discriminate|]. inversion S; subst.
  destruct (k =? id); [inversion E; subst; auto|auto].
Qed.
Lemma store_ok_sset dim st id x : store_ok dim st -> length (fst x) = dim -> meta_fits (snd x) = true -> store_ok dim (sset id x st).
Proof.
  induction st as [|[k y] t IH]; simpl; intros S A B; auto. inversion S; subst.
  destruct (k =? id); constructor; auto. apply IH; auto.
Qed.
Lemma store_ok_aremove dim st id : store_ok dim st -> store_ok dim (aremove id st).
Proof.
  induction st as [|[k y] t IH]; simpl; intros S; auto. inversion S; subst. destruct (k =? id); auto. constructor; auto. apply IH; auto.
Qed.

Definition wv (k : wkind) : bool := match k with WRemove => false | _ => true end.

Lemma apply1_ok lim dim k st it : l_merge_checked lim = true -> store_ok dim st -> item_ok dim (wv k) it = true ->
  exists st', apply1 lim k st it = Some st' /\ store_ok dim st'.
Proof.
  intros M S I. unfold item_ok in I. unfold apply1. destruct (it_id it) as [id|]; [|discriminate].
  destruct k; simpl in I.
  - apply Bool.andb_true_iff in I. destruct I as (L & F). apply Nat.eqb_eq in L.
    destruct (alookup id st); eexists; split; eauto. constructor; auto.
  - apply Bool.andb_true_iff in I. destruct I as (L & F). apply Nat.eqb_eq in L.
    destruct (alookup id st) as [old|] eqn:E; [|eexists; split; eauto].
    rewrite M. simpl. destruct (meta_fits (merge (it_meta it) (snd old))) eqn:EF; simpl; eexists; split; eauto.
    apply store_ok_sset; auto.
  - eexists; split; eauto. apply store_ok_aremove; auto.
Qed.

(* the log never holds an item a replica cannot apply, and applying keeps the contents within what the kernels
   (every vector has the dataset's dimension) and the snapshot encoding (metadata within the field widths) handle *)
Theorem logged_items_apply lim dim k : l_items_checked lim = true -> l_merge_checked lim = true ->
  forall its st, store_ok dim st ->
  exists st', apply_all lim k st (fst (check_items lim dim (wv k) its)) = Some st' /\ store_ok dim st'.
Proof.
  intros C M its st S. pose proof (check_items_logged lim dim (wv k) its C) as F.
  revert st S. induction F as [|it r Hit _ IH]; intros st S; simpl; [eauto|].
  destruct (apply1_ok lim dim k st it M S Hit) as (st1 & -> & S1). apply IH; auto.
Qed.
Corollary no_poison dim k its st : store_ok dim st ->
  exists st', apply_all limits_safe k st (fst (check_items limits_safe dim (wv k) its)) = Some st' /\ store_ok dim st'.
Proof. apply logged_items_apply; reflexivity. Qed.
(* histories: any sequence of write requests *)
Theorem no_poison_history dim : forall (reqs : list (wkind * list ritem)) st, store_ok dim st ->
  exists st', fold_left (fun acc r => match acc with
                                      | Some s => apply_all limits_safe (fst r) s (fst (check_items limits_safe dim (wv (fst r)) (snd r)))
                                      | None => None end) reqs (Some st) = Some st' /\ store_ok dim st'.
Proof.
  induction reqs as [|[k its] r IH]; intros st S; cbn [fold_left fst snd]; [eauto|].
  destruct (no_poison dim k its st S) as (st1 & -> & S1). apply IH; auto.
Qed.

(* the contents bound is the snapshot format's: C08's round trip applies to every stored item *)
Lemma meta_fits_wf m : meta_fits m = true <-> wf_meta m.
Proof.
  unfold meta_fits, wf_meta. rewrite Bool.andb_true_iff, N.ltb_lt, forallb_forall, Forall_forall. unfold wf_kv.
  split; intros (A & B); split; auto; intros x Hx; specialize (B x Hx).
  - apply Bool.andb_true_iff in B. rewrite !N.ltb_lt in B. auto.
  - apply Bool.andb_true_iff. rewrite !N.ltb_lt. auto.
Qed.

(* datasets, searches *)
Theorem dataset_params dim space parts repl : dataset_ok limits_safe dim space parts repl = true ->
  1 <= dim /\ space < 3 /\ 1 <= parts <= 1024 /\ 1 <= repl.
Proof.
  unfold dataset_ok. simpl. rewrite !Bool.andb_true_iff, !N.leb_le, N.ltb_lt. lia.
Qed.
Theorem search_checked dim qlen k parts : search_ok limits_safe dim qlen = true -> qlen = dim /\ reserved_slots limits_safe k parts = 0.
Proof. unfold search_ok. simpl. intros H. apply Nat.eqb_eq in H. auto. Qed.

(* ---- without the checks ---- *)
Definition lim_unchecked : limits :=
  {| l_dataset_checked := false; l_max_parts := 1024; l_items_checked := false; l_merge_checked := false;
     l_search_dim_checked := false; l_k_allocates := true |}.
(* a malformed id in a partition-level batch is logged; every replica fails on it *)
Theorem malformed_id_refuted :
  apply_all lim_unchecked WInsert [] (fst (check_items lim_unchecked 3 true [{| it_id := None; it_vec := [1; 2; 3]; it_meta := [] |}])) = None /\
  fst (check_items limits_safe 3 true [{| it_id := None; it_vec := [1; 2; 3]; it_meta := [] |}]) = [].
Proof. split; reflexivity. Qed.
(* a vector of another length ends up in the index *)
Theorem wrong_dimension_refuted :
  match apply_all lim_unchecked WInsert [] (fst (check_items lim_unchecked 3 true [{| it_id := Some 5; it_vec := []; it_meta := [] |}])) with
  | Some st => store_ok_b 3 st = false | None => False end.
Proof. reflexivity. Qed.
(* metadata keys accumulate over updates: without the check at apply time the merged metadata outgrows the encoding
   although every single request was within bounds *)
Fixpoint nrange (n : nat) (i : N) : list N := match n with O => [] | S n' => i :: nrange n' (i + 1) end.
Definition many_keys (n : N) : meta := map (fun i => ([i / 256; i mod 256], [])) (nrange (N.to_nat n) 0).
Theorem accumulated_metadata_refuted :
  let st := [(5, ([1], many_keys 65535))] in
  let upd := {| it_id := Some 5; it_vec := [1]; it_meta := [([9; 9; 9], [])] |} in
  store_ok_b 1 st = true /\ item_ok 1 true upd = true /\
  match apply1 lim_unchecked WUpdate st upd with Some st' => store_ok_b 1 st' = false | None => False end /\
  match apply1 limits_safe WUpdate st upd with Some st' => store_ok_b 1 st' = true | None => False end.
Proof. vm_compute. auto. Qed.
Theorem dataset_unchecked_refuted :
  dataset_ok lim_unchecked 0 7 0 0 = true /\ dataset_ok limits_safe 2 0 0 1 = false /\ dataset_ok limits_safe 2 0 2147483648 1 = false /\
  reserved_slots lim_unchecked 4000000000 2 = 8000000000.
Proof. repeat split; reflexivity. Qed.
