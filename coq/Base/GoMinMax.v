(* Base/GoMinMax.v — the translated math.MinInt / math.MaxInt (Generated/Translated.v, regenerated from math/math.go on
   every run) are the minimum / maximum of their arguments whenever these are Go ints (|x| <= MaxIntVal). *)
From Coq Require Import List ZArith Lia.
From Verif Require Import Generated.Translated.
Import ListNotations.
Open Scope Z_scope.

Lemma go_MinInt_fold l : forall m, fold_left (fun m v => if v <? m then v else m) l m = fold_left Z.min l m.
Proof. induction l as [|x l IH]; intros m; simpl; auto. rewrite IH. f_equal. destruct (Z.ltb_spec x m); lia. Qed.
Lemma go_MaxInt_fold l : forall m, fold_left (fun m v => if m <? v then v else m) l m = fold_left Z.max l m.
Proof. induction l as [|x l IH]; intros m; simpl; auto. rewrite IH. f_equal. destruct (Z.ltb_spec m x); lia. Qed.

Theorem go_MinInt_is_min l : go_MinInt l = fold_left Z.min l MaxIntVal.
Proof. unfold go_MinInt. apply go_MinInt_fold. Qed.
Theorem go_MaxInt_is_max l : go_MaxInt l = fold_left Z.max l (- MaxIntVal).
Proof. unfold go_MaxInt. apply go_MaxInt_fold. Qed.

Lemma go_MinInt_pair a b : a <= MaxIntVal -> b <= MaxIntVal -> go_MinInt [a; b] = Z.min a b.
Proof. intros Ha Hb. rewrite go_MinInt_is_min. cbn [fold_left]. lia. Qed.
Lemma go_MaxInt_pair a b : - MaxIntVal <= a -> - MaxIntVal <= b -> go_MaxInt [a; b] = Z.max a b.
Proof. intros Ha Hb. rewrite go_MaxInt_is_max. cbn [fold_left]. lia. Qed.
