(* Base/Prelude.v — shared list utilities (array-as-list update, counting), no axioms. *)
From Coq Require Export List Arith ZArith NArith Lia Bool Permutation.
Export ListNotations.

Fixpoint upd {A} (l : list A) (i : nat) (x : A) : list A :=
  match l, i with
  | [], _ => []
  | _ :: t, 0 => x :: t
  | h :: t, S i => h :: upd t i x
  end.

Lemma upd_length {A} (l : list A) i x : length (upd l i x) = length l.
Proof. revert i; induction l as [|a l IH]; intros [|i]; simpl; auto. Qed.

Lemma nth_upd_eq {A} (l : list A) i x d : i < length l -> nth i (upd l i x) d = x.
Proof. revert i; induction l as [|a l IH]; intros [|i] H; simpl in *; try lia; auto. apply IH; lia. Qed.

Lemma nth_upd_neq {A} (l : list A) i j x d : i <> j -> nth j (upd l i x) d = nth j l d.
Proof. revert i j; induction l as [|a l IH]; intros [|i] [|j] H; simpl; auto; try lia. Qed.

Lemma nth_upd {A} (l : list A) i j x d :
  nth j (upd l i x) d = if (Nat.eqb i j && Nat.ltb i (length l))%bool then x else nth j l d.
Proof.
  destruct (Nat.eqb_spec i j) as [->|Hne]; simpl.
  - destruct (Nat.ltb_spec j (length l)) as [Hl|Hl].
    + apply nth_upd_eq; auto.
    + rewrite !nth_overflow; auto; rewrite ?upd_length; lia.
  - apply nth_upd_neq; auto.
Qed.

Lemma upd_oob {A} (l : list A) i x : length l <= i -> upd l i x = l.
Proof. revert i; induction l as [|a l IH]; intros [|i] H; simpl in *; auto; try lia. f_equal; apply IH; lia. Qed.

Section Count.
  Context {A : Type} (dec : forall a b : A, {a = b} + {a <> b}).

  Lemma count_upd (l : list A) i x y : i < length l ->
    count_occ dec (upd l i x) y + (if dec (nth i l x) y then 1 else 0)
    = count_occ dec l y + (if dec x y then 1 else 0).
  Proof.
    revert i; induction l as [|a l IH]; intros [|i] H; simpl in *; try lia.
    - destruct (dec x y), (dec a y); lia.
    - specialize (IH i ltac:(lia)). destruct (dec a y); lia.
  Qed.

  Lemma perm_of_count (l l' : list A) :
    (forall y, count_occ dec l y = count_occ dec l' y) -> Permutation l l'.
  Proof. intros H. apply (Permutation_count_occ dec). exact H. Qed.

  Lemma count_of_perm (l l' : list A) y : Permutation l l' -> count_occ dec l y = count_occ dec l' y.
  Proof. intros H. apply (Permutation_count_occ dec); auto. Qed.
End Count.

Lemma nth_firstn {A} (l : list A) n i d : i < n -> nth i (firstn n l) d = nth i l d.
Proof. revert n i; induction l as [|a l IH]; intros [|n] [|i] H; simpl; auto; try lia. apply IH; lia. Qed.

Lemma nth_In_lt {A} (l : list A) x d : In x l -> exists i, i < length l /\ nth i l d = x.
Proof. intros H. apply In_nth; auto. Qed.

Lemma NoDup_firstn {A} (l : list A) n : NoDup l -> NoDup (firstn n l).
Proof.
  revert n; induction l as [|a l IH]; intros [|n] H; simpl; try constructor.
  - inversion H; subst. intros Hin. apply H2. clear -Hin. revert n Hin.
    induction l as [|b l IH]; intros [|n] Hin; simpl in *; try tauto. destruct Hin; eauto.
  - inversion H; auto.
Qed.

Lemma Forall_perm {A} (P : A -> Prop) (l l' : list A) : Permutation l l' -> Forall P l -> Forall P l'.
Proof. intros H F. apply Forall_forall. intros x Hx. eapply Forall_forall in F; eauto. eapply Permutation_in; [apply Permutation_sym|]; eauto. Qed.
