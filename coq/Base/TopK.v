(* Base/TopK.v — "append, sort by score, keep k" (sort.Sort on SearchResult followed by result[:min(k, len)]). *)
From Verif Require Import Base.Prelude.
Section TopK.
  Context {A : Type} (score : A -> Z).
  Fixpoint ins_by (x : A) (l : list A) : list A :=
    match l with [] => [x] | y :: t => if (score x <? score y)%Z then x :: l else y :: ins_by x t end.
  Definition sort_by_score (l : list A) : list A := fold_right ins_by [] l.
  Definition topk (k : nat) (lists : list (list A)) : list A := firstn k (sort_by_score (concat lists)).
End TopK.
