(* Base/TopKProofs.v — the merged answer is exactly the k best of everything that was returned. *)
From Verif Require Import Base.Prelude Base.TopK.
From Coq Require Import Sorted.

Section TopK.
  Context {A : Type} (score : A -> Z).
  Definition sle (a b : A) : Prop := (score a <= score b)%Z.

  Lemma ins_by_perm x l : Permutation (ins_by score x l) (x :: l).
  Proof. induction l as [|y t IH]; simpl; auto. destruct (score x <? score y)%Z; auto. rewrite IH. apply perm_swap. Qed.
  Lemma sort_perm l : Permutation (sort_by_score score l) l.
  Proof. induction l as [|x l IH]; simpl; auto. rewrite ins_by_perm. constructor; auto. Qed.
  Lemma ins_by_sorted x l : StronglySorted sle l -> StronglySorted sle (ins_by score x l).
  Proof.
    induction l as [|y t IH]; intros S; simpl; [repeat constructor|]. inversion S; subst.
    destruct (Z.ltb_spec (score x) (score y)).
    - constructor; auto. constructor; [unfold sle; lia|]. eapply Forall_impl; [|exact H2]. unfold sle; intros; lia.
    - constructor; [apply IH; auto|]. apply (Forall_perm _ (x :: t)); [apply Permutation_sym; apply ins_by_perm|].
      constructor; auto; unfold sle; lia.
  Qed.
  Lemma sort_sorted l : StronglySorted sle (sort_by_score score l).
  Proof. induction l; simpl; [constructor|apply ins_by_sorted; auto]. Qed.

  Lemma in_firstn_ {B} (l : list B) k x : In x (firstn k l) -> In x l.
  Proof. revert k; induction l as [|a l IH]; intros [|k] H; simpl in *; try tauto. destruct H; eauto. Qed.
  Lemma firstn_ssorted {B} (R : B -> B -> Prop) (l : list B) : forall k, StronglySorted R l -> StronglySorted R (firstn k l).
  Proof.
    induction l as [|y r IH]; intros [|k] S; simpl; try constructor.
    - apply IH. inversion S; auto.
    - inversion S; subst. apply Forall_forall. intros x Hx. apply in_firstn_ in Hx. eapply Forall_forall in H2; eauto.
  Qed.

  Theorem topk_spec {K} (key : A -> K) k (rs : list (list A)) :
    (forall x, In x (topk score k rs) -> exists r, In r rs /\ In x r) /\
    StronglySorted sle (topk score k rs) /\
    (length (topk score k rs) <= k)%nat /\
    (NoDup (map key (concat rs)) -> NoDup (map key (topk score k rs))) /\
    ((exists r, In r rs /\ r <> []) -> (0 < k)%nat -> topk score k rs <> []) /\
    (forall x y, In x (topk score k rs) -> In y (skipn k (sort_by_score score (concat rs))) -> sle x y) /\
    Permutation (topk score k rs ++ skipn k (sort_by_score score (concat rs))) (concat rs).
  Proof.
    unfold topk. pose proof (sort_perm (concat rs)) as P. pose proof (sort_sorted (concat rs)) as S.
    split; [|split; [|split; [|split; [|split; [|split]]]]].
    - intros x Hx. apply in_firstn_ in Hx. eapply Permutation_in in Hx; [|exact P]. apply in_concat in Hx.
      destruct Hx as (r & Hr & Hx). exists r. auto.
    - apply firstn_ssorted; auto.
    - rewrite firstn_length. lia.
    - intros ND. apply (Permutation_map key) in P.
      eapply Permutation_NoDup in ND; [|apply Permutation_sym; exact P]. rewrite <- firstn_map. apply NoDup_firstn; auto.
    - intros (r & Hr & NE) K0. destruct r as [|x r]; [congruence|].
      assert (Hx : In x (sort_by_score score (concat rs))).
      { eapply Permutation_in; [apply Permutation_sym; exact P|]. apply in_concat. exists (x :: r). split; auto. left; auto. }
      destruct (sort_by_score score (concat rs)); [destruct Hx|]. destruct k; [lia|]. simpl. discriminate.
    - intros x y Hx Hy. rewrite <- (firstn_skipn k (sort_by_score score (concat rs))) in S.
      revert S Hx Hy. generalize (firstn k (sort_by_score score (concat rs))) (skipn k (sort_by_score score (concat rs))).
      induction l as [|a l IH]; intros l2 S Hx Hy; [destruct Hx|]. simpl in S. inversion S; subst. destruct Hx as [->|Hx].
      + eapply Forall_forall in H2; [exact H2|]. apply in_or_app. right; auto.
      + apply (IH l2); auto.
    - rewrite firstn_skipn. exact P.
  Qed.
End TopK.
