(* Cluster/Catalogue.v — the dataset catalogue state machine of storage/dataset_manager.go (create / delete /
   update-partition-nodes, snapshot, restore) and the start-up wiring of server.setup (C14).  Executable; no proofs. *)
From Verif Require Import Base.Prelude.
Open Scope N_scope.

Record dsmeta := { ds_dim : N; ds_space : N; ds_parts : list (N * list N) }.     (* partition id, replica node ids *)
Definition catalogue := list (N * dsmeta).                                        (* unique dataset ids *)

Inductive cchange :=
| CCreate (id : N) (m : dsmeta)
| CDelete (id : N)
| CAddNode (id pid node : N)
| CRemoveNode (id pid node : N).
Inductive cerr := KNone | KExists | KNotFound | KPartNotFound.

Fixpoint cget (id : N) (c : catalogue) : option dsmeta :=
  match c with [] => None | (k, m) :: t => if k =? id then Some m else cget id t end.
Fixpoint cdel (id : N) (c : catalogue) : catalogue :=
  match c with [] => [] | (k, m) :: t => if k =? id then t else (k, m) :: cdel id t end.
Fixpoint cset (id : N) (m : dsmeta) (c : catalogue) : catalogue :=
  match c with [] => [(id, m)] | (k, x) :: t => if k =? id then (k, m) :: t else (k, x) :: cset id m t end.

(* the catalogue is kept sorted by dataset id and replica sets sorted without repetition: the state of the Go maps and
   slices is read through this canonical form (map iteration order and repeated node ids are not observable) *)
Fixpoint cins (id : N) (m : dsmeta) (c : catalogue) : catalogue :=
  match c with [] => [(id, m)] | (k, x) :: t => if id <? k then (id, m) :: c else (k, x) :: cins id m t end.
Fixpoint nins (n : N) (l : list N) : list N :=
  match l with [] => [n] | x :: t => if n <? x then n :: l else if n =? x then l else x :: nins n t end.

Definition has_part (pid : N) (m : dsmeta) : bool := existsb (fun p => fst p =? pid) (ds_parts m).
Definition map_part (pid : N) (f : list N -> list N) (m : dsmeta) : dsmeta :=
  {| ds_dim := ds_dim m; ds_space := ds_space m;
     ds_parts := map (fun p => if fst p =? pid then (fst p, f (snd p)) else p) (ds_parts m) |}.

Definition capply (c : catalogue) (ch : cchange) : catalogue * cerr :=
  match ch with
  | CCreate id m => match cget id c with Some _ => (c, KExists) | None => (cins id m c, KNone) end
  | CDelete id => match cget id c with Some _ => (cdel id c, KNone) | None => (c, KNotFound) end
  | CAddNode id pid node =>
      match cget id c with
      | None => (c, KNotFound)
      | Some m => if has_part pid m then (cset id (map_part pid (nins node) m) c, KNone) else (c, KPartNotFound)
      end
  | CRemoveNode id pid node =>
      match cget id c with
      | None => (c, KNotFound)
      | Some m => if has_part pid m then (cset id (map_part pid (filter (fun n => negb (n =? node))) m) c, KNone) else (c, KPartNotFound)
      end
  end.
Fixpoint crun (c : catalogue) (log : list cchange) : catalogue * list cerr :=
  match log with
  | [] => (c, [])
  | ch :: r => let '(c', e) := capply c ch in let '(cf, es) := crun c' r in (cf, e :: es)
  end.

(* snapshot: the metadata of every dataset (any order); restore either replaces the catalogue (after the fix) or only
   adds unknown datasets (before) *)
Definition csnapshot (c : catalogue) : list (N * dsmeta) := c.
Definition restore (replaces : bool) (snap : list (N * dsmeta)) (prior : catalogue) : catalogue :=
  if replaces then snap
  else fold_right (fun p acc => match cget (fst p) acc with Some _ => acc | None => cins (fst p) (snd p) acc end) prior snap.

(* ---- start-up wiring ---- *)
Inductive setup_step := ZeroStart | RegisterConsumer.
(* entries replayed (and a stored snapshot loaded) by the zero group reach the catalogue only if its functions are
   registered when the group starts; otherwise a snapshot load dereferences a nil proxy and replayed entries are dropped *)
Inductive wiring_result := WOk (delivered : nat) | WCrashNilProxy | WDropped (delivered dropped : nat).
Definition wiring (order : list setup_step) (has_snapshot : bool) (replayed : nat) (before_register : nat) : wiring_result :=
  (* before_register: how many of the replayed entries the replay goroutine delivers before the consumer registers
     (meaningful only when the group is started first) *)
  match order with
  | RegisterConsumer :: ZeroStart :: _ => WOk replayed
  | ZeroStart :: RegisterConsumer :: _ =>
      if has_snapshot then WCrashNilProxy
      else if Nat.eqb (Nat.min before_register replayed) 0 then WOk replayed
      else WDropped (replayed - Nat.min before_register replayed) (Nat.min before_register replayed)
  | _ => WCrashNilProxy
  end.

(* ---- checkers ---- *)
Definition cerr_eqb (a b : cerr) : bool :=
  match a, b with KNone, KNone | KExists, KExists | KNotFound, KNotFound | KPartNotFound, KPartNotFound => true | _, _ => false end.
Fixpoint list_eqb {A} (e : A -> A -> bool) (l l' : list A) : bool :=
  match l, l' with [], [] => true | a :: t, b :: t' => e a b && list_eqb e t t' | _, _ => false end.
Definition canon_meta (m : dsmeta) : dsmeta :=
  {| ds_dim := ds_dim m; ds_space := ds_space m; ds_parts := map (fun p => (fst p, fold_right nins [] (snd p))) (ds_parts m) |}.
Definition canon_cat (c : catalogue) : catalogue := fold_right (fun p acc => cins (fst p) (canon_meta (snd p)) acc) [] c.
Definition meta_eqb (a b : dsmeta) : bool :=
  (ds_dim a =? ds_dim b) && (ds_space a =? ds_space b) &&
  list_eqb (fun p q => (fst p =? fst q) && list_eqb N.eqb (snd p) (snd q)) (ds_parts a) (ds_parts b).
Definition cat_eqb (a b : catalogue) : bool :=
  list_eqb (fun p q => (fst p =? fst q) && meta_eqb (snd p) (snd q)) a b.

Record cat_case := {
  cc_prior : catalogue;                (* what the restoring node held before the snapshot arrived *)
  cc_log : list cchange; cc_cut : nat;
  cc_errs : list cerr;                 (* observed outcome of every entry on the node applying everything *)
  cc_full : catalogue;                 (* observed catalogue of the node that applied everything *)
  cc_restored : catalogue              (* observed catalogue of the node that restored the snapshot at the cut and applied the rest *)
}.
Definition cat_case_model_ok (replaces : bool) (c : cat_case) : bool :=
  let '(full, errs) := crun [] (cc_log c) in
  let '(atcut, _) := crun [] (firstn (cc_cut c) (cc_log c)) in
  let '(rest, _) := crun (restore replaces (csnapshot atcut) (canon_cat (cc_prior c))) (skipn (cc_cut c) (cc_log c)) in
  list_eqb cerr_eqb errs (cc_errs c) && cat_eqb full (canon_cat (cc_full c)) && cat_eqb rest (canon_cat (cc_restored c)).
(* the property on the observations: snapshot + rest = replay *)
Definition cat_case_oracle_ok (c : cat_case) : bool := cat_eqb (canon_cat (cc_full c)) (canon_cat (cc_restored c)).
Fixpoint bad_idx {A} (f : A -> bool) (l : list A) (i : nat) : list nat :=
  match l with [] => [] | a :: t => if f a then bad_idx f t (S i) else i :: bad_idx f t (S i) end.
