(* Cluster/CatalogueProofs.v — C14: the catalogue is a deterministic function of the log; restoring a snapshot taken at
   any cut (into ANY prior state) and applying the rest equals applying the whole log; deletion is final; wiring. *)
From Verif Require Import Base.Prelude Cluster.Catalogue.
Open Scope N_scope.

Lemma crun_app c l1 l2 : crun c (l1 ++ l2) = let '(c1, e1) := crun c l1 in let '(c2, e2) := crun c1 l2 in (c2, e1 ++ e2).
Proof.
  revert c. induction l1 as [|ch l1 IH]; intros c; simpl.
  - destruct (crun c l2); auto.
  - destruct (capply c ch) as [c' e]. rewrite IH. destruct (crun c' l1) as [c1 e1]. destruct (crun c1 l2); auto.
Qed.

(* replay = snapshot + rest, for every log, every cut and every state the restoring node held before *)
Theorem replay_eq_snapshot log cut prior :
  fst (crun (restore true (csnapshot (fst (crun [] (firstn cut log)))) prior) (skipn cut log)) = fst (crun [] log) /\
  snd (crun [] log) = snd (crun [] (firstn cut log)) ++ snd (crun (restore true (csnapshot (fst (crun [] (firstn cut log)))) prior) (skipn cut log)).
Proof.
  unfold restore, csnapshot. pose proof (crun_app [] (firstn cut log) (skipn cut log)) as A. rewrite firstn_skipn in A.
  rewrite A. destruct (crun [] (firstn cut log)) as [c1 e1]. simpl. destruct (crun c1 (skipn cut log)) as [c2 e2]. auto.
Qed.

(* the add-only restore (before the fix): a node that still holds dataset 7 restores a snapshot taken after 7 was
   deleted — and keeps it *)
Definition m0 : dsmeta := {| ds_dim := 3; ds_space := 1; ds_parts := [(100, [1; 2])] |}.
Theorem restore_keeps_deleted_refuted :
  let log := [CCreate 7 m0; CDelete 7] in
  fst (crun (restore false (csnapshot (fst (crun [] log))) [(7, m0)]) []) = [(7, m0)] /\ fst (crun [] log) = [] /\
  fst (crun (restore true (csnapshot (fst (crun [] log))) [(7, m0)]) []) = [].
Proof. repeat split. Qed.

(* an acknowledged deletion is final: the id is absent after the deletion and stays absent under any further entries that
   do not create it again *)
Lemma cget_cdel id c : NoDup (map fst c) -> cget id (cdel id c) = None.
Proof.
  induction c as [|[k m] t IH]; intros ND; simpl; auto. inversion ND; subst. destruct (N.eqb_spec k id) as [->|Hn].
  - clear -H1. induction t as [|[k m] t IH]; simpl in *; auto. destruct (N.eqb_spec k id); [subst; tauto|]. apply IH. tauto.
  - simpl. destruct (N.eqb_spec k id); [congruence|]. auto.
Qed.
Lemma cget_cdel_other id id' c : id <> id' -> cget id' (cdel id c) = cget id' c.
Proof.
  intros H. induction c as [|[k m] t IH]; simpl; auto. destruct (N.eqb_spec k id) as [->|Hn].
  - destruct (N.eqb_spec id id'); [congruence|auto].
  - simpl. destruct (N.eqb_spec k id'); auto.
Qed.
Lemma cget_cset id m c : cget id (cset id m c) = Some m.
Proof. induction c as [|[k x] t IH]; simpl; [rewrite N.eqb_refl; auto|]. destruct (N.eqb_spec k id) as [->|Hn]; simpl; [rewrite N.eqb_refl; auto|]. destruct (N.eqb_spec k id); [congruence|auto]. Qed.
Lemma cget_cset_other id id' m c : id <> id' -> cget id' (cset id m c) = cget id' c.
Proof.
  intros H. induction c as [|[k x] t IH]; simpl; [destruct (N.eqb_spec id id'); [congruence|auto]|].
  destruct (N.eqb_spec k id) as [->|Hn]; simpl; [destruct (N.eqb_spec id id'); [congruence|auto]|]. destruct (N.eqb_spec k id'); auto.
Qed.
Lemma cset_keys id m c : cget id c <> None -> map fst (cset id m c) = map fst c.
Proof.
  induction c as [|[k x] t IH]; simpl; [congruence|]. destruct (N.eqb_spec k id) as [->|Hn]; simpl; auto. intros H. f_equal. auto.
Qed.
Lemma cget_in id c : cget id c = None -> ~ In id (map fst c).
Proof. induction c as [|[k m] t IH]; simpl; [tauto|]. destruct (N.eqb_spec k id); [discriminate|]. intros H [E|E]; [congruence|]. apply IH; auto. Qed.
Lemma cget_cins id i m c : cget i c = None -> cget id (cins i m c) = if i =? id then Some m else cget id c.
Proof.
  induction c as [|[k x] t IH]; simpl; auto. destruct (N.eqb_spec k i) as [->|Hki]; [discriminate|]. intros Hn.
  destruct (N.ltb_spec i k); simpl; auto. rewrite IH by auto.
  destruct (N.eqb_spec i id) as [<-|?]; auto. destruct (N.eqb_spec k i); [congruence|auto].
Qed.
Lemma cins_keys_in i m c x : In x (map fst (cins i m c)) <-> x = i \/ In x (map fst c).
Proof.
  induction c as [|[k y] t IH]; simpl; [intuition|]. destruct (i <? k); simpl; [intuition|]. rewrite IH. intuition.
Qed.
Lemma cins_nodup i m c : NoDup (map fst c) -> cget i c = None -> NoDup (map fst (cins i m c)).
Proof.
  induction c as [|[k y] t IH]; simpl; intros ND Hn; [constructor; auto; constructor|].
  destruct (N.eqb_spec k i) as [->|Hki]; [discriminate|]. destruct (i <? k); simpl.
  - constructor; auto. simpl. intros [E|E]; [congruence|]. apply (cget_in i t); auto.
  - inversion ND; subst. constructor; auto. rewrite cins_keys_in. intros [E|E]; [congruence|tauto].
Qed.


Lemma capply_nodup c ch : NoDup (map fst c) -> NoDup (map fst (fst (capply c ch))).
Proof.
  intros ND. destruct ch as [id m|id|id pid node|id pid node]; simpl.
  - destruct (cget id c) eqn:E; simpl; auto. apply cins_nodup; auto.
  - destruct (cget id c) eqn:E; simpl; auto.
    clear E. induction c as [|[k x] t IH]; simpl; auto. inversion ND; subst. destruct (k =? id); auto. simpl. constructor; auto.
    intros Hin. apply H1. clear -Hin. induction t as [|[k' x'] t IH]; simpl in *; auto. destruct (k' =? id); simpl in *; tauto.
  - destruct (cget id c) eqn:E; simpl; auto. destruct (has_part pid d); simpl; auto. rewrite cset_keys; auto. congruence.
  - destruct (cget id c) eqn:E; simpl; auto. destruct (has_part pid d); simpl; auto. rewrite cset_keys; auto. congruence.
Qed.

Definition creates (id : N) (ch : cchange) : bool := match ch with CCreate i _ => i =? id | _ => false end.
Theorem delete_final id : forall log c, NoDup (map fst c) -> cget id c = None -> forallb (fun ch => negb (creates id ch)) log = true ->
  cget id (fst (crun c log)) = None.
Proof.
  induction log as [|ch r IH]; intros c ND H F; simpl; auto. simpl in F. apply Bool.andb_true_iff in F. destruct F as (F1 & F2).
  pose proof (capply_nodup c ch ND) as ND'.
  assert (H' : cget id (fst (capply c ch)) = None).
  { destruct ch as [i m|i|i pid node|i pid node]; simpl in *.
    - destruct (cget i c) eqn:E; simpl; auto. rewrite cget_cins by auto. destruct (N.eqb_spec i id); [discriminate|auto].
    - destruct (cget i c) eqn:E; simpl; auto. destruct (N.eq_dec i id) as [->|Hn]; [congruence|]. rewrite cget_cdel_other; auto.
    - destruct (cget i c) eqn:E; simpl; auto. destruct (has_part pid d); simpl; auto.
      destruct (N.eq_dec i id) as [->|Hn]; [congruence|]. rewrite cget_cset_other; auto.
    - destruct (cget i c) eqn:E; simpl; auto. destruct (has_part pid d); simpl; auto.
      destruct (N.eq_dec i id) as [->|Hn]; [congruence|]. rewrite cget_cset_other; auto. }
  destruct (capply c ch) as [c' e]. simpl in *. specialize (IH c' ND' H' F2). destruct (crun c' r). auto.
Qed.
Theorem delete_removes id c : NoDup (map fst c) -> cget id c <> None ->
  snd (capply c (CDelete id)) = KNone /\ cget id (fst (capply c (CDelete id))) = None.
Proof. intros ND H. simpl. destruct (cget id c) eqn:E; [|congruence]. simpl. split; auto. apply cget_cdel; auto. Qed.

(* wiring: with the consumer registered before the zero group starts, everything the group replays — and a stored
   snapshot — reaches the catalogue, whatever the timing of the replay goroutine *)
Theorem wiring_ok has_snapshot replayed before : wiring [RegisterConsumer; ZeroStart] has_snapshot replayed before = WOk replayed.
Proof. reflexivity. Qed.
Theorem wiring_refuted :
  wiring [ZeroStart; RegisterConsumer] true 3 0 = WCrashNilProxy /\ wiring [ZeroStart; RegisterConsumer] false 3 2 = WDropped 1 2.
Proof. split; reflexivity. Qed.
