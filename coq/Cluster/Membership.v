(* Cluster/Membership.v — the address book of cluster/conn.go as fed by the zero group's membership changes
   (storage/raft/group.go processConfChange), the join handshake (nodes_manager.go tryJoin / AddNode) and the
   zero-group snapshot (C20).  Executable; no proofs. *)
From Verif Require Import Base.Prelude.
Open Scope N_scope.

Definition addr := N.                       (* the announced address, read as a number (the port); 0 = empty address *)
Definition book := list (N * addr).
Inductive mentry := MAdd (id : N) (a : addr) | MRemove (id : N).

Fixpoint blookup (id : N) (b : book) : option addr :=
  match b with [] => None | (k, a) :: t => if k =? id then Some a else blookup id t end.
Fixpoint bins (id : N) (a : addr) (b : book) : book :=
  match b with [] => [(id, a)] | (k, x) :: t => if id <? k then (id, a) :: b else (k, x) :: bins id a t end.
(* Conn.AddNode: only when absent *)
Definition badd (id : N) (a : addr) (b : book) : book := match blookup id b with Some _ => b | None => bins id a b end.
Definition bdel (id : N) (b : book) : book := filter (fun p => negb (fst p =? id)) b.
Definition bapply (b : book) (e : mentry) : book := match e with MAdd id a => badd id a b | MRemove id => bdel id b end.
Definition brun (b : book) (log : list mentry) : book := fold_left bapply log b.

(* a member starts with its own entry (NewTransport) and applies the log *)
Definition member_book (self : N) (a : addr) (log : list mentry) : book := brun [(self, a)] log.
(* the listing every member should end with *)
Definition spec_book (log : list mentry) : book := brun [] log.

(* NodesManager.processSnapshot: drop what the snapshot does not list (never oneself), add what it lists *)
Definition brestore (has : bool) (self : N) (snap : book) (b : book) : book :=
  if has then
    fold_left (fun acc p => badd (fst p) (snd p) acc) snap
              (filter (fun p => (fst p =? self) || match blookup (fst p) snap with Some _ => true | None => false end) b)
  else b.

(* a member's events: applying an entry of the log, or learning an address from the join handshake's stream *)
Inductive mev := EApply (e : mentry) | EStream (id : N) (a : addr).
Definition estep (b : book) (e : mev) : book := match e with EApply x => bapply b x | EStream id a => badd id a b end.
Definition erun (b : book) (evs : list mev) : book := fold_left estep evs b.
Definition applies (evs : list mev) : list mentry := flat_map (fun e => match e with EApply x => [x] | EStream _ _ => [] end) evs.
Definition touches (id : N) (e : mev) : bool :=
  match e with EApply (MAdd k _) => k =? id | EApply (MRemove k) => k =? id | EStream _ _ => false end.

(* the bootstrap entry: before the fix it carried no address *)
Definition boot_log (carries : bool) (log : list mentry) : list mentry :=
  match log with MAdd id a :: r => MAdd id (if carries then a else 0) :: r | _ => log end.

(* ---- checkers ---- *)
Fixpoint first_addr (id : N) (log : list mentry) : addr :=
  match log with [] => 0 | MAdd k a :: r => if k =? id then a else first_addr id r | _ :: r => first_addr id r end.
Fixpoint last_restart (m : N) (rs : list (N * nat * bool)) (acc : option (nat * bool)) : option (nat * bool) :=
  match rs with [] => acc | (k, cut, rj) :: t => last_restart m t (if k =? m then Some (cut, rj) else acc) end.
Definition canon_book (b : book) : book := fold_left (fun acc p => badd (fst p) (snd p) acc) b [].
Fixpoint book_eqb (a b : book) : bool :=
  match a, b with [] , [] => true | (k, x) :: a', (k', x') :: b' => (k =? k') && (x =? x') && book_eqb a' b' | _, _ => false end.

Record mem_case := { mc_log : list mentry; mc_restarts : list (N * nat * bool); mc_books : list (N * book) }.
Definition predicted (has carries : bool) (c : mem_case) (m : N) : book :=
  let a := first_addr m (mc_log c) in
  let log := boot_log carries (mc_log c) in
  match last_restart m (mc_restarts c) None with
  | None => member_book m a log
  | Some (cut, rejoined) =>
      let snap := member_book m a (firstn cut log) in
      let b := brun (brestore has m snap [(m, a)]) (skipn cut log) in
      (* repeating the handshake on restart streams a settled member's book *)
      if rejoined then fold_left (fun acc p => badd (fst p) (snd p) acc) (spec_book (mc_log c)) b else b
  end.
Definition mem_case_model_ok (has carries : bool) (c : mem_case) : bool :=
  forallb (fun mb => book_eqb (canon_book (snd mb)) (predicted has carries c (fst mb))) (mc_books c).
Definition mem_case_oracle_ok (c : mem_case) : bool :=
  forallb (fun mb => book_eqb (canon_book (snd mb)) (spec_book (mc_log c))) (mc_books c).
Fixpoint bad_idx {A} (f : A -> bool) (l : list A) (i : nat) : list nat :=
  match l with [] => [] | a :: t => if f a then bad_idx f t (S i) else i :: bad_idx f t (S i) end.
