(* Cluster/MembershipProofs.v — C20: every member's listing is a function of the membership log (whatever the
   handshake streamed and in whatever interleaving), and survives a restart from a snapshot taken at any point. *)
From Verif Require Import Base.Prelude Cluster.Membership.
Open Scope N_scope.

Lemma blookup_bins id k a b : blookup k b = None -> blookup id (bins k a b) = if k =? id then Some a else blookup id b.
Proof.
  induction b as [|[x y] t IH]; simpl; auto. destruct (N.eqb_spec x k) as [->|Hx]; [discriminate|]. intros Hn.
  destruct (N.ltb_spec k x); simpl; auto. rewrite IH by auto.
  destruct (N.eqb_spec k id) as [<-|?]; auto. destruct (N.eqb_spec x k); [congruence|auto].
Qed.
Lemma blookup_badd id k a b :
  blookup id (badd k a b) = if k =? id then (match blookup k b with Some x => Some x | None => Some a end) else blookup id b.
Proof.
  unfold badd. destruct (blookup k b) as [x|] eqn:E.
  - destruct (N.eqb_spec k id) as [<-|?]; auto.
  - rewrite blookup_bins by auto. auto.
Qed.
Lemma blookup_bdel id k b : blookup id (bdel k b) = if k =? id then None else blookup id b.
Proof.
  induction b as [|[x y] t IH]; simpl; [destruct (k =? id); auto|].
  destruct (N.eqb_spec x k) as [->|Hx]; simpl.
  - rewrite IH. destruct (N.eqb_spec k id); auto.
  - rewrite IH. destruct (N.eqb_spec x id) as [->|?]; auto. destruct (N.eqb_spec k id); [congruence|auto].
Qed.
Lemma blookup_bapply id b e :
  blookup id (bapply b e) =
  match e with
  | MAdd k a => if k =? id then (match blookup k b with Some x => Some x | None => Some a end) else blookup id b
  | MRemove k => if k =? id then None else blookup id b
  end.
Proof. destruct e; simpl; [apply blookup_badd|apply blookup_bdel]. Qed.

Definition same (b b' : book) : Prop := forall id, blookup id b = blookup id b'.
Lemma bapply_same b b' e : same b b' -> same (bapply b e) (bapply b' e).
Proof. intros H id. rewrite !blookup_bapply. destruct e as [k a|k]; rewrite ?H; auto. Qed.
Lemma brun_same log : forall b b', same b b' -> same (brun b log) (brun b' log).
Proof. induction log as [|e r IH]; intros b b' H; simpl; auto. apply IH. apply bapply_same; auto. Qed.
Lemma brun_app b l1 l2 : brun b (l1 ++ l2) = brun (brun b l1) l2.
Proof. apply fold_left_app. Qed.

(* ---- restart ---- *)
Lemma blookup_fold_badd id (snap : book) : forall b,
  blookup id (fold_left (fun acc p => badd (fst p) (snd p) acc) snap b) =
  match blookup id b with Some x => Some x | None => blookup id snap end.
Proof.
  induction snap as [|[k a] t IH]; intros b; simpl; [destruct (blookup id b); auto|].
  rewrite IH, blookup_badd. destruct (N.eqb_spec k id) as [->|Hk]; auto.
  destruct (blookup id b); auto.
Qed.
Lemma blookup_filter id (f : N -> bool) b : blookup id (filter (fun p => f (fst p)) b) = if f id then blookup id b else
   blookup id (filter (fun p => f (fst p)) b).
Proof. destruct (f id) eqn:E; auto. induction b as [|[k a] t IH]; simpl; auto. destruct (f k) eqn:Ek; simpl; auto.
  - destruct (N.eqb_spec k id) as [->|?]; auto.
  - destruct (N.eqb_spec k id) as [->|?]; [congruence|auto].
Qed.
Lemma blookup_filter_none id (f : N -> bool) b : f id = false -> blookup id (filter (fun p => f (fst p)) b) = None.
Proof.
  intros E. induction b as [|[k a] t IH]; simpl; auto. destruct (f k) eqn:Ek; simpl; auto.
  destruct (N.eqb_spec k id) as [->|?]; [congruence|auto].
Qed.

(* restoring the snapshot into a book that has the node's own entry and nowhere contradicts the snapshot (a fresh
   restart: only the own entry; a lagging follower: addresses it learnt earlier) gives the snapshot's listing *)
Lemma brestore_same self a snap b : blookup self snap = Some a -> blookup self b = Some a ->
  (forall id x y, blookup id b = Some y -> blookup id snap = Some x -> x = y) ->
  same (brestore true self snap b) snap.
Proof.
  intros Hs Hb Agree id. unfold brestore. rewrite blookup_fold_badd.
  set (f := fun k => (k =? self) || match blookup k snap with Some _ => true | None => false end).
  change (filter _ b) with (filter (fun p => f (fst p)) b).
  destruct (f id) eqn:Ef.
  - rewrite blookup_filter, Ef. unfold f in Ef. destruct (N.eqb_spec id self) as [->|Hne].
    + rewrite Hb, Hs. auto.
    + simpl in Ef. destruct (blookup id snap) as [x|] eqn:E; [|discriminate].
      destruct (blookup id b) as [y|] eqn:Eb; auto. f_equal. symmetry. eapply Agree; eauto.
  - rewrite blookup_filter_none by auto. auto.
Qed.

Theorem restart_same self a pre rest :
  blookup self (member_book self a pre) = Some a ->
  same (brun (brestore true self (member_book self a pre) [(self, a)]) rest) (member_book self a (pre ++ rest)).
Proof.
  intros Hs. unfold member_book at 2. rewrite brun_app. apply brun_same. apply (brestore_same self a); auto.
  - simpl. rewrite N.eqb_refl. auto.
  - intros id x y Hb Hx. simpl in Hb. destruct (N.eqb_spec self id) as [<-|?]; [|discriminate]. unfold member_book in Hs. congruence.
Qed.
(* without addresses in the snapshot: the bootstrap node restarting after compaction lists only itself *)
Theorem restart_loses_refuted :
  let log := [MAdd 1 6001; MAdd 2 6002; MAdd 3 6003] in
  brun (brestore false 1 (member_book 1 6001 log) [(1, 6001)]) [] = [(1, 6001)] /\
  brun (brestore true 1 (member_book 1 6001 log) [(1, 6001)]) [] = [(1, 6001); (2, 6002); (3, 6003)].
Proof. split; reflexivity. Qed.

(* ---- convergence: a member's listing is the log's listing ---- *)
Fixpoint first_touch (x : N) (log : list mentry) : option mentry :=
  match log with
  | [] => None
  | MAdd k a :: r => if k =? x then Some (MAdd k a) else first_touch x r
  | MRemove k :: r => if k =? x then Some (MRemove k) else first_touch x r
  end.
Theorem member_is_spec x ax log : first_touch x log = Some (MAdd x ax) -> same (member_book x ax log) (spec_book log).
Proof.
  unfold member_book, spec_book.
  assert (G : forall log b b', first_touch x log = Some (MAdd x ax) ->
            (forall id, id <> x -> blookup id b = blookup id b') -> blookup x b = Some ax -> blookup x b' = None ->
            same (brun b log) (brun b' log)).
  { clear log. induction log as [|e r IH]; intros b b' F O Hb Hb'; [discriminate|]. simpl in *.
    destruct e as [k a|k].
    - destruct (N.eqb_spec k x) as [->|Hk].
      + inversion F; subst. apply brun_same. intros id. simpl. rewrite !blookup_badd.
        destruct (N.eqb_spec x id) as [<-|Hne]; [rewrite Hb, Hb'; auto|apply O; auto].
      + apply IH; auto; simpl.
        * intros id Hid. rewrite !blookup_badd. destruct (N.eqb_spec k id) as [<-|?]; [rewrite (O k Hk); auto|auto].
        * rewrite blookup_badd. destruct (N.eqb_spec k x); [congruence|auto].
        * rewrite blookup_badd. destruct (N.eqb_spec k x); [congruence|auto].
    - destruct (N.eqb_spec k x) as [->|Hk]; [discriminate|].
      apply IH; auto; simpl.
      * intros id Hid. rewrite !blookup_bdel. destruct (k =? id); auto.
      * rewrite blookup_bdel. destruct (N.eqb_spec k x); [congruence|auto].
      * rewrite blookup_bdel. destruct (N.eqb_spec k x); [congruence|auto]. }
  intros F. apply G; auto.
  - intros id Hid. simpl. destruct (N.eqb_spec x id); [congruence|auto].
  - simpl. rewrite N.eqb_refl. auto.
Qed.
Corollary members_agree x ax y ay log : first_touch x log = Some (MAdd x ax) -> first_touch y log = Some (MAdd y ay) ->
  same (member_book x ax log) (member_book y ay log).
Proof. intros Hx Hy id. rewrite (member_is_spec x ax log Hx id), (member_is_spec y ay log Hy id). auto. Qed.

(* ---- the handshake's stream does not matter, in any interleaving with the replay of the log ---- *)
Section Stream.
  Variable ann : N -> addr.                       (* the address each node announced *)
  Definition touched (id : N) (evs : list mev) : Prop := existsb (touches id) evs = true.
  (* every streamed address is the announced one, and every streamed id is either already listed by the log applied
     so far or touched by a later entry (the stream is not staler than the replay) *)
  Fixpoint stream_ok (b' : book) (evs : list mev) : Prop :=
    match evs with
    | [] => True
    | EApply e :: r => (match e with MAdd k a => a = ann k | MRemove _ => True end) /\ stream_ok (bapply b' e) r
    | EStream id a :: r => a = ann id /\ (blookup id b' <> None \/ touched id r) /\ stream_ok b' r
    end.
  Theorem stream_irrelevant : forall evs b0, (forall id a, blookup id b0 = Some a -> a = ann id) -> stream_ok b0 evs ->
    same (erun b0 evs) (brun b0 (applies evs)).
  Proof.
    assert (G : forall evs b b',
      (forall id a, blookup id b' = Some a -> blookup id b = Some a) ->
      (forall id a, blookup id b = Some a -> a = ann id) ->
      (forall id, blookup id b <> None -> blookup id b' = None -> touched id evs) ->
      stream_ok b' evs -> same (erun b evs) (brun b' (applies evs))).
    { induction evs as [|e r IH]; intros b b' Sub Ann Pend OK.
      - simpl. intros id. destruct (blookup id b') as [a|] eqn:E; [apply Sub; auto|].
        destruct (blookup id b) as [a|] eqn:Eb; auto. exfalso.
        assert (T : touched id []) by (apply Pend; congruence). discriminate T.
      - destruct e as [e|k a]; simpl in OK |- *.
        + destruct OK as (Ha & OK). apply IH; auto.
          * intros id a. rewrite !blookup_bapply. destruct e as [k x|k].
            -- destruct (N.eqb_spec k id) as [->|?]; [|apply Sub].
               destruct (blookup id b') as [y|] eqn:E'; [rewrite (Sub _ _ E'); auto|].
               destruct (blookup id b) as [y|] eqn:Eb; auto. intros Hx. inversion Hx; subst. f_equal. apply Ann. auto.
            -- destruct (k =? id); [discriminate|apply Sub].
          * intros id a. rewrite blookup_bapply. destruct e as [k x|k].
            -- destruct (N.eqb_spec k id) as [->|?]; [|apply Ann].
               destruct (blookup id b) as [y|] eqn:Eb; [intros Hx; inversion Hx; subst; apply Ann; auto|intros Hx; inversion Hx; subst; auto].
            -- destruct (k =? id); [discriminate|apply Ann].
          * intros id. rewrite !blookup_bapply. destruct e as [k x|k].
            -- destruct (N.eqb_spec k id) as [->|Hk].
               ++ destruct (blookup id b'); intros _ H; discriminate H.
               ++ intros H1 H2. pose proof (Pend id H1 H2) as T. unfold touched in *. simpl in T.
                  destruct (N.eqb_spec k id); [congruence|auto].
            -- destruct (N.eqb_spec k id) as [->|Hk]; [intros H; congruence|].
               intros H1 H2. pose proof (Pend id H1 H2) as T. unfold touched in *. simpl in T.
               destruct (N.eqb_spec k id); [congruence|auto].
        + destruct OK as (Ha & Hp & OK). apply IH; auto.
          * intros id x Hx. rewrite blookup_badd. destruct (N.eqb_spec k id) as [->|?]; [rewrite (Sub _ _ Hx); auto|apply Sub; auto].
          * intros id x. rewrite blookup_badd. destruct (N.eqb_spec k id) as [->|?]; [|apply Ann].
            destruct (blookup id b) as [y|] eqn:Eb; intros Hx; inversion Hx; subst; auto.
          * intros id. rewrite blookup_badd. destruct (N.eqb_spec k id) as [->|Hk].
            -- intros _ H2. destruct Hp as [Hp|Hp]; [congruence|exact Hp].
            -- intros H1 H2. pose proof (Pend id H1 H2) as T. unfold touched in *. simpl in T. exact T. }
    intros evs b0 Ann OK. apply G; auto. intros id H1 H2. congruence.
  Qed.
End Stream.

(* a stale stream: the handshake's list still names node 3, whose removal the joiner has already replayed *)
Theorem stale_stream_refuted :
  erun [(4, 6004)] [EApply (MAdd 1 6001); EApply (MAdd 3 6003); EApply (MRemove 3); EStream 3 6003] = [(1, 6001); (3, 6003); (4, 6004)] /\
  brun [(4, 6004)] (applies [EApply (MAdd 1 6001); EApply (MAdd 3 6003); EApply (MRemove 3); EStream 3 6003]) = [(1, 6001); (4, 6004)].
Proof. split; reflexivity. Qed.

(* the bootstrap entry without an address: a joiner that replays the log before the handshake's stream arrives
   (always the case when it restarts) lists the first node with the empty address for good *)
Theorem boot_address_refuted :
  let log := [MAdd 1 6001; MAdd 2 6002] in
  erun [(2, 6002)] (map EApply (boot_log false log) ++ [EStream 1 6001; EStream 2 6002]) = [(1, 0); (2, 6002)] /\
  erun [(2, 6002)] (map EApply (boot_log true log) ++ [EStream 1 6001; EStream 2 6002]) = [(1, 6001); (2, 6002)].
Proof. split; reflexivity. Qed.
