(* Cluster/Placement.v — Allocator.getPartitionsNodeIds over rand.Shuffle (C16). Executable model, no proofs. *)
From Verif Require Import Base.Prelude.

(* rand.Shuffle(n, swap): for i := n-1; i > 0; i-- { j := draw in [0, i]; swap(i, j) }.
   A draw is any natural number; it is reduced modulo i+1 (every j in [0,i] is reachable). *)
Definition swapn (a : list nat) (i j : nat) : list nat := upd (upd a i (nth j a 0)) j (nth i a 0).

Fixpoint shuffle_from (i : nat) (draws : list nat) (a : list nat) : list nat * list nat :=
  match i with
  | O => (a, draws)
  | S i' => match draws with
            | [] => (a, [])
            | d :: ds => shuffle_from i' ds (swapn a i (d mod (S i)))
            end
  end.
Definition shuffle (draws : list nat) (a : list nat) : list nat * list nat := shuffle_from (length a - 1) draws a.

(* copies = true: each partition gets its own copy of the prefix (the code after the fix).
   copies = false: every partition is a view of the one array, read after the last shuffle (before the fix). *)
Fixpoint place_loop (p : nat) (r : nat) (draws : list nat) (a : list nat) (acc : list (list nat)) : list (list nat) * list nat :=
  match p with
  | O => (rev acc, a)
  | S p' => let '(a', ds) := shuffle draws a in
            place_loop p' r ds a' (firstn (Nat.min (length a') r) a' :: acc)
  end.
Definition place (copies : bool) (p r : nat) (draws : list nat) (a : list nat) : list (list nat) :=
  let '(outs, final) := place_loop p r draws a [] in
  if copies then outs else map (fun _ => firstn (Nat.min (length final) r) final) outs.

(* ---- checkers for the harness ---- *)
Fixpoint nodupb (l : list nat) : bool :=
  match l with [] => true | x :: t => negb (existsb (Nat.eqb x) t) && nodupb t end.
Definition valid_one (members : list nat) (r : nat) (l : list nat) : bool :=
  Nat.eqb (length l) (Nat.min (length members) r) && nodupb l && forallb (fun x => existsb (Nat.eqb x) members) l.
(* the property's validity clause, on an observed placement *)
Definition placement_valid (members : list nat) (r : nat) (out : list (list nat)) : bool :=
  forallb (valid_one members r) out.

(* state-level correspondence: the initial order of Conn.NodeIds() (Go map order) is unknown to the harness, so the
   model is run on positions 0..n-1 and the observed ids must be a consistent injective renaming of positions *)
Fixpoint assoc (k : nat) (m : list (nat * nat)) : option nat :=
  match m with [] => None | (a, b) :: t => if Nat.eqb a k then Some b else assoc k t end.
Fixpoint rassoc (v : nat) (m : list (nat * nat)) : option nat :=
  match m with [] => None | (a, b) :: t => if Nat.eqb b v then Some a else rassoc v t end.
Fixpoint unify_list (pos ids : list nat) (m : list (nat * nat)) : option (list (nat * nat)) :=
  match pos, ids with
  | [], [] => Some m
  | p :: ps, i :: is_ =>
      match assoc p m, rassoc i m with
      | Some i', _ => if Nat.eqb i i' then unify_list ps is_ m else None
      | None, Some _ => None
      | None, None => unify_list ps is_ ((p, i) :: m)
      end
  | _, _ => None
  end.
Fixpoint unify_all (poss idss : list (list nat)) (m : list (nat * nat)) : bool :=
  match poss, idss with
  | [], [] => true
  | p :: ps, i :: is_ => match unify_list p i m with Some m' => unify_all ps is_ m' | None => false end
  | _, _ => false
  end.

Record place_case := { pc_n : nat; pc_p : nat; pc_r : nat; pc_draws : list nat; pc_members : list nat; pc_obs : list (list nat) }.
Definition place_case_model_ok (copies : bool) (c : place_case) : bool :=
  unify_all (place copies (pc_p c) (pc_r c) (pc_draws c) (seq 0 (pc_n c))) (pc_obs c) [].
Definition place_case_oracle_ok (c : place_case) : bool :=
  Nat.eqb (length (pc_obs c)) (pc_p c) && placement_valid (pc_members c) (pc_r c) (pc_obs c).
Fixpoint bad_idx {A} (f : A -> bool) (l : list A) (i : nat) : list nat :=
  match l with [] => [] | a :: t => if f a then bad_idx f t (S i) else i :: bad_idx f t (S i) end.
