(* Cluster/PlacementProofs.v — validity of every placement, for all draws; aliasing collapses all partitions. *)
From Verif Require Import Base.Prelude Cluster.Placement.

Lemma swapn_length a i j : length (swapn a i j) = length a.
Proof. unfold swapn; rewrite !upd_length; auto. Qed.

Lemma swapn_perm a i j : i < length a -> j < length a -> Permutation (swapn a i j) a.
Proof.
  intros Hi Hj. apply (perm_of_count Nat.eq_dec); intros y. unfold swapn.
  pose proof (count_upd Nat.eq_dec a i (nth j a 0) y Hi) as H1.
  pose proof (count_upd Nat.eq_dec (upd a i (nth j a 0)) j (nth i a 0) y ltac:(rewrite upd_length; auto)) as H2.
  rewrite (nth_indep a (nth j a 0) 0 Hi) in H1.
  rewrite (nth_indep (upd a i (nth j a 0)) (nth i a 0) 0) in H2 by (rewrite upd_length; auto).
  rewrite nth_upd in H2.
  destruct (Nat.eqb_spec i j) as [->|Hij]; simpl in H2.
  - destruct (Nat.ltb_spec j (length a)); lia.
  - destruct (Nat.eq_dec (nth j a 0) y), (Nat.eq_dec (nth i a 0) y); lia.
Qed.

Lemma shuffle_from_perm i : forall draws a, i < length a \/ i = 0 ->
  Permutation (fst (shuffle_from i draws a)) a.
Proof.
  induction i as [|i IH]; intros draws a H; simpl; auto.
  destruct draws as [|d ds]; simpl; auto.
  assert (Hi : S i < length a) by lia.
  assert (Hj : d mod S (S i) < length a).
  { pose proof (Nat.mod_upper_bound d (S (S i)) ltac:(lia)). lia. }
  rewrite IH by (rewrite swapn_length; lia). apply swapn_perm; auto.
Qed.

Lemma shuffle_perm draws a : Permutation (fst (shuffle draws a)) a.
Proof. unfold shuffle. apply shuffle_from_perm. destruct a; simpl; lia. Qed.

Definition valid (members : list nat) (r : nat) (l : list nat) : Prop :=
  length l = Nat.min (length members) r /\ NoDup l /\ incl l members.

Lemma firstn_valid members r a : NoDup members -> Permutation a members ->
  valid members r (firstn (Nat.min (length a) r) a).
Proof.
  intros ND P. pose proof (Permutation_length P) as L. split; [|split].
  - rewrite firstn_length. lia.
  - assert (NDa : NoDup a) by (eapply Permutation_NoDup; [apply Permutation_sym; eauto|auto]).
    apply NoDup_firstn; auto.
  - intros x Hx. eapply Permutation_in; eauto.
    rewrite <- (firstn_skipn (Nat.min (length a) r) a). apply in_or_app; auto.
Qed.

Lemma place_loop_spec members r : NoDup members -> forall p draws a acc,
  Permutation a members -> Forall (valid members r) acc ->
  let '(outs, final) := place_loop p r draws a acc in
  Forall (valid members r) outs /\ length outs = p + length acc /\ Permutation final members.
Proof.
  intros ND. induction p as [|p IH]; intros draws a acc P F; simpl.
  - split; [apply Forall_rev; auto|]. rewrite rev_length. auto.
  - pose proof (shuffle_perm draws a) as SP. destruct (shuffle draws a) as [a' ds]; simpl in SP.
    assert (P' : Permutation a' members) by (rewrite SP; auto).
    specialize (IH ds a' (firstn (Nat.min (length a') r) a' :: acc) P'
                  ltac:(constructor; [apply firstn_valid; auto|auto])).
    destruct (place_loop p r ds a' _) as [outs final]. simpl in IH. destruct IH as (A & B & C).
    repeat split; auto. lia.
Qed.

(* C16 validity: for every seed (draw sequence), every partition count and replication factor *)
Theorem place_copy_valid members p r draws : NoDup members ->
  Forall (valid members r) (place true p r draws members) /\ length (place true p r draws members) = p.
Proof.
  intros ND. unfold place.
  pose proof (place_loop_spec members r ND p draws members [] (Permutation_refl _) (Forall_nil _)) as H.
  destruct (place_loop p r draws members []) as [outs final]. destruct H as (A & B & _).
  split; auto. simpl in B. lia.
Qed.

(* aliasing: all partitions are the same list, whatever the draws *)
Theorem place_alias_all_equal members p r draws :
  exists c, place false p r draws members = repeat c (length (place false p r draws members)).
Proof.
  unfold place. destruct (place_loop p r draws members []) as [outs final].
  exists (firstn (Nat.min (length final) r) final). rewrite map_length.
  induction outs; simpl; f_equal; auto.
Qed.

(* hence with at least two partitions and two possible prefixes, most valid assignments are unreachable:
   the concrete run observed on the code before the fix *)
Example alias_witness : place false 4 2 [3; 1; 4; 1; 5; 9; 2; 6; 5; 3; 5; 8; 9; 7; 9; 3] [1; 2; 3; 4; 5]
                      = [[5; 1]; [5; 1]; [5; 1]; [5; 1]]
                   /\ place true 4 2 [3; 1; 4; 1; 5; 9; 2; 6; 5; 3; 5; 8; 9; 7; 9; 3] [1; 2; 3; 4; 5]
                      = [[1; 3]; [2; 4]; [4; 1]; [5; 1]].
Proof. split; vm_compute; reflexivity. Qed.

(* ------------------------------------------------------------------ surjectivity of the shuffle *)
Lemma nth_swapn a i j x : i < length a -> j < length a ->
  nth x (swapn a i j) 0 = if x =? j then nth i a 0 else if x =? i then nth j a 0 else nth x a 0.
Proof.
  intros Hi Hj; unfold swapn. rewrite !nth_upd, !upd_length.
  destruct (Nat.eqb_spec j x), (Nat.eqb_spec i x), (Nat.eqb_spec x j), (Nat.eqb_spec x i),
           (Nat.ltb_spec j (length a)), (Nat.ltb_spec i (length a)); simpl; subst; auto; try lia.
Qed.

Lemma agree_all_eq (t a : list nat) : length t = length a ->
  (forall k, k < length a -> nth k t 0 = nth k a 0) -> t = a.
Proof. intros L H. apply (nth_ext t a 0 0); auto. intros k Hk. apply H. lia. Qed.

Lemma agree_except_one (t a : list nat) p : NoDup a -> Permutation t a ->
  (forall k, k < length a -> k <> p -> nth k t 0 = nth k a 0) -> t = a.
Proof.
  intros ND P H. pose proof (Permutation_length P) as L.
  assert (NDt : NoDup t) by (eapply Permutation_NoDup; [apply Permutation_sym; eauto|auto]).
  apply agree_all_eq; auto. intros k Hk. destruct (Nat.eq_dec k p) as [->|Hn]; [|apply H; auto].
  assert (Hin : In (nth p t 0) a) by (eapply Permutation_in; eauto; apply nth_In; lia).
  apply (In_nth _ _ 0) in Hin. destruct Hin as (q & Hq & Eq).
  destruct (Nat.eq_dec q p) as [->|Hqp]; [auto|].
  rewrite <- (H q Hq Hqp) in Eq.
  apply (proj1 (NoDup_nth t 0) NDt) in Eq; try lia.
Qed.

(* canonical draws: the draw of step i lies in [0, i] (what rand.Intn(i+1) returns) *)
Fixpoint canon (i : nat) (ds : list nat) : Prop :=
  match i, ds with
  | O, [] => True
  | S i', d :: ds' => d <= S i' /\ canon i' ds'
  | _, _ => False
  end.

Lemma shuffle_from_surj i : forall a t, NoDup a -> Permutation t a -> (i < length a \/ i = 0) ->
  (forall k, i < k -> k < length a -> nth k t 0 = nth k a 0) ->
  exists ds, canon i ds /\ forall rest, shuffle_from i (ds ++ rest) a = (t, rest).
Proof.
  induction i as [|i IH]; intros a t ND P Hi Hag.
  - exists []. split; [exact I|]. intros rest. simpl. f_equal.
    symmetry. apply (agree_except_one t a 0); auto. intros k Hk Hn. apply Hag; lia.
  - assert (Hl : S i < length a) by lia.
    pose proof (Permutation_length P) as L.
    assert (NDt : NoDup t) by (eapply Permutation_NoDup; [apply Permutation_sym; eauto|auto]).
    assert (Hin : In (nth (S i) t 0) a) by (eapply Permutation_in; eauto; apply nth_In; lia).
    apply (In_nth _ _ 0) in Hin. destruct Hin as (j & Hj & Ej).
    assert (Hji : j <= S i).
    { destruct (le_lt_dec j (S i)); auto. exfalso.
      rewrite <- (Hag j ltac:(lia) Hj) in Ej.
      apply (proj1 (NoDup_nth t 0) NDt) in Ej; lia. }
    set (a1 := swapn a (S i) j).
    assert (P1 : Permutation a1 a) by (apply swapn_perm; lia).
    destruct (IH a1 t) as (ds & Lds & Hds).
    + eapply Permutation_NoDup; [apply Permutation_sym; eauto|auto].
    + rewrite P1; auto.
    + unfold a1; rewrite swapn_length; lia.
    + intros k Hk1 Hk2. unfold a1 in *. rewrite swapn_length in Hk2. rewrite nth_swapn by lia.
      destruct (Nat.eqb_spec k j) as [->|Hkj].
      { assert (j = S i) by lia. subst j. auto. }
      destruct (Nat.eqb_spec k (S i)) as [->|Hne]; [auto|].
      apply Hag; lia.
    + exists (j :: ds). split; [simpl; split; [lia|exact Lds]|]. intros rest. simpl app. cbn [shuffle_from].
      rewrite Nat.mod_small by lia. fold a1. apply Hds.
Qed.

Lemma shuffle_surj a t : NoDup a -> Permutation t a ->
  exists ds, forall rest, shuffle (ds ++ rest) a = (t, rest).
Proof.
  intros ND P. destruct (shuffle_from_surj (length a - 1) a t ND P) as (ds & _ & H).
  - destruct a; simpl; lia.
  - intros k H1 H2. lia.
  - exists ds. exact H.
Qed.

(* ------------------------------------------------------------------ the shuffle is a bijection: uniform draws give
   uniform orders.  Step i fixes position i for good (later steps swap below it), so two canonical draw vectors that
   differ first at step i put different members at position i. *)
Lemma shuffle_from_keeps_high i : forall ds a k, (i < length a \/ i = 0) -> i < k ->
  nth k (fst (shuffle_from i ds a)) 0 = nth k a 0.
Proof.
  induction i as [|i IH]; intros ds a k Hi Hk; [reflexivity|]. cbn [shuffle_from]. destruct ds as [|d t]; [reflexivity|].
  assert (Hl : S i < length a) by lia.
  assert (Hj : d mod S (S i) <= S i) by (pose proof (Nat.mod_upper_bound d (S (S i)) ltac:(lia)); lia).
  rewrite IH by (rewrite ?swapn_length; lia). rewrite nth_swapn by lia.
  destruct (Nat.eqb_spec k (d mod S (S i))); [lia|]. destruct (Nat.eqb_spec k (S i)); [lia|]. reflexivity.
Qed.
Lemma canon_length i : forall ds, canon i ds -> length ds = i.
Proof. induction i as [|i IH]; intros [|d t] H; simpl in *; try tauto. f_equal. apply IH. tauto. Qed.

Lemma shuffle_from_inj i : forall a ds ds', NoDup a -> (i < length a \/ i = 0) -> canon i ds -> canon i ds' ->
  fst (shuffle_from i ds a) = fst (shuffle_from i ds' a) -> ds = ds'.
Proof.
  induction i as [|i IH]; intros a ds ds' ND Hi C C' E.
  - destruct ds, ds'; simpl in *; tauto.
  - destruct ds as [|d t], ds' as [|d' t']; simpl in C, C'; try tauto. destruct C as [Hd C], C' as [Hd' C'].
    assert (Hl : S i < length a) by lia. cbn [shuffle_from] in E. rewrite !Nat.mod_small in E by lia.
    assert (At : forall x, x <= S i -> nth (S i) (swapn a (S i) x) 0 = nth x a 0).
    { intros x Hx. rewrite nth_swapn by lia. destruct (Nat.eqb_spec (S i) x) as [<-|]; auto. rewrite Nat.eqb_refl. reflexivity. }
    assert (Ed : d = d').
    { assert (E1 : nth (S i) (fst (shuffle_from i t (swapn a (S i) d))) 0 = nth (S i) (fst (shuffle_from i t' (swapn a (S i) d'))) 0) by (rewrite E; reflexivity).
      rewrite !shuffle_from_keeps_high in E1 by (rewrite ?swapn_length; lia). rewrite !At in E1 by lia.
      apply (proj1 (NoDup_nth a 0) ND) in E1; lia. }
    subst d'. f_equal. apply (IH (swapn a (S i) d)); auto.
    + eapply Permutation_NoDup; [apply Permutation_sym, swapn_perm; lia|auto].
    + rewrite swapn_length. lia.
Qed.

(* every order of the members is produced by exactly one canonical draw vector: with draws uniform in their ranges
   (rand.Intn) every order - hence every choice of a partition's replicas - is equally likely *)
Theorem shuffle_bijective a t : NoDup a -> Permutation t a ->
  exists ds, (canon (length a - 1) ds /\ fst (shuffle ds a) = t) /\
             forall ds', canon (length a - 1) ds' -> fst (shuffle ds' a) = t -> ds' = ds.
Proof.
  intros ND P. destruct (shuffle_from_surj (length a - 1) a t ND P) as (ds & C & H).
  - destruct a; simpl; lia.
  - intros k H1 H2. lia.
  - exists ds. assert (Et : fst (shuffle ds a) = t).
    { unfold shuffle. specialize (H []). rewrite app_nil_r in H. rewrite H. reflexivity. }
    split; [split; auto|]. intros ds' C' E'. apply (shuffle_from_inj (length a - 1) a); auto.
    + destruct a; simpl; lia.
    + unfold shuffle in E', Et. rewrite E', Et. reflexivity.
Qed.

Lemma place_loop_acc p r : forall draws a acc,
  place_loop p r draws a acc = (rev acc ++ fst (place_loop p r draws a []), snd (place_loop p r draws a [])).
Proof.
  induction p as [|p IH]; intros draws a acc; simpl.
  - rewrite app_nil_r. auto.
  - destruct (shuffle draws a) as [a' ds]. rewrite (IH ds a' (_ :: acc)), (IH ds a' [_]). simpl.
    rewrite <- app_assoc. auto.
Qed.

Lemma place_loop_surj members r : NoDup members -> forall targets a,
  Permutation a members -> Forall (fun t => Permutation t members) targets ->
  exists draws, fst (place_loop (length targets) r draws a [])
              = map (fun t => firstn (Nat.min (length members) r) t) targets.
Proof.
  intros ND. induction targets as [|t ts IH]; intros a Pa F.
  - exists []. reflexivity.
  - inversion F as [|? ? Pt Fts]; subst.
    assert (NDa : NoDup a) by (eapply Permutation_NoDup; [apply Permutation_sym; eauto|auto]).
    destruct (shuffle_surj a t NDa ltac:(rewrite Pt, Pa; auto)) as (ds & Hds).
    destruct (IH t Pt Fts) as (dr & Hdr).
    exists (ds ++ dr). simpl. rewrite Hds. rewrite place_loop_acc. simpl. rewrite Hdr.
    f_equal. f_equal. f_equal. apply Permutation_length; auto.
Qed.

Theorem place_copy_surjective members r targets : NoDup members -> members <> [] ->
  Forall (fun t => Permutation t members) targets ->
  exists draws, place true (length targets) r draws members
              = map (fun t => firstn (Nat.min (length members) r) t) targets.
Proof.
  intros ND _ F. destruct (place_loop_surj members r ND targets members (Permutation_refl _) F) as (draws & H).
  exists draws. unfold place. destruct (place_loop (length targets) r draws members []) as [outs final].
  simpl in H. exact H.
Qed.
