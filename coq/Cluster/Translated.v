(* Cluster/Translated.v — the replica count of a partition as translated from storage/allocator.go on this run is
   min(number of members, replication factor), the model's prefix length. *)
From Verif Require Import Base.Prelude Base.GoMinMax Generated.Translated.
From Coq Require Import ZArith Lia.

Theorem go_placement_n_is_model (n r : nat) : (Z.of_nat n <= MaxIntVal)%Z -> (Z.of_nat r <= MaxIntVal)%Z ->
  go_placement_n (Z.of_nat n) (Z.of_nat r) = Z.of_nat (Nat.min n r).
Proof. intros H1 H2. unfold go_placement_n. rewrite go_MinInt_pair by lia. lia. Qed.
