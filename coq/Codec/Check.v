(* Codec/Check.v — executable checkers for the snapshot codec (C08). *)
From Verif Require Import Base.Prelude Store.Spec Store.Check Codec.Model.
Open Scope N_scope.

(* canonical form of a snapshot: vertices by id inside each shard, edge records by id, edges by neighbour id,
   metadata by key *)
Definition canon_vrec (v : vrec) : vrec :=
  {| r_id := r_id v; r_level := r_level v; r_vec := r_vec v; r_meta := canon_meta (r_meta v) |}.
Definition canon_shard (sh : list vrec) : list vrec := sort_by (fun a b => r_id a <? r_id b) (map canon_vrec sh).
Definition canon_erec (e : erec) : erec := (fst e, map (sort_by (fun a b => fst a <? fst b)) (snd e)).
Definition canon_eshard (es : list erec) : list erec := sort_by (fun a b => fst a <? fst b) (map canon_erec es).
Definition canon_snap (s : snap) : snap :=
  {| sn_entry := sn_entry s; sn_shards := map canon_shard (sn_shards s); sn_eshards := map canon_eshard (sn_eshards s) |}.

Definition pair_eqb (a b : N * N) := (fst a =? fst b) && (snd a =? snd b).
Definition vrec_eqb (a b : vrec) : bool :=
  (r_id a =? r_id b) && Nat.eqb (r_level a) (r_level b) && vec_eqb (r_vec a) (r_vec b) && meta_eqb (r_meta a) (r_meta b).
Definition erec_eqb (a b : erec) : bool := (fst a =? fst b) && list_eqb (list_eqb pair_eqb) (snd a) (snd b).
Definition snap_eqb (a b : snap) : bool :=
  (sn_entry a =? sn_entry b) && list_eqb (list_eqb vrec_eqb) (sn_shards a) (sn_shards b) &&
  list_eqb (list_eqb erec_eqb) (sn_eshards a) (sn_eshards b).
Definition osnap_eqb (a b : option snap) : bool :=
  match a, b with None, None => true | Some x, Some y => snap_eqb (canon_snap x) (canon_snap y) | _, _ => false end.

(* split a byte list into chunks of the given sizes (the rest is one last chunk) *)
Fixpoint chunk (sizes : list nat) (bs : list N) : reader :=
  match sizes with
  | [] => [bs]
  | n :: t => firstn n bs :: chunk t (skipn n bs)
  end.

Record codec_case := {
  cc_dim : nat;
  cc_bytes : list N;               (* what Save wrote *)
  cc_chunks : list nat;            (* a fragmentation to decode under *)
  cc_expect : option snap          (* the dumped state before Save, as a snapshot value (None = empty index) *)
}.

(* model decodes the implementation's bytes — as one chunk, under the given fragmentation and byte by byte —
   to the dumped state, consumes everything, and re-encodes to exactly the same bytes *)
Definition decodes_to (dim : nat) (r : reader) (e : option snap) (bs : list N) : bool :=
  match decode_opt dim r with
  | Some (s, r') => osnap_eqb s e && match flatten r' with [] => true | _ => false end &&
                    list_eqb N.eqb (encode_opt s) bs
  | None => false
  end.
Definition codec_case_model_ok (c : codec_case) : bool :=
  decodes_to (cc_dim c) [cc_bytes c] (cc_expect c) (cc_bytes c) &&
  decodes_to (cc_dim c) (chunk (cc_chunks c) (cc_bytes c)) (cc_expect c) (cc_bytes c) &&
  decodes_to (cc_dim c) (map (fun b => [b]) (cc_bytes c)) (cc_expect c) (cc_bytes c).

Fixpoint bad_idx {A} (f : A -> bool) (l : list A) (i : nat) : list nat :=
  match l with [] => [] | a :: t => if f a then bad_idx f t (S i) else i :: bad_idx f t (S i) end.
