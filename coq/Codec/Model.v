(* Codec/Model.v — the snapshot format of index/hnsw_persistence.go, index/metadata.go, math/vector.go
   (without header) as encoder and decoder over a chunked reader.  Executable; no proofs. *)
From Verif Require Import Base.Prelude Store.Spec.
Open Scope N_scope.

(* ---- big-endian fixed-width integers ---- *)
Fixpoint be (n : nat) (x : N) : list N :=
  match n with O => [] | S k => (x / 256 ^ N.of_nat k) mod 256 :: be k x end.
Definition unbe (l : list N) : N := fold_left (fun a b => a * 256 + b) l 0.

(* ---- a reader: the chunks successive Read calls return (io.Reader may fragment arbitrarily) ---- *)
Definition reader := list (list N).
Definition flatten (r : reader) : list N := concat r.

(* io.ReadFull(r, buf[:n]) *)
Fixpoint read_full (r : reader) (n : nat) : option (list N * reader) :=
  match n with
  | O => Some ([], r)
  | _ => match r with
         | [] => None
         | c :: r' => if (length c <=? n)%nat
                      then match read_full r' (n - length c) with
                           | Some (a, r'') => Some (c ++ a, r'')
                           | None => None
                           end
                      else Some (firstn n c, skipn n c :: r')
         end
  end.
(* a single r.Read(buf[:n]) — the pre-fix code for ids and metadata strings: may return fewer bytes *)
Fixpoint read_once (r : reader) (n : nat) : option (list N * reader) :=
  match r with
  | [] => None
  | [] :: r' => read_once r' n
  | c :: r' => if (length c <=? n)%nat then Some (c ++ repeat 0 (n - length c), r')   (* short read: rest of buf stays zero *)
               else Some (firstn n c, skipn n c :: r')
  end.

Definition parser (A : Type) := reader -> option (A * reader).
Definition ret {A} (x : A) : parser A := fun r => Some (x, r).
Definition bind {A B} (p : parser A) (f : A -> parser B) : parser B :=
  fun r => match p r with Some (a, r') => f a r' | None => None end.
Notation "x <- p ;; q" := (bind p (fun x => q)) (at level 61, p at next level, right associativity).
Definition fail {A} : parser A := fun _ => None.

Definition take (n : nat) : parser (list N) := fun r => read_full r n.
Definition get_be (n : nat) : parser N := a <- take n ;; ret (unbe a).
Fixpoint rep {A} (p : parser A) (n : nat) : parser (list A) :=
  match n with O => ret [] | S k => x <- p ;; xs <- rep p k ;; ret (x :: xs) end.

(* ---- the snapshot value ---- *)
Record vrec := { r_id : N; r_level : nat; r_vec : list N; r_meta : meta }.
Definition erec := (N * list (list (N * N)))%type.     (* vertex id; per level from its top level down to 0: (neighbour id, distance bits) *)
Record snap := { sn_entry : N; sn_shards : list (list vrec); sn_eshards : list (list erec) }.

(* ---- encoder (Save): length fields are truncated exactly as the Go conversions do ---- *)
Definition enc_kv (kv : bytes * bytes) : list N :=
  be 1 (N.of_nat (length (fst kv)) mod 256) ++ fst kv ++ be 2 (N.of_nat (length (snd kv)) mod 65536) ++ snd kv.
Definition enc_meta (m : meta) : list N := be 2 (N.of_nat (length m) mod 65536) ++ concat (map enc_kv m).
Definition enc_vrec (v : vrec) : list N :=
  be 16 (r_id v) ++ be 4 (N.of_nat (r_level v)) ++ concat (map (be 4) (r_vec v)) ++ enc_meta (r_meta v).
Definition enc_shard (sh : list vrec) : list N := be 4 (N.of_nat (length sh)) ++ concat (map enc_vrec sh).
Definition enc_edge (e : N * N) : list N := be 16 (fst e) ++ be 4 (snd e).
Definition enc_level (es : list (N * N)) : list N := be 4 (N.of_nat (length es)) ++ concat (map enc_edge es).
Definition enc_erec (e : erec) : list N := be 16 (fst e) ++ concat (map enc_level (snd e)).
Definition encode (s : snap) : list N :=
  be 16 (sn_entry s) ++ concat (map enc_shard (sn_shards s)) ++ concat (map (fun sh => concat (map enc_erec sh)) (sn_eshards s)).
(* Save of an index with Len() = 0 writes nothing *)
Definition encode_opt (s : option snap) : list N := match s with None => [] | Some x => encode x end.

(* ---- decoder (Load) ---- *)
Definition dec_kv : parser (bytes * bytes) :=
  kl <- get_be 1 ;; k <- take (N.to_nat kl) ;; vl <- get_be 2 ;; v <- take (N.to_nat vl) ;; ret (k, v).
Definition dec_meta : parser meta := n <- get_be 2 ;; rep dec_kv (N.to_nat n).
Definition dec_vrec (dim : nat) : parser vrec :=
  id <- get_be 16 ;; lvl <- get_be 4 ;;
  (if 2147483648 <=? lvl then fail    (* negative int32 level: make() with a negative size panics *)
   else v <- rep (get_be 4) dim ;; m <- dec_meta ;;
        ret {| r_id := id; r_level := N.to_nat lvl; r_vec := v; r_meta := m |}).
Definition dec_shard (dim : nat) : parser (list vrec) := n <- get_be 4 ;; rep (dec_vrec dim) (N.to_nat n).
Definition dec_edge : parser (N * N) := a <- get_be 16 ;; d <- get_be 4 ;; ret (a, d).
Definition dec_level : parser (list (N * N)) := n <- get_be 4 ;; rep dec_edge (N.to_nat n).
Fixpoint shard_level (sh : list vrec) (id : N) : option nat :=
  match sh with [] => None | v :: t => if r_id v =? id then Some (r_level v) else shard_level t id end.
Definition dec_erec (sh : list vrec) : parser erec :=
  id <- get_be 16 ;;
  match shard_level sh id with
  | None => fail                       (* verticesShard[id] is nil: nil dereference *)
  | Some lvl => ls <- rep dec_level (S lvl) ;; ret (id, ls)
  end.
Fixpoint dec_eshards (shs : list (list vrec)) : parser (list (list erec)) :=
  match shs with
  | [] => ret []
  | sh :: t => es <- rep (dec_erec sh) (length sh) ;; r <- dec_eshards t ;; ret (es :: r)
  end.
Definition decode (dim : nat) : parser snap :=
  e <- get_be 16 ;; shs <- rep (dec_shard dim) 16 ;; es <- dec_eshards shs ;;
  ret {| sn_entry := e; sn_shards := shs; sn_eshards := es |}.

(* Load: an immediately exhausted reader is the empty index; otherwise a snapshot *)
Definition all_empty (r : reader) : bool := forallb (fun c => match c with [] => true | _ => false end) r.
Definition decode_opt (dim : nat) (r : reader) : option (option snap * reader) :=
  if all_empty r then Some (None, r)
  else match decode dim r with Some (s, r') => Some (Some s, r') | None => None end.
