(* Codec/Proofs.v — decode (any chunking of (encode s ++ rest)) = (s, rest) for every well-formed snapshot. *)
From Verif Require Import Base.Prelude Store.Spec Codec.Model.
From Coq Require Import ZifyN ZifyBool ZifyNat.
Ltac Zify.zify_post_hook ::= Z.div_mod_to_equations.
Open Scope N_scope.

(* ------------------------------------------------------------------ big-endian *)
Lemma be_length n x : length (be n x) = n.
Proof. induction n; simpl; auto. Qed.

Lemma unbe_acc l : forall acc, fold_left (fun a b => a * 256 + b) l acc = acc * 256 ^ N.of_nat (length l) + unbe l.
Proof.
  unfold unbe. induction l as [|y l IH]; intros acc; simpl fold_left.
  - simpl. lia.
  - rewrite IH, (IH y). cbn [length]. rewrite Nat2N.inj_succ, N.pow_succ_r'. lia.
Qed.
Lemma unbe_cons y l : unbe (y :: l) = y * 256 ^ N.of_nat (length l) + unbe l.
Proof. unfold unbe at 1. simpl fold_left. rewrite unbe_acc. lia. Qed.

Lemma unbe_be_mod n : forall x, unbe (be n x) = x mod 256 ^ N.of_nat n.
Proof.
  induction n as [|n IH]; intros x.
  - simpl. unfold unbe; simpl. rewrite N.mod_1_r. auto.
  - cbn [be]. rewrite unbe_cons, be_length, IH.
    rewrite Nat2N.inj_succ, N.pow_succ_r'.
    assert (P : 256 ^ N.of_nat n <> 0) by (apply N.pow_nonzero; lia).
    rewrite (N.mul_comm 256). rewrite N.mod_mul_r by (auto; lia). lia.
Qed.
Lemma unbe_be n x : x < 256 ^ N.of_nat n -> unbe (be n x) = x.
Proof. intros H. rewrite unbe_be_mod. apply N.mod_small; auto. Qed.

(* ------------------------------------------------------------------ reader *)
Lemma app_split_prefix (c x a rest : list N) : c ++ x = a ++ rest -> (length c <= length a)%nat ->
  a = c ++ skipn (length c) a /\ x = skipn (length c) a ++ rest.
Proof.
  revert a. induction c as [|y c IH]; intros a F L; simpl in *; [auto|].
  destruct a as [|z a]; simpl in *; [lia|]. inversion F; subst.
  destruct (IH a H1 ltac:(lia)) as (E1 & E2). split; [f_equal; auto|auto].
Qed.

Lemma read_full_ok r : forall n a rest, flatten r = a ++ rest -> length a = n ->
  exists r', read_full r n = Some (a, r') /\ flatten r' = rest.
Proof.
  induction r as [|c r IH]; intros n a rest F L.
  - simpl in F. destruct a; [|discriminate]. simpl in *. subst. exists []. split; auto.
  - destruct n as [|n].
    + destruct a; [|discriminate]. exists (c :: r). split; auto.
    + cbn [read_full]. simpl in F. destruct (Nat.leb_spec (length c) (S n)) as [Hle|Hgt].
      * destruct (app_split_prefix c (flatten r) a rest F ltac:(lia)) as (E1 & E2).
        destruct (IH (S n - length c)%nat (skipn (length c) a) rest E2) as (r' & R & F').
        { rewrite skipn_length. lia. }
        rewrite R. exists r'. split; auto. rewrite <- E1. auto.
      * destruct (app_split_prefix a rest c (flatten r) (eq_sym F) ltac:(lia)) as (E1 & E2).
        exists (skipn (S n) c :: r). rewrite <- L. split.
        -- f_equal. f_equal. rewrite E1 at 1. rewrite firstn_app, Nat.sub_diag, firstn_all. simpl. apply app_nil_r.
        -- simpl. rewrite E2. auto.
Qed.

(* a parser p decodes what enc wrote, whatever follows and however the stream is chunked *)
Definition pok {A} (p : parser A) (enc : A -> list N) (x : A) : Prop :=
  forall r rest, flatten r = enc x ++ rest -> exists r', p r = Some (x, r') /\ flatten r' = rest.

Lemma take_pok a : pok (take (length a)) (fun x => x) a.
Proof. intros r rest F. apply read_full_ok; auto. Qed.

Lemma get_be_pok n x : x < 256 ^ N.of_nat n -> pok (get_be n) (be n) x.
Proof.
  intros H r rest F. unfold get_be, bind, take.
  destruct (read_full_ok r n (be n x) rest F (be_length n x)) as (r' & -> & F'). simpl.
  rewrite unbe_be by auto. exists r'. auto.
Qed.

Lemma rep_pok {A} (p : parser A) (enc : A -> list N) l : Forall (pok p enc) l ->
  pok (rep p (length l)) (fun l => concat (map enc l)) l.
Proof.
  induction 1 as [|x l Hx Hl IH]; intros r rest F; simpl in *.
  - exists r. auto.
  - unfold bind. rewrite <- ?app_assoc in F. destruct (Hx r _ F) as (r1 & -> & F1).
    destruct (IH r1 rest F1) as (r2 & -> & F2). simpl. exists r2. auto.
Qed.

(* ------------------------------------------------------------------ well-formedness (what the Go types can hold) *)
Definition wf_bytes (b : bytes) : Prop := Forall (fun x => x < 256) b.
Definition wf_kv (kv : bytes * bytes) : Prop :=
  N.of_nat (length (fst kv)) < 256 /\ N.of_nat (length (snd kv)) < 65536.
Definition wf_meta (m : meta) : Prop := N.of_nat (length m) < 65536 /\ Forall wf_kv m.
Definition wf_vrec (dim : nat) (v : vrec) : Prop :=
  r_id v < 2 ^ 128 /\ (N.of_nat (r_level v) < 2147483648) /\ length (r_vec v) = dim /\
  Forall (fun x => x < 2 ^ 32) (r_vec v) /\ wf_meta (r_meta v).
Definition wf_edge (e : N * N) : Prop := fst e < 2 ^ 128 /\ snd e < 2 ^ 32.
Definition wf_level (es : list (N * N)) : Prop := N.of_nat (length es) < 2 ^ 32 /\ Forall wf_edge es.
Definition wf_erec (sh : list vrec) (e : erec) : Prop :=
  fst e < 2 ^ 128 /\ (exists lvl, shard_level sh (fst e) = Some lvl /\ length (snd e) = S lvl) /\ Forall wf_level (snd e).
Definition wf_shard (dim : nat) (sh : list vrec) : Prop := N.of_nat (length sh) < 2 ^ 32 /\ Forall (wf_vrec dim) sh.
Definition wf_snap (dim : nat) (s : snap) : Prop :=
  sn_entry s < 2 ^ 128 /\ length (sn_shards s) = 16%nat /\ Forall (wf_shard dim) (sn_shards s) /\
  Forall2 (fun sh es => length es = length sh /\ Forall (wf_erec sh) es) (sn_shards s) (sn_eshards s).

Lemma p16 : 256 ^ N.of_nat 16 = 2 ^ 128. Proof. reflexivity. Qed.
Lemma p4 : 256 ^ N.of_nat 4 = 2 ^ 32. Proof. reflexivity. Qed.
Lemma p2 : 256 ^ N.of_nat 2 = 65536. Proof. reflexivity. Qed.
Lemma p1 : 256 ^ N.of_nat 1 = 256. Proof. reflexivity. Qed.

Lemma dec_kv_pok kv : wf_kv kv -> pok dec_kv enc_kv kv.
Proof.
  intros (Hk & Hv) r rest F. destruct kv as [k v]. unfold enc_kv, dec_kv, bind in *. simpl fst in *; simpl snd in *.
  rewrite <- !app_assoc in F.
  rewrite N.mod_small in F by lia.
  destruct (get_be_pok 1 (N.of_nat (length k)) ltac:(rewrite p1; lia) r _ F) as (r1 & -> & F1).
  rewrite Nat2N.id. destruct (take_pok k r1 _ F1) as (r2 & -> & F2).
  rewrite N.mod_small in F2 by lia.
  destruct (get_be_pok 2 (N.of_nat (length v)) ltac:(rewrite p2; lia) r2 _ F2) as (r3 & -> & F3).
  rewrite Nat2N.id. destruct (take_pok v r3 _ F3) as (r4 & -> & F4).
  exists r4. auto.
Qed.

Lemma dec_meta_pok m : wf_meta m -> pok dec_meta enc_meta m.
Proof.
  intros (Hl & Hf) r rest F. unfold enc_meta, dec_meta, bind in *. rewrite <- ?app_assoc in F.
  rewrite N.mod_small in F by lia.
  destruct (get_be_pok 2 (N.of_nat (length m)) ltac:(rewrite p2; lia) r _ F) as (r1 & -> & F1).
  rewrite Nat2N.id. apply (rep_pok dec_kv enc_kv m); auto.
  eapply Forall_impl; [|exact Hf]. intros kv Hkv. apply dec_kv_pok; auto.
Qed.

Lemma dec_vrec_pok dim v : wf_vrec dim v -> pok (dec_vrec dim) enc_vrec v.
Proof.
  intros (Hi & Hl & Hd & Hv & Hm) r rest F. unfold enc_vrec, dec_vrec, bind in *. rewrite <- !app_assoc in F.
  destruct (get_be_pok 16 (r_id v) ltac:(rewrite p16; auto) r _ F) as (r1 & -> & F1).
  destruct (get_be_pok 4 (N.of_nat (r_level v)) ltac:(rewrite p4; change (2 ^ 32) with 4294967296; lia) r1 _ F1) as (r2 & -> & F2).
  destruct (N.leb_spec 2147483648 (N.of_nat (r_level v))); [lia|].
  assert (PV : pok (rep (get_be 4) (length (r_vec v))) (fun l => concat (map (be 4) l)) (r_vec v)).
  { apply rep_pok. eapply Forall_impl; [|exact Hv]. intros x Hx. apply get_be_pok. rewrite p4; auto. }
  rewrite <- Hd. destruct (PV r2 _ F2) as (r3 & -> & F3).
  destruct (dec_meta_pok _ Hm r3 _ F3) as (r4 & -> & F4). simpl.
  exists r4. split; auto. rewrite Nat2N.id. destruct v; auto.
Qed.

Lemma dec_shard_pok dim sh : wf_shard dim sh -> pok (dec_shard dim) enc_shard sh.
Proof.
  intros (Hl & Hf) r rest F. unfold enc_shard, dec_shard, bind in *. rewrite <- ?app_assoc in F.
  destruct (get_be_pok 4 (N.of_nat (length sh)) ltac:(rewrite p4; auto) r _ F) as (r1 & -> & F1).
  rewrite Nat2N.id. apply (rep_pok (dec_vrec dim) enc_vrec sh); auto.
  eapply Forall_impl; [|exact Hf]. intros v Hv. apply dec_vrec_pok; auto.
Qed.

Lemma dec_edge_pok e : wf_edge e -> pok dec_edge enc_edge e.
Proof.
  intros (Ha & Hd) r rest F. destruct e as [a d]. unfold enc_edge, dec_edge, bind in *. simpl in *. rewrite <- ?app_assoc in F.
  destruct (get_be_pok 16 a ltac:(rewrite p16; auto) r _ F) as (r1 & -> & F1).
  destruct (get_be_pok 4 d ltac:(rewrite p4; auto) r1 _ F1) as (r2 & -> & F2). exists r2. auto.
Qed.

Lemma dec_level_pok es : wf_level es -> pok dec_level enc_level es.
Proof.
  intros (Hl & Hf) r rest F. unfold enc_level, dec_level, bind in *. rewrite <- ?app_assoc in F.
  destruct (get_be_pok 4 (N.of_nat (length es)) ltac:(rewrite p4; auto) r _ F) as (r1 & -> & F1).
  rewrite Nat2N.id. apply (rep_pok dec_edge enc_edge es); auto.
  eapply Forall_impl; [|exact Hf]. intros e He. apply dec_edge_pok; auto.
Qed.

Lemma dec_erec_pok sh e : wf_erec sh e -> pok (dec_erec sh) enc_erec e.
Proof.
  intros (Hi & (lvl & Hs & Hlen) & Hf) r rest F. destruct e as [id ls]. unfold enc_erec, dec_erec, bind in *. cbn [fst snd] in *.
  rewrite <- ?app_assoc in F.
  destruct (get_be_pok 16 id ltac:(rewrite p16; auto) r _ F) as (r1 & -> & F1). rewrite Hs. rewrite <- Hlen.
  assert (P : pok (rep dec_level (length ls)) (fun l => concat (map enc_level l)) ls).
  { apply rep_pok. eapply Forall_impl; [|exact Hf]. intros x Hx. apply dec_level_pok; auto. }
  destruct (P r1 _ F1) as (r2 & -> & F2). exists r2. auto.
Qed.

Lemma dec_eshards_pok shs : forall ess,
  Forall2 (fun sh es => length es = length sh /\ Forall (wf_erec sh) es) shs ess ->
  pok (dec_eshards shs) (fun ess => concat (map (fun sh => concat (map enc_erec sh)) ess)) ess.
Proof.
  induction shs as [|sh shs IH]; intros ess H; inversion H; subst; intros r rest F; simpl in *.
  - exists r. auto.
  - destruct H2 as (Hl & Hf). unfold bind. rewrite <- ?app_assoc in F.
    assert (P : pok (rep (dec_erec sh) (length y)) (fun l => concat (map enc_erec l)) y).
    { apply rep_pok. eapply Forall_impl; [|exact Hf]. intros e He. apply dec_erec_pok; auto. }
    rewrite <- Hl. destruct (P r _ F) as (r1 & -> & F1).
    destruct (IH l' H4 r1 rest F1) as (r2 & -> & F2). exists r2. auto.
Qed.

(* C08 core: any chunking, any trailing bytes *)
Theorem decode_encode dim s : wf_snap dim s -> pok (decode dim) encode s.
Proof.
  intros (He & H16 & Hs & Hes) r rest F. unfold encode, decode, bind in *. rewrite <- !app_assoc in F.
  destruct (get_be_pok 16 (sn_entry s) ltac:(rewrite p16; auto) r _ F) as (r1 & -> & F1).
  assert (P : pok (rep (dec_shard dim) (length (sn_shards s))) (fun l => concat (map enc_shard l)) (sn_shards s)).
  { apply rep_pok. eapply Forall_impl; [|exact Hs]. intros sh Hsh. apply dec_shard_pok; auto. }
  rewrite <- H16. destruct (P r1 _ F1) as (r2 & -> & F2).
  destruct (dec_eshards_pok _ _ Hes r2 rest F2) as (r3 & -> & F3).
  exists r3. split; auto. destruct s; auto.
Qed.

(* ------------------------------------------------------------------ with the empty index *)
Lemma all_empty_flat r : all_empty r = true <-> flatten r = [].
Proof.
  induction r as [|c r IH]; simpl; [tauto|]. destruct c; simpl.
  - exact IH.
  - split; intros; discriminate.
Qed.

Lemma encode_nonempty s : encode s <> [].
Proof. unfold encode. cbn [be]. intros H; discriminate. Qed.

Definition wf_osnap (dim : nat) (s : option snap) : Prop := match s with Some x => wf_snap dim x | None => True end.

Theorem decode_opt_encode dim s : wf_osnap dim s -> forall r, flatten r = encode_opt s ->
  exists r', decode_opt dim r = Some (s, r') /\ flatten r' = [].
Proof.
  intros W r F. unfold decode_opt. destruct s as [x|]; simpl in *.
  - destruct (all_empty r) eqn:E.
    + apply all_empty_flat in E. rewrite E in F. symmetry in F. apply encode_nonempty in F. destruct F.
    + destruct (decode_encode dim x W r [] ltac:(rewrite app_nil_r; auto)) as (r' & -> & F'). exists r'. auto.
  - assert (E : all_empty r = true) by (apply all_empty_flat; auto). rewrite E. exists r. auto.
Qed.
