(* Codec/Refuted.v — what the format cannot carry, and regression witnesses of repaired defects. *)
From Verif Require Import Base.Prelude Store.Spec Codec.Model.
Open Scope N_scope.

Definition one_vertex (m : meta) : snap :=
  {| sn_entry := 5;
     sn_shards := [ {| r_id := 5; r_level := 0; r_vec := [1]; r_meta := m |} ] :: repeat [] 15;
     sn_eshards := [ (5, [[]]) ] :: repeat [] 15 |}.

(* (1) a key of 256 bytes: its length field is written as uint8(256) = 0, and the stream no longer decodes to the
   state that was saved — metadata beyond the field widths (<= 65535 pairs, keys <= 255 bytes, values <= 65535 bytes)
   is outside the round-trip theorem and has to be rejected before it is stored *)
Definition long_key : bytes := repeat 120 256.
Definition ofst {A B} (x : option (A * B)) : option A := match x with Some (a, _) => Some a | None => None end.
Definition meta_of (s : option snap) : option meta :=
  match s with
  | Some x => match sn_shards x with (v :: _) :: _ => Some (r_meta v) | _ => None end
  | None => None
  end.
Theorem overlong_key_refuted :
  meta_of (ofst (decode 1 [encode (one_vertex [(long_key, [1])])])) <> Some [(long_key, [1])] /\
  meta_of (ofst (decode 1 [encode (one_vertex [(firstn 255 long_key, [1])])])) = Some [(firstn 255 long_key, [1])].
Proof. split; [vm_compute; intros H; discriminate | vm_compute; reflexivity]. Qed.

(* (2) the pre-fix reader: ids and strings fetched with one Read call. Under a byte-by-byte reader the id comes
   back short and the stream is mis-parsed *)
Definition take_once (n : nat) : parser (list N) := fun r => read_once r n.
Definition get_id_once : parser N := a <- take_once 16 ;; ret (unbe a).
Theorem short_read_refuted :
  let bs := encode (one_vertex []) in
  ofst (get_id_once (map (fun b => [b]) bs)) <> Some 5 /\ ofst (get_be 16 (map (fun b => [b]) bs)) = Some 5.
Proof. vm_compute. split; [intros H; discriminate|reflexivity]. Qed.

(* (3) the pre-fix Load failed on the zero bytes Save writes for an empty index *)
Theorem empty_snapshot_refuted : encode_opt None = [] /\ decode 1 [[]] = None /\ decode_opt 1 [[]] = Some (None, [[]]).
Proof. vm_compute. repeat split. Qed.
