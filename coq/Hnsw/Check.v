(* Hnsw/Check.v — executable checkers for the index (C01, C07): running histories on the model, canonical state
   comparison with dumps of the real index, the invariant and the search post-condition as boolean functions. *)
From Verif Require Import Base.Prelude Store.Spec Store.Partition Store.Check Hnsw.Model.
Open Scope N_scope.

(* distances come as a table computed by the real space.Distance over the vectors of the case *)
Fixpoint vec_index (v : vec) (vs : list vec) (i : nat) : nat :=
  match vs with [] => i | x :: t => if vec_eqb x v then i else vec_index v t (S i) end.
Definition table_dist (vs : list vec) (m : list (list Z)) (a b : vec) : Z :=
  nth (vec_index b vs 0) (nth (vec_index a vs 0) m []) (-1)%Z.
Definition ord_id (l : list edge) : list edge := l.

(* reload = Save + Load into a fresh index: tombstones and links to them disappear, serials are renumbered *)
Fixpoint index_of (n : nat) (l : list nat) (i : nat) : option nat :=
  match l with [] => None | x :: t => if Nat.eqb x n then Some i else index_of n t (S i) end.
Definition reload_vertex (s : hnsw) (livs : list nat) (n : nat) : vertex :=
  let v := vget s n in
  let fix_edges (es : list edge) : list edge :=
    flat_map (fun e => match index_of (fst e) livs 0%nat with Some j => if negb (vdel (vget s (fst e))) then [(j, snd e)] else [] | None => [] end) es in
  {| vid := vid v; vvec := vvec v; vmeta := vmeta v; vlevel := vlevel v; vdel := false; vedges := map fix_edges (vedges v) |}.
Definition reload (s : hnsw) : hnsw :=
  let livs := map snd (rev (idmap s)) in                       (* old serials of live vertices, in insertion order *)
  {| arena := map (reload_vertex s livs) livs;
     idmap := rev (map (fun p => (fst p, match index_of (snd p) livs 0%nat with Some j => j | None => 0%nat end)) (rev (idmap s)));
     entry := match entry s with Some e => index_of e livs 0%nat | None => None end;
     hlen := wrap (N.of_nat (length livs));                     (* Load counts the vertices it stores in the 64-bit counter *)
     hbytes := wrap (fold_right (fun n a => item_bytes (vvec (vget s n)) (vmeta (vget s n)) + a) 0 livs) |}.

Inductive hop :=
| HInsert (id : N) (v : vec) (m : meta) (lvl : nat)
| HRemove (id : N) (entry_after : option N)                    (* the entry point the implementation ended up with *)
| HSearch (q : vec) (k : nat)
| HReload.

Record vdump := { vd_id : N; vd_level : nat; vd_edges : list (list (N * bool * Z)) }.   (* per level: target id, tombstoned?, distance *)
Record sdump := { sd_entry : option N; sd_len : N; sd_bytes : N; sd_verts : list vdump }.
Inductive hobs :=
| ODump (st : status) (d : sdump)
| OResult (r : list (N * meta * Z)).

Section Run.
  Variable dist : vec -> vec -> Z.
  Variable c : cfg.

  Definition serial_of (s : hnsw) (id : option N) : option nat :=
    match id with Some i => lookup_id s i | None => None end.

  Definition canon_edges (s : hnsw) (es : list edge) : list (N * bool * Z) :=
    sort_by (fun a b => fst (fst a) <? fst (fst b)) (map (fun e => (vid (vget s (fst e)), vdel (vget s (fst e)), snd e)) es).
  Definition dump_of (s : hnsw) : sdump :=
    {| sd_entry := match entry s with Some e => Some (vid (vget s e)) | None => None end;
       sd_len := hlen s; sd_bytes := hbytes s;
       sd_verts := sort_by (fun a b => vd_id a <? vd_id b)
                     (map (fun p => let v := vget s (snd p) in
                                    {| vd_id := vid v; vd_level := vlevel v; vd_edges := map (canon_edges s) (vedges v) |}) (idmap s)) |}.

  (* ---- Remove visits the removed vertex's neighbours in Go map order, and the re-pruning of one neighbour reads the
     links of the others: the resulting graph depends on that order.  The checker looks for the order the implementation
     used, level by level (a level's unlinking only touches that level's links), among all permutations when the vertex
     has at most [max_perm_len] neighbours there; with more neighbours the rest of the case is compared weakly. ---- *)
  Fixpoint ins_all {A} (x : A) (l : list A) : list (list A) :=
    match l with [] => [[x]] | y :: t => (x :: l) :: map (cons y) (ins_all x t) end.
  Fixpoint perms {A} (l : list A) : list (list A) :=
    match l with [] => [[]] | x :: t => flat_map (ins_all x) (perms t) end.
  Definition max_perm_len := 5%nat.
  Definition level_view (d : sdump) (l : nat) := map (fun v => nth l (vd_edges v) []) (sd_verts d).

  Definition step_pure (s : hnsw) (o : hop) (uord : nat -> list edge -> list edge) : hnsw * hobs :=
    match o with
    | HInsert id v m lvl => let '(s', st) := insert dist ord_id c s id v m lvl in (s', ODump st (dump_of s'))
    | HRemove id ea =>
        (* the fallback choice is resolved against the state in which the hand-over runs *)
        let choice := match remove_vertex s id with Some (s1, _) => serial_of s1 ea | None => None end in
        let '(s', st) := remove dist ord_id c s id choice uord in (s', ODump st (dump_of s'))
    | HSearch q k => (s, OResult (search dist ord_id c s q k))
    | HReload => let s' := reload s in (s', ODump SOk (dump_of s'))
    end.
End Run.

(* ---- equality of observations ---- *)
Definition status_eqb (a b : status) : bool :=
  match a, b with SOk, SOk | SExists, SExists | SNotFound, SNotFound => true | _, _ => false end.
Definition opt_eqb (a b : option N) : bool := match a, b with None, None => true | Some x, Some y => x =? y | _, _ => false end.
Definition edge3_eqb (a b : N * bool * Z) : bool := (fst (fst a) =? fst (fst b)) && Bool.eqb (snd (fst a)) (snd (fst b)) && (snd a =? snd b)%Z.
Definition vdump_eqb (a b : vdump) : bool :=
  (vd_id a =? vd_id b) && Nat.eqb (vd_level a) (vd_level b) && list_eqb (list_eqb edge3_eqb) (vd_edges a) (vd_edges b).
Definition sdump_eqb (a b : sdump) : bool :=
  opt_eqb (sd_entry a) (sd_entry b) && (sd_len a =? sd_len b) && (sd_bytes a =? sd_bytes b) && list_eqb vdump_eqb (sd_verts a) (sd_verts b).
Definition res_eqb (a b : list (N * meta * Z)) : bool :=
  list_eqb (fun x y => (fst (fst x) =? fst (fst y)) && meta_eqb (canon_meta (snd (fst x))) (canon_meta (snd (fst y))) && (snd x =? snd y)%Z) a b.
Definition hobs_eqb (a b : hobs) : bool :=
  match a, b with
  | ODump s d, ODump s' d' => status_eqb s s' && sdump_eqb d d'
  | OResult r, OResult r' => res_eqb r r'
  | _, _ => false
  end.
(* outside the deterministic regime only statuses, membership, counters and levels are comparable *)
Definition weak_dump_eqb (a b : sdump) : bool :=
  (sd_len a =? sd_len b) && (sd_bytes a =? sd_bytes b) &&
  list_eqb (fun x y => (vd_id x =? vd_id y) && Nat.eqb (vd_level x) (vd_level y)) (sd_verts a) (sd_verts b) &&
  match sd_entry a, sd_entry b with None, None => true | Some _, Some _ => true | _, _ => false end.
Definition hobs_weak_eqb (a b : hobs) : bool :=
  match a, b with
  | ODump s d, ODump s' d' => status_eqb s s' && weak_dump_eqb d d'
  | OResult r, OResult r' => true
  | _, _ => false
  end.

Record hn_case := {
  hc_cfg : cfg; hc_vecs : list vec; hc_dist : list (list Z);
  hc_items : list (N * (vec * meta));            (* for result checking: current contents are tracked from the ops *)
  hc_ops : list hop; hc_obs : list hobs; hc_regime : bool }.

Section RunObs.
  Variable dist : vec -> vec -> Z.
  Variable c : cfg.
  Definition level_eqb (d d' : sdump) (l : nat) : bool := list_eqb (list_eqb edge3_eqb) (level_view d l) (level_view d' l).
  Definition id_uord : nat -> list edge -> list edge := fun _ l => l.
  Fixpoint find_orders (s : hnsw) (n : nat) (level cnt : nat) (obs : sdump) : option (list (nat * list edge)) :=
    match cnt with
    | O => Some []
    | S k =>
        let key := edges_at (vget s n) level in
        if Nat.ltb max_perm_len (length key) then None else
        let after p := fold_left (unlink_one dist ord_id c level n) p s in
        let pick := if Nat.leb (length key) 1 then key
                    else match find (fun p => level_eqb (dump_of (after p)) obs level) (perms key) with Some p => p | None => key end in
        match find_orders (after pick) n (level - 1) k obs with
        | Some r => Some ((level, pick) :: r)
        | None => None
        end
    end.
  Definition uord_of (r : list (nat * list edge)) : nat -> list edge -> list edge :=
    fun l _ => match find (fun p => Nat.eqb (fst p) l) r with Some p => snd p | None => [] end.

  (* runs the history on the model; every observation is paired with "still compared exactly" *)
  Fixpoint run_obs (exact : bool) (s : hnsw) (ops : list hop) (obs : list hobs) : list (hobs * bool) :=
    match ops with
    | [] => []
    | o :: r =>
        let '(uord, exact') :=
          match o, hd (OResult []) obs with
          | HRemove id ea, ODump _ d =>
              if exact then
                match lookup_id s id with
                | Some n =>
                    let choice := match remove_vertex s id with Some (s1, _) => serial_of s1 ea | None => None end in
                    let s2 := fst (remove dist ord_id c s id choice (fun _ _ => [])) in     (* the state before unlinking *)
                    match find_orders s2 n (vlevel (vget s2 n)) (S (vlevel (vget s2 n))) d with
                    | Some r => (uord_of r, true)
                    | None => (id_uord, false)
                    end
                | None => (id_uord, true)
                end
              else (id_uord, false)
          | _, _ => (id_uord, exact)
          end in
        let '(s', x) := step_pure dist c s o uord in (x, exact') :: run_obs exact' s' r (tl obs)
    end.
End RunObs.

Fixpoint obs_match (outs : list (hobs * bool)) (obs : list hobs) : bool :=
  match outs, obs with
  | [], [] => true
  | (x, e) :: a, y :: b => (if e then hobs_eqb x y else hobs_weak_eqb x y) && obs_match a b
  | _, _ => false
  end.
Definition hn_run (cs : hn_case) : list (hobs * bool) :=
  run_obs (table_dist (hc_vecs cs) (hc_dist cs)) (hc_cfg cs) (hc_regime cs) hnsw_empty (hc_ops cs) (hc_obs cs).
Definition hn_case_model_ok (cs : hn_case) : bool := obs_match (hn_run cs) (hc_obs cs).
(* how many observations of the case were compared exactly *)
Definition hn_case_exact (cs : hn_case) : nat := length (filter snd (hn_run cs)).

(* ---- the property on the observations alone ---- *)
(* invariant on a dump: entry point is a member iff the index is non-empty; links carry the level discipline *)
Definition dump_inv_ok (d : sdump) : bool :=
  let ids := map vd_id (sd_verts d) in
  (sd_len d =? N.of_nat (length (sd_verts d))) &&
  match sd_entry d with
  | None => match sd_verts d with [] => true | _ => false end
  | Some e => existsb (N.eqb e) ids
  end &&
  forallb (fun v => Nat.eqb (length (vd_edges v)) (S (vd_level v))) (sd_verts d).

(* search post-condition against the contents a sequential map would hold *)
Fixpoint apply_contents (cont : list (N * (vec * meta))) (o : hop) : list (N * (vec * meta)) :=
  match o with
  | HInsert id v m _ => match alookup id cont with Some _ => cont | None => (id, (v, m)) :: cont end
  | HRemove id _ => aremove id cont
  | _ => cont
  end.
Fixpoint sorted_z (l : list Z) : bool :=
  match l with x :: ((y :: _) as t) => (x <=? y)%Z && sorted_z t | _ => true end.
Definition search_post_b (dist : vec -> vec -> Z) (cont : list (N * (vec * meta))) (q : vec) (k : nat) (r : list (N * meta * Z)) : bool :=
  forallb (fun x => match alookup (fst (fst x)) cont with
                    | Some (v, m) => (snd x =? dist q v)%Z && meta_eqb (canon_meta m) (canon_meta (snd (fst x)))
                    | None => false
                    end) r &&
  sorted_z (map snd r) &&
  list_eqb N.eqb (nodup N.eq_dec (map (fun x => fst (fst x)) r)) (map (fun x => fst (fst x)) r) &&
  (length r <=? k)%nat &&
  (match cont, k with _ :: _, S _ => negb (match r with [] => true | _ => false end) | _, _ => true end).

Fixpoint oracle_run (dist : vec -> vec -> Z) (cont : list (N * (vec * meta))) (ops : list hop) (obs : list hobs) (i : nat) : option nat :=
  match ops, obs with
  | [], [] => None
  | o :: ops', x :: obs' =>
      let cont' := apply_contents cont o in
      let ok := match o, x with
                | HSearch q k, OResult r => search_post_b dist cont q k r
                | HInsert id _ _ _, ODump st d =>
                    status_eqb st (match alookup id cont with Some _ => SExists | None => SOk end) && dump_inv_ok d &&
                    list_eqb N.eqb (map vd_id (sd_verts d)) (map fst (canon_items cont'))
                | HRemove id _, ODump st d =>
                    status_eqb st (match alookup id cont with Some _ => SOk | None => SNotFound end) && dump_inv_ok d &&
                    list_eqb N.eqb (map vd_id (sd_verts d)) (map fst (canon_items cont'))
                | HReload, ODump _ d => dump_inv_ok d && list_eqb N.eqb (map vd_id (sd_verts d)) (map fst (canon_items cont'))
                | _, _ => false
                end in
      if ok then oracle_run dist cont' ops' obs' (S i) else Some i
  | _, _ => Some i
  end.
Definition hn_case_oracle_ok (cs : hn_case) : bool :=
  match oracle_run (table_dist (hc_vecs cs) (hc_dist cs)) [] (hc_ops cs) (hc_obs cs) 0 with None => true | Some _ => false end.

(* debugging aid: first position where model and observation differ *)
Fixpoint first_diff (a : list (hobs * bool)) (b : list hobs) (i : nat) : option (nat * hobs * hobs) :=
  match a, b with
  | (x, e) :: a', y :: b' => if (if e then hobs_eqb x y else hobs_weak_eqb x y) then first_diff a' b' (S i) else Some (i, x, y)
  | _, _ => None
  end.
Definition hn_case_diff (cs : hn_case) := first_diff (hn_run cs) (hc_obs cs) 0.

(* ---- C07: small insert-only collections ---- *)
Record ex_case := {
  ec_cfg : cfg; ec_vecs : list vec; ec_dist : list (list Z);
  ec_items : list (N * vec * meta * nat);
  ec_queries : list (vec * nat * list (N * Z))        (* query, k, observed (id, score) *)
}.
Definition build_small (dist : vec -> vec -> Z) (c : cfg) (its : list (N * vec * meta * nat)) : hnsw :=
  fold_left (fun s '(id, v, m, l) => fst (insert dist ord_id c s id v m l)) its hnsw_empty.
Definition brute (dist : vec -> vec -> Z) (its : list (N * vec * meta * nat)) (q : vec) (k : nat) : list (N * Z) :=
  firstn k (sort_by (fun a b => (snd a <? snd b)%Z) (map (fun '(id, v, _, _) => (id, dist q v)) its)).
Definition idz_eqb (a b : list (N * Z)) : bool := list_eqb (fun x y => (fst x =? fst y) && (snd x =? snd y)%Z) a b.
(* the property on the implementation's answers: exactly the k nearest in exact order *)
Definition ex_case_oracle_ok (cs : ex_case) : bool :=
  let d := table_dist (ec_vecs cs) (ec_dist cs) in
  forallb (fun '(q, k, obs) => idz_eqb obs (brute d (ec_items cs) q k)) (ec_queries cs).
(* the model: same answers, and its beam covers every live vertex (the hypothesis of C07_exact_partial) *)
Definition ex_case_model_ok (cs : ex_case) : bool :=
  let d := table_dist (ec_vecs cs) (ec_dist cs) in
  let s := build_small d (ec_cfg cs) (ec_items cs) in
  forallb (fun '(q, k, obs) =>
             idz_eqb obs (map (fun x => (fst (fst x), snd x)) (search d ord_id (ec_cfg cs) s q k)) &&
             covers_b s (beam d ord_id (ec_cfg cs) s q k)) (ec_queries cs).
