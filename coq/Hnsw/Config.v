(* Hnsw/Config.v — index/config.go newHnswConfig: defaults with sentinels (-1 = "derive"), the caller's options applied
   in order, then the derived values (mMax = m, mMax0 = 2m; levelMultiplier = 1/ln m is a float and not modelled).
   [derive_last = true] is the source's order; false derives before the options are applied.  Executable + proofs. *)
From Verif Require Import Base.Prelude.
Open Scope Z_scope.

Inductive hopt := OM (v : Z) | OMmax (v : Z) | OMmax0 (v : Z) | OEf (v : Z) | OEfC (v : Z) | OHeur (b : bool) | OExtend (b : bool) | OKeep (b : bool).
Record rawcfg := { r_m : Z; r_mmax : Z; r_mmax0 : Z; r_ef : Z; r_efc : Z; r_heur : bool; r_extend : bool; r_keep : bool }.
Definition cfg_defaults : rawcfg :=
  {| r_m := 16; r_mmax := -1; r_mmax0 := -1; r_ef := 20; r_efc := 200; r_heur := false; r_extend := false; r_keep := true |}.
Definition apply_opt (c : rawcfg) (o : hopt) : rawcfg :=
  match o with
  | OM v => {| r_m := v; r_mmax := r_mmax c; r_mmax0 := r_mmax0 c; r_ef := r_ef c; r_efc := r_efc c; r_heur := r_heur c; r_extend := r_extend c; r_keep := r_keep c |}
  | OMmax v => {| r_m := r_m c; r_mmax := v; r_mmax0 := r_mmax0 c; r_ef := r_ef c; r_efc := r_efc c; r_heur := r_heur c; r_extend := r_extend c; r_keep := r_keep c |}
  | OMmax0 v => {| r_m := r_m c; r_mmax := r_mmax c; r_mmax0 := v; r_ef := r_ef c; r_efc := r_efc c; r_heur := r_heur c; r_extend := r_extend c; r_keep := r_keep c |}
  | OEf v => {| r_m := r_m c; r_mmax := r_mmax c; r_mmax0 := r_mmax0 c; r_ef := v; r_efc := r_efc c; r_heur := r_heur c; r_extend := r_extend c; r_keep := r_keep c |}
  | OEfC v => {| r_m := r_m c; r_mmax := r_mmax c; r_mmax0 := r_mmax0 c; r_ef := r_ef c; r_efc := v; r_heur := r_heur c; r_extend := r_extend c; r_keep := r_keep c |}
  | OHeur b => {| r_m := r_m c; r_mmax := r_mmax c; r_mmax0 := r_mmax0 c; r_ef := r_ef c; r_efc := r_efc c; r_heur := b; r_extend := r_extend c; r_keep := r_keep c |}
  | OExtend b => {| r_m := r_m c; r_mmax := r_mmax c; r_mmax0 := r_mmax0 c; r_ef := r_ef c; r_efc := r_efc c; r_heur := r_heur c; r_extend := b; r_keep := r_keep c |}
  | OKeep b => {| r_m := r_m c; r_mmax := r_mmax c; r_mmax0 := r_mmax0 c; r_ef := r_ef c; r_efc := r_efc c; r_heur := r_heur c; r_extend := r_extend c; r_keep := b |}
  end.
Definition derive (c : rawcfg) : rawcfg :=
  {| r_m := r_m c; r_mmax := (if r_mmax c =? -1 then r_m c else r_mmax c); r_mmax0 := (if r_mmax0 c =? -1 then 2 * r_m c else r_mmax0 c);
     r_ef := r_ef c; r_efc := r_efc c; r_heur := r_heur c; r_extend := r_extend c; r_keep := r_keep c |}.
Definition new_config (derive_last : bool) (opts : list hopt) : rawcfg :=
  if derive_last then derive (fold_left apply_opt opts cfg_defaults) else fold_left apply_opt opts (derive cfg_defaults).

Definition sets_caps (o : hopt) : bool := match o with OMmax _ | OMmax0 _ => true | _ => false end.

Lemma fold_caps opts : forall c, forallb (fun o => negb (sets_caps o)) opts = true ->
  r_mmax (fold_left apply_opt opts c) = r_mmax c /\ r_mmax0 (fold_left apply_opt opts c) = r_mmax0 c.
Proof.
  induction opts as [|o t IH]; intros c H; simpl in *; auto. apply andb_prop in H. destruct H as [Ho Ht].
  destruct (IH (apply_opt c o) Ht) as [-> ->]. destruct o; simpl in *; auto; discriminate.
Qed.
(* with no explicit link caps among the options the caps follow the chosen M: mMax = M, mMax0 = 2M (the premise of
   "exact up to 2M+1 items"), whatever else is set and in whatever order *)
Theorem caps_follow_m opts : forallb (fun o => negb (sets_caps o)) opts = true ->
  r_mmax (new_config true opts) = r_m (new_config true opts) /\ r_mmax0 (new_config true opts) = 2 * r_m (new_config true opts).
Proof.
  intros H. unfold new_config, derive. cbn [r_m r_mmax r_mmax0]. destruct (fold_caps opts cfg_defaults H) as [-> ->]. simpl. auto.
Qed.
Lemma fold_m_last opts v : forall c, r_m (fold_left apply_opt (opts ++ [OM v]) c) = v.
Proof. intros c. rewrite fold_left_app. reflexivity. Qed.
(* deriving before the options are applied ties the caps to the built-in M = 16 *)
Theorem derive_first_refuted : r_m (new_config false [OM 32]) = 32 /\ r_mmax0 (new_config false [OM 32]) = 32 /\ r_mmax0 (new_config true [OM 32]) = 64.
Proof. repeat split. Qed.
