(* Hnsw/Cover.v — C07, the link that was missing: a beam at least as wide as the index is a complete traversal.
   For every state, query, level, iteration order (any permutation of each edge map) and beam width ef >= number of
   arena slots: searchLevel started on a live vertex returns EVERY live vertex reachable from it through live
   vertices at that level (it never stops early and never evicts while it is not full; the fuel of the model — one
   more than the number of slots — suffices because every vertex becomes a candidate at most once). *)
From Verif Require Import Base.Prelude Store.Spec Store.Partition Store.Proofs Hnsw.Model Hnsw.Frame Hnsw.Inv Hnsw.Search.
From Coq Require Import Sorted ZifyN ZifyBool ZifyNat.
Local Open Scope nat_scope.

Lemma in_qins y x q : In y (qins x q) <-> y = x \/ In y q.
Proof.
  split; intros H.
  - apply (Permutation_in _ (qins_perm x q)) in H. destruct H; auto.
  - apply (Permutation_in _ (Permutation_sym (qins_perm x q))). destruct H; [left|right]; auto.
Qed.
Lemma mem_nat_true n l : In n l -> mem_nat n l = true.
Proof. intros H. unfold mem_nat. apply existsb_exists. exists n. split; auto. apply Nat.eqb_refl. Qed.
Lemma mem_nat_not n l : ~ In n l -> mem_nat n l = false.
Proof.
  intros H. unfold mem_nat. destruct (existsb (Nat.eqb n) l) eqn:E; auto.
  apply existsb_exists in E. destruct E as (x & Hx & E). apply Nat.eqb_eq in E. subst. tauto.
Qed.
Lemma nodup_bound (l : list nat) L : NoDup l -> (forall x, In x l -> x < L) -> length l <= L.
Proof.
  intros ND B. rewrite <- (seq_length L 0). apply NoDup_incl_length; auto.
  intros x Hx. apply in_seq. specialize (B x Hx). lia.
Qed.
Lemma qmax_app q m : qmax (q ++ [m]) = Some m.
Proof. unfold qmax. rewrite rev_app_distr. reflexivity. Qed.
Lemma qsorted_last q m : qsorted (q ++ [m]) -> forall x, In x (q ++ [m]) -> (fst x <= fst m)%Z.
Proof.
  induction q as [|a q IH]; simpl; intros S x Hx.
  - destruct Hx as [<-|[]]. lia.
  - inversion S; subst. destruct Hx as [<-|Hx]; [|apply IH; auto].
    eapply Forall_forall in H2; [|apply in_or_app; right; left; reflexivity]. exact H2.
Qed.
Lemma qmax_is_max q m : qsorted q -> qmax q = Some m -> forall x, In x q -> (fst x <= fst m)%Z.
Proof.
  intros S E x Hx. destruct (exists_last (l := q)) as (q' & m' & ->); [intros ->; destruct Hx|].
  rewrite qmax_app in E. inversion E; subst. eapply qsorted_last; eauto.
Qed.
Lemma qmax_some q : q <> [] -> exists m, qmax q = Some m.
Proof. intros H. destruct (exists_last H) as (q' & m & ->). exists m. apply qmax_app. Qed.

Section Cover.
  Variable dist : vec -> vec -> Z.
  Variable ord : list edge -> list edge.
  Hypothesis ord_perm : forall es, Permutation (ord es) es.

  Definition nbrs (s : hnsw) (l m : nat) : list nat := map fst (edges_at (vget s m) l).
  (* reachability through live vertices along the links of one level *)
  Inductive reach (s : hnsw) (l : nat) (a : nat) : nat -> Prop :=
  | reach_refl : reach s l a a
  | reach_step b t : reach s l a b -> In t (nbrs s l b) -> live s t = true -> reach s l a t.

  Lemma reach_trans s l a b t : reach s l a b -> reach s l b t -> reach s l a t.
  Proof. intros H1 H2. induction H2; auto. eapply reach_step; eauto. Qed.

  Lemma live_lt s v : live s v = true -> v < length (arena s).
  Proof.
    intros H. destruct (Nat.lt_ge_cases v (length (arena s))) as [|G]; auto.
    unfold live in H. rewrite (vget_oob s v G) in H. discriminate.
  Qed.

  Section Level.
    Variables (s : hnsw) (q : vec) (ef level : nat).
    Hypothesis wide : length (arena s) <= ef.

    Definition expanded (v : nat) (vis : list nat) : Prop := forall t, In t (nbrs s level v) -> live s t = true -> In t vis.
    (* while the beam is not full nothing is evicted or skipped: results and visited set coincide *)
    Definition slC (st : sl_state) : Prop :=
      NoDup (sl_vis st) /\ (forall v, In v (sl_vis st) -> live s v = true) /\
      length (sl_res st) = length (sl_vis st) /\ incl (sl_vis st) (map snd (sl_res st)) /\ incl (sl_cand st) (sl_res st).
    (* every visited vertex is still waiting as a candidate or has had all its live neighbours visited *)
    Definition slD (st : sl_state) : Prop :=
      forall v, In v (sl_vis st) -> In v (map snd (sl_cand st)) \/ expanded v (sl_vis st).

    Lemma slC_bound st : slC st -> length (sl_vis st) <= length (arena s).
    Proof. intros (ND & LV & _). apply nodup_bound; auto. intros x Hx. apply live_lt; auto. Qed.

    Lemma sl_visit_full lower st e : live s (fst e) = true -> ~ In (fst e) (sl_vis st) -> S (length (sl_res st)) <= ef ->
      sl_visit dist s q ef lower st e =
      {| sl_cand := qins (vdist dist s q (fst e), fst e) (sl_cand st);
         sl_res := qins (vdist dist s q (fst e), fst e) (sl_res st); sl_vis := fst e :: sl_vis st |}.
    Proof.
      intros L NI B. unfold sl_visit. rewrite L. cbn [negb]. rewrite (mem_nat_not _ _ NI).
      assert (E1 : (length (sl_res st) <? ef) = true) by (apply Nat.ltb_lt; lia). rewrite E1, orb_true_r.
      assert (E2 : (ef <? length (qins (vdist dist s q (fst e), fst e) (sl_res st))) = false) by (apply Nat.ltb_ge; rewrite qins_length; lia).
      rewrite E2. reflexivity.
    Qed.

    Definition visit_post (st st' : sl_state) : Prop :=
      slC st' /\ incl (sl_vis st) (sl_vis st') /\ incl (sl_cand st) (sl_cand st') /\
      length (sl_cand st') + length (sl_vis st) = length (sl_cand st) + length (sl_vis st') /\
      (forall v, In v (sl_vis st') -> In v (sl_vis st) \/ In v (map snd (sl_cand st'))).

    Lemma sl_visit_C lower st e : slC st ->
      visit_post st (sl_visit dist s q ef lower st e) /\ (live s (fst e) = true -> In (fst e) (sl_vis (sl_visit dist s q ef lower st e))).
    Proof.
      intros C. pose proof C as (ND & LV & LE & IV & IC).
      assert (SAME : visit_post st st) by (split; [auto|split; [apply incl_refl|split; [apply incl_refl|split; [lia|auto]]]]).
      destruct (live s (fst e)) eqn:L.
      2:{ unfold sl_visit. rewrite L. cbn [negb]. split; [exact SAME|discriminate]. }
      destruct (in_dec Nat.eq_dec (fst e) (sl_vis st)) as [Hin|NI].
      { unfold sl_visit. rewrite L. cbn [negb]. rewrite (mem_nat_true _ _ Hin). split; [exact SAME|auto]. }
      assert (B : S (length (sl_res st)) <= ef).
      { rewrite LE. apply (Nat.le_trans _ (length (arena s))); auto.
        apply (nodup_bound (fst e :: sl_vis st)); [constructor; auto|].
        intros x [<-|Hx]; apply live_lt; auto. }
      rewrite (sl_visit_full lower st e L NI B).
      set (x := (vdist dist s q (fst e), fst e)).
      split; [|intros _; left; reflexivity].
      unfold visit_post, slC. cbn [sl_cand sl_res sl_vis].
      split; [split; [constructor; auto|split; [|split; [|split]]]|split; [|split; [|split]]].
      - intros v [<-|Hv]; auto.
      - rewrite qins_length. simpl. lia.
      - intros v [<-|Hv]; apply in_map_iff.
        + exists x. split; auto. apply in_qins; auto.
        + apply IV in Hv. apply in_map_iff in Hv. destruct Hv as (y & <- & Hy). exists y. split; auto. apply in_qins; auto.
      - intros y Hy. apply in_qins in Hy. apply in_qins. destruct Hy as [->|Hy]; auto.
      - intros v Hv. right. auto.
      - intros y Hy. apply in_qins. auto.
      - rewrite qins_length. simpl. lia.
      - intros v [<-|Hv]; auto. right. apply in_map_iff. exists x. split; auto. apply in_qins; auto.
    Qed.

    Lemma visit_post_trans a b d : visit_post a b -> visit_post b d -> visit_post a d.
    Proof.
      intros (_ & V1 & C1 & N1 & W1) (Cd & V2 & C2 & N2 & W2). split; [auto|]. split; [eapply incl_tran; eauto|]. split; [eapply incl_tran; eauto|].
      split; [lia|]. intros v Hv. destruct (W2 v Hv) as [H|H]; auto. destruct (W1 v H) as [H'|H']; auto.
      right. apply in_map_iff in H'. destruct H' as (y & <- & Hy). apply in_map_iff. exists y. split; auto.
    Qed.

    Lemma sl_fold_C lower es : forall st, slC st ->
      visit_post st (fold_left (sl_visit dist s q ef lower) es st) /\
      (forall e, In e es -> live s (fst e) = true -> In (fst e) (sl_vis (fold_left (sl_visit dist s q ef lower) es st))).
    Proof.
      induction es as [|e es IH]; intros st C; cbn [fold_left].
      - split; [|intros e []]. split; [auto|split; [apply incl_refl|split; [apply incl_refl|split; [lia|auto]]]].
      - destruct (sl_visit_C lower st e C) as (P1 & H1). destruct (IH _ (proj1 P1)) as (P2 & H2).
        split; [eapply visit_post_trans; eauto|]. intros e' [<-|He'] L; [|apply H2; auto].
        destruct P2 as (_ & V2 & _). apply V2. auto.
    Qed.

    Lemma sl_loop_cover fuel : forall st, slJ dist s q st -> slC st -> slD st ->
      length (sl_cand st) + length (arena s) < fuel + length (sl_vis st) ->
      let st' := sl_loop dist ord fuel s q ef level st in
      slC st' /\ slD st' /\ sl_cand st' = [] /\ incl (sl_vis st) (sl_vis st').
    Proof.
      induction fuel as [|f IH]; intros st J C D NU.
      { pose proof (slC_bound st C). lia. }
      cbn [sl_loop]. destruct (sl_cand st) as [|[dc cn] rest] eqn:EC.
      { cbv zeta. rewrite EC. split; [auto|split; [auto|split; [auto|apply incl_refl]]]. }
      pose proof J as (JA & JB & JS & JN & JI & JNE). pose proof C as (ND & LV & LE & IV & IC).
      destruct (qmax_some _ JNE) as ([lower ln] & EM). rewrite EM.
      assert (LO : (dc <= lower)%Z).
      { apply (qmax_is_max _ _ JS EM (dc, cn)). apply IC. rewrite EC. left. reflexivity. }
      assert (E : (lower <? dc)%Z = false) by (apply Z.ltb_ge; lia). rewrite E.
      set (st1 := {| sl_cand := rest; sl_res := sl_res st; sl_vis := sl_vis st |}).
      assert (J1 : slJ dist s q st1).
      { rewrite EC in JA. inversion JA; subst. unfold slJ, st1. cbn [sl_cand sl_res sl_vis]. repeat split; auto. }
      assert (C1 : slC st1).
      { unfold slC, st1. cbn [sl_cand sl_res sl_vis]. repeat split; auto. intros y Hy. apply IC. rewrite EC. right. auto. }
      destruct (sl_fold_C lower (ord (edges_at (vget s cn) level)) st1 C1) as (P & HV).
      set (st2 := fold_left (sl_visit dist s q ef lower) (ord (edges_at (vget s cn) level)) st1) in *.
      destruct P as (C2 & V2 & K2 & N2 & W2). unfold st1 in V2, K2, N2, W2. cbn [sl_cand sl_res sl_vis] in V2, K2, N2, W2.
      assert (J2 : slJ dist s q st2) by (apply sl_fold_J; auto).
      assert (D2 : slD st2).
      { intros v Hv. destruct (W2 v Hv) as [Hold|Hnew]; auto.
        destruct (D v Hold) as [Hc|Hx].
        - rewrite EC in Hc. simpl in Hc. destruct Hc as [<-|Hc].
          + right. intros t Ht L. apply in_map_iff in Ht. destruct Ht as (e & <- & He).
            apply HV; auto. apply (Permutation_in _ (Permutation_sym (ord_perm _))). auto.
          + left. apply in_map_iff in Hc. destruct Hc as (y & <- & Hy). apply in_map_iff. exists y. split; auto.
        - right. intros t Ht L. apply V2. apply Hx; auto. }
      assert (NU2 : length (sl_cand st2) + length (arena s) < f + length (sl_vis st2)).
      { cbn [length] in NU. lia. }
      destruct (IH st2 J2 C2 D2 NU2) as (C3 & D3 & E3 & V3).
      split; [auto|split; [auto|split; [auto|]]]. eapply incl_tran; eauto.
    Qed.

    Theorem search_level_covers ep : live s ep = true ->
      forall b, reach s level ep b -> In b (map snd (search_level dist ord s q ep ef level)).
    Proof.
      intros L b R. unfold search_level.
      set (st0 := {| sl_cand := [(vdist dist s q ep, ep)]; sl_res := [(vdist dist s q ep, ep)]; sl_vis := [ep] |}).
      assert (J0 : slJ dist s q st0).
      { assert (O : okq dist s q (vdist dist s q ep, ep)) by (split; auto).
        unfold slJ, st0. cbn [sl_cand sl_res sl_vis]. split; [repeat constructor; auto|]. split; [repeat constructor; auto|].
        split; [repeat constructor|]. split; [simpl; constructor; [simpl; tauto|constructor]|]. split; [intros x [<-|[]]; left; auto|discriminate]. }
      assert (C0 : slC st0).
      { unfold slC, st0. cbn [sl_cand sl_res sl_vis]. split; [constructor; [simpl; tauto|constructor]|].
        split; [intros v [<-|[]]; auto|]. split; [reflexivity|]. split; [intros v [<-|[]]; left; reflexivity|apply incl_refl]. }
      assert (D0 : slD st0) by (intros v [<-|[]]; left; left; reflexivity).
      assert (NU0 : length (sl_cand st0) + length (arena s) < S (length (arena s)) + length (sl_vis st0)) by (simpl; lia).
      destruct (sl_loop_cover (S (length (arena s))) st0 J0 C0 D0 NU0) as (C & D & EC & V).
      set (st' := sl_loop dist ord (S (length (arena s))) s q ef level st0) in *.
      destruct C as (_ & _ & _ & IV & _). apply IV.
      induction R as [|b t R IHR Ht Lt].
      - apply V. left. reflexivity.
      - destruct (D b IHR) as [Hc|Hx]; [rewrite EC in Hc; destruct Hc|]. apply Hx; auto.
    Qed.
  End Level.
End Cover.
