(* Hnsw/Dataset.v — Dataset.Search / SearchPartitions merge: append the partitions' results, sort by score, keep k. *)
From Verif Require Import Base.Prelude Store.Spec.
From Coq Require Import Sorted.
Open Scope N_scope.

Definition sres := (N * meta * Z)%type.
Fixpoint ins_score (x : sres) (l : list sres) : list sres :=
  match l with [] => [x] | y :: t => if (snd x <? snd y)%Z then x :: l else y :: ins_score x t end.
Definition sort_score (l : list sres) : list sres := fold_right ins_score [] l.
Definition merge (k : nat) (rs : list (list sres)) : list sres := firstn k (sort_score (concat rs)).

Lemma ins_score_perm x l : Permutation (ins_score x l) (x :: l).
Proof. induction l as [|y t IH]; simpl; auto. destruct (snd x <? snd y)%Z; auto. rewrite IH. apply perm_swap. Qed.
Lemma sort_score_perm l : Permutation (sort_score l) l.
Proof. induction l as [|x l IH]; simpl; auto. rewrite ins_score_perm. constructor; auto. Qed.
Definition sle (a b : sres) : Prop := (snd a <= snd b)%Z.
Lemma ins_score_sorted x l : StronglySorted sle l -> StronglySorted sle (ins_score x l).
Proof.
  induction l as [|y t IH]; intros S; simpl; [repeat constructor|]. inversion S; subst.
  destruct (Z.ltb_spec (snd x) (snd y)).
  - constructor; auto. constructor; [unfold sle; lia|]. eapply Forall_impl; [|exact H2]. unfold sle; intros; lia.
  - constructor; [apply IH; auto|]. apply (Forall_perm _ (x :: t)); [apply Permutation_sym; apply ins_score_perm|].
    constructor; auto; unfold sle; lia.
Qed.
Lemma sort_score_sorted l : StronglySorted sle (sort_score l).
Proof. induction l; simpl; [constructor|apply ins_score_sorted; auto]. Qed.

Lemma firstn_ssorted {A} (R : A -> A -> Prop) (l : list A) : forall k, StronglySorted R l -> StronglySorted R (firstn k l).
Proof.
  induction l as [|y r IH]; intros [|k] S; simpl; try constructor.
  - apply IH. inversion S; auto.
  - inversion S; subst. apply Forall_forall. intros x Hx.
    assert (In x r) by (clear -Hx; revert k Hx; induction r as [|a r IH]; intros [|k] H; simpl in *; try tauto; destruct H; eauto).
    eapply Forall_forall in H2; eauto.
Qed.
Lemma in_firstn' {A} (l : list A) k x : In x (firstn k l) -> In x l.
Proof. revert k; induction l as [|a l IH]; intros [|k] H; simpl in *; try tauto. destruct H; eauto. Qed.

(* the merged answer: only items some partition returned, ascending, at most k, no id twice when the partitions'
   results have disjoint ids (C10: every id lives in exactly one partition), non-empty when some partition answered *)
Theorem merge_spec k rs :
  (forall x, In x (merge k rs) -> exists r, In r rs /\ In x r) /\
  StronglySorted sle (merge k rs) /\
  (length (merge k rs) <= k)%nat /\
  (NoDup (map (fun x => fst (fst x)) (concat rs)) -> NoDup (map (fun x => fst (fst x)) (merge k rs))) /\
  ((exists r, In r rs /\ r <> []) -> (0 < k)%nat -> merge k rs <> []) /\
  (* exactly the k best: everything kept is no worse than everything dropped *)
  (forall x y, In x (merge k rs) -> In y (skipn k (sort_score (concat rs))) -> sle x y) /\
  Permutation (merge k rs ++ skipn k (sort_score (concat rs))) (concat rs).
Proof.
  unfold merge. pose proof (sort_score_perm (concat rs)) as P. pose proof (sort_score_sorted (concat rs)) as S.
  split; [|split; [|split; [|split; [|split; [|split]]]]].
  - intros x Hx. apply in_firstn' in Hx. eapply Permutation_in in Hx; [|exact P]. apply in_concat in Hx.
    destruct Hx as (r & Hr & Hx). exists r. auto.
  - apply firstn_ssorted; auto.
  - rewrite firstn_length. lia.
  - intros ND. apply (Permutation_map (fun x => fst (fst x))) in P.
    eapply Permutation_NoDup in ND; [|apply Permutation_sym; exact P]. rewrite <- firstn_map. apply NoDup_firstn; auto.
  - intros (r & Hr & NE) K. destruct r as [|x r]; [congruence|].
    assert (Hx : In x (sort_score (concat rs))).
    { eapply Permutation_in; [apply Permutation_sym; exact P|]. apply in_concat. exists (x :: r). split; auto. left; auto. }
    destruct (sort_score (concat rs)); [destruct Hx|]. destruct k; [lia|]. simpl. discriminate.
  - intros x y Hx Hy. rewrite <- (firstn_skipn k (sort_score (concat rs))) in S.
    revert S Hx Hy. generalize (firstn k (sort_score (concat rs))) (skipn k (sort_score (concat rs))).
    induction l as [|a l IH]; intros l2 S Hx Hy; [destruct Hx|]. simpl in S. inversion S; subst. destruct Hx as [->|Hx].
    + eapply Forall_forall in H2; [exact H2|]. apply in_or_app. right; auto.
    + apply (IH l2); auto.
  - rewrite firstn_skipn. exact P.
Qed.
