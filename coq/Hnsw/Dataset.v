(* Hnsw/Dataset.v — Dataset.Search / SearchPartitions merge: append the partitions' results, sort by score, keep k. *)
From Verif Require Import Base.Prelude Base.TopK Base.TopKProofs Store.Spec.
From Coq Require Import Sorted.
Open Scope N_scope.

Definition sres := (N * meta * Z)%type.
Definition sscore (x : sres) : Z := snd x.
Definition merge (k : nat) (rs : list (list sres)) : list sres := topk sscore k rs.
Definition sle := @Base.TopKProofs.sle sres sscore.
Definition sort_score := @sort_by_score sres sscore.

(* the merged answer: only items some partition returned, ascending, at most k, no id twice when the partitions'
   results have disjoint ids (C10: every id lives in exactly one partition), non-empty when some partition answered,
   and exactly the k best: everything kept is no worse than everything dropped *)
Theorem merge_spec k rs :
  (forall x, In x (merge k rs) -> exists r, In r rs /\ In x r) /\
  StronglySorted sle (merge k rs) /\
  (length (merge k rs) <= k)%nat /\
  (NoDup (map (fun x => fst (fst x)) (concat rs)) -> NoDup (map (fun x => fst (fst x)) (merge k rs))) /\
  ((exists r, In r rs /\ r <> []) -> (0 < k)%nat -> merge k rs <> []) /\
  (forall x y, In x (merge k rs) -> In y (skipn k (sort_score (concat rs))) -> sle x y) /\
  Permutation (merge k rs ++ skipn k (sort_score (concat rs))) (concat rs).
Proof. exact (topk_spec sscore (fun x : sres => fst (fst x)) k rs). Qed.
