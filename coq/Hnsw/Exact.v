(* Hnsw/Exact.v — C07: exactness of search on small collections.
   Proved here: whenever the level-0 beam reaches every live vertex, Search returns exactly the k nearest items in
   exact order (exact_given_coverage).  The remaining link — for insert-only collections of at most 2M+1 items with
   n <= max(ef, k) the beam does reach every live vertex (level 0 stays connected because no link is ever pruned, and
   the beam never stops early while it is not full) — is stated here as [C07_exact_statement] and proved in
   Hnsw/Cover.v (complete traversal) and Hnsw/Small.v (connectivity of insert-only collections). *)
From Verif Require Import Base.Prelude Store.Spec Store.Partition Store.Proofs Hnsw.Model Hnsw.Frame Hnsw.Inv Hnsw.Search.
From Coq Require Import Sorted.
Open Scope N_scope.

Section Exact.
  Variable dist : vec -> vec -> Z.
  Variable ord : list edge -> list edge.
  Variable c : cfg.

  Definition covers (s : hnsw) (found : list qitem) : Prop := forall n, live s n = true -> In n (map snd found).

  Lemma search_unfold s q k : search dist ord c s q k =
    map (fun x => (vid (vget s (snd x)), vmeta (vget s (snd x)), fst x)) (firstn k (select dist ord c s q (beam dist ord c s q k) k 0)).
  Proof.
    unfold search, beam. destruct (entry s) as [e0|].
    2:{ unfold select, select_simple, select_heur. destruct (c_heur c), (c_extend c), k; reflexivity. }
    destruct (greedy_down dist ord s q e0 (vdist dist s q e0) (vlevel (vget s e0)) (vlevel (vget s e0))). reflexivity.
  Qed.

  Lemma beam_good s q k : Inv s -> goodq dist s q (beam dist ord c s q k).
  Proof.
    intros I. unfold beam. destruct (entry s) as [e0|] eqn:EE; [|repeat constructor].
    pose proof (inv_entry _ I) as IE. rewrite EE in IE. destruct IE as (ide & Hide).
    destruct (inv_map _ I _ _ Hide) as (_ & _ & Hdel0).
    assert (L0 : live s e0 = true) by (unfold live; rewrite Hdel0; auto).
    pose proof (greedy_down_live dist ord (vlevel (vget s e0)) s q e0 (vdist dist s q e0) (vlevel (vget s e0)) L0) as LG.
    destruct (greedy_down dist ord s q e0 (vdist dist s q e0) (vlevel (vget s e0)) (vlevel (vget s e0))) as [ep d0]. simpl in LG.
    apply (search_level_good dist ord s q ep (beam_width c s k) 0 LG).
  Qed.

  (* with every live vertex in the beam, candidate extension adds nothing *)
  Lemma extend_noop s q level found : covers s found ->
    forall (xs : list qitem) (st : list qitem * list nat), incl (map snd found) (snd st) ->
      fst (fold_left (fun st x => fold_left (extend_visit dist s q) (ord (edges_at (vget s (snd x)) level)) st) xs st) = fst st /\
      incl (map snd found) (snd (fold_left (fun st x => fold_left (extend_visit dist s q) (ord (edges_at (vget s (snd x)) level)) st) xs st)).
  Proof.
    intros CV. induction xs as [|x xs IH]; intros st H; simpl; auto.
    assert (G : forall es st, incl (map snd found) (snd st) ->
                fst (fold_left (extend_visit dist s q) es st) = fst st /\ incl (map snd found) (snd (fold_left (extend_visit dist s q) es st))).
    { induction es as [|e es IHe]; intros st0 H0; simpl; auto.
      assert (E : extend_visit dist s q st0 e = st0).
      { unfold extend_visit. destruct (live s (fst e)) eqn:EL; simpl; auto.
        assert (Hm : mem_nat (fst e) (snd st0) = true).
        { unfold mem_nat. apply existsb_exists. exists (fst e). split; [apply H0; apply CV; auto|apply Nat.eqb_refl]. }
        rewrite Hm. auto. }
      rewrite E. apply IHe; auto. }
    destruct (G (ord (edges_at (vget s (snd x)) level)) st H) as (A & B).
    destruct (IH (fold_left (extend_visit dist s q) (ord (edges_at (vget s (snd x)) level)) st) B) as (C & D).
    split; [rewrite C; auto|auto].
  Qed.

  Lemma select_covered s q found k : covers s found -> select dist ord c s q found k 0 = firstn k found.
  Proof.
    intros CV. unfold select, select_simple, select_heur. destruct (c_heur c); auto. destruct (c_extend c); auto.
    destruct (extend_noop s q 0%nat found CV (rev found) (found, map snd found) ltac:(intros x Hx; auto)) as (A & _).
    simpl in A. rewrite A. auto.
  Qed.

  (* C07, the proved part: a covering beam gives exactly the k nearest, in order, with their true distances *)
  Theorem exact_given_coverage s q k : Inv s -> covers s (beam dist ord c s q k) ->
    let found := beam dist ord c s q k in
    map snd (search dist ord c s q k) = firstn k (map fst found) /\
    (* [found] enumerates every live vertex exactly once, with its true distance, in ascending order *)
    qsorted found /\ NoDup (map snd found) /\
    (forall n, In n (map snd found) <-> live s n = true) /\
    (forall x, In x found -> fst x = dist q (vvec (vget s (snd x)))).
  Proof.
    intros I CV found. pose proof (beam_good s q k I) as (A & B & C). fold found in A, B, C.
    split; [|split; [auto|split; [auto|split]]].
    - rewrite search_unfold. fold found. rewrite (select_covered s q found k CV).
      rewrite map_map. simpl. rewrite firstn_firstn, Nat.min_id. rewrite firstn_map. auto.
    - intros n. split; [|apply CV]. intros Hn. apply in_map_iff in Hn. destruct Hn as (x & <- & Hx).
      eapply Forall_forall in A; eauto. apply A.
    - intros x Hx. eapply Forall_forall in A; eauto. apply A.
  Qed.

  (* the full statement of the exactness clause (kept visible; see the header) *)
  Definition insert_only (ops : list (N * vec * meta * nat)) : hnsw :=
    fold_left (fun s '(id, v, m, l) => fst (insert dist ord c s id v m l)) ops hnsw_empty.
  Definition C07_exact_statement : Prop :=
    (forall es, Permutation (ord es) es) ->           (* a `range` over an edge map visits every entry once, in any order *)
    forall ops q k, NoDup (map (fun '(id, _, _, _) => id) ops) ->
      (length ops <= 2 * c_m c + 1)%nat -> c_mmax0 c = (2 * c_m c)%nat -> (1 <= c_m c)%nat ->
      (length ops <= Nat.max (c_ef c) k)%nat ->
      (N.of_nat (length ops) < two64)%N ->             (* the 64-bit item counter has not wrapped *)
      covers (insert_only ops) (beam dist ord c (insert_only ops) q k).
End Exact.

