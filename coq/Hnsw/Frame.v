(* Hnsw/Frame.v — the graph work of Insert / Remove touches nothing but edge lists and the entry point:
   ids, vectors, metadata, levels, tombstones, the id map and the counters are untouched. *)
From Verif Require Import Base.Prelude Store.Spec Store.Partition Hnsw.Model.
Open Scope N_scope.

Definition vdata (v : vertex) := (vid v, vvec v, vmeta v, vlevel v, vdel v).
Definition same_data (s s' : hnsw) : Prop :=
  map vdata (arena s) = map vdata (arena s') /\ idmap s = idmap s' /\ hlen s = hlen s' /\ hbytes s = hbytes s'.

Lemma same_data_refl s : same_data s s. Proof. repeat split. Qed.
Lemma same_data_trans a b c : same_data a b -> same_data b c -> same_data a c.
Proof. intros (A1 & A2 & A3 & A4) (B1 & B2 & B3 & B4). repeat split; congruence. Qed.

Lemma map_upd_same {A B} (f : A -> B) (l : list A) n x d : f x = f (nth n l d) -> map f (upd l n x) = map f l.
Proof.
  revert n; induction l as [|a l IH]; intros [|n] H; simpl in *; auto; f_equal; auto.
Qed.

Lemma set_edges_data s n l es : same_data s (set_edges s n l es).
Proof.
  repeat split; simpl; auto. symmetry. apply (map_upd_same vdata (arena s) n _ dv). reflexivity.
Qed.
Lemma set_entry_data s e : same_data s (set_entry s e).
Proof. repeat split. Qed.

Lemma same_data_length s s' : same_data s s' -> length (arena s) = length (arena s').
Proof. intros (A & _). rewrite <- (map_length vdata), A, map_length. auto. Qed.
Lemma same_data_getv s s' n : same_data s s' -> vdata (vget s n) = vdata (vget s' n).
Proof.
  intros (A & _). unfold vget. change (vdata (nth n (arena s) dv)) with (vdata (nth n (arena s) dv)).
  rewrite <- !(map_nth vdata). rewrite A. auto.
Qed.

Section Frame.
  Variable dist : vec -> vec -> Z.
  Variable ord : list edge -> list edge.
  Variable c : cfg.

  Lemma add_edge_data s n l t d : same_data s (add_edge s n l t d).
  Proof. apply set_edges_data. Qed.
  Lemma remove_edge_data s n l t : same_data s (remove_edge s n l t).
  Proof. apply set_edges_data. Qed.
  Lemma prune_data s n k l : same_data s (prune dist ord c s n k l).
  Proof. apply set_edges_data. Qed.

  Lemma link_one_data level n acc x : same_data (fst acc) (fst (link_one dist ord c level n acc x)).
  Proof.
    destruct acc as [s ep]. unfold link_one. cbv zeta. simpl fst at 1.
    match goal with |- same_data _ (fst (?a, _)) => change (fst (a, snd x)) with a end.
    destruct (_ <? _)%nat.
    - eapply same_data_trans; [apply add_edge_data|]. eapply same_data_trans; [apply add_edge_data|]. apply prune_data.
    - eapply same_data_trans; [apply add_edge_data|]. apply add_edge_data.
  Qed.

  Lemma fold_data {A} (f : hnsw * nat -> A -> hnsw * nat) (l : list A) :
    (forall acc x, same_data (fst acc) (fst (f acc x))) -> forall acc, same_data (fst acc) (fst (fold_left f l acc)).
  Proof.
    intros H. induction l as [|x l IH]; intros acc; simpl; [apply same_data_refl|].
    eapply same_data_trans; [apply H|apply IH].
  Qed.
  Lemma fold_data1 {A} (f : hnsw -> A -> hnsw) (l : list A) :
    (forall s x, same_data s (f s x)) -> forall s, same_data s (fold_left f l s).
  Proof.
    intros H. induction l as [|x l IH]; intros s; simpl; [apply same_data_refl|].
    eapply same_data_trans; [apply H|apply IH].
  Qed.

  Lemma insert_levels_data cnt : forall s n ep level, same_data s (insert_levels dist ord c s n ep level cnt).
  Proof.
    induction cnt as [|k IH]; intros s n ep level; simpl; [apply same_data_refl|].
    match goal with |- context [fold_left ?f ?l ?a] => pose proof (fold_data f l (link_one_data level n) a) as H; destruct (fold_left f l a) as [s' ep'] end.
    simpl in H. eapply same_data_trans; [exact H|apply IH].
  Qed.

  Lemma unlink_levels_data uord cnt : forall s n level, same_data s (unlink_levels dist ord c uord s n level cnt).
  Proof.
    induction cnt as [|k IH]; intros s n level; simpl; [apply same_data_refl|].
    eapply same_data_trans; [|apply IH]. apply fold_data1. intros s0 e. unfold unlink_one.
    eapply same_data_trans; [apply remove_edge_data|apply prune_data].
  Qed.
End Frame.
