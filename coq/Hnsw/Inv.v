(* Hnsw/Inv.v — the structural invariant of the index, preserved by Insert and Remove (every history, every
   iteration order, every distance function), and the store contract of C02 for the HNSW index. *)
From Verif Require Import Base.Prelude Store.Spec Store.Partition Store.Proofs Store.Simple Store.Replicas Hnsw.Model Hnsw.Frame.
From Coq Require Import ZifyN ZifyBool ZifyNat.
Open Scope N_scope.

Definition hsum (s : hnsw) : N :=
  fold_right (fun p a => item_bytes (vvec (vget s (snd p))) (vmeta (vget s (snd p))) + a) 0 (idmap s).

Record Inv (s : hnsw) : Prop := {
  inv_nodup : NoDup (map fst (idmap s));
  inv_map : forall id n, In (id, n) (idmap s) -> (n < length (arena s))%nat /\ vid (vget s n) = id /\ vdel (vget s n) = false;
  inv_live : forall n, (n < length (arena s))%nat -> vdel (vget s n) = false -> In (vid (vget s n), n) (idmap s);
  inv_entry : match entry s with None => idmap s = [] | Some e => exists id, In (id, e) (idmap s) end;
  inv_len : hlen s = wrap (N.of_nat (length (idmap s)));
  inv_bytes : hbytes s = wrap (hsum s)
}.

Lemma inv_empty : Inv hnsw_empty.
Proof. constructor; simpl; auto; try constructor; intros; try tauto; try lia. Qed.

Lemma vget_oob s n : (length (arena s) <= n)%nat -> vget s n = dv.
Proof. intros H. unfold vget. apply nth_overflow; auto. Qed.

(* the invariant speaks about data and the entry point only *)
Lemma vget_data s s' n : map vdata (arena s) = map vdata (arena s') -> vdata (vget s n) = vdata (vget s' n).
Proof. intros A. unfold vget. rewrite <- !(map_nth vdata). rewrite A. auto. Qed.

Lemma hsum_data s s' : same_data s s' -> hsum s = hsum s'.
Proof.
  intros (A & B & _). unfold hsum. rewrite <- B. clear B.
  induction (idmap s) as [|p l IH]; simpl; auto. rewrite IH.
  pose proof (vget_data s s' (snd p) A) as E'. unfold vdata in E'. inversion E'. congruence.
Qed.

Lemma Inv_data s s' : same_data s s' -> entry s' = entry s -> Inv s -> Inv s'.
Proof.
  intros D E I. pose proof D as (A & B & C1 & C2). pose proof (same_data_length _ _ D) as L.
  assert (GV : forall n, vid (vget s' n) = vid (vget s n) /\ vdel (vget s' n) = vdel (vget s n)).
  { intros n. pose proof (vget_data s s' n A) as H. unfold vdata in H. inversion H. auto. }
  destruct I. constructor; rewrite <- ?B, <- ?L, ?E; auto.
  - intros id n H. destruct (inv_map0 id n H) as (X & Y & Z). destruct (GV n) as (-> & ->). auto.
  - intros n H1 H2. destruct (GV n) as (G1 & G2). rewrite G1. apply inv_live0; auto. rewrite <- G2. auto.
  - rewrite <- C1. auto.
  - rewrite <- C2, <- (hsum_data _ _ D). auto.
Qed.

Lemma Inv_data_entry s s' e : same_data s s' -> entry s' = Some e -> (exists id, In (id, e) (idmap s)) -> Inv s -> Inv s'.
Proof.
  intros D E X I. pose proof D as (A & B & C1 & C2).
  assert (I0 : Inv (set_entry s (Some e))).
  { destruct I. constructor; simpl; auto. }
  apply (Inv_data (set_entry s (Some e)) s'); auto.
Qed.

Section Ops.
  Variable dist : vec -> vec -> Z.
  Variable ord : list edge -> list edge.
  Variable c : cfg.

  Definition h_ops : index_ops hnsw :=
    {| ins := insert dist ord c; rem := fun s id => remove dist ord c s id None (fun _ => ord);
       getv := getvertex; items := h_items; ilen := hlen; ibytes := hbytes |}.

  Lemma lookup_in s id n : Inv s -> lookup_id s id = Some n <-> In (id, n) (idmap s).
  Proof.
    intros I. unfold lookup_id. split.
    - apply alookup_in.
    - apply in_alookup. apply (inv_nodup _ I).
  Qed.

  (* ---- storeVertex ---- *)
  Lemma store_vertex_spec s id v m lvl s1 n : Inv s -> store_vertex s id v m lvl = Some (s1, n) ->
    n = length (arena s) /\ lookup_id s id = None /\
    arena s1 = arena s ++ [{| vid := id; vvec := v; vmeta := m; vlevel := lvl; vdel := false; vedges := repeat [] (S lvl) |}] /\
    idmap s1 = (id, n) :: idmap s /\ entry s1 = entry s /\
    (forall k, (k < length (arena s))%nat -> vget s1 k = vget s k) /\
    Inv (set_entry s1 (Some n)) /\ (forall e, entry s = Some e -> Inv s1).
  Proof.
    intros I. unfold store_vertex. destruct (lookup_id s id) eqn:E; [discriminate|]. intros H; inversion H; subst; clear H.
    set (vx := {| vid := id; vvec := v; vmeta := m; vlevel := lvl; vdel := false; vedges := repeat [] (S lvl) |}).
    assert (GK : forall k, (k < length (arena s))%nat -> nth k (arena s ++ [vx]) dv = nth k (arena s) dv) by (intros; apply app_nth1; auto).
    assert (GN : nth (length (arena s)) (arena s ++ [vx]) dv = vx) by (rewrite app_nth2, Nat.sub_diag; auto).
    assert (I1 : Inv (set_entry {| arena := arena s ++ [vx]; idmap := (id, length (arena s)) :: idmap s; entry := entry s;
                                    hlen := wrap (hlen s + 1); hbytes := wrap (hbytes s + wrap (item_bytes v m)) |} (Some (length (arena s))))).
    { destruct I. constructor; simpl; unfold vget; simpl.
      + constructor; auto. apply alookup_none; auto.
      + intros id0 n0 [H|H].
        * inversion H; subst. rewrite app_length, GN. simpl. repeat split; auto. lia.
        * destruct (inv_map0 _ _ H) as (X & Y & Z). rewrite app_length, (GK _ X). repeat split; auto. lia.
      + intros n0 Hn Hd. rewrite app_length in Hn. simpl in Hn. destruct (Nat.eq_dec n0 (length (arena s))) as [->|Hne].
        * rewrite GN. simpl. auto.
        * rewrite GK in * by lia. right. apply inv_live0; auto. lia.
      + exists id. auto.
      + rewrite inv_len0, wrap_add1. f_equal. lia.
      + rewrite inv_bytes0, wrap_add. f_equal. unfold hsum. simpl. unfold vget. simpl. rewrite GN. simpl.
        rewrite N.add_comm. f_equal.
        assert (F : forall l : list (N * nat), (forall p, In p l -> (snd p < length (arena s))%nat) ->
                   fold_right (fun p a => item_bytes (vvec (nth (snd p) (arena s) dv)) (vmeta (nth (snd p) (arena s) dv)) + a) 0 l =
                   fold_right (fun p a => item_bytes (vvec (nth (snd p) (arena s ++ [vx]) dv)) (vmeta (nth (snd p) (arena s ++ [vx]) dv)) + a) 0 l).
        { induction l as [|p l IH]; intros Hl; simpl; auto. rewrite IH by (intros; apply Hl; right; auto).
          rewrite GK by (apply Hl; left; auto). auto. }
        apply F. intros [i k] Hp. apply (inv_map0 i k Hp). }
    split; [auto|]. split; [auto|]. split; [auto|]. split; [auto|]. split; [auto|].
    split; [intros k Hk; unfold vget; simpl; apply GK; auto|]. split; [exact I1|].
    intros e He. destruct I1. pose proof (inv_entry _ I) as IE. rewrite He in IE. destruct IE as (ide & Hide).
    constructor; simpl in *; auto. rewrite He. exists ide. auto.
  Qed.

  Lemma h_items_data s s' : same_data s s' -> h_items s' = h_items s.
  Proof.
    intros (A & B & _). unfold h_items. rewrite <- B. apply map_ext. intros p.
    pose proof (vget_data s s' (snd p) A) as E. unfold vdata in E. inversion E. congruence.
  Qed.

  Lemma view_lookup s id : Inv s ->
    view h_ops s id = match lookup_id s id with Some n => Some (vvec (vget s n), vmeta (vget s n)) | None => None end.
  Proof.
    intros I. unfold view, lookup_id. simpl. unfold h_items.
    induction (idmap s) as [|[k n] l IH]; simpl; auto. destruct (k =? id); auto.
  Qed.

  Lemma link_fold_entry lev n (ll : list qitem) : forall acc, entry (fst (fold_left (link_one dist ord c lev n) ll acc)) = entry (fst acc).
  Proof.
    induction ll as [|x ll IHl]; intros acc; simpl; auto. rewrite IHl. destruct acc as [sa epa]. unfold link_one. cbv zeta. simpl.
    destruct (_ <? _)%nat; reflexivity.
  Qed.
  Lemma insert_levels_entry cnt : forall s n ep lev, entry (insert_levels dist ord c s n ep lev cnt) = entry s.
  Proof.
    induction cnt as [|k IH]; intros s n ep lev; simpl; auto.
    match goal with |- context [fold_left ?f ?ll ?a] =>
      pose proof (link_fold_entry lev n ll a) as EF; destruct (fold_left f ll a) as [s' ep'] end.
    simpl in EF. rewrite IH. auto.
  Qed.
  Lemma unlink_levels_entry uord cnt : forall s n lev, entry (unlink_levels dist ord c uord s n lev cnt) = entry s.
  Proof.
    induction cnt as [|k IH]; intros s n lev; simpl; auto. rewrite IH.
    generalize (uord lev (edges_at (vget s n) lev)). intros ll. revert s. induction ll as [|e ll IHl]; intros s; simpl; auto.
    rewrite IHl. reflexivity.
  Qed.

  (* ---- Insert ---- *)
  Lemma insert_exists s id v m l x : Inv s -> view h_ops s id = Some x -> insert dist ord c s id v m l = (s, SExists).
  Proof.
    intros I E. rewrite view_lookup in E by auto. unfold insert, store_vertex.
    destruct (lookup_id s id); [|discriminate]. destruct (entry s); auto.
  Qed.

  Lemma insert_new s id v m l : Inv s -> view h_ops s id = None ->
    exists s', insert dist ord c s id v m l = (s', SOk) /\ Inv s' /\ Permutation (h_items s') ((id, (v, m)) :: h_items s).
  Proof.
    intros I E. rewrite view_lookup in E by auto. unfold insert.
    assert (LN : lookup_id s id = None) by (destruct (lookup_id s id); [discriminate|auto]).
    assert (IT : forall s1 n lv, store_vertex s id v m lv = Some (s1, n) -> h_items s1 = (id, (v, m)) :: h_items s).
    { intros s1 n lv H. destruct (store_vertex_spec s id v m lv s1 n I H) as (Hn & _ & HA & HM & _ & GK & _ & _).
      unfold h_items. rewrite HM. simpl. f_equal.
      - f_equal. unfold vget. rewrite HA, Hn, app_nth2, Nat.sub_diag by lia. auto.
      - apply map_ext_in. intros [i k] Hin. simpl. rewrite GK; auto. apply (inv_map _ I i k Hin). }
    destruct (entry s) as [e0|] eqn:EE.
    - destruct (store_vertex s id v m l) as [[s1 n]|] eqn:ES.
      2:{ unfold store_vertex in ES. rewrite LN in ES. discriminate. }
      destruct (store_vertex_spec s id v m l s1 n I ES) as (Hn & _ & HA & HM & HE & GK & I1 & I2).
      specialize (I2 e0 EE).
      destruct (greedy_down dist ord s1 v e0 (vdist dist s1 v e0) (vlevel (vget s1 e0)) (vlevel (vget s1 e0) - l)) as [ep d0].
      set (s2 := insert_levels dist ord c s1 n ep (Nat.min (vlevel (vget s1 ep)) l) (S (Nat.min (vlevel (vget s1 ep)) l))).
      pose proof (insert_levels_data dist ord c (S (Nat.min (vlevel (vget s1 ep)) l)) s1 n ep (Nat.min (vlevel (vget s1 ep)) l)) as D2.
      fold s2 in D2.
      assert (E2 : entry s2 = entry s1) by (apply insert_levels_entry).
      assert (I2' : Inv s2) by (apply (Inv_data s1 s2 D2 E2 I2)).
      rewrite E2, HE, EE.
      destruct (vlevel (vget s2 e0) <? l)%nat.
      + eexists. split; [reflexivity|]. split.
        * apply (Inv_data_entry s2 (set_entry s2 (Some n)) n (set_entry_data s2 (Some n)) eq_refl); auto.
          exists id. destruct D2 as (_ & <- & _). rewrite HM. left; auto.
        * rewrite (h_items_data s2 _ (set_entry_data s2 (Some n))), (h_items_data s1 s2 D2), (IT s1 n l ES). auto.
      + eexists. split; [reflexivity|]. split; auto.
        rewrite (h_items_data s1 s2 D2), (IT s1 n l ES). auto.
    - destruct (store_vertex s id v m 0) as [[s1 n]|] eqn:ES.
      2:{ unfold store_vertex in ES. rewrite LN in ES. discriminate. }
      destruct (store_vertex_spec s id v m 0 s1 n I ES) as (Hn & _ & HA & HM & HE & GK & I1 & _).
      eexists. split; [reflexivity|]. split; auto.
      rewrite (h_items_data s1 _ (set_entry_data s1 (Some n))), (IT s1 n 0%nat ES). auto.
  Qed.

  (* ---- Remove ---- *)
  Definition entry_ok (s : hnsw) : Prop := match entry s with None => idmap s = [] | Some e => exists id, In (id, e) (idmap s) end.
  Definition InvD (s : hnsw) : Prop :=
    NoDup (map fst (idmap s)) /\
    (forall id n, In (id, n) (idmap s) -> (n < length (arena s))%nat /\ vid (vget s n) = id /\ vdel (vget s n) = false) /\
    (forall n, (n < length (arena s))%nat -> vdel (vget s n) = false -> In (vid (vget s n), n) (idmap s)) /\
    hlen s = wrap (N.of_nat (length (idmap s))) /\ hbytes s = wrap (hsum s).
  Lemma Inv_split s : Inv s <-> InvD s /\ entry_ok s.
  Proof.
    split.
    - intros [A B C D E F]. unfold InvD. tauto.
    - intros ((A & B & C & E & F) & D). constructor; auto.
  Qed.
  Lemma InvD_set_entry s e : InvD s -> InvD (set_entry s e).
  Proof. intros H. exact H. Qed.

  Lemma idmap_functional s id n n' : NoDup (map fst (idmap s)) -> In (id, n) (idmap s) -> In (id, n') (idmap s) -> n = n'.
  Proof.
    intros ND H1 H2. apply (in_alookup id _ _ ND) in H1. apply (in_alookup id _ _ ND) in H2. congruence.
  Qed.

  Lemma remove_vertex_spec s id s1 n : Inv s -> remove_vertex s id = Some (s1, n) ->
    In (id, n) (idmap s) /\ InvD s1 /\ entry s1 = entry s /\
    Permutation (idmap s) ((id, n) :: idmap s1) /\
    (forall k, k <> n -> vget s1 k = vget s k) /\ vget s1 n = tombstone (vget s n) /\ length (arena s1) = length (arena s).
  Proof.
    intros I H. unfold remove_vertex in H. destruct (lookup_id s id) as [n0|] eqn:E; [|discriminate].
    assert (Hn0 : n0 = n) by congruence. subst n0. assert (Hs1 : s1 = removed_state s id n) by congruence. subst s1. clear H.
    unfold removed_state. cbv zeta. set (tv := tombstone (vget s n)).
    assert (TV : tv = tombstone (vget s n)) by reflexivity. clearbody tv.
    pose proof (proj1 (lookup_in s id n I) E) as Hin.
    destruct (inv_map _ I _ _ Hin) as (Hn & Hid & Hdel).
    destruct (aremove_spec id (idmap s) n (inv_nodup _ I) E) as (P & ND' & Len).
    assert (GK : forall k, k <> n -> nth k (upd (arena s) n tv) dv = nth k (arena s) dv) by (intros; apply nth_upd_neq; auto).
    assert (GN : nth n (upd (arena s) n tv) dv = tv) by (apply nth_upd_eq; auto).
    assert (NK : forall i k, In (i, k) (aremove id (idmap s)) -> k <> n /\ In (i, k) (idmap s)).
    { intros i k Hk. assert (Hk' : In (i, k) (idmap s)) by (eapply Permutation_in; [apply Permutation_sym; exact P|right; auto]).
      split; auto. intros ->. destruct (inv_map _ I _ _ Hk') as (_ & Hi & _). assert (i = id) by congruence. subst i.
      apply (Permutation_map fst) in P. simpl in P. eapply Permutation_NoDup in P; [|apply (inv_nodup _ I)].
      apply NoDup_cons_iff in P. destruct P as (P1 & _). apply P1. apply in_map_iff. exists (id, n). split; [reflexivity|]. congruence. }
    split; auto. split; [|split; [auto|split; [auto|split; [intros k Hk; unfold vget; cbn [arena]; apply GK; auto|split; [unfold vget; cbn [arena]; rewrite GN; auto|cbn [arena]; apply upd_length]]]]].
    unfold InvD. cbn [arena idmap hlen hbytes]. unfold vget. cbn [arena]. rewrite upd_length. split; [auto|]. split; [|split; [|split]].
    - intros i k Hk. destruct (NK i k Hk) as (Hne & Hk'). rewrite GK by auto. apply (inv_map _ I _ _ Hk').
    - intros k Hk Hd. destruct (Nat.eq_dec k n) as [->|Hne]; [rewrite GN, TV in Hd; simpl in Hd; discriminate|].
      rewrite GK in * by auto. pose proof (inv_live _ I k Hk Hd) as Hl.
      eapply Permutation_in in Hl; [|exact P]. destruct Hl as [Heq|Hl]; auto. inversion Heq. congruence.
    - rewrite (inv_len _ I), wrap_dec by lia. f_equal. lia.
    - rewrite (inv_bytes _ I).
      assert (HS : hsum s = item_bytes (vvec (vget s n)) (vmeta (vget s n)) +
                  fold_right (fun p a => item_bytes (vvec (nth (snd p) (upd (arena s) n tv) dv))
                                                    (vmeta (nth (snd p) (upd (arena s) n tv) dv)) + a) 0 (aremove id (idmap s))).
      { unfold hsum.
        assert (F : forall l l' : list (N * nat), Permutation l l' ->
                  fold_right (fun p a => item_bytes (vvec (vget s (snd p))) (vmeta (vget s (snd p))) + a) 0 l =
                  fold_right (fun p a => item_bytes (vvec (vget s (snd p))) (vmeta (vget s (snd p))) + a) 0 l').
        { induction 1; simpl; auto; try lia; try congruence. }
        rewrite (F _ _ P). simpl. f_equal.
        assert (G : forall l : list (N * nat), (forall p, In p l -> snd p <> n) ->
                  fold_right (fun p a => item_bytes (vvec (vget s (snd p))) (vmeta (vget s (snd p))) + a) 0 l =
                  fold_right (fun p a => item_bytes (vvec (nth (snd p) (upd (arena s) n tv) dv))
                                                    (vmeta (nth (snd p) (upd (arena s) n tv) dv)) + a) 0 l).
        { induction l as [|p l IH]; intros Hl; simpl; auto. rewrite IH by (intros; apply Hl; right; auto).
          rewrite GK by (apply Hl; left; auto). auto. }
        apply G. intros [i k] Hp. apply (NK i k Hp). }
      fold (vget s n). rewrite wrap_sub by (rewrite HS; lia). f_equal. rewrite HS.
      unfold hsum. cbn [idmap]. unfold vget. cbn [arena]. lia.
  Qed.

  Lemma live_in s t : InvD s -> live s t = true -> In (vid (vget s t), t) (idmap s).
  Proof.
    intros (_ & _ & L & _) H. unfold live in H. apply Bool.negb_true_iff in H.
    apply L; auto. destruct (le_lt_dec (length (arena s)) t) as [Ho|Hi]; auto.
    rewrite vget_oob in H by auto. discriminate.
  Qed.

  Lemma closest_live_live s es : forall cur, (forall t d, cur = Some (t, d) -> live s t = true) ->
    forall t d, closest_live ord s es cur = Some (t, d) -> live s t = true.
  Proof.
    unfold closest_live. generalize (ord es). intros l. induction l as [|e l IH]; intros cur Hc t d; simpl; [apply Hc|].
    apply IH. intros t0 d0. destruct (live s (fst e)) eqn:EL; [|apply Hc].
    destruct cur as [[tc dc]|].
    - destruct (snd e <? dc)%Z; [|apply Hc]. intros H; inversion H; subst. simpl in EL; auto.
    - intros H; inversion H; subst. simpl in EL; auto.
  Qed.
  Lemma handover_live s vx cnt : forall level t, handover_levels ord s vx level cnt = Some t -> live s t = true.
  Proof.
    induction cnt as [|k IH]; intros level t; simpl; [discriminate|].
    destruct (closest_live ord s (edges_at vx level) None) as [[t0 d0]|] eqn:E.
    - intros H; inversion H; subst. eapply closest_live_live; [|exact E]. intros ? ? H0; discriminate.
    - apply IH.
  Qed.

  Lemma max_level_attained (s : hnsw) (l : list (N * nat)) : l <> [] ->
    exists p, In p l /\ vlevel (vget s (snd p)) = fold_left (fun a p => Nat.max a (vlevel (vget s (snd p)))) l O.
  Proof.
    assert (G : forall (l : list (N * nat)) a, (exists p, In p l /\ vlevel (vget s (snd p)) = fold_left (fun a p => Nat.max a (vlevel (vget s (snd p)))) l a) \/
                            fold_left (fun a p => Nat.max a (vlevel (vget s (snd p)))) l a = a).
    { induction l0 as [|q l0 IH]; intros a; simpl; [right; auto|].
      destruct (IH (Nat.max a (vlevel (vget s (snd q))))) as [(p & Hp & E)|E].
      - left. exists p. auto.
      - rewrite E. destruct (Nat.max_spec a (vlevel (vget s (snd q)))) as [(H1 & H2)|(H1 & H2)]; rewrite H2.
        + left. exists q. auto.
        + right. auto. }
    intros NE. destruct l as [|q l]; [congruence|]. simpl.
    destruct (G l (vlevel (vget s (snd q)))) as [(p & Hp & E)|E].
    - exists p. auto.
    - exists q. split; auto.
  Qed.

  Lemma fallback_ok s choice : 
    match (if valid_fallback s choice then choice else default_fallback s) with
    | None => idmap s = []
    | Some e => exists id, In (id, e) (idmap s)
    end.
  Proof.
    destruct (valid_fallback s choice) eqn:V.
    - unfold valid_fallback in V. destruct (idmap s) as [|p l] eqn:EM, choice as [t|]; try discriminate; auto.
      apply Bool.andb_true_iff in V. destruct V as (V & _). apply existsb_exists in V. destruct V as ([i k] & Hin & Hk).
      apply Nat.eqb_eq in Hk. simpl in Hk. subst k. exists i. auto.
    - unfold default_fallback.
      destruct (filter (fun p => Nat.eqb (vlevel (vget s (snd p))) (max_level_of s)) (idmap s)) as [|p l] eqn:EF.
      + assert (NE : idmap s = [] \/ idmap s <> []) by (destruct (idmap s); [left; auto|right; discriminate]).
        destruct NE as [NE|NE]; auto. exfalso.
        destruct (max_level_attained s (idmap s) NE) as (p & Hp & E).
        assert (Hf : In p (filter (fun p => Nat.eqb (vlevel (vget s (snd p))) (max_level_of s)) (idmap s))).
        { apply filter_In. split; auto. apply Nat.eqb_eq. exact E. }
        rewrite EF in Hf. destruct Hf.
      + assert (Hf : In p (filter (fun p => Nat.eqb (vlevel (vget s (snd p))) (max_level_of s)) (idmap s))) by (rewrite EF; left; auto).
        apply filter_In in Hf. destruct Hf as (Hin & _). destruct p as [i k]. exists i. auto.
  Qed.

  Lemma set_entry_same s : set_entry s (entry s) = s.
  Proof. destruct s; reflexivity. Qed.

  Lemma remove_absent s id choice uord : Inv s -> view h_ops s id = None -> remove dist ord c s id choice uord = (s, SNotFound).
  Proof.
    intros I E. rewrite view_lookup in E by auto. unfold remove, remove_vertex.
    destruct (lookup_id s id); [discriminate|auto].
  Qed.

  Lemma remove_present s id x choice uord : Inv s -> view h_ops s id = Some x ->
    exists s', remove dist ord c s id choice uord = (s', SOk) /\ Inv s' /\ Permutation (h_items s) ((id, x) :: h_items s').
  Proof.
    intros I E. rewrite view_lookup in E by auto. unfold remove.
    destruct (remove_vertex s id) as [[s1 n]|] eqn:ER.
    2:{ unfold remove_vertex in ER. destruct (lookup_id s id); discriminate. }
    destruct (remove_vertex_spec s id s1 n I ER) as (Hin & D1 & E1 & P & GK & GN & L1).
    assert (LK : lookup_id s id = Some n) by (apply lookup_in; auto). rewrite LK in E. inversion E; subst x. clear E.
    set (s2 := match entry s1 with
               | Some e => if Nat.eqb e n then
                             match handover_levels ord s1 (vget s1 n) (vlevel (vget s1 n)) (S (vlevel (vget s1 n))) with
                             | Some t => set_entry s1 (Some t)
                             | None => set_entry s1 (if valid_fallback s1 choice then choice else default_fallback s1)
                             end
                           else s1
               | None => s1
               end).
    assert (D2 : same_data s1 s2 /\ entry_ok s2).
    { unfold s2. destruct (entry s1) as [e|] eqn:EE.
      - destruct (Nat.eqb_spec e n) as [->|Hne].
        + destruct (handover_levels ord s1 (vget s1 n) (vlevel (vget s1 n)) (S (vlevel (vget s1 n)))) as [t|] eqn:EH.
          * split; [apply set_entry_data|]. unfold entry_ok. simpl. exists (vid (vget s1 t)).
            apply live_in; auto. eapply handover_live; eauto.
          * split; [apply set_entry_data|]. unfold entry_ok. simpl. apply fallback_ok.
        + split; [apply same_data_refl|]. unfold entry_ok. rewrite EE.
          pose proof (inv_entry _ I) as IE. rewrite <- E1 in IE. destruct IE as (ide & Hide).
          exists ide. eapply Permutation_in in Hide; [|exact P]. destruct Hide as [Heq|]; auto. inversion Heq. congruence.
      - split; [apply same_data_refl|]. unfold entry_ok. rewrite EE.
        pose proof (inv_entry _ I) as IE. rewrite <- E1 in IE. rewrite IE in Hin. destruct Hin. }
    destruct D2 as (D2 & EO2).
    assert (I2 : Inv s2).
    { apply Inv_split. split; auto. destruct D1 as (A & B & C & D & F). destruct D2 as (DA & DB & DC & DD).
      pose proof (same_data_length s1 s2 (conj DA (conj DB (conj DC DD)))) as LL.
      assert (GV : forall k, vid (vget s2 k) = vid (vget s1 k) /\ vdel (vget s2 k) = vdel (vget s1 k)).
      { intros k. pose proof (vget_data s1 s2 k DA) as H. unfold vdata in H. inversion H. auto. }
      unfold InvD. rewrite <- DB, <- LL, <- DC, <- DD. repeat split; auto.
      - destruct (B _ _ H) as (X & _). auto.
      - destruct (B _ _ H) as (_ & X & _). destruct (GV n0) as (-> & _). auto.
      - destruct (B _ _ H) as (_ & _ & X). destruct (GV n0) as (_ & ->). auto.
      - intros k Hk Hd. destruct (GV k) as (G1 & G2). rewrite G1. apply C; auto. rewrite <- G2. auto.
      - rewrite <- (hsum_data s1 s2 (conj DA (conj DB (conj DC DD)))). auto. }
    set (s3 := unlink_levels dist ord c uord s2 n (vlevel (vget s1 n)) (S (vlevel (vget s1 n)))).
    pose proof (unlink_levels_data dist ord c uord (S (vlevel (vget s1 n))) s2 n (vlevel (vget s1 n))) as D3. fold s3 in D3.
    pose proof (unlink_levels_entry uord (S (vlevel (vget s1 n))) s2 n (vlevel (vget s1 n))) as E3. fold s3 in E3.
    exists s3. split; [reflexivity|]. split; [apply (Inv_data s2 s3 D3 E3 I2)|].
    rewrite (h_items_data s2 s3 D3), (h_items_data s1 s2 D2). unfold h_items.
    apply (Permutation_map (fun p => (fst p, (vvec (vget s (snd p)), vmeta (vget s (snd p)))))) in P. simpl in P.
    rewrite P. constructor.
    assert (EQ : map (fun p => (fst p, (vvec (vget s (snd p)), vmeta (vget s (snd p))))) (idmap s1) =
                 map (fun p => (fst p, (vvec (vget s1 (snd p)), vmeta (vget s1 (snd p))))) (idmap s1)).
    { apply map_ext_in. intros [i k] Hk. simpl. destruct D1 as (_ & B & _). 
      destruct (Nat.eq_dec k n) as [->|Hne]; [|rewrite GK; auto].
      destruct (B _ _ Hk) as (_ & _ & X). rewrite GN in X. simpl in X. discriminate. }
    rewrite EQ. auto.
  Qed.

  Lemma getvertex_spec s id : Inv s ->
    match getvertex s id with Some (m, _) => exists v, view h_ops s id = Some (v, m) | None => view h_ops s id = None end.
  Proof. intros I. rewrite view_lookup by auto. unfold getvertex. destruct (lookup_id s id); eauto. Qed.

  Lemma h_nodup s : Inv s -> NoDup (map fst (h_items s)).
  Proof. intros I. unfold h_items. rewrite map_map. simpl. apply (inv_nodup _ I). Qed.

  (* the HNSW index meets the store contract of C02 / C04 *)
  Theorem h_contract : contract h_ops Inv.
  Proof.
    constructor.
    - exact h_nodup.
    - intros. eapply insert_exists; eauto.
    - intros. apply insert_new; auto.
    - intros. apply remove_absent; auto.
    - intros. apply remove_present; auto.
    - intros. apply getvertex_spec; auto.
  Qed.

  (* counters *)
  Theorem h_counts s : Inv s -> hlen s = wrap (N.of_nat (length (h_items s))) /\ hbytes s = wrap (hsum s).
  Proof. intros I. unfold h_items. rewrite map_length. split; [apply (inv_len _ I)|apply (inv_bytes _ I)]. Qed.
End Ops.
