(* Hnsw/Model.v — sequential model of index/hnsw.go (Insert, Remove, Search, searchLevel, greedyClosestNeighbor,
   selectNeighbors*, pruneNeighbors, the entry-point hand-over).  Vertices live in an arena indexed by serial number,
   so tombstoned vertices that are still linked are first-class.  Distances are a parameter (float32 bit patterns of
   non-negative, non-NaN values are order-isomorphic to integers); the order in which Go iterates an edge map is a
   parameter [ord].  Priority queues are sorted lists (exact when priorities are distinct).  Executable; no proofs. *)
From Verif Require Import Base.Prelude Store.Spec Store.Partition.
Open Scope N_scope.

Definition edge := (nat * Z)%type.                    (* target serial, cached distance *)
Record vertex := { vid : N; vvec : vec; vmeta : meta; vlevel : nat; vdel : bool; vedges : list (list edge) }.
Record hnsw := { arena : list vertex; idmap : list (N * nat); entry : option nat; hlen : N; hbytes : N }.
Record cfg := { c_m : nat; c_mmax : nat; c_mmax0 : nat; c_ef : nat; c_efc : nat;
                c_heur : bool; c_extend : bool; c_keep : bool }.

Definition hnsw_empty : hnsw := {| arena := []; idmap := []; entry := None; hlen := 0; hbytes := 0 |}.
Definition dv : vertex := {| vid := 0; vvec := []; vmeta := []; vlevel := 0; vdel := true; vedges := [] |}.
Definition vget (s : hnsw) (n : nat) : vertex := nth n (arena s) dv.
Definition edges_at (v : vertex) (l : nat) : list edge := nth l (vedges v) [].
Definition lookup_id (s : hnsw) (id : N) : option nat := alookup id (idmap s).

(* ---- primitive graph edits: they touch nothing but edge lists and the entry point ---- *)
Definition with_edges (v : vertex) (l : nat) (es : list edge) : vertex :=
  {| vid := vid v; vvec := vvec v; vmeta := vmeta v; vlevel := vlevel v; vdel := vdel v; vedges := upd (vedges v) l es |}.
Definition set_edges (s : hnsw) (n l : nat) (es : list edge) : hnsw :=
  {| arena := upd (arena s) n (with_edges (vget s n) l es); idmap := idmap s; entry := entry s; hlen := hlen s; hbytes := hbytes s |}.
Definition set_entry (s : hnsw) (e : option nat) : hnsw :=
  {| arena := arena s; idmap := idmap s; entry := e; hlen := hlen s; hbytes := hbytes s |}.

(* edges[level][target] = distance (map assignment) / delete(edges[level], target) *)
Fixpoint put_edge (t : nat) (d : Z) (es : list edge) : list edge :=
  match es with
  | [] => [(t, d)]
  | (t', d') :: r => if Nat.eqb t' t then (t, d) :: r else (t', d') :: put_edge t d r
  end.
Definition add_edge (s : hnsw) (n l t : nat) (d : Z) : hnsw := set_edges s n l (put_edge t d (edges_at (vget s n) l)).
Definition remove_edge (s : hnsw) (n l t : nat) : hnsw :=
  set_edges s n l (filter (fun e => negb (Nat.eqb (fst e) t)) (edges_at (vget s n) l)).

(* ---- priority queues as ascending lists of (priority, serial) ---- *)
Definition qitem := (Z * nat)%type.
Fixpoint qins (x : qitem) (q : list qitem) : list qitem :=
  match q with
  | [] => [x]
  | y :: r => if (fst x <? fst y)%Z then x :: q else y :: qins x r
  end.
Definition qmax (q : list qitem) : option qitem := match rev q with [] => None | x :: _ => Some x end.

Section Algorithms.
  Variable dist : vec -> vec -> Z.                       (* space.Distance as an order-embedded integer *)
  Variable ord : list edge -> list edge.                 (* iteration order of one `range` over an edge map *)
  Variable c : cfg.

  Definition vdist (s : hnsw) (q : vec) (n : nat) : Z := dist q (vvec (vget s n)).
  Definition live (s : hnsw) (n : nat) : bool := negb (vdel (vget s n)).
  Definition mem_nat (n : nat) (l : list nat) : bool := existsb (Nat.eqb n) l.

  (* greedyClosestNeighbor: follow strictly improving live neighbours at [level] *)
  Definition greedy_step (s : hnsw) (q : vec) (ep : nat) (minD : Z) (level : nat) : option (nat * Z) :=
    fold_left (fun (best : option (nat * Z)) (e : edge) =>
                 let cur := match best with Some (_, d) => d | None => minD end in
                 if live s (fst e) then
                   let d := vdist s q (fst e) in if (d <? cur)%Z then Some (fst e, d) else best
                 else best)
              (ord (edges_at (vget s ep) level)) None.
  Fixpoint greedy (fuel : nat) (s : hnsw) (q : vec) (ep : nat) (minD : Z) (level : nat) : nat * Z :=
    match fuel with
    | O => (ep, minD)
    | S f => match greedy_step s q ep minD level with
             | None => (ep, minD)
             | Some (n, d) => greedy f s q n d level
             end
    end.
  Fixpoint greedy_down (s : hnsw) (q : vec) (ep : nat) (minD : Z) (from : nat) (cnt : nat) : nat * Z :=
    (* levels from, from-1, …, from-cnt+1 *)
    match cnt with
    | O => (ep, minD)
    | S k => let '(ep', d') := greedy (S (length (arena s))) s q ep minD from in greedy_down s q ep' d' (from - 1) k
    end.

  (* searchLevel *)
  Record sl_state := { sl_cand : list qitem; sl_res : list qitem; sl_vis : list nat }.
  Definition sl_visit (s : hnsw) (q : vec) (ef : nat) (lower : Z) (st : sl_state) (e : edge) : sl_state :=
    let n := fst e in
    if negb (live s n) then st
    else if mem_nat n (sl_vis st) then st
    else
      let d := vdist s q n in
      let vis := n :: sl_vis st in
      if (d <? lower)%Z || (length (sl_res st) <? ef)%nat then
        let res := qins (d, n) (sl_res st) in
        {| sl_cand := qins (d, n) (sl_cand st);
           sl_res := if (ef <? length res)%nat then removelast res else res;
           sl_vis := vis |}
      else {| sl_cand := sl_cand st; sl_res := sl_res st; sl_vis := vis |}.
  Fixpoint sl_loop (fuel : nat) (s : hnsw) (q : vec) (ef level : nat) (st : sl_state) : sl_state :=
    match fuel with
    | O => st
    | S f =>
        match sl_cand st with
        | [] => st
        | (dc, cn) :: rest =>
            match qmax (sl_res st) with
            | None => st                                   (* Peek on an empty queue: cannot happen (see proofs) *)
            | Some (lower, _) =>
                if (lower <? dc)%Z then st                 (* candidate worse than the worst result: stop *)
                else
                  let st1 := {| sl_cand := rest; sl_res := sl_res st; sl_vis := sl_vis st |} in
                  sl_loop f s q ef level (fold_left (sl_visit s q ef lower) (ord (edges_at (vget s cn) level)) st1)
            end
        end
    end.
  Definition search_level (s : hnsw) (q : vec) (ep ef level : nat) : list qitem :=
    let d0 := vdist s q ep in
    sl_res (sl_loop (S (length (arena s))) s q ef level {| sl_cand := [(d0, ep)]; sl_res := [(d0, ep)]; sl_vis := [ep] |}).

  (* selectNeighbors / selectNeighborsHeuristic: the k closest of the (optionally extended) candidates *)
  Definition select_simple (res : list qitem) (k : nat) : list qitem := firstn k res.
  Definition extend_visit (s : hnsw) (q : vec) (st : list qitem * list nat) (e : edge) : list qitem * list nat :=
    let n := fst e in
    if negb (live s n) then st
    else if mem_nat n (snd st) then st
    else (qins (vdist s q n, n) (fst st), n :: snd st).
  Definition select_heur (s : hnsw) (q : vec) (res : list qitem) (k level : nat) : list qitem :=
    let cands :=
      if c_extend c then
        fst (fold_left (fun st x => fold_left (extend_visit s q) (ord (edges_at (vget s (snd x)) level)) st)
                       (rev res) (res, map snd res))
      else res in
    firstn k cands.
  Definition select (s : hnsw) (q : vec) (res : list qitem) (k level : nat) : list qitem :=
    if c_heur c then select_heur s q res k level else select_simple res k.

  (* pruneNeighbors *)
  Definition prune (s : hnsw) (n k level : nat) : hnsw :=
    let q := fold_left (fun acc e => if live s (fst e) then qins (snd e, fst e) acc else acc)
                       (ord (edges_at (vget s n) level)) [] in
    let kept := select s (vvec (vget s n)) q k level in
    set_edges s n level (map (fun x => (snd x, fst x)) kept).

  Definition mmax_at (level : nat) : nat := match level with O => c_mmax0 c | _ => c_mmax c end.

  (* storeVertex / removeVertex *)
  Definition store_vertex (s : hnsw) (id : N) (v : vec) (m : meta) (lvl : nat) : option (hnsw * nat) :=
    match lookup_id s id with
    | Some _ => None
    | None =>
        let n := length (arena s) in
        let vx := {| vid := id; vvec := v; vmeta := m; vlevel := lvl; vdel := false; vedges := repeat [] (S lvl) |} in
        Some ({| arena := arena s ++ [vx]; idmap := (id, n) :: idmap s; entry := entry s;
                 hlen := wrap (hlen s + 1); hbytes := wrap (hbytes s + wrap (item_bytes v m)) |}, n)
    end.
  Definition tombstone (v : vertex) : vertex :=
    {| vid := vid v; vvec := vvec v; vmeta := vmeta v; vlevel := vlevel v; vdel := true; vedges := vedges v |}.
  Definition removed_state (s : hnsw) (id : N) (n : nat) : hnsw :=
    let vx := vget s n in
    {| arena := upd (arena s) n (tombstone vx); idmap := aremove id (idmap s); entry := entry s;
       hlen := wrap (hlen s + (two64 - 1));
       hbytes := wrap (hbytes s + (two64 - 1 - wrap (wrap (item_bytes (vvec vx) (vmeta vx)) + (two64 - 1)))) |}.
  Definition remove_vertex (s : hnsw) (id : N) : option (hnsw * nat) :=
    match lookup_id s id with
    | None => None
    | Some n => Some (removed_state s id n, n)
    end.

  (* one level of Insert: search, select, link both ways, prune over-full neighbours; returns the next start vertex *)
  Definition link_one (level n : nat) (acc : hnsw * nat) (x : qitem) : hnsw * nat :=
    let '(s, _) := acc in
    let t := snd x in
    let s1 := add_edge s n level t (fst x) in
    let s2 := add_edge s1 t level n (fst x) in
    let s3 := if (mmax_at level <? length (edges_at (vget s2 t) level))%nat then prune s2 t (mmax_at level) level else s2 in
    (s3, t).
  Fixpoint insert_levels (s : hnsw) (n : nat) (ep : nat) (level : nat) (cnt : nat) : hnsw :=
    (* levels level, level-1, …: cnt of them *)
    match cnt with
    | O => s
    | S k =>
        let q := vvec (vget s n) in
        let found := search_level s q ep (c_efc c) level in
        let sel := select s q found (c_m c) level in
        (* neighbors.Pop() pops the farthest first; the last one popped (the closest) is the next start *)
        let '(s', ep') := fold_left (link_one level n) (rev sel) (s, ep) in
        insert_levels s' n ep' (level - 1) k
    end.

  Definition insert (s : hnsw) (id : N) (v : vec) (m : meta) (lvl : nat) : hnsw * status :=
    match entry s with
    | None =>
        match store_vertex s id v m 0 with
        | None => (s, SExists)
        | Some (s1, n) => (set_entry s1 (Some n), SOk)
        end
    | Some e0 =>
        match store_vertex s id v m lvl with
        | None => (s, SExists)
        | Some (s1, n) =>
            let elevel := vlevel (vget s1 e0) in
            let '(ep, _) := greedy_down s1 v e0 (vdist s1 v e0) elevel (elevel - lvl) in
            let top := Nat.min (vlevel (vget s1 ep)) lvl in
            let s2 := insert_levels s1 n ep top (S top) in
            let s3 := match entry s2 with
                      | Some e1 => if (vlevel (vget s2 e1) <? lvl)%nat then set_entry s2 (Some n) else s2
                      | None => s2
                      end in
            (s3, SOk)
        end
    end.

  (* the hand-over of the entry point in Remove (after the fix): closest live linked neighbour on the highest level
     of the removed vertex that has one; otherwise any remaining vertex of the highest level, [choice] being the one
     the map iteration happened to find *)
  Definition closest_live (s : hnsw) (es : list edge) (cur : option (nat * Z)) : option (nat * Z) :=
    fold_left (fun best e => if live s (fst e) then
                               match best with
                               | Some (_, d) => if (snd e <? d)%Z then Some e else best
                               | None => Some e
                               end
                             else best) (ord es) cur.
  Fixpoint handover_levels (s : hnsw) (vx : vertex) (level cnt : nat) : option nat :=
    match cnt with
    | O => None
    | S k => match closest_live s (edges_at vx level) None with
             | Some (t, _) => Some t
             | None => handover_levels s vx (level - 1) k
             end
    end.
  Definition max_level_of (s : hnsw) : nat := fold_left (fun a p => Nat.max a (vlevel (vget s (snd p)))) (idmap s) O.
  Definition valid_fallback (s : hnsw) (choice : option nat) : bool :=
    match idmap s, choice with
    | [], None => true
    | _ :: _, Some t => existsb (fun p => Nat.eqb (snd p) t) (idmap s) && Nat.eqb (vlevel (vget s t)) (max_level_of s)
    | _, _ => false
    end.
  Definition default_fallback (s : hnsw) : option nat :=
    match filter (fun p => Nat.eqb (vlevel (vget s (snd p))) (max_level_of s)) (idmap s) with
    | p :: _ => Some (snd p)
    | [] => None
    end.

  Definition unlink_one (level n : nat) (s : hnsw) (e : edge) : hnsw :=
    prune (remove_edge s (fst e) level n) (fst e) (mmax_at level) level.
  (* [uord level] = the order in which this Remove call's `range` over the removed vertex's level-[level] edge map
     visits the neighbours (map iteration order: an oracle of the call, like [choice]) *)
  Fixpoint unlink_levels (uord : nat -> list edge -> list edge) (s : hnsw) (n : nat) (level cnt : nat) : hnsw :=
    match cnt with
    | O => s
    | S k => unlink_levels uord (fold_left (unlink_one level n) (uord level (edges_at (vget s n) level)) s) n (level - 1) k
    end.

  Definition remove (s : hnsw) (id : N) (choice : option nat) (uord : nat -> list edge -> list edge) : hnsw * status :=
    match remove_vertex s id with
    | None => (s, SNotFound)
    | Some (s1, n) =>
        let vx := vget s1 n in
        let s2 :=
          match entry s1 with
          | Some e => if Nat.eqb e n then
                        match handover_levels s1 vx (vlevel vx) (S (vlevel vx)) with
                        | Some t => set_entry s1 (Some t)
                        | None => set_entry s1 (if valid_fallback s1 choice then choice else default_fallback s1)
                        end
                      else s1
          | None => s1
          end in
        (unlink_levels uord s2 n (vlevel vx) (S (vlevel vx)), SOk)
    end.

  (* the level-0 beam of a search: max(ef, min(k, Len())) — a beam wider than the index holds nothing more *)
  Definition beam_width (s : hnsw) (k : nat) : nat := Nat.max (c_ef c) (Nat.min k (N.to_nat (hlen s))).

  (* Search(query, k): ids with their metadata and score, ascending *)
  Definition search (s : hnsw) (q : vec) (k : nat) : list (N * meta * Z) :=
    match entry s with
    | None => []
    | Some e0 =>
        let elevel := vlevel (vget s e0) in
        let '(ep, _) := greedy_down s q e0 (vdist s q e0) elevel elevel in
        let found := search_level s q ep (beam_width s k) 0 in
        let sel := select s q found k 0 in
        map (fun x => (vid (vget s (snd x)), vmeta (vget s (snd x)), fst x)) (firstn k sel)
    end.

  (* the level-0 search as Search performs it *)
  Definition beam (s : hnsw) (q : vec) (k : nat) : list qitem :=
    match entry s with
    | None => []
    | Some e0 =>
        let elevel := vlevel (vget s e0) in
        let '(ep, _) := greedy_down s q e0 (vdist s q e0) elevel elevel in
        search_level s q ep (beam_width s k) 0
    end.

  Definition getvertex (s : hnsw) (id : N) : option (meta * nat) :=
    match lookup_id s id with Some n => Some (vmeta (vget s n), vlevel (vget s n)) | None => None end.
  Definition h_items (s : hnsw) : list (N * item) := map (fun p => (fst p, (vvec (vget s (snd p)), vmeta (vget s (snd p))))) (idmap s).
End Algorithms.

(* does a beam contain every live vertex? *)
Definition covers_b (s : hnsw) (found : list qitem) : bool :=
  forallb (fun p => existsb (fun x => Nat.eqb (snd x) (snd p)) found) (idmap s).
