(* Hnsw/Oracle.v — histories in which EVERY call has its own iteration orders (each `range` over a Go map may visit the
   entries in a different order on every call): the invariant and the contents do not depend on any of them. *)
From Verif Require Import Base.Prelude Store.Spec Store.Partition Store.Proofs Store.Simple Hnsw.Model Hnsw.Frame Hnsw.Inv.
Open Scope N_scope.

Definition ordfn := list edge -> list edge.
Inductive hstep :=
| SIns (o : ordfn) (id : N) (v : vec) (m : meta) (l : nat)
| SRem (o : ordfn) (ch : option nat) (uo : nat -> ordfn) (id : N).

Section O.
  Variable dist : vec -> vec -> Z.
  Variable c : cfg.
  Definition hstep_apply (s : hnsw) (st : hstep) : hnsw :=
    match st with
    | SIns o id v m l => fst (insert dist o c s id v m l)
    | SRem o ch uo id => fst (remove dist o c s id ch uo)
    end.
  Definition spec_step (cont : list (N * item)) (st : hstep) : list (N * item) :=
    match st with
    | SIns _ id v m _ => match alookup id cont with Some _ => cont | None => (id, (v, m)) :: cont end
    | SRem _ _ _ id => aremove id cont
    end.

  Lemma any_order_step s cont st : Inv s -> Permutation (h_items s) cont ->
    Inv (hstep_apply s st) /\ Permutation (h_items (hstep_apply s st)) (spec_step cont st).
  Proof.
    intros I P. pose proof (h_nodup s I) as ND.
    destruct st as [o id v m l|o ch uo id]; simpl.
    - rewrite <- (alookup_perm id _ _ ND P).
      destruct (alookup id (h_items s)) as [x|] eqn:E.
      + rewrite (insert_exists dist o c s id v m l x I E). auto.
      + destruct (insert_new dist o c s id v m l I E) as (s' & -> & I' & P'). simpl. split; auto.
        rewrite P'. constructor. auto.
    - destruct (alookup id (h_items s)) as [x|] eqn:E.
      + destruct (remove_present dist o c s id x ch uo I E) as (s' & -> & I' & P'). simpl. split; auto.
        assert (NDc : NoDup (map fst cont)) by (eapply Permutation_NoDup; [apply Permutation_map; exact P|exact ND]).
        assert (Ec : alookup id cont = Some x) by (rewrite <- (alookup_perm id _ _ ND P); auto).
        destruct (aremove_spec id cont x NDc Ec) as (Pc & _).
        apply (Permutation_cons_inv (a := (id, x))). rewrite <- P', <- Pc. auto.
      + rewrite (remove_absent dist o c s id ch uo I E). simpl. split; auto.
        assert (Ec : alookup id cont = None) by (rewrite <- (alookup_perm id _ _ ND P); auto).
        rewrite P. clear -Ec. induction cont as [|[k y] t IH]; simpl in *; auto.
        destruct (k =? id); [discriminate|]. rewrite <- IH; auto.
  Qed.

  Theorem any_order_run : forall steps s cont, Inv s -> Permutation (h_items s) cont ->
    Inv (fold_left hstep_apply steps s) /\ Permutation (h_items (fold_left hstep_apply steps s)) (fold_left spec_step steps cont).
  Proof.
    induction steps as [|st r IH]; intros s cont I P; simpl; auto.
    destruct (any_order_step s cont st I P) as (I' & P'). apply IH; auto.
  Qed.
End O.
