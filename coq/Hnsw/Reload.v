(* Hnsw/Reload.v — C01: saving an index and loading it into a fresh one (the model's [reload]: only live vertices
   survive, serials are renumbered in insertion order, links to tombstones disappear, counters are recomputed) keeps the
   structural invariant and the contents, so everything proved for reachable states — search soundness included —
   holds after any snapshot save-and-load in the history. *)
From Verif Require Import Base.Prelude Store.Spec Store.Partition Store.Proofs Store.Simple Hnsw.Model Hnsw.Frame Hnsw.Inv Hnsw.Check.
From Coq Require Import ZifyN ZifyBool ZifyNat.
Local Open Scope nat_scope.

Lemma index_of_in n l : forall i, In n l -> exists j, index_of n l i = Some (i + j) /\ j < length l /\ nth j l 0 = n.
Proof.
  induction l as [|x t IH]; intros i H; [destruct H|]. simpl. destruct (Nat.eqb_spec x n) as [->|Hne].
  - exists 0. split; [f_equal; lia|split; [simpl; lia|reflexivity]].
  - destruct H as [H|H]; [congruence|]. destruct (IH (S i) H) as (j & E & L & N). exists (S j).
    split; [rewrite E; f_equal; lia|split; [simpl; lia|exact N]].
Qed.
Lemma index_of_nodup l : forall i j, NoDup l -> j < length l -> index_of (nth j l 0) l i = Some (i + j).
Proof.
  induction l as [|x t IH]; intros i j ND Hj; [simpl in Hj; lia|]. inversion ND; subst. destruct j as [|j]; simpl.
  - rewrite Nat.eqb_refl. f_equal. lia.
  - destruct (Nat.eqb_spec x (nth j t 0)) as [E|Hne].
    + exfalso. apply H1. rewrite E. apply nth_In. simpl in Hj. lia.
    + rewrite IH by (auto; simpl in Hj; lia). f_equal. lia.
Qed.
Lemma NoDup_map_inj_in {A B} (f : A -> B) (l : list A) :
  (forall x y, In x l -> In y l -> f x = f y -> x = y) -> NoDup l -> NoDup (map f l).
Proof.
  induction l as [|a l IH]; intros INJ ND; simpl; [constructor|]. inversion ND; subst. constructor.
  - intros H. apply in_map_iff in H. destruct H as (y & E & Hy). assert (y = a) by (apply INJ; [right; auto|left; auto|auto]). subst. auto.
  - apply IH; auto. intros x y Hx Hy. apply INJ; right; auto.
Qed.
Definition sumN (l : list N) : N := fold_right N.add 0%N l.
Lemma sumN_perm l l' : Permutation l l' -> sumN l = sumN l'.
Proof. intros P. induction P; simpl; try lia. Qed.
Lemma fold_sum {A} (f : A -> N) (l : list A) : fold_right (fun x a => (f x + a)%N) 0%N l = sumN (map f l).
Proof. induction l as [|x l IH]; simpl; auto. rewrite IH. reflexivity. Qed.

Section Reload.
  Variable s : hnsw.
  Hypothesis I : Inv s.
  Let L := idmap s.
  Let livs := map snd (rev L).
  Let G (p : N * nat) : N * nat := (fst p, match index_of (snd p) livs 0 with Some j => j | None => 0 end).

  Lemma reload_idmap : idmap (reload s) = map G L.
  Proof. unfold reload. cbn [idmap]. fold L. fold livs. rewrite map_rev, rev_involutive. reflexivity. Qed.
  Lemma reload_arena : arena (reload s) = map (reload_vertex s livs) livs.
  Proof. reflexivity. Qed.
  Lemma livs_len : length livs = length L.
  Proof. unfold livs. rewrite map_length, rev_length. reflexivity. Qed.
  Lemma in_livs n : In n livs <-> exists id, In (id, n) L.
  Proof.
    unfold livs. rewrite in_map_iff. split.
    - intros ([id n'] & E & H). simpl in E. subst. exists id. apply in_rev. exact H.
    - intros (id & H). exists (id, n). split; auto. apply in_rev in H. exact H.
  Qed.
  Lemma snd_nodup : NoDup (map snd L).
  Proof.
    apply NoDup_map_inj_in.
    - intros [i1 n1] [i2 n2] H1 H2 E. simpl in E. subst n2.
      destruct (inv_map _ I _ _ H1) as (_ & V1 & _). destruct (inv_map _ I _ _ H2) as (_ & V2 & _). congruence.
    - apply (NoDup_map_inv fst). apply (inv_nodup _ I).
  Qed.
  Lemma livs_nodup : NoDup livs.
  Proof. unfold livs. rewrite map_rev. apply (Permutation_NoDup (Permutation_rev _)). apply snd_nodup. Qed.

  Lemma vget_reload j : j < length livs -> vget (reload s) j = reload_vertex s livs (nth j livs 0).
  Proof.
    intros Hj. unfold vget. rewrite reload_arena.
    rewrite (nth_indep _ dv (reload_vertex s livs 0)) by (rewrite map_length; auto). apply map_nth.
  Qed.
  (* the new serial of an old live vertex *)
  Lemma serial_of_live id n : In (id, n) L ->
    exists j, index_of n livs 0 = Some j /\ j < length livs /\ nth j livs 0 = n /\ G (id, n) = (id, j).
  Proof.
    intros H. destruct (index_of_in n livs 0) as (j & E & Lj & Nj); [apply in_livs; eauto|].
    exists j. simpl in E. split; [auto|split; [auto|split; [auto|]]]. unfold G. cbn [fst snd]. rewrite E. reflexivity.
  Qed.

  Theorem reload_inv : Inv (reload s).
  Proof.
    constructor.
    - rewrite reload_idmap, map_map. unfold G. cbn [fst]. apply (inv_nodup _ I).
    - intros id j H. rewrite reload_idmap in H. apply in_map_iff in H. destruct H as ([id0 n] & E & Hp).
      destruct (serial_of_live id0 n Hp) as (j0 & _ & Lj & Nj & EG). rewrite EG in E. injection E as E1 E2. subst id j.
      rewrite reload_arena, map_length. split; [auto|]. rewrite vget_reload by auto. rewrite Nj. unfold reload_vertex. cbn [vid vdel].
      destruct (inv_map _ I _ _ Hp) as (_ & V & _). auto.
    - intros j Hj _. rewrite reload_arena, map_length in Hj. rewrite vget_reload by auto. unfold reload_vertex. cbn [vid].
      set (n := nth j livs 0). assert (Hn : In n livs) by (apply nth_In; auto).
      apply in_livs in Hn. destruct Hn as (id & Hp). destruct (inv_map _ I _ _ Hp) as (_ & V & _).
      rewrite reload_idmap. apply in_map_iff. exists (id, n). split; auto.
      unfold G. cbn [fst snd]. unfold n. rewrite (index_of_nodup livs 0 j livs_nodup Hj). simpl. fold n. rewrite V. reflexivity.
    - pose proof (inv_entry _ I) as IE. unfold reload. cbn [entry idmap]. fold L. fold livs. destruct (Model.entry s) as [e|].
      + destruct IE as (ide & Hide). destruct (serial_of_live ide e Hide) as (j & E & _ & _ & EG). rewrite E.
        exists ide. rewrite map_rev, rev_involutive. apply in_map_iff. exists (ide, e). split; auto.
      + fold L in IE. rewrite IE. reflexivity.
    - rewrite reload_idmap, map_length. unfold reload. cbn [hlen]. fold L. fold livs. rewrite livs_len. reflexivity.
    - unfold reload at 1. cbn [hbytes]. fold L. fold livs. f_equal. unfold hsum. rewrite reload_idmap.
      rewrite (fold_sum (fun n => item_bytes (vvec (vget s n)) (vmeta (vget s n))) livs).
      rewrite (fold_sum (fun p => item_bytes (vvec (vget (reload s) (snd p))) (vmeta (vget (reload s) (snd p)))) (map G L)).
      rewrite map_map. unfold livs. rewrite map_map.
      rewrite (sumN_perm _ _ (Permutation_map _ (Permutation_sym (Permutation_rev L)))).
      f_equal. apply map_ext_in. intros [id n] Hp. destruct (serial_of_live id n Hp) as (j & _ & Lj & Nj & EG).
      rewrite EG. cbn [snd]. rewrite vget_reload by auto. rewrite Nj. reflexivity.
  Qed.

  Theorem reload_items : h_items (reload s) = h_items s.
  Proof.
    unfold h_items. rewrite reload_idmap, map_map. fold L. apply map_ext_in. intros [id n] Hp.
    destruct (serial_of_live id n Hp) as (j & _ & Lj & Nj & EG). rewrite EG. cbn [fst snd]. rewrite vget_reload by auto. rewrite Nj. reflexivity.
  Qed.
End Reload.

(* histories of inserts and removes (every call with iteration orders of its own) with snapshot save-and-load anywhere
   in between: the invariant holds and the contents are those of the sequential map (a reload leaves them unchanged) *)
From Verif Require Import Hnsw.Oracle.
Inductive rstep := ROp (st : hstep) | RLoad.
Section Runs.
  Variable dist : vec -> vec -> Z.
  Variable c : cfg.
  Definition rstep_apply (s : hnsw) (r : rstep) : hnsw := match r with ROp st => hstep_apply dist c s st | RLoad => reload s end.
  Definition rspec_step (cont : list (N * item)) (r : rstep) : list (N * item) := match r with ROp st => spec_step cont st | RLoad => cont end.
  Theorem any_order_run_reload : forall steps s cont, Inv s -> Permutation (h_items s) cont ->
    Inv (fold_left rstep_apply steps s) /\ Permutation (h_items (fold_left rstep_apply steps s)) (fold_left rspec_step steps cont).
  Proof.
    induction steps as [|r steps IH]; intros s cont I P; simpl; auto. destruct r as [st|]; simpl.
    - destruct (any_order_step dist c s cont st I P) as (I' & P'). apply IH; auto.
    - apply IH; [apply reload_inv; auto|]. rewrite reload_items; auto.
  Qed.
End Runs.
