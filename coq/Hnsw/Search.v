(* Hnsw/Search.v — C01: what Search returns, for every state satisfying the invariant, every query, k, config,
   distance function and iteration order. *)
From Verif Require Import Base.Prelude Store.Spec Store.Partition Store.Proofs Hnsw.Model Hnsw.Frame Hnsw.Inv.
From Coq Require Import Sorted ZifyN ZifyBool ZifyNat.
Open Scope N_scope.

(* ---- sorted-list queues ---- *)
Definition qle (a b : qitem) : Prop := (fst a <= fst b)%Z.
Definition qsorted (q : list qitem) : Prop := StronglySorted qle q.

Lemma qins_perm x q : Permutation (qins x q) (x :: q).
Proof.
  induction q as [|y r IH]; simpl; auto. destruct (fst x <? fst y)%Z; auto.
  rewrite IH. apply perm_swap.
Qed.
Lemma qins_sorted x q : qsorted q -> qsorted (qins x q).
Proof.
  induction q as [|y r IH]; intros S; simpl.
  - repeat constructor.
  - inversion S; subst. destruct (Z.ltb_spec (fst x) (fst y)).
    + constructor; auto. constructor; [unfold qle; lia|]. eapply Forall_impl; [|exact H2]. unfold qle; intros; lia.
    + constructor; [apply IH; auto|]. apply (Forall_perm _ (x :: r)); [apply Permutation_sym; apply qins_perm|]. constructor; auto; unfold qle; lia.
Qed.
Lemma qins_length x q : length (qins x q) = S (length q).
Proof. rewrite (Permutation_length (qins_perm x q)). auto. Qed.

Lemma in_removelast {A} (l : list A) x : In x (removelast l) -> In x l.
Proof. induction l as [|a l IH]; simpl; auto. destruct l; [tauto|]. intros [->|H]; auto. Qed.
Lemma removelast_sorted q : qsorted q -> qsorted (removelast q).
Proof.
  induction q as [|y r IH]; intros S; simpl; auto. inversion S; subst. destruct r as [|z r']; [constructor|].
  constructor; [apply IH; auto|].
  apply Forall_forall. intros x Hx. apply in_removelast in Hx. eapply Forall_forall in H2; eauto.
Qed.
Lemma removelast_map {A B} (f : A -> B) l : map f (removelast l) = removelast (map f l).
Proof. induction l as [|a l IH]; simpl; auto. destruct l; simpl in *; auto. f_equal. auto. Qed.
Lemma NoDup_removelast {A} (l : list A) : NoDup l -> NoDup (removelast l).
Proof.
  induction l as [|a l IH]; intros H; simpl; auto. inversion H; subst. destruct l; [constructor|].
  constructor; auto. intros Hin. apply H2. apply in_removelast; auto.
Qed.
Lemma in_firstn {A} (l : list A) k x : In x (firstn k l) -> In x l.
Proof. revert k; induction l as [|a l IH]; intros [|k] H; simpl in *; try tauto. destruct H; eauto. Qed.
Lemma firstn_sorted q : forall k, qsorted q -> qsorted (firstn k q).
Proof.
  induction q as [|y r IH]; intros [|k] S; simpl; try constructor.
  - apply IH. inversion S; auto.
  - inversion S; subst. apply Forall_forall. intros x Hx. apply in_firstn in Hx. eapply Forall_forall in H2; eauto.
Qed.
Lemma mem_nat_false n l : mem_nat n l = false -> ~ In n l.
Proof.
  unfold mem_nat. intros H Hin. assert (existsb (Nat.eqb n) l = true) by (apply existsb_exists; exists n; split; auto; apply Nat.eqb_refl).
  congruence.
Qed.

Section Search.
  Variable dist : vec -> vec -> Z.
  Variable ord : list edge -> list edge.
  Variable c : cfg.

  (* an item of a queue: its priority is the true distance of a live vertex *)
  Definition okq (s : hnsw) (q : vec) (x : qitem) : Prop := fst x = vdist dist s q (snd x) /\ live s (snd x) = true.

  (* ---- greedy descent ends on a live vertex ---- *)
  Lemma greedy_step_live s q ep minD level n d : greedy_step dist ord s q ep minD level = Some (n, d) -> live s n = true.
  Proof.
    unfold greedy_step. generalize (ord (edges_at (vget s ep) level)). intros l.
    assert (G : forall l best, (forall n d, best = Some (n, d) -> live s n = true) ->
                forall n d, fold_left (fun (best : option (nat * Z)) (e : edge) =>
                     let cur := match best with Some (_, d) => d | None => minD end in
                     if live s (fst e) then let d := vdist dist s q (fst e) in if (d <? cur)%Z then Some (fst e, d) else best else best) l best = Some (n, d) ->
                live s n = true).
    { induction l0 as [|e l0 IH]; intros best Hb n0 d0; simpl; [apply Hb|]. apply IH.
      intros n1 d1. destruct (live s (fst e)) eqn:EL; [|apply Hb].
      destruct (_ <? _)%Z; [|apply Hb]. intros H; inversion H; subst; auto. }
    apply (G l None). intros; discriminate.
  Qed.
  Lemma greedy_live fuel : forall s q ep minD level, live s ep = true -> live s (fst (greedy dist ord fuel s q ep minD level)) = true.
  Proof.
    induction fuel as [|f IH]; intros s q ep minD level L; simpl; auto.
    destruct (greedy_step dist ord s q ep minD level) as [[n d]|] eqn:E; simpl; auto.
    apply IH. eapply greedy_step_live; eauto.
  Qed.
  Lemma greedy_down_live cnt : forall s q ep minD from, live s ep = true -> live s (fst (greedy_down dist ord s q ep minD from cnt)) = true.
  Proof.
    induction cnt as [|k IH]; intros s q ep minD from L; cbn [greedy_down]; auto.
    pose proof (greedy_live (S (length (arena s))) s q ep minD from L) as G.
    destruct (greedy dist ord (S (length (arena s))) s q ep minD from) as [ep' d']. simpl in G. apply IH; auto.
  Qed.

  (* ---- searchLevel ---- *)
  Definition slJ (s : hnsw) (q : vec) (st : sl_state) : Prop :=
    Forall (okq s q) (sl_cand st) /\ Forall (okq s q) (sl_res st) /\ qsorted (sl_res st) /\
    NoDup (map snd (sl_res st)) /\ incl (map snd (sl_res st)) (sl_vis st) /\ sl_res st <> [].

  Lemma sl_visit_J s q ef lower st e : slJ s q st -> slJ s q (sl_visit dist s q ef lower st e).
  Proof.
    intros (A & B & C & D & E & F). unfold sl_visit.
    destruct (live s (fst e)) eqn:EL; simpl; [|repeat split; auto].
    destruct (mem_nat (fst e) (sl_vis st)) eqn:EM; [repeat split; auto|].
    apply mem_nat_false in EM.
    destruct ((vdist dist s q (fst e) <? lower)%Z || (length (sl_res st) <? ef)%nat).
    2:{ repeat split; auto. simpl. intros x Hx. right. apply E; auto. }
    set (x := (vdist dist s q (fst e), fst e)).
    assert (OK : okq s q x) by (split; auto).
    assert (NI : ~ In (fst e) (map snd (sl_res st))) by (intros H; apply EM; apply E; auto).
    assert (P : Permutation (qins x (sl_res st)) (x :: sl_res st)) by apply qins_perm.
    assert (FB : Forall (okq s q) (qins x (sl_res st))) by (apply (Forall_perm _ (x :: sl_res st)); [apply Permutation_sym; exact P|constructor; auto]).
    assert (ND : NoDup (map snd (qins x (sl_res st)))).
    { eapply Permutation_NoDup; [apply Permutation_map; apply Permutation_sym; exact P|]. simpl. constructor; auto. }
    assert (IN : incl (map snd (qins x (sl_res st))) (fst e :: sl_vis st)).
    { intros y Hy. eapply Permutation_in in Hy; [|apply Permutation_map; exact P]. simpl in Hy. destruct Hy as [<-|Hy]; [left; auto|right; apply E; auto]. }
    unfold slJ. cbn [sl_cand sl_res sl_vis]. split; [|split; [|split; [|split; [|split]]]].
    - apply (Forall_perm _ (x :: sl_cand st)); [apply Permutation_sym; apply qins_perm|constructor; auto].
    - destruct (ef <? _)%nat; auto. apply Forall_forall. intros y Hy. apply in_removelast in Hy. eapply Forall_forall in FB; eauto.
    - destruct (ef <? _)%nat; [apply removelast_sorted|]; apply qins_sorted; auto.
    - destruct (ef <? _)%nat; auto. rewrite removelast_map. apply NoDup_removelast; auto.
    - destruct (ef <? _)%nat; auto. intros y Hy. rewrite removelast_map in Hy. apply in_removelast in Hy. apply IN; auto.
    - destruct (ef <? _)%nat.
      + pose proof (qins_length x (sl_res st)) as L. destruct (sl_res st) as [|r0 rr]; [congruence|].
        destruct (qins x (r0 :: rr)) as [|a [|b t]]; simpl in *; try lia. discriminate.
      + pose proof (qins_length x (sl_res st)) as L. destruct (qins x (sl_res st)); simpl in *; [lia|discriminate].
  Qed.

  Lemma sl_fold_J s q ef lower l : forall st, slJ s q st -> slJ s q (fold_left (sl_visit dist s q ef lower) l st).
  Proof. induction l as [|e l IH]; intros st J; simpl; auto. apply IH. apply sl_visit_J; auto. Qed.

  Lemma sl_loop_J fuel : forall s q ef level st, slJ s q st -> slJ s q (sl_loop dist ord fuel s q ef level st).
  Proof.
    induction fuel as [|f IH]; intros s q ef level st J; simpl; auto.
    destruct (sl_cand st) as [|[dc cn] rest] eqn:EC; auto.
    destruct (qmax (sl_res st)) as [[lower ln]|]; auto.
    destruct (lower <? dc)%Z; auto.
    apply IH. apply sl_fold_J. destruct J as (A & B & C & D & E & F). rewrite EC in A. inversion A; subst.
    repeat split; auto.
  Qed.

  Definition goodq (s : hnsw) (q : vec) (l : list qitem) : Prop :=
    Forall (okq s q) l /\ qsorted l /\ NoDup (map snd l).

  Lemma search_level_good s q ep ef level : live s ep = true ->
    goodq s q (search_level dist ord s q ep ef level) /\ search_level dist ord s q ep ef level <> [].
  Proof.
    intros L. unfold search_level.
    assert (J0 : slJ s q {| sl_cand := [(vdist dist s q ep, ep)]; sl_res := [(vdist dist s q ep, ep)]; sl_vis := [ep] |}).
    { assert (O : okq s q (vdist dist s q ep, ep)) by (split; auto).
      unfold slJ. cbn [sl_cand sl_res sl_vis]. split; [repeat constructor; auto|]. split; [repeat constructor; auto|].
      split; [repeat constructor|]. split; [simpl; constructor; [simpl; tauto|constructor]|]. split; [intros x [<-|[]]; left; auto|discriminate]. }
    destruct (sl_loop_J (S (length (arena s))) s q ef level _ J0) as (A & B & C & D & E & F).
    split; [split; [|split]|]; auto.
  Qed.

  (* ---- selection keeps good queues good ---- *)
  Lemma firstn_good s q l k : goodq s q l -> goodq s q (firstn k l).
  Proof.
    intros (A & B & C). split; [|split].
    - apply Forall_forall. intros x Hx. apply in_firstn in Hx. eapply Forall_forall in A; eauto.
    - apply firstn_sorted; auto.
    - rewrite <- firstn_map. apply NoDup_firstn; auto.
  Qed.

  Lemma extend_visit_good s q st e :
    goodq s q (fst st) /\ incl (map snd (fst st)) (snd st) ->
    goodq s q (fst (extend_visit dist s q st e)) /\ incl (map snd (fst (extend_visit dist s q st e))) (snd (extend_visit dist s q st e)).
  Proof.
    intros ((A & B & C) & I). unfold extend_visit.
    destruct (live s (fst e)) eqn:EL; simpl; [|repeat split; auto].
    destruct (mem_nat (fst e) (snd st)) eqn:EM; [repeat split; auto|]. apply mem_nat_false in EM. simpl.
    set (x := (vdist dist s q (fst e), fst e)).
    assert (P : Permutation (qins x (fst st)) (x :: fst st)) by apply qins_perm.
    split; [split; [|split]|].
    - apply (Forall_perm _ (x :: fst st)); [apply Permutation_sym; exact P|]. constructor; auto. split; auto.
    - apply qins_sorted; auto.
    - eapply Permutation_NoDup; [apply Permutation_map; apply Permutation_sym; exact P|]. simpl. constructor; auto.
    - intros y Hy. eapply Permutation_in in Hy; [|apply Permutation_map; exact P]. simpl in Hy. destruct Hy as [<-|Hy]; [left; auto|right; auto].
  Qed.

  Lemma select_good s q l k level : goodq s q l -> goodq s q (select dist ord c s q l k level).
  Proof.
    intros G. unfold select, select_simple, select_heur. destruct (c_heur c); [|apply firstn_good; auto].
    apply firstn_good. destruct (c_extend c); auto.
    assert (H : forall (xs : list qitem) st, goodq s q (fst st) /\ incl (map snd (fst st)) (snd st) ->
               goodq s q (fst (fold_left (fun st x => fold_left (extend_visit dist s q) (ord (edges_at (vget s (snd x)) level)) st) xs st)) /\
               incl (map snd (fst (fold_left (fun st x => fold_left (extend_visit dist s q) (ord (edges_at (vget s (snd x)) level)) st) xs st)))
                    (snd (fold_left (fun st x => fold_left (extend_visit dist s q) (ord (edges_at (vget s (snd x)) level)) st) xs st))).
    { induction xs as [|x xs IH]; intros st H; simpl; auto. apply IH.
      generalize (ord (edges_at (vget s (snd x)) level)). intros es. revert st H.
      induction es as [|e es IHe]; intros st H; simpl; auto. apply IHe. apply extend_visit_good; auto. }
    apply (H (rev l) (l, map snd l)). split; auto. simpl. intros x Hx; auto.
  Qed.

  Lemma select_nonempty s q l k level : l <> [] -> (0 < k)%nat -> select dist ord c s q l k level <> [].
  Proof.
    intros NE K. unfold select, select_simple, select_heur.
    assert (F : forall l' : list qitem, l' <> [] -> firstn k l' <> []) by (intros [|a t] H; [congruence|destruct k; [lia|discriminate]]).
    destruct (c_heur c); [|apply F; auto]. apply F. destruct (c_extend c); auto.
    (* extension only adds items *)
    assert (H : forall (xs : list qitem) st, fst st <> [] ->
               fst (fold_left (fun st x => fold_left (extend_visit dist s q) (ord (edges_at (vget s (snd x)) level)) st) xs st) <> []).
    { induction xs as [|x xs IH]; intros st H; simpl; auto. apply IH.
      generalize (ord (edges_at (vget s (snd x)) level)). intros es. revert st H.
      induction es as [|e es IHe]; intros st H; simpl; auto. apply IHe. unfold extend_visit.
      destruct (negb (live s (fst e))); auto. destruct (mem_nat (fst e) (snd st)); auto. simpl.
      pose proof (qins_length (vdist dist s q (fst e), fst e) (fst st)). destruct (qins _ (fst st)); simpl in *; [lia|discriminate]. }
    apply (H (rev l) (l, map snd l)). auto.
  Qed.

  (* ---- the search post-condition ---- *)
  Definition search_post (s : hnsw) (q : vec) (k : nat) (r : list (N * meta * Z)) : Prop :=
    (forall id m d, In (id, m, d) r -> exists v, view (h_ops dist ord c) s id = Some (v, m) /\ d = dist q v) /\
    StronglySorted (fun a b => (snd a <= snd b)%Z) r /\
    NoDup (map (fun x => fst (fst x)) r) /\
    (length r <= k)%nat /\
    (idmap s <> [] -> (0 < k)%nat -> r <> []).

  Theorem search_sound s q k : Inv s -> search_post s q k (search dist ord c s q k).
  Proof.
    intros I. unfold search. destruct (entry s) as [e0|] eqn:EE.
    2:{ pose proof (inv_entry _ I) as IE. rewrite EE in IE.
        unfold search_post. split; [intros ? ? ? []|]. split; [constructor|]. split; [constructor|]. split; [simpl; lia|]. intros H; congruence. }
    pose proof (inv_entry _ I) as IE. rewrite EE in IE. destruct IE as (ide & Hide).
    destruct (inv_map _ I _ _ Hide) as (He0 & _ & Hdel0).
    assert (L0 : live s e0 = true) by (unfold live; rewrite Hdel0; auto).
    pose proof (greedy_down_live (vlevel (vget s e0)) s q e0 (vdist dist s q e0) (vlevel (vget s e0)) L0) as LG.
    destruct (greedy_down dist ord s q e0 (vdist dist s q e0) (vlevel (vget s e0)) (vlevel (vget s e0))) as [ep d0]. simpl in LG.
    destruct (search_level_good s q ep (beam_width c s k) 0 LG) as (G & NE).
    set (found := search_level dist ord s q ep (beam_width c s k) 0) in *.
    pose proof (select_good s q found k 0%nat G) as GS.
    set (sel := select dist ord c s q found k 0) in *.
    pose proof (firstn_good s q sel k GS) as (A & B & C).
    pose proof (proj1 (Inv_split s) I) as (ID & _).
    assert (LIVE : forall x, In x (firstn k sel) -> In (vid (vget s (snd x)), snd x) (idmap s) /\ fst x = dist q (vvec (vget s (snd x)))).
    { intros x Hx. eapply Forall_forall in A; eauto. destruct A as (A1 & A2). split; auto. apply live_in; auto. }
    split; [|split; [|split; [|split]]].
    - intros id m d Hin. apply in_map_iff in Hin. destruct Hin as (x & Hx & Hin). inversion Hx; subst. clear Hx.
      destruct (LIVE x Hin) as (Hm & Hd). exists (vvec (vget s (snd x))). split; auto.
      rewrite view_lookup by auto. rewrite (proj2 (lookup_in s _ _ I) Hm). auto.
    - clear -B. induction B as [|x l Hl IH Hx]; simpl; constructor; auto.
      apply Forall_forall. intros y Hy. apply in_map_iff in Hy. destruct Hy as (z & <- & Hz). simpl.
      eapply Forall_forall in Hx; eauto.
    - rewrite map_map. simpl.
      assert (INJ : forall l : list qitem, (forall x, In x l -> In (vid (vget s (snd x)), snd x) (idmap s)) -> NoDup (map snd l) ->
                    NoDup (map (fun x => vid (vget s (snd x))) l)).
      { induction l as [|x l IH]; intros Hl ND; simpl; constructor.
        - intros Hin. apply in_map_iff in Hin. destruct Hin as (y & Ey & Hy). inversion ND; subst. apply H1.
          apply in_map_iff. exists y. split; auto.
          pose proof (Hl x (or_introl eq_refl)) as Hx. pose proof (Hl y (or_intror Hy)) as Hy'. rewrite Ey in Hy'.
          apply (idmap_functional s _ _ _ (inv_nodup _ I) Hy' Hx).
        - inversion ND; subst. apply IH; auto. intros; apply Hl; right; auto. }
      apply INJ; auto. intros x Hx. apply (LIVE x Hx).
    - rewrite map_length, firstn_length. lia.
    - intros _ K. pose proof (select_nonempty s q found k 0%nat NE K) as SN. fold sel in SN.
      destruct sel as [|a t]; [congruence|]. destruct k; [lia|]. simpl. discriminate.
  Qed.
End Search.
