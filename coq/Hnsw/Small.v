(* Hnsw/Small.v — C07: insert-only collections of at most 2M+1 items keep level 0 connected.
   No level-0 link is ever pruned (a vertex has at most n-1 <= 2M = mMax0 distinct neighbours), every inserted vertex
   is linked both ways with at least one earlier vertex, so every vertex is reachable from every other along level 0.
   Together with Hnsw/Cover.v (a beam as wide as the index is a complete traversal) this gives the exactness clause
   of C07 for every insert-only history within the bound: [C07_exact_statement] is proved at the end. *)
From Verif Require Import Base.Prelude Store.Spec Store.Partition Store.Proofs Hnsw.Model Hnsw.Frame Hnsw.Inv Hnsw.Search Hnsw.Exact Hnsw.Cover.
From Coq Require Import Sorted ZifyN ZifyBool ZifyNat.
Local Open Scope nat_scope.

Lemma nth_repeat_nil {A} k l : nth l (repeat (@nil A) k) [] = [].
Proof. revert l; induction k as [|k IH]; intros [|l]; simpl; auto. Qed.

(* ---- put_edge ---- *)
Lemma in_put_edge t d es e : In e (put_edge t d es) -> e = (t, d) \/ In e es.
Proof.
  induction es as [|[t' d'] r IH]; simpl; [intros [<-|[]]; auto|].
  destruct (Nat.eqb t' t); simpl; intros [<-|H]; auto. destruct (IH H); auto.
Qed.
Lemma in_put_edge_fst t d es x : In x (map fst (put_edge t d es)) <-> x = t \/ In x (map fst es).
Proof.
  induction es as [|[t' d'] r IH]; simpl; [intuition|].
  destruct (Nat.eqb_spec t' t) as [->|Hne]; simpl; [intuition|]. rewrite IH. intuition.
Qed.
Lemma put_edge_nodup t d es : NoDup (map fst es) -> NoDup (map fst (put_edge t d es)).
Proof.
  induction es as [|[t' d'] r IH]; simpl; intros ND; [constructor; [simpl; tauto|constructor]|].
  inversion ND; subst. destruct (Nat.eqb_spec t' t) as [->|Hne]; simpl; [constructor; auto|].
  constructor; [|apply IH; auto]. rewrite in_put_edge_fst. intros [->|H]; auto.
Qed.

(* ---- set_edges touches one edge list ---- *)
Lemma edges_dv l : edges_at dv l = [].
Proof. unfold edges_at, dv. simpl. destruct l; reflexivity. Qed.
Lemma edges_set_edges s a l es m l' :
  edges_at (vget (set_edges s a l es) m) l' =
  if ((Nat.eqb a m && Nat.ltb a (length (arena s))) && (Nat.eqb l l' && Nat.ltb l (length (vedges (vget s a)))))%bool
  then es else edges_at (vget s m) l'.
Proof.
  unfold vget at 1. unfold set_edges. cbn [arena]. rewrite nth_upd.
  destruct (Nat.eqb a m && Nat.ltb a (length (arena s)))%bool eqn:E1; cbn [andb]; [|reflexivity].
  unfold edges_at at 1. unfold with_edges. cbn [vedges]. rewrite nth_upd.
  destruct (Nat.eqb l l' && Nat.ltb l (length (vedges (vget s a))))%bool; [reflexivity|].
  apply andb_true_iff in E1. destruct E1 as (E1 & _). apply Nat.eqb_eq in E1. subst. reflexivity.
Qed.
Lemma vedges_len_set_edges s a l es m : length (vedges (vget (set_edges s a l es) m)) = length (vedges (vget s m)).
Proof.
  unfold vget at 1. unfold set_edges. cbn [arena]. rewrite nth_upd.
  destruct (Nat.eqb a m && Nat.ltb a (length (arena s)))%bool eqn:E1; [|reflexivity].
  unfold with_edges. cbn [vedges]. rewrite upd_length.
  apply andb_true_iff in E1. destruct E1 as (E1 & _). apply Nat.eqb_eq in E1. subst. reflexivity.
Qed.
Lemma live_data a b m : same_data a b -> live a m = live b m.
Proof. intros D. pose proof (same_data_getv a b m D) as H. unfold vdata in H. unfold live. inversion H. congruence. Qed.

Section Small.
  Variable dist : vec -> vec -> Z.
  Variable ord : list edge -> list edge.
  Variable c : cfg.
  Hypothesis ord_perm : forall es, Permutation (ord es) es.
  Hypothesis noext : c_extend c = false.

  Lemma in_ord e es : In e (ord es) <-> In e es.
  Proof. split; apply Permutation_in; [apply ord_perm|apply Permutation_sym; apply ord_perm]. Qed.

  Lemma select_sub s q l k level x : In x (select dist ord c s q l k level) -> In x l.
  Proof.
    unfold select, select_simple, select_heur. rewrite noext. destruct (c_heur c); apply in_firstn.
  Qed.

  (* pruning keeps a subset of the vertex's own links *)
  Lemma prune_sub s t k level e m l' :
    In e (edges_at (vget (prune dist ord c s t k level) m) l') -> In e (edges_at (vget s m) l').
  Proof.
    unfold prune. rewrite edges_set_edges.
    destruct ((Nat.eqb t m && Nat.ltb t (length (arena s))) && (Nat.eqb level l' && Nat.ltb level (length (vedges (vget s t)))))%bool eqn:E; auto.
    apply andb_true_iff in E. destruct E as (E1 & E2). apply andb_true_iff in E1. destruct E1 as (E1 & _).
    apply andb_true_iff in E2. destruct E2 as (E2 & _). apply Nat.eqb_eq in E1, E2. subst m l'.
    intros H. apply in_map_iff in H. destruct H as (x & <- & Hx). apply select_sub in Hx.
    assert (F : forall es acc, In x (fold_left (fun acc e => if live s (fst e) then qins (snd e, fst e) acc else acc) es acc) ->
                In x acc \/ exists e, In e es /\ x = (snd e, fst e)).
    { induction es as [|e es IH]; intros acc H; simpl in H; auto.
      destruct (IH _ H) as [H1|(e' & He' & ->)]; [|right; exists e'; split; [right; auto|auto]].
      destruct (live s (fst e)); auto. apply in_qins in H1. destruct H1 as [->|H1]; auto.
      right. exists e. split; [left; auto|auto]. }
    destruct (F _ _ Hx) as [[]|(e & He & ->)]. apply (proj1 (in_ord _ _)) in He. destruct e; simpl; auto.
  Qed.

  (* ---- vertices the traversals can name: closed under following links ---- *)
  Lemma sl_visit_vis s q ef lower st e :
    sl_vis (sl_visit dist s q ef lower st e) = sl_vis st \/ sl_vis (sl_visit dist s q ef lower st e) = fst e :: sl_vis st.
  Proof.
    unfold sl_visit. destruct (negb (live s (fst e))); auto. destruct (mem_nat (fst e) (sl_vis st)); auto.
    destruct (_ || _)%bool; auto.
  Qed.
  Lemma search_level_closed (P : nat -> Prop) s q ep ef level : P ep -> (forall m e, In e (edges_at (vget s m) level) -> P (fst e)) ->
    live s ep = true -> forall x, In x (search_level dist ord s q ep ef level) -> P (snd x).
  Proof.
    intros Pep Pe L. unfold search_level.
    assert (LOOP : forall fuel st, slJ dist s q st -> (forall v, In v (sl_vis st) -> P v) ->
              forall v, In v (sl_vis (sl_loop dist ord fuel s q ef level st)) -> P v).
    { induction fuel as [|f IH]; intros st J H; cbn [sl_loop]; auto.
      destruct (sl_cand st) as [|[dc cn] rest] eqn:EC; auto. destruct (qmax (sl_res st)) as [[lower ln]|]; auto.
      destruct (lower <? dc)%Z; auto.
      assert (FOLD : forall es st0, slJ dist s q st0 -> (forall v, In v (sl_vis st0) -> P v) -> (forall e, In e es -> P (fst e)) ->
                slJ dist s q (fold_left (sl_visit dist s q ef lower) es st0) /\
                (forall v, In v (sl_vis (fold_left (sl_visit dist s q ef lower) es st0)) -> P v)).
      { induction es as [|e es IHe]; intros st0 J0 H0 He; cbn [fold_left]; auto.
        apply IHe; [apply sl_visit_J; auto| |intros; apply He; right; auto].
        intros v Hv. destruct (sl_visit_vis s q ef lower st0 e) as [E|E]; rewrite E in Hv; auto.
        destruct Hv as [<-|Hv]; auto. apply He. left. auto. }
      destruct J as (A & B & C1 & D1 & E1 & F1). rewrite EC in A. inversion A; subst.
      destruct (FOLD (ord (edges_at (vget s cn) level)) {| sl_cand := rest; sl_res := sl_res st; sl_vis := sl_vis st |}) as (J2 & HP2).
      - unfold slJ. cbn [sl_cand sl_res sl_vis]. repeat split; auto.
      - cbn [sl_vis]. auto.
      - intros e He. apply (proj1 (in_ord _ _)) in He. eapply Pe; eauto.
      - apply IH; auto. }
    set (st0 := {| sl_cand := [(vdist dist s q ep, ep)]; sl_res := [(vdist dist s q ep, ep)]; sl_vis := [ep] |}).
    assert (J0 : slJ dist s q st0).
    { assert (O : okq dist s q (vdist dist s q ep, ep)) by (split; auto).
      unfold slJ, st0. cbn [sl_cand sl_res sl_vis]. split; [repeat constructor; auto|]. split; [repeat constructor; auto|].
      split; [repeat constructor|]. split; [simpl; constructor; [simpl; tauto|constructor]|]. split; [intros x [<-|[]]; left; auto|discriminate]. }
    intros x Hx. pose proof (sl_loop_J dist ord (S (length (arena s))) s q ef level st0 J0) as (_ & _ & _ & _ & IV & _).
    apply (LOOP (S (length (arena s))) st0 J0); [intros v [<-|[]]; auto|]. apply IV. apply in_map. auto.
  Qed.

  Lemma greedy_step_P (P : nat -> Prop) s q ep minD level n d : (forall m l e, In e (edges_at (vget s m) l) -> P (fst e)) ->
    greedy_step dist ord s q ep minD level = Some (n, d) -> P n.
  Proof.
    intros Pe. unfold greedy_step.
    assert (G : forall l best, (forall e, In e l -> P (fst e)) -> (forall n d, best = Some (n, d) -> P n) ->
                forall n d, fold_left (fun (best : option (nat * Z)) (e : edge) =>
                     let cur := match best with Some (_, d) => d | None => minD end in
                     if live s (fst e) then let d := vdist dist s q (fst e) in if (d <? cur)%Z then Some (fst e, d) else best else best) l best = Some (n, d) -> P n).
    { induction l as [|e l IH]; intros best Hl Hb n0 d0; simpl; [apply Hb|]. apply IH; [intros; apply Hl; right; auto|].
      intros n1 d1. destruct (live s (fst e)); [|apply Hb]. destruct (_ <? _)%Z; [|apply Hb].
      intros H; inversion H; subst. apply Hl. left. auto. }
    apply G; [|intros; discriminate]. intros e He. apply (proj1 (in_ord _ _)) in He. eapply Pe; eauto.
  Qed.
  Lemma greedy_P (P : nat -> Prop) s q level : (forall m l e, In e (edges_at (vget s m) l) -> P (fst e)) ->
    forall fuel ep minD, P ep -> P (fst (greedy dist ord fuel s q ep minD level)).
  Proof.
    intros Pe. induction fuel as [|f IH]; intros ep minD H; simpl; auto.
    destruct (greedy_step dist ord s q ep minD level) as [[n d]|] eqn:E; simpl; auto.
    apply IH. eapply greedy_step_P; eauto.
  Qed.
  Lemma greedy_down_P (P : nat -> Prop) s q : (forall m l e, In e (edges_at (vget s m) l) -> P (fst e)) ->
    forall cnt ep minD from, P ep -> P (fst (greedy_down dist ord s q ep minD from cnt)).
  Proof.
    intros Pe. induction cnt as [|k IH]; intros ep minD from H; cbn [greedy_down]; auto.
    pose proof (greedy_P P s q from Pe (S (length (arena s))) ep minD H) as G.
    destruct (greedy dist ord (S (length (arena s))) s q ep minD from) as [ep' d']. simpl in G. apply IH; auto.
  Qed.
End Small.
