(* Hnsw/Small.v — C07: insert-only collections of at most 2M+1 items keep level 0 connected.
   No level-0 link is ever pruned (a vertex has at most n-1 <= 2M = mMax0 distinct neighbours), every inserted vertex
   is linked both ways with at least one earlier vertex, so every vertex is reachable from every other along level 0.
   Both selection modes, with or without extendCandidates and keepPruned.  Together with Hnsw/Cover.v (a beam as wide as the index is a complete traversal) this gives the exactness clause
   of C07 for every insert-only history within the bound: [C07_exact_statement] is proved at the end. *)
From Verif Require Import Base.Prelude Store.Spec Store.Partition Store.Proofs Store.Simple Hnsw.Model Hnsw.Frame Hnsw.Inv Hnsw.Search Hnsw.Exact Hnsw.Cover.
From Coq Require Import Sorted ZifyN ZifyBool ZifyNat.
Local Open Scope nat_scope.

Lemma nth_repeat_nil {A} k l : nth l (repeat (@nil A) k) [] = [].
Proof. revert l; induction k as [|k IH]; intros [|l]; simpl; auto. Qed.

(* ---- put_edge ---- *)
Lemma in_put_edge t d es e : In e (put_edge t d es) -> e = (t, d) \/ In e es.
Proof.
  induction es as [|[t' d'] r IH]; simpl; [intros [<-|[]]; auto|].
  destruct (Nat.eqb t' t); simpl; intros [<-|H]; auto. destruct (IH H); auto.
Qed.
Lemma in_put_edge_fst t d es x : In x (map fst (put_edge t d es)) <-> x = t \/ In x (map fst es).
Proof.
  induction es as [|[t' d'] r IH]; simpl; [intuition|].
  destruct (Nat.eqb_spec t' t) as [->|Hne]; simpl; [intuition|]. rewrite IH. intuition.
Qed.
Lemma put_edge_nodup t d es : NoDup (map fst es) -> NoDup (map fst (put_edge t d es)).
Proof.
  induction es as [|[t' d'] r IH]; simpl; intros ND; [constructor; [simpl; tauto|constructor]|].
  inversion ND; subst. destruct (Nat.eqb_spec t' t) as [->|Hne]; simpl; [constructor; auto|].
  constructor; [|apply IH; auto]. rewrite in_put_edge_fst. intros [->|H]; auto.
Qed.

(* ---- set_edges touches one edge list ---- *)
Lemma edges_dv l : edges_at dv l = [].
Proof. unfold edges_at, dv. simpl. destruct l; reflexivity. Qed.
Lemma edges_set_edges s a l es m l' :
  edges_at (vget (set_edges s a l es) m) l' =
  if ((Nat.eqb a m && Nat.ltb a (length (arena s))) && (Nat.eqb l l' && Nat.ltb l (length (vedges (vget s a)))))%bool
  then es else edges_at (vget s m) l'.
Proof.
  unfold vget at 1. unfold set_edges. cbn [arena]. rewrite nth_upd.
  destruct (Nat.eqb a m && Nat.ltb a (length (arena s)))%bool eqn:E1; cbn [andb]; [|reflexivity].
  unfold edges_at at 1. unfold with_edges. cbn [vedges]. rewrite nth_upd.
  destruct (Nat.eqb l l' && Nat.ltb l (length (vedges (vget s a))))%bool; [reflexivity|].
  apply andb_true_iff in E1. destruct E1 as (E1 & _). apply Nat.eqb_eq in E1. subst. reflexivity.
Qed.
Lemma vedges_len_set_edges s a l es m : length (vedges (vget (set_edges s a l es) m)) = length (vedges (vget s m)).
Proof.
  unfold vget at 1. unfold set_edges. cbn [arena]. rewrite nth_upd.
  destruct (Nat.eqb a m && Nat.ltb a (length (arena s)))%bool eqn:E1; [|reflexivity].
  unfold with_edges. cbn [vedges]. rewrite upd_length.
  apply andb_true_iff in E1. destruct E1 as (E1 & _). apply Nat.eqb_eq in E1. subst. reflexivity.
Qed.
Lemma live_data a b m : same_data a b -> live a m = live b m.
Proof. intros D. pose proof (same_data_getv a b m D) as H. unfold vdata in H. unfold live. inversion H. congruence. Qed.

Section Small.
  Variable dist : vec -> vec -> Z.
  Variable ord : list edge -> list edge.
  Variable c : cfg.
  Hypothesis ord_perm : forall es, Permutation (ord es) es.

  Lemma in_ord e es : In e (ord es) <-> In e es.
  Proof. split; apply Permutation_in; [apply ord_perm|apply Permutation_sym; apply ord_perm]. Qed.

  (* whatever the selection mode (with or without extendCandidates): a selected vertex is one of the candidates or the
     target of a link of that level *)
  Lemma select_closed (P : nat -> Prop) s q l k level : (forall x, In x l -> P (snd x)) ->
    (forall m e, In e (edges_at (vget s m) level) -> P (fst e)) -> forall x, In x (select dist ord c s q l k level) -> P (snd x).
  Proof.
    intros Hl He x. unfold select, select_simple, select_heur. destruct (c_heur c); [|intros H; apply Hl; eapply in_firstn; eauto].
    intros H. apply in_firstn in H. destruct (c_extend c); [|apply Hl; auto].
    assert (INNER : forall es (st : list qitem * list nat), (forall e, In e es -> P (fst e)) -> (forall y, In y (fst st) -> P (snd y)) ->
              forall y, In y (fst (fold_left (extend_visit dist s q) es st)) -> P (snd y)).
    { induction es as [|e es IH]; intros st Hes Hst y; simpl; [apply Hst|]. apply IH; [intros; apply Hes; right; auto|].
      intros z Hz. unfold extend_visit in Hz. destruct (negb (live s (fst e))); [apply Hst; auto|].
      destruct (mem_nat (fst e) (snd st)); [apply Hst; auto|]. simpl in Hz. apply in_qins in Hz. destruct Hz as [->|Hz]; [simpl; apply Hes; left; auto|apply Hst; auto]. }
    assert (OUTER : forall (xs : list qitem) (st : list qitem * list nat), (forall y, In y (fst st) -> P (snd y)) ->
              forall y, In y (fst (fold_left (fun st x0 => fold_left (extend_visit dist s q) (ord (edges_at (vget s (snd x0)) level)) st) xs st)) -> P (snd y)).
    { induction xs as [|x0 xs IH]; intros st Hst y; simpl; [apply Hst|]. apply IH. apply INNER; auto.
      intros e Hin. apply (proj1 (in_ord _ _)) in Hin. eapply He; eauto. }
    revert H. apply OUTER. simpl. exact Hl.
  Qed.

  (* pruning: a link kept or created at [level] points where some link of that level already pointed; other levels and
     other vertices are untouched *)
  Lemma prune_edges s t k level e m l' :
    In e (edges_at (vget (prune dist ord c s t k level) m) l') ->
    In e (edges_at (vget s m) l') \/ (l' = level /\ exists m' e', In e' (edges_at (vget s m') level) /\ fst e = fst e').
  Proof.
    unfold prune. rewrite edges_set_edges.
    destruct ((Nat.eqb t m && Nat.ltb t (length (arena s))) && (Nat.eqb level l' && Nat.ltb level (length (vedges (vget s t)))))%bool eqn:E; auto.
    apply andb_true_iff in E. destruct E as (E1 & E2). apply andb_true_iff in E1. destruct E1 as (E1 & _).
    apply andb_true_iff in E2. destruct E2 as (E2 & _). apply Nat.eqb_eq in E1, E2. subst m l'.
    intros H. right. split; [reflexivity|]. apply in_map_iff in H. destruct H as (x & <- & Hx). cbn [fst].
    revert x Hx. apply (select_closed (fun v => exists m' e', In e' (edges_at (vget s m') level) /\ v = fst e')).
    - assert (F : forall es acc x, In x (fold_left (fun acc e => if live s (fst e) then qins (snd e, fst e) acc else acc) es acc) ->
                  In x acc \/ exists e, In e es /\ x = (snd e, fst e)).
      { induction es as [|e es IH]; intros acc x H; simpl in H; auto.
        destruct (IH _ _ H) as [H1|(e' & He' & ->)]; [|right; exists e'; split; [right; auto|auto]].
        destruct (live s (fst e)); auto. apply in_qins in H1. destruct H1 as [->|H1]; auto.
        right. exists e. split; [left; auto|auto]. }
      intros x Hx. destruct (F _ _ _ Hx) as [[]|(e & He & ->)]. apply (proj1 (in_ord _ _)) in He. exists t, e. auto.
    - intros m e He. exists m, e. auto.
  Qed.

  (* ---- vertices the traversals can name: closed under following links ---- *)
  Lemma sl_visit_vis s q ef lower st e :
    sl_vis (sl_visit dist s q ef lower st e) = sl_vis st \/ sl_vis (sl_visit dist s q ef lower st e) = fst e :: sl_vis st.
  Proof.
    unfold sl_visit. destruct (negb (live s (fst e))); auto. destruct (mem_nat (fst e) (sl_vis st)); auto.
    destruct (_ || _)%bool; auto.
  Qed.
  Lemma search_level_closed (P : nat -> Prop) s q ep ef level : P ep -> (forall m e, In e (edges_at (vget s m) level) -> P (fst e)) ->
    live s ep = true -> forall x, In x (search_level dist ord s q ep ef level) -> P (snd x).
  Proof.
    intros Pep Pe L. unfold search_level.
    assert (LOOP : forall fuel st, slJ dist s q st -> (forall v, In v (sl_vis st) -> P v) ->
              forall v, In v (sl_vis (sl_loop dist ord fuel s q ef level st)) -> P v).
    { induction fuel as [|f IH]; intros st J H; cbn [sl_loop]; auto.
      destruct (sl_cand st) as [|[dc cn] rest] eqn:EC; auto. destruct (qmax (sl_res st)) as [[lower ln]|]; auto.
      destruct (lower <? dc)%Z; auto.
      assert (FOLD : forall es st0, slJ dist s q st0 -> (forall v, In v (sl_vis st0) -> P v) -> (forall e, In e es -> P (fst e)) ->
                slJ dist s q (fold_left (sl_visit dist s q ef lower) es st0) /\
                (forall v, In v (sl_vis (fold_left (sl_visit dist s q ef lower) es st0)) -> P v)).
      { induction es as [|e es IHe]; intros st0 J0 H0 He; cbn [fold_left]; auto.
        apply IHe; [apply sl_visit_J; auto| |intros; apply He; right; auto].
        intros v Hv. destruct (sl_visit_vis s q ef lower st0 e) as [E|E]; rewrite E in Hv; auto.
        destruct Hv as [<-|Hv]; auto. apply He. left. auto. }
      destruct J as (A & B & C1 & D1 & E1 & F1). rewrite EC in A. inversion A; subst.
      destruct (FOLD (ord (edges_at (vget s cn) level)) {| sl_cand := rest; sl_res := sl_res st; sl_vis := sl_vis st |}) as (J2 & HP2).
      - unfold slJ. cbn [sl_cand sl_res sl_vis]. repeat split; auto.
      - cbn [sl_vis]. auto.
      - intros e He. apply (proj1 (in_ord _ _)) in He. eapply Pe; eauto.
      - apply IH; auto. }
    set (st0 := {| sl_cand := [(vdist dist s q ep, ep)]; sl_res := [(vdist dist s q ep, ep)]; sl_vis := [ep] |}).
    assert (J0 : slJ dist s q st0).
    { assert (O : okq dist s q (vdist dist s q ep, ep)) by (split; auto).
      unfold slJ, st0. cbn [sl_cand sl_res sl_vis]. split; [repeat constructor; auto|]. split; [repeat constructor; auto|].
      split; [repeat constructor|]. split; [simpl; constructor; [simpl; tauto|constructor]|]. split; [intros x [<-|[]]; left; auto|discriminate]. }
    intros x Hx. pose proof (sl_loop_J dist ord (S (length (arena s))) s q ef level st0 J0) as (_ & _ & _ & _ & IV & _).
    apply (LOOP (S (length (arena s))) st0 J0); [intros v [<-|[]]; auto|]. apply IV. apply in_map. auto.
  Qed.

  Lemma greedy_step_P (P : nat -> Prop) s q ep minD level n d : (forall m l e, In e (edges_at (vget s m) l) -> P (fst e)) ->
    greedy_step dist ord s q ep minD level = Some (n, d) -> P n.
  Proof.
    intros Pe. unfold greedy_step.
    assert (G : forall l best, (forall e, In e l -> P (fst e)) -> (forall n d, best = Some (n, d) -> P n) ->
                forall n d, fold_left (fun (best : option (nat * Z)) (e : edge) =>
                     let cur := match best with Some (_, d) => d | None => minD end in
                     if live s (fst e) then let d := vdist dist s q (fst e) in if (d <? cur)%Z then Some (fst e, d) else best else best) l best = Some (n, d) -> P n).
    { induction l as [|e l IH]; intros best Hl Hb n0 d0; simpl; [apply Hb|]. apply IH; [intros; apply Hl; right; auto|].
      intros n1 d1. destruct (live s (fst e)); [|apply Hb]. destruct (_ <? _)%Z; [|apply Hb].
      intros H; inversion H; subst. apply Hl. left. auto. }
    apply G; [|intros; discriminate]. intros e He. apply (proj1 (in_ord _ _)) in He. eapply Pe; eauto.
  Qed.
  Lemma greedy_P (P : nat -> Prop) s q level : (forall m l e, In e (edges_at (vget s m) l) -> P (fst e)) ->
    forall fuel ep minD, P ep -> P (fst (greedy dist ord fuel s q ep minD level)).
  Proof.
    intros Pe. induction fuel as [|f IH]; intros ep minD H; simpl; auto.
    destruct (greedy_step dist ord s q ep minD level) as [[n d]|] eqn:E; simpl; auto.
    apply IH. eapply greedy_step_P; eauto.
  Qed.
  Lemma greedy_down_P (P : nat -> Prop) s q : (forall m l e, In e (edges_at (vget s m) l) -> P (fst e)) ->
    forall cnt ep minD from, P ep -> P (fst (greedy_down dist ord s q ep minD from cnt)).
  Proof.
    intros Pe. induction cnt as [|k IH]; intros ep minD from H; cbn [greedy_down]; auto.
    pose proof (greedy_P P s q from Pe (S (length (arena s))) ep minD H) as G.
    destruct (greedy dist ord (S (length (arena s))) s q ep minD from) as [ep' d']. simpl in G. apply IH; auto.
  Qed.

  (* ---- one insertion, seen from the state s1 in which the new vertex n has just been stored ---- *)
  (* every link points into the arena; no link of a level below j points to the new vertex yet *)
  Definition Q (L1 n j l' tgt : nat) : Prop := tgt < L1 /\ (l' < j -> tgt <> n).
  Definition G (s1 : hnsw) (n j : nat) (s' : hnsw) : Prop :=
    same_data s1 s' /\
    (forall m l e, In e (edges_at (vget s' m) l) -> Q (length (arena s1)) n j l (fst e)) /\
    (forall m, length (vedges (vget s' m)) = length (vedges (vget s1 m))).

  Lemma G_weaken s1 n j j' s' : j' <= j -> G s1 n j s' -> G s1 n j' s'.
  Proof.
    intros Hj (D & E & V). split; [auto|split; [|auto]]. intros m l e He. destruct (E m l e He) as (A & B).
    split; auto. intros H. apply B. lia.
  Qed.
  Lemma G_set_edges s1 n j s' a l es : G s1 n j s' -> (forall e, In e es -> Q (length (arena s1)) n j l (fst e)) -> G s1 n j (set_edges s' a l es).
  Proof.
    intros (D & E & V) H. split; [eapply same_data_trans; [exact D|apply set_edges_data]|split].
    - intros m l' e. rewrite edges_set_edges.
      match goal with |- context [if ?b then _ else _] => destruct b eqn:C end; [|apply E].
      apply andb_true_iff in C. destruct C as (_ & C2). apply andb_true_iff in C2. destruct C2 as (C2 & _).
      apply Nat.eqb_eq in C2. subst l'. apply H.
    - intros m. rewrite vedges_len_set_edges. apply V.
  Qed.
  Lemma G_add_edge s1 n j s' a l t d : G s1 n j s' -> Q (length (arena s1)) n j l t -> G s1 n j (add_edge s' a l t d).
  Proof.
    intros Gs Ht. unfold add_edge. apply G_set_edges; auto. intros e He. apply in_put_edge in He.
    destruct He as [->|He]; [exact Ht|]. destruct Gs as (_ & E & _). eapply E; eauto.
  Qed.
  Lemma G_prune s1 n j s' t k l : G s1 n j s' -> G s1 n j (prune dist ord c s' t k l).
  Proof.
    intros (D & E & V). split; [eapply same_data_trans; [exact D|apply prune_data]|split].
    - intros m l' e He. apply prune_edges in He. destruct He as [He|(-> & m' & e' & He' & ->)]; [eapply E; eauto|]. eapply E; eauto.
    - intros m. unfold prune. rewrite vedges_len_set_edges. apply V.
  Qed.

  Lemma link_one_eq lev n s ep x : fst (link_one dist ord c lev n (s, ep) x) =
    if (mmax_at c lev <? length (edges_at (vget (add_edge (add_edge s n lev (snd x) (fst x)) (snd x) lev n (fst x)) (snd x)) lev))
    then prune dist ord c (add_edge (add_edge s n lev (snd x) (fst x)) (snd x) lev n (fst x)) (snd x) (mmax_at c lev) lev
    else add_edge (add_edge s n lev (snd x) (fst x)) (snd x) lev n (fst x).
  Proof. unfold link_one. cbv zeta. destruct (_ <? _); reflexivity. Qed.
  Lemma link_one_snd lev n acc x : snd (link_one dist ord c lev n acc x) = snd x.
  Proof. destruct acc as [s ep]. unfold link_one. cbv zeta. reflexivity. Qed.

  Lemma link_one_G s1 n j lev acc x : j <= lev -> n < length (arena s1) -> snd x < length (arena s1) ->
    G s1 n j (fst acc) -> G s1 n j (fst (link_one dist ord c lev n acc x)).
  Proof.
    intros Hj Hn Ht Gs. destruct acc as [s ep]. cbn [fst] in Gs. rewrite link_one_eq.
    assert (Qt : Q (length (arena s1)) n j lev (snd x)) by (split; [auto|lia]).
    assert (Qn : Q (length (arena s1)) n j lev n) by (split; [auto|lia]).
    destruct (_ <? _); [apply G_prune|]; apply G_add_edge; auto; apply G_add_edge; auto.
  Qed.
  Lemma link_fold_G s1 n j lev items : j <= lev -> n < length (arena s1) -> (forall x, In x items -> snd x < length (arena s1)) ->
    forall acc, G s1 n j (fst acc) -> G s1 n j (fst (fold_left (link_one dist ord c lev n) items acc)).
  Proof.
    intros Hj Hn. induction items as [|a items IH]; intros Hi acc Gs; cbn [fold_left]; auto.
    apply IH; [intros; apply Hi; right; auto|]. apply link_one_G; auto. apply Hi. left. auto.
  Qed.
  Lemma link_fold_snd lev n items : forall acc,
    snd (fold_left (link_one dist ord c lev n) items acc) = snd acc \/ In (snd (fold_left (link_one dist ord c lev n) items acc)) (map snd items).
  Proof.
    induction items as [|a items IH]; intros acc; cbn [fold_left]; auto.
    destruct (IH (link_one dist ord c lev n acc a)) as [E|E].
    - right. rewrite E, link_one_snd. left. reflexivity.
    - right. right. exact E.
  Qed.

  Lemma edges_set_edges_other s a l es m l' : l <> l' -> edges_at (vget (set_edges s a l es) m) l' = edges_at (vget s m) l'.
  Proof. intros H. rewrite edges_set_edges. rewrite (proj2 (Nat.eqb_neq l l') H). cbn [andb]. rewrite andb_false_r. reflexivity. Qed.
  Lemma link_one_lev0 lev n acc x m : lev <> 0 -> edges_at (vget (fst (link_one dist ord c lev n acc x)) m) 0 = edges_at (vget (fst acc) m) 0.
  Proof.
    intros Hl. destruct acc as [s ep]. rewrite link_one_eq. cbn [fst].
    destruct (_ <? _); unfold prune, add_edge; rewrite !edges_set_edges_other by auto; reflexivity.
  Qed.
  Lemma link_fold_lev0 lev n items m : lev <> 0 -> forall acc,
    edges_at (vget (fst (fold_left (link_one dist ord c lev n) items acc)) m) 0 = edges_at (vget (fst acc) m) 0.
  Proof.
    intros Hl. induction items as [|a items IH]; intros acc; cbn [fold_left]; auto. rewrite IH. apply link_one_lev0; auto.
  Qed.

  Lemma nbrs_add_edge s a l t d l' m : a < length (arena s) -> l < length (vedges (vget s a)) ->
    nbrs (add_edge s a l t d) l' m = if (Nat.eqb a m && Nat.eqb l l')%bool then map fst (put_edge t d (edges_at (vget s a) l)) else nbrs s l' m.
  Proof.
    intros Ha Hl. unfold nbrs, add_edge. rewrite edges_set_edges.
    rewrite (proj2 (Nat.ltb_lt _ _) Ha), (proj2 (Nat.ltb_lt _ _) Hl), !andb_true_r. destruct (Nat.eqb a m && Nat.eqb l l')%bool; reflexivity.
  Qed.

  (* what the insertion starts from *)
  Definition S1ok (s1 : hnsw) (n : nat) : Prop :=
    n < length (arena s1) /\ (forall m, m < length (arena s1) -> 0 < length (vedges (vget s1 m))) /\
    (forall m, NoDup (nbrs s1 0 m)) /\ (forall m, ~ In m (nbrs s1 0 m)) /\
    length (arena s1) <= S (c_mmax0 c) /\ 1 <= c_m c.
  Definition H0 (s1 : hnsw) (n : nat) (s' : hnsw) : Prop :=
    G s1 n 0 s' /\ (forall m, NoDup (nbrs s' 0 m)) /\ (forall m, ~ In m (nbrs s' 0 m)).

  (* linking the new vertex with t on level 0: both links are added, nothing is pruned, nothing else changes *)
  Lemma link0_step s1 n s' ep x : S1ok s1 n -> H0 s1 n s' -> live s1 (snd x) = true -> snd x <> n ->
    H0 s1 n (fst (link_one dist ord c 0 n (s', ep) x)) /\
    (forall m t, In t (nbrs s' 0 m) -> In t (nbrs (fst (link_one dist ord c 0 n (s', ep) x)) 0 m)) /\
    In (snd x) (nbrs (fst (link_one dist ord c 0 n (s', ep) x)) 0 n) /\ In n (nbrs (fst (link_one dist ord c 0 n (s', ep) x)) 0 (snd x)).
  Proof.
    intros (Hn & LV0 & _ & _ & BND & _) (Gs & ND & NS) Lt Tn. rewrite link_one_eq.
    set (t := snd x) in *. set (d := fst x) in *.
    set (sa := add_edge s' n 0 t d). set (sb := add_edge sa t 0 n d).
    assert (tL : t < length (arena s1)) by (apply live_lt; auto).
    assert (Ga : G s1 n 0 sa) by (apply G_add_edge; auto; split; [auto|lia]).
    assert (Gb : G s1 n 0 sb) by (apply G_add_edge; auto; split; [auto|lia]).
    assert (L' : length (arena s') = length (arena s1)) by (symmetry; apply same_data_length; apply Gs).
    assert (La : length (arena sa) = length (arena s1)) by (symmetry; apply same_data_length; apply Ga).
    assert (V' : 0 < length (vedges (vget s' n))) by (destruct Gs as (_ & _ & V); rewrite V; apply LV0; auto).
    assert (Va : 0 < length (vedges (vget sa t))) by (destruct Ga as (_ & _ & V); rewrite V; apply LV0; auto).
    assert (NA : forall m, nbrs sa 0 m = if Nat.eqb n m then map fst (put_edge t d (edges_at (vget s' n) 0)) else nbrs s' 0 m).
    { intros m. unfold sa. rewrite nbrs_add_edge by lia. cbn [Nat.eqb]. rewrite andb_true_r. reflexivity. }
    assert (NB : forall m, nbrs sb 0 m = if Nat.eqb t m then map fst (put_edge n d (edges_at (vget sa t) 0)) else nbrs sa 0 m).
    { intros m. unfold sb. rewrite nbrs_add_edge by lia. cbn [Nat.eqb]. rewrite andb_true_r. reflexivity. }
    assert (NAt : map fst (edges_at (vget sa t) 0) = nbrs s' 0 t).
    { change (map fst (edges_at (vget sa t) 0)) with (nbrs sa 0 t). rewrite NA. rewrite (proj2 (Nat.eqb_neq n t)) by auto. reflexivity. }
    assert (MEM : forall m y, In y (nbrs sb 0 m) <-> (m = t /\ y = n) \/ (m = n /\ y = t) \/ In y (nbrs s' 0 m)).
    { intros m y. rewrite NB. destruct (Nat.eqb_spec t m) as [<-|Htm].
      - rewrite in_put_edge_fst, NAt. intuition congruence.
      - rewrite NA. destruct (Nat.eqb_spec n m) as [<-|Hnm].
        + rewrite in_put_edge_fst. unfold nbrs. intuition congruence.
        + intuition congruence. }
    assert (NDb : forall m, NoDup (nbrs sb 0 m)).
    { intros m. rewrite NB. destruct (Nat.eqb_spec t m) as [<-|Htm].
      - apply put_edge_nodup. rewrite NAt. apply ND.
      - rewrite NA. destruct (Nat.eqb_spec n m) as [<-|Hnm]; [apply put_edge_nodup; apply ND|apply ND]. }
    assert (NSb : forall m, ~ In m (nbrs sb 0 m)).
    { intros m H. apply MEM in H. destruct H as [(-> & E)|[(-> & E)|H]]; [congruence|congruence|]. apply (NS m H). }
    assert (DEG : length (edges_at (vget sb t) 0) <= c_mmax0 c).
    { assert (EL : length (edges_at (vget sb t) 0) = length (nbrs sb 0 t)) by (unfold nbrs; rewrite map_length; reflexivity). rewrite EL.
      assert (B : S (length (nbrs sb 0 t)) <= length (arena s1)).
      { apply (nodup_bound (t :: nbrs sb 0 t)); [constructor; auto|].
        intros y [<-|Hy]; auto. unfold nbrs in Hy. apply in_map_iff in Hy. destruct Hy as (e & <- & He).
        destruct Gb as (_ & E & _). apply (E t 0 e He). }
      lia. }
    assert (NOPRUNE : (mmax_at c 0 <? length (edges_at (vget sb t) 0)) = false) by (apply Nat.ltb_ge; unfold mmax_at; lia).
    fold sa. fold sb. rewrite NOPRUNE.
    split; [split; [auto|split; auto]|]. split; [|split].
    - intros m y H. apply MEM. auto.
    - apply MEM. auto.
    - apply MEM. auto.
  Qed.

  Lemma link0_fold s1 n items : S1ok s1 n -> (forall x, In x items -> live s1 (snd x) = true /\ snd x <> n) ->
    forall acc, H0 s1 n (fst acc) ->
      H0 s1 n (fst (fold_left (link_one dist ord c 0 n) items acc)) /\
      (forall m t, In t (nbrs (fst acc) 0 m) -> In t (nbrs (fst (fold_left (link_one dist ord c 0 n) items acc)) 0 m)) /\
      (forall x, In x items -> In (snd x) (nbrs (fst (fold_left (link_one dist ord c 0 n) items acc)) 0 n) /\
                               In n (nbrs (fst (fold_left (link_one dist ord c 0 n) items acc)) 0 (snd x))).
  Proof.
    intros OK. induction items as [|a items IH]; intros Hi acc HH; cbn [fold_left].
    - split; [auto|split; [auto|intros x []]].
    - destruct acc as [s' ep]. cbn [fst] in HH.
      destruct (Hi a (or_introl eq_refl)) as (La & Na).
      destruct (link0_step s1 n s' ep a OK HH La Na) as (H1 & M1 & A1 & B1).
      destruct (IH (fun x Hx => Hi x (or_intror Hx)) _ H1) as (H2 & M2 & L2).
      split; [auto|split].
      + intros m t Ht. apply M2. apply M1. auto.
      + intros x [<-|Hx]; [split; apply M2; auto|apply L2; auto].
  Qed.

  Lemma insert_levels_S s n ep level k : insert_levels dist ord c s n ep level (S k) =
    insert_levels dist ord c
      (fst (fold_left (link_one dist ord c level n) (rev (select dist ord c s (vvec (vget s n)) (search_level dist ord s (vvec (vget s n)) ep (c_efc c) level) (c_m c) level)) (s, ep))) n
      (snd (fold_left (link_one dist ord c level n) (rev (select dist ord c s (vvec (vget s n)) (search_level dist ord s (vvec (vget s n)) ep (c_efc c) level) (c_m c) level)) (s, ep)))
      (level - 1) k.
  Proof.
    cbn [insert_levels]. match goal with |- context [fold_left ?f ?l ?a] => destruct (fold_left f l a) end. reflexivity.
  Qed.

  (* the neighbours selected on a level: at least one, all live, none of them the new vertex itself *)
  Lemma sel_props s1 n lev s' ep : S1ok s1 n -> G s1 n (S lev) s' -> live s1 ep = true -> ep <> n ->
    select dist ord c s' (vvec (vget s' n)) (search_level dist ord s' (vvec (vget s' n)) ep (c_efc c) lev) (c_m c) lev <> [] /\
    forall x, In x (select dist ord c s' (vvec (vget s' n)) (search_level dist ord s' (vvec (vget s' n)) ep (c_efc c) lev) (c_m c) lev) ->
      live s1 (snd x) = true /\ snd x <> n.
  Proof.
    intros OK Gs Lep Nep. pose proof Gs as (D & E & _).
    assert (Lep' : live s' ep = true) by (rewrite <- (live_data s1 s' ep D); auto).
    destruct (search_level_good dist ord s' (vvec (vget s' n)) ep (c_efc c) lev Lep') as ((A & _ & _) & NE).
    split.
    - apply select_nonempty; auto. destruct OK as (_ & _ & _ & _ & _ & M). lia.
    - assert (G0 : goodq dist s' (vvec (vget s' n)) (search_level dist ord s' (vvec (vget s' n)) ep (c_efc c) lev)).
      { destruct (search_level_good dist ord s' (vvec (vget s' n)) ep (c_efc c) lev Lep') as (G1 & _). exact G1. }
      pose proof (select_good dist ord c s' (vvec (vget s' n)) _ (c_m c) lev G0) as (SA & _ & _).
      intros x Hx. split.
      + eapply Forall_forall in SA; eauto. destruct SA as (_ & A2). rewrite (live_data s1 s' _ D). auto.
      + revert x Hx. apply (select_closed (fun v => v <> n)).
        * intros x Hx. apply (search_level_closed (fun v => v <> n) s' (vvec (vget s' n)) ep (c_efc c) lev Nep); auto.
          intros m e He. apply (E m lev e He). lia.
        * intros m e He. apply (E m lev e He). lia.
  Qed.

  Definition post (s1 : hnsw) (n : nat) (s2 : hnsw) : Prop :=
    H0 s1 n s2 /\ (forall m t, In t (nbrs s1 0 m) -> In t (nbrs s2 0 m)) /\
    exists t0, t0 <> n /\ live s1 t0 = true /\ In t0 (nbrs s2 0 n) /\ In n (nbrs s2 0 t0).

  Lemma insert_levels_post s1 n : S1ok s1 n -> forall k s' ep, G s1 n (S k) s' -> (forall m, nbrs s' 0 m = nbrs s1 0 m) ->
    live s1 ep = true -> ep <> n -> post s1 n (insert_levels dist ord c s' n ep k (S k)).
  Proof.
    intros OK. induction k as [|j IH]; intros s' ep Gs SAME Lep Nep; rewrite insert_levels_S;
      destruct (sel_props s1 n _ s' ep OK Gs Lep Nep) as (NE & SP);
      match goal with |- context [rev ?l] => set (sel := l) in * end.
    - cbn [insert_levels].
      assert (HS : H0 s1 n (fst (s', ep))).
      { cbn [fst]. split; [apply (G_weaken s1 n 1 0); auto|]. destruct OK as (_ & _ & ND & NS & _).
        split; intros m; rewrite SAME; auto. }
      assert (SPr : forall x, In x (rev sel) -> live s1 (snd x) = true /\ snd x <> n) by (intros x Hx; apply SP; apply in_rev; auto).
      destruct (link0_fold s1 n (rev sel) OK SPr (s', ep) HS) as (HH & MONO & LINK).
      split; [exact HH|split].
      + intros m t Ht. apply MONO. cbn [fst]. rewrite SAME. auto.
      + destruct sel as [|x0 r]; [congruence|].
        assert (Hx0 : In x0 (rev (x0 :: r))) by (apply in_rev; rewrite rev_involutive; left; auto).
        destruct (SPr x0 Hx0) as (L0 & N0). destruct (LINK x0 Hx0) as (A & B). exists (snd x0). auto.
    - replace (S j - 1) with j by lia.
      assert (SPr : forall x, In x (rev sel) -> live s1 (snd x) = true /\ snd x <> n) by (intros x Hx; apply SP; apply in_rev; auto).
      destruct OK as (Hn & OK').
      apply IH.
      + apply link_fold_G; auto.
        * intros x Hx. apply live_lt. apply SPr; auto.
        * cbn [fst]. apply (G_weaken s1 n (S (S j)) (S j)); auto.
      + intros m. unfold nbrs. rewrite link_fold_lev0 by discriminate. cbn [fst]. exact (SAME m).
      + destruct (link_fold_snd (S j) n (rev sel) (s', ep)) as [E|E]; [rewrite E; auto|].
        apply in_map_iff in E. destruct E as (x & <- & Hx). apply SPr; auto.
      + destruct (link_fold_snd (S j) n (rev sel) (s', ep)) as [E|E]; [rewrite E; auto|].
        apply in_map_iff in E. destruct E as (x & <- & Hx). apply SPr; auto.
  Qed.

  (* ---- the invariant of insert-only histories ---- *)
  Record K (s : hnsw) : Prop := {
    k_live : forall m, m < length (arena s) -> live s m = true;
    k_tgt : forall m l e, In e (edges_at (vget s m) l) -> fst e < length (arena s);
    k_nodup : forall m, NoDup (nbrs s 0 m);
    k_noself : forall m, ~ In m (nbrs s 0 m);
    k_lev0 : forall m, m < length (arena s) -> 0 < length (vedges (vget s m));
    k_conn : forall a b, a < length (arena s) -> b < length (arena s) -> reach s 0 a b;
    k_count : length (idmap s) = length (arena s)
  }.

  Lemma nbrs_oob s l m : length (arena s) <= m -> nbrs s l m = [].
  Proof. intros H. unfold nbrs. rewrite (vget_oob s m H), edges_dv. reflexivity. Qed.
  Lemma K_empty : K hnsw_empty.
  Proof.
    constructor; simpl; try (intros; lia); auto.
    - intros m l e. rewrite vget_oob by (simpl; lia). rewrite edges_dv. intros [].
    - intros m. rewrite nbrs_oob by (simpl; lia). constructor.
    - intros m. rewrite nbrs_oob by (simpl; lia). intros [].
  Qed.

  Lemma reach_mono s s' a b : (forall m t, In t (nbrs s 0 m) -> In t (nbrs s' 0 m)) -> (forall t, live s t = true -> live s' t = true) ->
    reach s 0 a b -> reach s' 0 a b.
  Proof. intros M L R. induction R; [constructor|]. eapply reach_step; eauto. Qed.

  Lemma K_set_entry s e : K s -> K (set_entry s e).
  Proof.
    intros [A B C D E F G0]. constructor; auto. intros a b Ha Hb. apply (reach_mono s (set_entry s e)); auto.
  Qed.

  Lemma K_of_post s s1 n s2 id : K s -> S1ok s1 n -> n = length (arena s) -> length (arena s1) = S n ->
    (forall k, k < n -> vget s1 k = vget s k) -> live s1 n = true -> idmap s1 = (id, n) :: idmap s -> post s1 n s2 -> K s2.
  Proof.
    intros KS (_ & LV0 & _) Hn L1 GK LVn HM (((D & E & V) & ND & NS) & MONO & t0 & T0n & T0l & T0a & T0b).
    assert (L2 : length (arena s2) = S n) by (rewrite <- (same_data_length s1 s2 D); auto).
    assert (LIVE1 : forall t, t < n -> live s1 t = true) by (intros t Ht; unfold live; rewrite GK by auto; apply (k_live s KS); lia).
    assert (LIVE2 : forall t, t < S n -> live s2 t = true).
    { intros t Ht. rewrite <- (live_data s1 s2 t D). destruct (Nat.eq_dec t n) as [->|]; auto. apply LIVE1. lia. }
    assert (MS : forall m t, In t (nbrs s 0 m) -> In t (nbrs s2 0 m)).
    { intros m t Ht. destruct (Nat.lt_ge_cases m n) as [Hm|Hm].
      - apply MONO. unfold nbrs. rewrite GK by auto. exact Ht.
      - rewrite nbrs_oob in Ht by lia. destruct Ht. }
    assert (LS : forall t, live s t = true -> live s2 t = true) by (intros t Ht; apply LIVE2; apply live_lt in Ht; lia).
    assert (T0 : t0 < n) by (apply live_lt in T0l; lia).
    assert (OLD : forall a b, a < n -> b < n -> reach s2 0 a b) by (intros a b Ha Hb; apply (reach_mono s s2); auto; apply (k_conn s KS); lia).
    assert (TON : forall x, x < n -> reach s2 0 x n).
    { intros x Hx. eapply reach_step; [apply (OLD x t0); auto|exact T0b|apply LIVE2; lia]. }
    assert (FROMN : forall x, x < n -> reach s2 0 n x).
    { intros x Hx. eapply reach_trans; [|apply (OLD t0 x); auto]. eapply reach_step; [apply reach_refl|exact T0a|apply LIVE2; lia]. }
    constructor.
    - intros m Hm. apply LIVE2. lia.
    - intros m l e He. rewrite L2, <- L1. apply (E m l e He).
    - exact ND.
    - exact NS.
    - intros m Hm. rewrite V. apply LV0. lia.
    - intros a b Ha Hb. rewrite L2 in Ha, Hb.
      destruct (Nat.eq_dec a n) as [->|Na]; destruct (Nat.eq_dec b n) as [->|Nb].
      + apply reach_refl.
      + apply FROMN. lia.
      + apply TON. lia.
      + apply OLD; lia.
    - rewrite L2. destruct D as (_ & <- & _). rewrite HM. simpl. rewrite (k_count s KS). lia.
  Qed.

  Lemma store_facts s id v m lvl s1 n : Inv s -> K s -> store_vertex s id v m lvl = Some (s1, n) ->
    n = length (arena s) /\ length (arena s1) = S n /\ (forall k, k < n -> vget s1 k = vget s k) /\ live s1 n = true /\
    (forall l, edges_at (vget s1 n) l = []) /\ 0 < length (vedges (vget s1 n)) /\ idmap s1 = (id, n) :: idmap s /\ entry s1 = entry s /\
    (forall j, G s1 n j s1) /\ (length (arena s) <= c_mmax0 c -> 1 <= c_m c -> S1ok s1 n).
  Proof.
    intros I KS ES. destruct (store_vertex_spec dist s id v m lvl s1 n I ES) as (Hn & _ & HA & HM & HE & GK & _ & _).
    assert (L1 : length (arena s1) = S n) by (rewrite HA, app_length; simpl; lia).
    assert (VN : vget s1 n = {| vid := id; vvec := v; vmeta := m; vlevel := lvl; vdel := false; vedges := repeat [] (S lvl) |}).
    { unfold vget. rewrite HA, Hn, app_nth2, Nat.sub_diag by lia. reflexivity. }
    assert (EN : forall l, edges_at (vget s1 n) l = []) by (intros l; rewrite VN; unfold edges_at; cbn [vedges]; apply nth_repeat_nil).
    assert (GK' : forall k, k < n -> vget s1 k = vget s k) by (intros k Hk; apply GK; lia).
    assert (VL : 0 < length (vedges (vget s1 n))) by (rewrite VN; cbn [vedges]; rewrite repeat_length; lia).
    assert (N1 : forall m, nbrs s1 0 m = nbrs s 0 m).
    { intros m0. destruct (Nat.lt_ge_cases m0 n) as [Hm|Hm]; [unfold nbrs; rewrite GK' by auto; reflexivity|].
      rewrite (nbrs_oob s 0 m0) by lia. destruct (Nat.eq_dec m0 n) as [->|]; [unfold nbrs; rewrite EN; reflexivity|apply nbrs_oob; lia]. }
    split; [auto|split; [auto|split; [auto|split; [unfold live; rewrite VN; reflexivity|split; [auto|split; [auto|split; [auto|split; [auto|split]]]]]]]].
    - intros j. split; [apply same_data_refl|split; [|auto]]. intros m0 l e He.
      destruct (Nat.lt_ge_cases m0 n) as [Hm|Hm].
      + rewrite GK' in He by auto. pose proof (k_tgt s KS m0 l e He) as B. unfold Q. lia.
      + destruct (Nat.eq_dec m0 n) as [->|]; [rewrite EN in He; destruct He|]. rewrite vget_oob, edges_dv in He by lia. destruct He.
    - intros BND M. split; [lia|split; [|split; [|split; [|split; [lia|auto]]]]].
      + intros m0 Hm. destruct (Nat.eq_dec m0 n) as [->|]; auto. rewrite GK' by lia. apply (k_lev0 s KS). lia.
      + intros m0. rewrite N1. apply (k_nodup s KS).
      + intros m0. rewrite N1. apply (k_noself s KS).
  Qed.

  Lemma insert_K s id v m lvl : Inv s -> K s -> lookup_id s id = None -> 1 <= c_m c -> length (arena s) <= c_mmax0 c ->
    K (fst (insert dist ord c s id v m lvl)).
  Proof.
    intros I KS LN M BND. unfold insert. destruct (entry s) as [e0|] eqn:EE.
    - destruct (store_vertex s id v m lvl) as [[s1 n]|] eqn:ES.
      2:{ unfold store_vertex in ES. rewrite LN in ES. discriminate. }
      destruct (store_facts s id v m lvl s1 n I KS ES) as (Hn & L1 & GK & LVn & EN & VL & HM & HE & G0 & OK). specialize (OK BND M).
      pose proof (inv_entry _ I) as IE. rewrite EE in IE. destruct IE as (ide & Hide).
      destruct (inv_map _ I _ _ Hide) as (He0 & _ & _).
      assert (Le0 : live s1 e0 = true) by (unfold live; rewrite GK by lia; apply (k_live s KS); auto).
      assert (NOTN : forall m0 l e, In e (edges_at (vget s1 m0) l) -> fst e <> n).
      { intros m0 l e He. destruct (G0 (S l)) as (_ & E & _). apply (E m0 l e He). lia. }
      pose proof (greedy_down_live dist ord (vlevel (vget s1 e0) - lvl) s1 v e0 (vdist dist s1 v e0) (vlevel (vget s1 e0)) Le0) as Lep.
      assert (Nep : fst (greedy_down dist ord s1 v e0 (vdist dist s1 v e0) (vlevel (vget s1 e0)) (vlevel (vget s1 e0) - lvl)) <> n).
      { apply (greedy_down_P (fun x => x <> n) s1 v NOTN). lia. }
      destruct (greedy_down dist ord s1 v e0 (vdist dist s1 v e0) (vlevel (vget s1 e0)) (vlevel (vget s1 e0) - lvl)) as [ep d0].
      cbn [fst] in Lep, Nep.
      set (top := Nat.min (vlevel (vget s1 ep)) lvl).
      pose proof (insert_levels_post s1 n OK top s1 ep (G0 (S top)) (fun _ => eq_refl) Lep Nep) as P.
      pose proof (K_of_post s s1 n _ id KS OK Hn L1 GK LVn HM P) as K2.
      cbv zeta. destruct (entry (insert_levels dist ord c s1 n ep top (S top))) as [e1|]; [destruct (_ <? _)|]; cbn [fst]; auto.
      apply K_set_entry; auto.
    - destruct (store_vertex s id v m 0) as [[s1 n]|] eqn:ES.
      2:{ unfold store_vertex in ES. rewrite LN in ES. discriminate. }
      destruct (store_facts s id v m 0 s1 n I KS ES) as (Hn & L1 & GK & LVn & EN & VL & HM & HE & G0 & OK). specialize (OK BND M).
      pose proof (inv_entry _ I) as IE. rewrite EE in IE.
      assert (Z0 : n = 0) by (rewrite Hn, <- (k_count s KS), IE; reflexivity).
      cbn [fst]. apply K_set_entry. assert (A0 : length (arena s) = 0) by lia. clear Hn. subst n.
      assert (NB : forall m0, nbrs s1 0 m0 = []).
      { intros m0. destruct m0; [unfold nbrs; rewrite EN; reflexivity|apply nbrs_oob; lia]. }
      constructor.
      + intros m0 Hm. assert (m0 = 0) by lia. subst. auto.
      + intros m0 l e He. destruct m0; [rewrite EN in He; destruct He|]. rewrite vget_oob, edges_dv in He by lia. destruct He.
      + intros m0. rewrite NB. constructor.
      + intros m0. rewrite NB. intros [].
      + intros m0 Hm. assert (m0 = 0) by lia. subst. auto.
      + intros a b Ha Hb. assert (a = 0) by lia. assert (b = 0) by lia. subst. apply reach_refl.
      + rewrite HM, L1. simpl. rewrite IE. reflexivity.
  Qed.

  (* ---- every insert-only history within the bound ---- *)
  Definition idof (o : N * vec * meta * nat) : N := let '(id, _, _, _) := o in id.
  Lemma fold_insert_K ops : forall s0, Inv s0 -> K s0 -> NoDup (map idof ops) ->
    (forall o, In o ops -> ~ In (idof o) (map fst (idmap s0))) ->
    length (arena s0) + length ops <= S (c_mmax0 c) -> 1 <= c_m c ->
    Inv (fold_left (fun s '(id, v, m, l) => fst (insert dist ord c s id v m l)) ops s0) /\
    K (fold_left (fun s '(id, v, m, l) => fst (insert dist ord c s id v m l)) ops s0) /\
    length (arena (fold_left (fun s '(id, v, m, l) => fst (insert dist ord c s id v m l)) ops s0)) = length (arena s0) + length ops.
  Proof.
    induction ops as [|o r IH]; intros s0 I KS ND FR BND M; cbn [fold_left].
    - split; [auto|split; [auto|simpl; lia]].
    - destruct o as [[[id v] m] l]. cbn [length] in BND.
      assert (LN : lookup_id s0 id = None).
      { unfold lookup_id. apply alookup_none. apply (FR (id, v, m, l)). left. reflexivity. }
      assert (VN : view (h_ops dist ord c) s0 id = None) by (rewrite view_lookup by auto; rewrite LN; reflexivity).
      destruct (insert_new dist ord c s0 id v m l I VN) as (s' & E & I' & P).
      pose proof (insert_K s0 id v m l I KS LN M ltac:(lia)) as K'. rewrite E in K'. cbn [fst] in K'. rewrite E. cbn [fst].
      assert (LEN : length (arena s') = S (length (arena s0))).
      { rewrite <- (k_count s' K'), <- (k_count s0 KS). apply Permutation_length in P. unfold h_items in P. cbn [length] in P. rewrite !map_length in P. exact P. }
      inversion ND as [|x xs NI ND']; subst.
      destruct (IH s' I' K' ND') as (A & B & C); auto.
      + intros o Ho Hin. assert (HI : In (idof o) (map fst (h_items s'))).
        { unfold h_items. rewrite map_map. cbn [fst]. exact Hin. }
        apply (Permutation_in _ (Permutation_map fst P)) in HI. cbn [map fst] in HI. destruct HI as [HI|HI].
        * apply NI. cbn [idof] in HI. rewrite HI. apply in_map. auto.
        * apply (FR o (or_intror Ho)). unfold h_items in HI. rewrite map_map in HI. cbn [fst] in HI. exact HI.
      + lia.
      + split; [auto|split; [auto|]]. rewrite C, LEN. simpl. lia.
  Qed.

  (* the states of insert-only histories within the bound: structural invariant, connected level 0, all items live *)
  Lemma small_inv ops : NoDup (map (fun '(id, _, _, _) => id) ops) -> length ops <= 2 * c_m c + 1 -> c_mmax0 c = 2 * c_m c -> 1 <= c_m c ->
    Inv (insert_only dist ord c ops) /\ K (insert_only dist ord c ops) /\ length (arena (insert_only dist ord c ops)) = length ops.
  Proof.
    intros ND LEN M0 M1.
    assert (IDS : map (fun '(id, _, _, _) => id) ops = map idof ops) by (apply map_ext; intros [[[? ?] ?] ?]; reflexivity).
    rewrite IDS in ND.
    destruct (fold_insert_K ops hnsw_empty inv_empty K_empty ND) as (I & KS & L); [intros o _ []|simpl; lia|auto|].
    simpl in L. auto.
  Qed.

  Theorem C07_exact_holds : C07_exact_statement dist ord c.
  Proof.
    intros _ ops q k ND LEN M0 M1 WIDE SMALL.
    destruct (small_inv ops ND LEN M0 M1) as (I & KS & L). set (s := insert_only dist ord c ops) in *.
    intros n0 Ln. unfold beam. destruct (entry s) as [e0|] eqn:EE.
    - pose proof (inv_entry _ I) as IE. rewrite EE in IE. destruct IE as (ide & Hide).
      destruct (inv_map _ I _ _ Hide) as (He0 & _ & Hdel0).
      assert (L0 : live s e0 = true) by (unfold live; rewrite Hdel0; auto).
      pose proof (greedy_down_live dist ord (vlevel (vget s e0)) s q e0 (vdist dist s q e0) (vlevel (vget s e0)) L0) as LG.
      destruct (greedy_down dist ord s q e0 (vdist dist s q e0) (vlevel (vget s e0)) (vlevel (vget s e0))) as [ep d0]. cbn [fst] in LG.
      apply (search_level_covers dist ord ord_perm s q (beam_width c s k) 0); auto.
      + unfold beam_width. rewrite (inv_len _ I), (k_count s KS), L.
        rewrite wrap_small by exact SMALL. rewrite Nat2N.id. lia.
      + apply (k_conn s KS); apply live_lt; auto.
    - pose proof (inv_entry _ I) as IE. rewrite EE in IE. apply live_lt in Ln.
      rewrite <- (k_count s KS), IE in Ln. simpl in Ln. lia.
  Qed.
End Small.
