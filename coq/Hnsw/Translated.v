(* Hnsw/Translated.v — the level-0 beam width of Hnsw.Search as translated from index/hnsw.go on this run is the
   model's beam_width. *)
From Verif Require Import Base.Prelude Base.GoMinMax Store.Spec Hnsw.Model Generated.Translated.
From Coq Require Import ZArith Lia.

Theorem go_Search_ef_is_model (ef k len : nat) :
  (Z.of_nat ef <= MaxIntVal)%Z -> (Z.of_nat k <= MaxIntVal)%Z -> (Z.of_nat len <= MaxIntVal)%Z ->
  go_Search_ef (Z.of_nat ef) (Z.of_nat k) (Z.of_nat len) = Z.of_nat (Nat.max ef (Nat.min k len)).
Proof.
  intros H1 H2 H3. unfold go_Search_ef. rewrite go_MinInt_pair by lia.
  rewrite go_MaxInt_pair by (unfold MaxIntVal in *; lia). lia.
Qed.
Theorem beam_width_is_translated c s k :
  (Z.of_nat (c_ef c) <= MaxIntVal)%Z -> (Z.of_nat k <= MaxIntVal)%Z -> (Z.of_N (hlen s) <= MaxIntVal)%Z ->
  Z.of_nat (beam_width c s k) = go_Search_ef (Z.of_nat (c_ef c)) (Z.of_nat k) (Z.of_N (hlen s)).
Proof.
  intros H1 H2 H3. unfold beam_width. assert (E : Z.of_N (hlen s) = Z.of_nat (N.to_nat (hlen s))) by lia.
  rewrite E. rewrite go_Search_ef_is_model; try lia.
Qed.
