(* PQ/Check.v — executable checkers used by the correspondence harness (no proofs needed to run). *)
From Verif Require Import Base.Prelude PQ.Model.

Definition item_eqb (a b : item) : bool := (ip a =? ip b)%Z && (iv a =? iv b)%N.
Fixpoint list_eqb {A} (e : A -> A -> bool) (l l' : list A) : bool :=
  match l, l' with
  | [], [] => true
  | a :: t, b :: t' => e a b && list_eqb e t t'
  | _, _ => false
  end.
Definition out_eqb (a b : out) : bool :=
  match a, b with
  | OItems l, OItems l' => list_eqb item_eqb l l'
  | OLen n, OLen m => Nat.eqb n m
  | OCrash, OCrash => true
  | ONone, ONone => true
  | _, _ => false
  end.

Record pq_case := { c_ops : list pqop; c_obs : list out }.

(* (1) state-level correspondence: the model's outputs equal the implementation's *)
Definition case_model_ok (copies : bool) (c : pq_case) : bool :=
  list_eqb out_eqb (pq_run copies [] (c_ops c)) (c_obs c).

(* (2) the property itself, evaluated on the implementation's observations only: per-handle bags *)
Fixpoint remove1 (x : item) (l : list item) : option (list item) :=
  match l with
  | [] => None
  | a :: t => if item_eqb a x then Some t else match remove1 x t with None => None | Some t' => Some (a :: t') end
  end.
Definition kleb (k : kind) (a b : item) : bool := negb (less k b a).   (* a may come out before b *)
Definition minimal (k : kind) (x : item) (bag : list item) : bool := forallb (kleb k x) bag.
Fixpoint same_bag (l bag : list item) : bool :=
  match l with
  | [] => match bag with [] => true | _ => false end
  | a :: t => match remove1 a bag with None => false | Some bag' => same_bag t bag' end
  end.
(* a Go slice dump must additionally be a heap in its own order *)
Fixpoint heap_okb_aux (k : kind) (h : list item) (c : nat) : bool :=
  match c with
  | O => true
  | S c' => kleb k (nth ((c - 1) / 2) h d0) (nth c h d0) && heap_okb_aux k h c'
  end.
Definition heap_okb (k : kind) (h : list item) : bool := heap_okb_aux k h (length h - 1).

Definition bags := list (option (kind * list item)).
Definition bget (s : bags) (h : nat) := nth h s None.
Fixpoint bset (s : bags) (h : nat) (v : kind * list item) : bags :=
  match h, s with
  | O, [] => [Some v]
  | O, _ :: t => Some v :: t
  | S h', [] => None :: bset [] h' v
  | S h', a :: t => a :: bset t h' v
  end.

Definition oracle_step (s : bags) (o : pqop) (r : out) : option bags :=
  match o with
  | PNew h k => match r with ONone => Some (bset s h (k, [])) | _ => None end
  | PPush h x => match bget s h with
                 | None => None
                 | Some (k, bag) => if (ip x <? 0)%Z then match r with OCrash => Some s | _ => None end
                                    else match r with ONone => Some (bset s h (k, x :: bag)) | _ => None end
                 end
  | PPop h => match bget s h with
              | None => None
              | Some (k, []) => match r with OCrash => Some s | _ => None end
              | Some (k, bag) => match r with
                                 | OItems [x] => if minimal k x bag then
                                                   match remove1 x bag with Some bag' => Some (bset s h (k, bag')) | None => None end
                                                 else None
                                 | _ => None end
              end
  | PPeek h => match bget s h with
               | None => None
               | Some (k, []) => match r with OCrash => Some s | _ => None end
               | Some (k, bag) => match r with
                                  | OItems [x] => if minimal k x bag && match remove1 x bag with Some _ => true | None => false end
                                                  then Some s else None
                                  | _ => None end
               end
  | PReverse h h' => match bget s h with
                     | None => None
                     | Some (k, bag) => match r with ONone => Some (bset s h' (opp k, bag)) | _ => None end
                     end
  | PSlice h => match bget s h with
                | None => None
                | Some (k, bag) => match r with
                                   | OItems l => if same_bag l bag && heap_okb k l then Some s else None
                                   | _ => None end
                end
  | PLen h => match bget s h with
              | None => None
              | Some (k, bag) => match r with OLen n => if Nat.eqb n (length bag) then Some s else None | _ => None end
              end
  end.

(* index of the first op whose observed answer the property forbids; None = all fine *)
Fixpoint oracle_run (s : bags) (ops : list pqop) (obs : list out) (i : nat) : option nat :=
  match ops, obs with
  | [], [] => None
  | o :: ops', r :: obs' => match oracle_step s o r with
                            | None => Some i
                            | Some s' => oracle_run s' ops' obs' (S i)
                            end
  | _, _ => Some i
  end.
Definition case_oracle_ok (c : pq_case) : bool :=
  match oracle_run [] (c_ops c) (c_obs c) 0 with None => true | Some _ => false end.

(* indices of failing cases *)
Fixpoint bad_idx {A} (f : A -> bool) (l : list A) (i : nat) : list nat :=
  match l with [] => [] | a :: t => if f a then bad_idx f t (S i) else i :: bad_idx f t (S i) end.

(* short constructors used by the generated case files *)
Definition I (p : Z) (v : N) : item := {| ip := p; iv := v |}.
