(* PQ/Model.v — executable model of utils/priority_queue.go over container/heap.
   Priorities are float32 bit patterns of non-negative, non-NaN floats (order-isomorphic to Z).
   No proofs here: the model must keep running when a proof breaks. *)
From Verif Require Import Base.Prelude.

Record item := { ip : Z; iv : N }.
Definition d0 : item := {| ip := 0; iv := 0 |}.
Inductive kind := MinQ | MaxQ.
Definition opp (k : kind) := match k with MinQ => MaxQ | MaxQ => MinQ end.

(* minPriorityQueue.Less / maxPriorityQueue.Less *)
Definition less (k : kind) (a b : item) : bool :=
  match k with MinQ => (ip a <? ip b)%Z | MaxQ => (ip b <? ip a)%Z end.

Definition swap (h : list item) (i j : nat) : list item :=
  upd (upd h i (nth j h d0)) j (nth i h d0).

(* container/heap.up: for { i := (j-1)/2; if i == j || !Less(j,i) {break}; Swap(i,j); j = i } *)
Fixpoint up (fuel : nat) (k : kind) (h : list item) (j : nat) : list item :=
  match fuel with
  | O => h
  | S f => let i := (j - 1) / 2 in
           if (i =? j) || negb (less k (nth j h d0) (nth i h d0)) then h
           else up f k (swap h i j) i
  end.

(* container/heap.down(h, i, n) *)
Fixpoint down (fuel : nat) (k : kind) (h : list item) (i n : nat) : list item :=
  match fuel with
  | O => h
  | S f => let j1 := 2 * i + 1 in
           if n <=? j1 then h else
           let j := if (j1 + 1 <? n) && less k (nth (j1 + 1) h d0) (nth j1 h d0) then j1 + 1 else j1 in
           if negb (less k (nth j h d0) (nth i h d0)) then h
           else down f k (swap h i j) j n
  end.

(* heap.Init: for i := n/2 - 1; i >= 0; i-- { down(h, i, n) }  — [cnt] counts i+1 down to 1 *)
Fixpoint init_loop (k : kind) (h : list item) (cnt : nat) : list item :=
  match cnt with
  | O => h
  | S i => init_loop k (down (length h) k h i (length h)) i
  end.
Definition heap_init (k : kind) (h : list item) : list item := init_loop k h (length h / 2).

(* heap.Push: append; up(len-1) *)
Definition heap_push (k : kind) (h : list item) (x : item) : list item :=
  let h' := h ++ [x] in up (length h') k h' (length h' - 1).

(* heap.Pop: n := len-1; Swap(0,n); down(0,n); remove last *)
Definition heap_pop (k : kind) (h : list item) : option (item * list item) :=
  match h with
  | [] => None
  | _ => let n := length h - 1 in
         let h1 := down (length h) k (swap h 0 n) 0 n in
         Some (nth n h1 d0, firstn n h1)
  end.

(* ---- the queue object ---- *)
Record queue := { qk : kind; qh : list item }.

Inductive out := OItems (l : list item) | OLen (n : nat) | OCrash | ONone.

Definition q_new (k : kind) : queue := {| qk := k; qh := heap_init k [] |}.
Definition q_push (q : queue) (x : item) : option queue :=
  if (ip x <? 0)%Z then None (* panic("Negative priority") *)
  else Some {| qk := qk q; qh := heap_push (qk q) (qh q) x |}.
Definition q_pop (q : queue) : option (item * queue) :=
  match heap_pop (qk q) (qh q) with
  | None => None (* panic("Empty priority queue") *)
  | Some (x, h) => Some (x, {| qk := qk q; qh := h |})
  end.
Definition q_peek (q : queue) : option item :=
  match qh q with [] => None | x :: _ => Some x end.

(* Reverse.  [copies = true]: the result owns a fresh copy of the items (heap.Init on it).
   [copies = false]: the pre-fix behaviour — the result is a slice header over the SAME backing array, so
   heap.Init of the opposite order rearranges the original's array as well.  The aliased variant is exact up to
   the next append that reallocates; it exists for the regression witness in PQ/Refuted.v. *)
Definition q_reverse (copies : bool) (q : queue) : queue * queue :=
  let h' := heap_init (opp (qk q)) (qh q) in
  let q' := {| qk := opp (qk q); qh := h' |} in
  if copies then (q, q') else ({| qk := qk q; qh := h' |}, q').

(* ---- scripts over several handles (what the harness drives) ---- *)
Inductive pqop :=
| PNew (h : nat) (k : kind)
| PPush (h : nat) (x : item)
| PPop (h : nat)
| PPeek (h : nat)
| PReverse (h h' : nat)
| PSlice (h : nat)
| PLen (h : nat).

Definition hstore := list (option queue).
Definition hget (s : hstore) (h : nat) : option queue := nth h s None.
Fixpoint hset (s : hstore) (h : nat) (q : queue) : hstore :=
  match h, s with
  | O, [] => [Some q]
  | O, _ :: t => Some q :: t
  | S h', [] => None :: hset [] h' q
  | S h', a :: t => a :: hset t h' q
  end.

Definition pq_step (copies : bool) (s : hstore) (o : pqop) : hstore * out :=
  match o with
  | PNew h k => (hset s h (q_new k), ONone)
  | PPush h x => match hget s h with
                 | None => (s, OCrash)
                 | Some q => match q_push q x with None => (s, OCrash) | Some q' => (hset s h q', ONone) end
                 end
  | PPop h => match hget s h with
              | None => (s, OCrash)
              | Some q => match q_pop q with None => (s, OCrash) | Some (x, q') => (hset s h q', OItems [x]) end
              end
  | PPeek h => match hget s h with
               | None => (s, OCrash)
               | Some q => match q_peek q with None => (s, OCrash) | Some x => (s, OItems [x]) end
               end
  | PReverse h h' => match hget s h with
                     | None => (s, OCrash)
                     | Some q => let '(q0, q1) := q_reverse copies q in (hset (hset s h q0) h' q1, ONone)
                     end
  | PSlice h => match hget s h with None => (s, OCrash) | Some q => (s, OItems (qh q)) end
  | PLen h => match hget s h with None => (s, OCrash) | Some q => (s, OLen (length (qh q))) end
  end.

Fixpoint pq_run (copies : bool) (s : hstore) (ops : list pqop) : list out :=
  match ops with
  | [] => []
  | o :: r => let '(s', x) := pq_step copies s o in x :: pq_run copies s' r
  end.
