(* PQ/Proofs.v — container/heap over the two Less functions: heap invariant, pop order, multiset. *)
From Verif Require Import Base.Prelude PQ.Model.
From Coq Require Import ZifyBool ZifyNat.
Ltac Zify.zify_post_hook ::= Z.div_mod_to_equations.

Definition key (k : kind) (a : item) : Z := match k with MinQ => ip a | MaxQ => - ip a end%Z.
Lemma less_key k a b : less k a b = (key k a <? key k b)%Z.
Proof. destruct k; unfold less, key; simpl; auto. destruct (Z.ltb_spec (ip b) (ip a)), (Z.ltb_spec (- ip a) (- ip b)); lia. Qed.

Definition item_dec : forall a b : item, {a = b} + {a <> b}.
Proof. decide equality; [apply N.eq_dec | apply Z.eq_dec]. Defined.

Definition par (c : nat) : nat := (c - 1) / 2.
Lemma par_lt c : 0 < c -> par c < c. Proof. unfold par; intros; lia. Qed.
Lemma par_child c i : 0 < c -> (par c = i <-> c = 2 * i + 1 \/ c = 2 * i + 2).
Proof. unfold par; intros; lia. Qed.

Local Notation "h [[ i ]]" := (nth i h d0) (at level 9, format "h [[ i ]]").

Lemma swap_length h i j : length (swap h i j) = length h.
Proof. unfold swap; rewrite !upd_length; auto. Qed.

Lemma nth_swap h a b x : a < length h -> b < length h ->
  (swap h a b)[[x]] = if x =? b then h[[a]] else if x =? a then h[[b]] else h[[x]].
Proof.
  intros Ha Hb; unfold swap. rewrite !nth_upd, !upd_length.
  destruct (Nat.eqb_spec b x), (Nat.eqb_spec a x), (Nat.eqb_spec x b), (Nat.eqb_spec x a),
           (Nat.ltb_spec b (length h)), (Nat.ltb_spec a (length h)); simpl; subst; auto; try lia.
Qed.

Lemma swap_perm h a b : a < length h -> b < length h -> Permutation (swap h a b) h.
Proof.
  intros Ha Hb. apply (perm_of_count item_dec); intros y. unfold swap.
  pose proof (count_upd item_dec h a h[[b]] y Ha) as H1.
  pose proof (count_upd item_dec (upd h a h[[b]]) b h[[a]] y ltac:(rewrite upd_length; auto)) as H2.
  rewrite (nth_indep h h[[b]] d0 Ha) in H1.
  rewrite (nth_indep (upd h a h[[b]]) h[[a]] d0) in H2 by (rewrite upd_length; auto).
  rewrite nth_upd in H2.
  destruct (Nat.eqb_spec a b) as [->|Hab]; simpl in H2.
  - destruct (Nat.ltb_spec b (length h)); lia.
  - destruct (item_dec h[[b]] y), (item_dec h[[a]] y); lia.
Qed.

(* ------------------------------------------------------------------ up *)
Definition okat k (h : list item) (c : nat) : Prop := c = 0 \/ (key k h[[par c]] <= key k h[[c]])%Z.
Definition heap_ok k (h : list item) : Prop := forall c, c < length h -> okat k h c.

Definition Uinv k h j : Prop :=
  (forall c, c < length h -> c <> j -> okat k h c) /\
  (0 < j -> forall c, c < length h -> 0 < c -> par c = j -> (key k h[[par j]] <= key k h[[c]])%Z).

Lemma up_length fuel k h j : j < length h -> length (up fuel k h j) = length h.
Proof.
  revert h j; induction fuel as [|f IH]; intros h j Hj; cbn [up]; auto.
  destruct ((_ =? _) || _); auto. rewrite IH; rewrite ?swap_length; auto. lia.
Qed.

Lemma up_perm fuel k h j : j < length h -> Permutation (up fuel k h j) h.
Proof.
  revert h j; induction fuel as [|f IH]; intros h j Hj; cbn [up]; auto.
  destruct ((_ =? _) || _); auto.
  assert (Hp : (j - 1) / 2 < length h) by lia.
  rewrite IH by (rewrite swap_length; auto). apply swap_perm; auto.
Qed.

Lemma up_ok fuel k h j : j < fuel -> j < length h -> Uinv k h j -> heap_ok k (up fuel k h j).
Proof.
  revert h j; induction fuel as [|f IH]; intros h j Hf Hj [U1 U2]; [lia|]. cbn [up]. fold (par j).
  destruct (Nat.eqb_spec (par j) j) as [E|E]; simpl.
  { intros c Hc. destruct (Nat.eq_dec c j) as [->|Hne]; [|apply U1; auto].
    left. destruct j; auto. pose proof (par_lt (S j)); lia. }
  assert (J0 : 0 < j) by (destruct j; [unfold par in E; simpl in E; lia | lia]).
  pose proof (par_lt j J0) as Pj.
  rewrite less_key. destruct (Z.ltb_spec (key k h[[j]]) (key k h[[par j]])) as [L|L]; simpl.
  2:{ intros c Hc. destruct (Nat.eq_dec c j) as [->|Hne]; [right; lia | apply U1; auto]. }
  assert (Pl : par j < length h) by lia.
  apply IH; rewrite ?swap_length; try lia.
  assert (NS : forall x, (swap h (par j) j)[[x]] =
            if x =? j then h[[par j]] else if x =? par j then h[[j]] else h[[x]]) by (intros; apply nth_swap; auto).
  split.
  - intros c Hc Hne. rewrite swap_length in Hc. unfold okat. destruct (Nat.eq_dec c 0) as [->|C0]; [left; auto|right].
    rewrite !NS.
    pose proof (par_lt c ltac:(lia)) as Pc.
    destruct (Nat.eqb_spec c j) as [->|Hcj].
    + destruct (Nat.eqb_spec (par j) j); try lia. rewrite Nat.eqb_refl. lia.
    + destruct (Nat.eqb_spec c (par j)); try lia.
      destruct (Nat.eqb_spec (par c) j) as [Epc|Epc].
      * specialize (U2 J0 c Hc ltac:(lia) Epc). lia.
      * destruct (Nat.eqb_spec (par c) (par j)) as [Epp|Epp].
        -- destruct (U1 c Hc Hcj) as [?|O]; try lia. rewrite Epp in O. lia.
        -- destruct (U1 c Hc Hcj) as [?|O]; try lia.
  - intros P0 c Hc C0 Epc. rewrite swap_length in Hc. rewrite !NS.
    pose proof (par_lt (par j) P0) as Ppp.
    destruct (Nat.eqb_spec (par (par j)) j); try lia.
    destruct (Nat.eqb_spec (par (par j)) (par j)); try lia.
    destruct (U1 (par j) Pl ltac:(lia)) as [?|Opj]; try lia.
    destruct (Nat.eqb_spec c j) as [->|Hcj]; [lia|].
    destruct (Nat.eqb_spec c (par j)) as [->|Hcp]; [pose proof (par_lt (par j)); lia|].
    destruct (U1 c Hc Hcj) as [?|Oc]; try lia. rewrite Epc in Oc. lia.
Qed.

(* ------------------------------------------------------------------ down *)
(* region invariant: every c < n whose parent is >= lo is ok, except the children of i; and children of i
   are above i's parent when that parent is in the region *)
Definition Dinv k h i lo n : Prop :=
  (forall c, 0 < c < n -> lo <= par c -> par c <> i -> (key k h[[par c]] <= key k h[[c]])%Z) /\
  (0 < i -> lo <= par i -> forall c, 0 < c < n -> par c = i -> (key k h[[par i]] <= key k h[[c]])%Z).
Definition region_ok k h lo n : Prop :=
  forall c, 0 < c < n -> lo <= par c -> (key k h[[par c]] <= key k h[[c]])%Z.

Lemma down_length fuel k h i n : n <= length h -> length (down fuel k h i n) = length h.
Proof.
  revert h i; induction fuel as [|f IH]; intros h i Hn; cbn [down]; auto.
  destruct (Nat.leb_spec n (2 * i + 1)); auto.
  destruct (negb _); auto. rewrite IH; rewrite ?swap_length; auto.
Qed.

Lemma down_perm fuel k h i n : i < n -> n <= length h -> Permutation (down fuel k h i n) h.
Proof.
  revert h i; induction fuel as [|f IH]; intros h i Hi Hn; cbn [down]; auto.
  destruct (Nat.leb_spec n (2 * i + 1)); auto.
  match goal with |- context [swap h i ?jj] => set (j := jj) end.
  destruct (negb _); auto.
  assert (Hj : j < n) by (unfold j; destruct (Nat.ltb_spec (2 * i + 1 + 1) n); simpl; try lia; destruct (less _ _ _); lia).
  rewrite IH by (rewrite ?swap_length; auto). apply swap_perm; lia.
Qed.

Lemma down_above fuel k h i n x : i < n -> n <= length h -> n <= x -> (down fuel k h i n)[[x]] = h[[x]].
Proof.
  revert h i; induction fuel as [|f IH]; intros h i Hi Hn Hx; cbn [down]; auto.
  destruct (Nat.leb_spec n (2 * i + 1)); auto.
  match goal with |- context [swap h i ?jj] => set (j := jj) end.
  destruct (negb _); auto.
  assert (Hj : j < n) by (unfold j; destruct (Nat.ltb_spec (2 * i + 1 + 1) n); simpl; try lia; destruct (less _ _ _); lia).
  rewrite IH by (rewrite ?swap_length; auto). rewrite nth_swap by lia.
  destruct (Nat.eqb_spec x j), (Nat.eqb_spec x i); try lia. auto.
Qed.

Lemma down_ok fuel k h i lo n : n <= fuel + i -> lo <= i -> i < n -> n <= length h ->
  Dinv k h i lo n -> region_ok k (down fuel k h i n) lo n.
Proof.
  revert h i; induction fuel as [|f IH]; intros h i Hf Hlo Hi Hn [D1 D2]; [lia|]. cbn [down].
  destruct (Nat.leb_spec n (2 * i + 1)) as [Hc1|Hc1].
  { intros c Hc Hl. apply D1; auto. intros E. apply par_child in E; lia. }
  match goal with |- context [swap h i ?jj] => set (j := jj) end.
  assert (Hj : (j = 2 * i + 1 \/ j = 2 * i + 2) /\ j < n /\
               (forall c, 0 < c < n -> par c = i -> (key k h[[j]] <= key k h[[c]])%Z)).
  { unfold j. destruct (Nat.ltb_spec (2 * i + 1 + 1) n) as [L2|L2]; cbn [andb].
    - rewrite less_key. destruct (Z.ltb_spec (key k h[[2 * i + 1 + 1]]) (key k h[[2 * i + 1]])) as [L|L].
      + split; [lia|split; [lia|] ]. intros c Hc E. apply par_child in E; try lia.
        destruct E as [->| ->]; try lia. replace (2 * i + 2) with (2 * i + 1 + 1) by lia. lia.
      + split; [lia|split; [lia|] ]. intros c Hc E. apply par_child in E; try lia.
        destruct E as [->| ->]; try lia. replace (2 * i + 2) with (2 * i + 1 + 1) by lia. lia.
    - split; [lia|split; [lia|] ]. intros c Hc E. apply par_child in E; try lia.
      destruct E as [->| ->]; try lia. }
  destruct Hj as (Hjc & Hjn & Hjmin). clearbody j.
  assert (Pj : par j = i) by (apply par_child; lia).
  rewrite less_key. destruct (Z.ltb_spec (key k h[[j]]) (key k h[[i]])) as [L|L]; simpl.
  2:{ intros c Hc Hl. destruct (Nat.eq_dec (par c) i) as [E|E]; [|apply D1; auto].
      rewrite E. specialize (Hjmin c Hc E). lia. }
  apply IH; rewrite ?swap_length; try lia.
  assert (NS : forall x, (swap h i j)[[x]] =
            if x =? j then h[[i]] else if x =? i then h[[j]] else h[[x]]) by (intros; apply nth_swap; lia).
  split.
  - intros c Hc Hl Hne. rewrite !NS.
    pose proof (par_lt c ltac:(lia)) as Pc.
    destruct (Nat.eqb_spec (par c) j); try lia.
    destruct (Nat.eqb_spec c j) as [->|Hcj].
    + rewrite Pj, Nat.eqb_refl. lia.
    + destruct (Nat.eqb_spec (par c) i) as [E|E].
      * destruct (Nat.eqb_spec c i) as [->|Hci]; [lia|]. apply Hjmin; auto.
      * destruct (Nat.eqb_spec c i) as [->|Hci].
        -- assert (0 < i) by lia. specialize (D2 ltac:(lia) Hl j ltac:(lia) Pj). lia.
        -- apply D1; auto.
  - intros J0 Hl c Hc E. rewrite !NS. rewrite Pj.
    destruct (Nat.eqb_spec i j); try lia. rewrite Nat.eqb_refl.
    pose proof (par_lt c ltac:(lia)).
    destruct (Nat.eqb_spec c j); try lia. destruct (Nat.eqb_spec c i); try lia.
    specialize (D1 c Hc ltac:(lia) ltac:(lia)). rewrite E in D1. lia.
Qed.

Lemma down_n0 fuel k h i : down fuel k h i 0 = h.
Proof. destruct fuel; cbn [down]; auto. Qed.

Lemma region_heap k h : region_ok k h 0 (length h) <-> heap_ok k h.
Proof.
  split; intros H c Hc.
  - destruct (Nat.eq_dec c 0); [left; auto|right; apply H; lia].
  - intros _. destruct (H c ltac:(lia)); lia.
Qed.

(* ------------------------------------------------------------------ root is minimal *)
Lemma root_min k h : heap_ok k h -> forall c, c < length h -> (key k h[[0]] <= key k h[[c]])%Z.
Proof.
  intros H c. induction c as [c IH] using lt_wf_ind. intros Hc.
  destruct (Nat.eq_dec c 0) as [->|C0]; [lia|].
  destruct (H c Hc) as [?|O]; try lia.
  pose proof (par_lt c ltac:(lia)). specialize (IH (par c) ltac:(lia) ltac:(lia)). lia.
Qed.

(* ------------------------------------------------------------------ push / pop / init *)
Lemma heap_push_ok k h x : heap_ok k h -> heap_ok k (heap_push k h x).
Proof.
  intros H. unfold heap_push. rewrite app_length; simpl.
  replace (length h + 1 - 1) with (length h) by lia.
  apply up_ok; rewrite ?app_length; simpl; try lia.
  split.
  - intros c Hc Hne. rewrite app_length in Hc; simpl in Hc.
    assert (c < length h) by lia. destruct (Nat.eq_dec c 0) as [->|C0]; [left; auto|].
    destruct (H c ltac:(lia)) as [?|O]; [left; auto|right].
    pose proof (par_lt c). rewrite !app_nth1 by lia. auto.
  - intros _ c Hc C0 E. rewrite app_length in Hc; simpl in Hc. pose proof (par_lt c C0). lia.
Qed.

Lemma heap_push_perm k h x : Permutation (heap_push k h x) (x :: h).
Proof.
  unfold heap_push. rewrite up_perm by (rewrite app_length; simpl; lia).
  rewrite Permutation_app_comm; simpl; auto.
Qed.

Lemma firstn_ok k h n : n <= length h -> region_ok k h 0 n -> heap_ok k (firstn n h).
Proof.
  intros Hn H c Hc. rewrite firstn_length_le in Hc by auto.
  destruct (Nat.eq_dec c 0); [left; auto|right].
  pose proof (par_lt c ltac:(lia)). rewrite !nth_firstn by lia. apply H; lia.
Qed.

Lemma split_last (h : list item) n : length h = S n -> h = firstn n h ++ [h[[n]]].
Proof.
  intros H. rewrite <- (firstn_skipn n h) at 1. f_equal.
  assert (length (skipn n h) = 1) by (rewrite skipn_length; lia).
  destruct (skipn n h) as [|a [|b t] ] eqn:E; simpl in *; try lia.
  f_equal. rewrite <- (firstn_skipn n h) at 1. rewrite E.
  rewrite app_nth2; rewrite firstn_length_le by lia; try lia. rewrite Nat.sub_diag. auto.
Qed.

Lemma heap_pop_spec k h x h' : heap_ok k h -> heap_pop k h = Some (x, h') ->
  heap_ok k h' /\ Permutation h (x :: h') /\ x = h[[0]] /\ (forall y, In y h -> (key k x <= key k y)%Z).
Proof.
  intros H E. unfold heap_pop in E. destruct h as [|a t] eqn:Eh; [discriminate|]. rewrite <- Eh in *.
  assert (L : 0 < length h) by (rewrite Eh; simpl; lia).
  set (n := length h - 1) in *. set (h1 := down (length h) k (swap h 0 n) 0 n) in *.
  inversion E; subst x h'; clear E.
  assert (L1 : length h1 = length h) by (unfold h1; rewrite down_length; rewrite ?swap_length; unfold n; lia).
  assert (X : h1[[n]] = h[[0]]).
  { unfold h1. destruct (Nat.eq_dec n 0) as [N0|N0].
    - rewrite N0, down_n0. rewrite nth_swap by lia. simpl. auto.
    - rewrite down_above; rewrite ?swap_length; unfold n; try lia. rewrite nth_swap by lia.
      rewrite Nat.eqb_refl. auto. }
  assert (P1 : Permutation h1 h).
  { unfold h1. destruct (Nat.eq_dec n 0) as [N0|N0].
    - rewrite N0, down_n0. apply swap_perm; lia.
    - rewrite down_perm; rewrite ?swap_length; unfold n; try lia. apply swap_perm; lia. }
  split; [|split; [|split] ].
  - apply firstn_ok; [lia|]. destruct (Nat.eq_dec n 0) as [N0|N0]; [rewrite N0; intros c Hc; lia|].
    unfold h1. apply down_ok; rewrite ?swap_length; unfold n; try lia.
    split; [|lia]. intros c Hc _ Pc. pose proof (par_lt c ltac:(lia)).
    rewrite !nth_swap by lia.
    destruct (Nat.eqb_spec (par c) (length h - 1)), (Nat.eqb_spec (par c) 0),
             (Nat.eqb_spec c (length h - 1)), (Nat.eqb_spec c 0); try lia.
    destruct (H c ltac:(lia)); lia.
  - rewrite <- P1. rewrite (split_last h1 n) at 1 by (unfold n; lia).
    rewrite Permutation_app_comm; simpl; auto.
  - auto.
  - intros y Hy. rewrite X. apply (In_nth _ _ d0) in Hy. destruct Hy as (c & Hc & <-).
    apply root_min; auto.
Qed.

Lemma heap_pop_some k h : h <> [] -> exists x h', heap_pop k h = Some (x, h').
Proof. destruct h; [congruence|]. intros _. unfold heap_pop. eauto. Qed.

Lemma init_loop_spec k h cnt : cnt <= length h ->
  region_ok k h cnt (length h) ->
  let h' := init_loop k h cnt in length h' = length h /\ Permutation h' h /\ region_ok k h' 0 (length h).
Proof.
  revert h; induction cnt as [|i IH]; intros h Hc R; simpl; auto.
  set (h1 := down (length h) k h i (length h)).
  assert (L1 : length h1 = length h) by (unfold h1; apply down_length; lia).
  assert (R1 : region_ok k h1 i (length h)).
  { unfold h1. apply down_ok; try lia. split.
    - intros c C Hl Hne. apply R; lia.
    - intros I0 Hl. pose proof (par_lt i I0); lia. }
  rewrite <- L1 in R1. destruct (IH h1 ltac:(lia) R1) as (A & B & C).
  rewrite L1 in *. split; [lia|split; auto].
  rewrite B. unfold h1. apply down_perm; lia.
Qed.

Lemma heap_init_spec k h : let h' := heap_init k h in heap_ok k h' /\ Permutation h' h.
Proof.
  unfold heap_init. destruct (init_loop_spec k h (length h / 2)) as (A & B & C).
  - lia.
  - intros c Hc Hl. unfold par in Hl. lia.
  - cbv zeta in *. set (h' := init_loop k h (length h / 2)) in *.
    split; auto. apply region_heap. rewrite A. exact C.
Qed.
