(* PQ/Refuted.v — regression witness: the pre-fix Reverse (aliasing the backing array) breaks the original.
   History found on the real code (DESIGN §7): max-queue of 5,1,4,2,3,9,7. *)
From Verif Require Import Base.Prelude PQ.Model PQ.Proofs PQ.Spec.

Definition it (p : Z) : item := {| ip := p; iv := Z.to_N p |}.
Definition witness_ops : list pqop :=
  [PNew 0 MaxQ; PPush 0 (it 5); PPush 0 (it 1); PPush 0 (it 4); PPush 0 (it 2); PPush 0 (it 3);
   PPush 0 (it 9); PPush 0 (it 7); PReverse 0 1; PPop 0; PPop 0; PPop 0].

Definition popped (copies : bool) : list out := skipn 9 (pq_run copies [] witness_ops).

(* aliased: the max-queue pops 1 first; copied: 9, 7, 5 *)
Theorem reverse_alias_refuted :
  popped false = [OItems [it 1]; OItems [it 5]; OItems [it 7]] /\
  popped true = [OItems [it 9]; OItems [it 7]; OItems [it 5]].
Proof. split; vm_compute; reflexivity. Qed.

(* hence: with aliasing the per-step invariant fails on a reachable state *)
Theorem reverse_alias_breaks_heap :
  exists q, q_ok q /\ ~ q_ok (fst (q_reverse false q)).
Proof.
  exists {| qk := MaxQ; qh := [it 9; it 3; it 7; it 1; it 2; it 4; it 5] |}. split.
  - intros c Hc. simpl in Hc. do 7 (destruct c as [|c]; [vm_compute; try (left; reflexivity); right; discriminate|]). lia.
  - intros H. specialize (H 1 ltac:(vm_compute; lia)). destruct H as [H|H]; [discriminate|].
    vm_compute in H. apply H. reflexivity.
Qed.
