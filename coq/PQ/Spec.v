(* PQ/Spec.v — history-level statements for C19 over the queue object and over multi-handle scripts. *)
From Verif Require Import Base.Prelude PQ.Model PQ.Proofs.
From Coq Require Import Sorted.

Definition q_ok (q : queue) : Prop := heap_ok (qk q) (qh q).
Definition kle (k : kind) (a b : item) : Prop := (key k a <= key k b)%Z.

(* MinQ: kle = priority <=, MaxQ: kle = priority >= *)
Lemma kle_min a b : kle MinQ a b <-> (ip a <= ip b)%Z. Proof. unfold kle, key; lia. Qed.
Lemma kle_max a b : kle MaxQ a b <-> (ip b <= ip a)%Z. Proof. unfold kle, key; lia. Qed.

Lemma q_new_ok k : q_ok (q_new k) /\ qh (q_new k) = [].
Proof. unfold q_new, q_ok; simpl. split; auto. intros c Hc; simpl in Hc; lia. Qed.

Lemma q_push_spec q x q' : q_ok q -> q_push q x = Some q' ->
  q_ok q' /\ qk q' = qk q /\ Permutation (qh q') (x :: qh q) /\ (0 <= ip x)%Z.
Proof.
  unfold q_push. destruct (Z.ltb_spec (ip x) 0) as [Hn|Hn]; [discriminate|]. intros H E; inversion E; subst; simpl.
  split; [apply heap_push_ok; auto|]. split; auto. split; [apply heap_push_perm|lia].
Qed.
Lemma q_push_crash q x : q_push q x = None <-> (ip x < 0)%Z.
Proof. unfold q_push. destruct (Z.ltb_spec (ip x) 0); split; intros; try discriminate; auto; lia. Qed.

Lemma q_pop_spec q x q' : q_ok q -> q_pop q = Some (x, q') ->
  q_ok q' /\ qk q' = qk q /\ Permutation (qh q) (x :: qh q') /\ (forall y, In y (qh q) -> kle (qk q) x y).
Proof.
  unfold q_pop. destruct (heap_pop (qk q) (qh q)) as [[y h]|] eqn:E; [|discriminate].
  intros H E'; inversion E'; subst; simpl.
  destruct (heap_pop_spec _ _ _ _ H E) as (A & B & _ & D). repeat split; auto.
Qed.
Lemma q_pop_crash q : q_pop q = None <-> qh q = [].
Proof.
  unfold q_pop. destruct (qh q) as [|a t] eqn:E; [simpl; tauto|].
  destruct (heap_pop_some (qk q) (a :: t)) as (x & h' & ->); [congruence|]. split; discriminate.
Qed.

Lemma q_peek_spec q x : q_ok q -> q_peek q = Some x -> In x (qh q) /\ (forall y, In y (qh q) -> kle (qk q) x y).
Proof.
  unfold q_peek. destruct (qh q) as [|a t] eqn:E; [discriminate|]. intros H E'; inversion E'; subst.
  split; [left; auto|]. intros y Hy. apply (In_nth _ _ d0) in Hy. destruct Hy as (c & Hc & <-).
  unfold q_ok in H. rewrite E in H. apply (root_min _ _ H c Hc).
Qed.
Lemma q_peek_crash q : q_peek q = None <-> qh q = [].
Proof. unfold q_peek. destruct (qh q); split; intros; try discriminate; auto. Qed.

Lemma key_opp k a b : kle (opp k) a b <-> kle k b a.
Proof. destruct k; unfold kle, key; simpl; lia. Qed.

Lemma q_reverse_copy_spec q q0 q1 : q_reverse true q = (q0, q1) ->
  q0 = q /\ q_ok q1 /\ qk q1 = opp (qk q) /\ Permutation (qh q1) (qh q).
Proof.
  unfold q_reverse. intros E; injection E as <- <-; simpl. split; auto.
  destruct (heap_init_spec (opp (qk q)) (qh q)) as (A & B). repeat split; auto.
Qed.

(* ---------------------------------------------------------------- drain *)
Fixpoint drain (fuel : nat) (q : queue) : list item :=
  match fuel with
  | O => []
  | S f => match q_pop q with None => [] | Some (x, q') => x :: drain f q' end
  end.

Lemma drain_spec fuel q : q_ok q -> length (qh q) <= fuel ->
  Permutation (drain fuel q) (qh q) /\ StronglySorted (kle (qk q)) (drain fuel q).
Proof.
  revert q; induction fuel as [|f IH]; intros q H L.
  - destruct (qh q) eqn:E; simpl in *; try lia. split; constructor.
  - simpl. destruct (q_pop q) as [[x q']|] eqn:E.
    + destruct (q_pop_spec _ _ _ H E) as (A & B & C & D).
      assert (L' : length (qh q') <= f).
      { apply Permutation_length in C. simpl in C. lia. }
      destruct (IH q' A L') as (P & S). rewrite B in S. split.
      * rewrite C. constructor; auto.
      * constructor; auto. apply Forall_forall. intros y Hy. apply D. rewrite C. right.
        eapply Permutation_in; eauto.
    + apply q_pop_crash in E. rewrite E. split; constructor.
Qed.

(* ---------------------------------------------------------------- single-queue traces against a bag *)
Inductive qop := QPush (x : item) | QPop | QPeek.

Definition q_step (q : queue) (o : qop) : queue * out :=
  match o with
  | QPush x => match q_push q x with None => (q, OCrash) | Some q' => (q', ONone) end
  | QPop => match q_pop q with None => (q, OCrash) | Some (x, q') => (q', OItems [x]) end
  | QPeek => match q_peek q with None => (q, OCrash) | Some x => (q, OItems [x]) end
  end.

(* the specification: a bag (list up to permutation) and what each op may answer *)
Definition bag_step (k : kind) (bag : list item) (o : qop) (res : out) (bag' : list item) : Prop :=
  match o with
  | QPush x => if (ip x <? 0)%Z then res = OCrash /\ bag' = bag else res = ONone /\ bag' = x :: bag
  | QPop => match bag with
            | [] => res = OCrash /\ bag' = bag
            | _ => exists x, res = OItems [x] /\ Permutation bag (x :: bag') /\ forall y, In y bag -> kle k x y
            end
  | QPeek => match bag with
             | [] => res = OCrash /\ bag' = bag
             | _ => exists x, res = OItems [x] /\ In x bag /\ bag' = bag /\ forall y, In y bag -> kle k x y
             end
  end.

Definition R (k : kind) (q : queue) (bag : list item) : Prop := q_ok q /\ qk q = k /\ Permutation (qh q) bag.

Lemma perm_nil_inv {A} (l : list A) : Permutation l [] -> l = [].
Proof. intros H. apply Permutation_sym in H. apply Permutation_nil in H. auto. Qed.

Lemma q_step_refines k q bag o : R k q bag ->
  exists bag', bag_step k bag o (snd (q_step q o)) bag' /\ R k (fst (q_step q o)) bag'.
Proof.
  intros (H & K & P). destruct o as [x| |]; simpl.
  - destruct (q_push q x) as [q'|] eqn:E.
    + destruct (q_push_spec _ _ _ H E) as (A & B & C & D). exists (x :: bag). simpl.
      destruct (Z.ltb_spec (ip x) 0); try lia. split; auto. split; auto. split; [congruence|].
      rewrite C. constructor; auto.
    + apply q_push_crash in E. exists bag. simpl. destruct (Z.ltb_spec (ip x) 0); try lia.
      split; auto. split; auto.
  - destruct (q_pop q) as [[x q']|] eqn:E.
    + destruct (q_pop_spec _ _ _ H E) as (A & B & C & D). exists (qh q'). simpl.
      destruct bag as [|b bag].
      { apply perm_nil_inv in P. rewrite P in C. apply Permutation_nil in C. discriminate. }
      split.
      * exists x. split; auto. split; [rewrite <- P; auto|]. intros y Hy. rewrite <- K. apply D.
        eapply Permutation_in; [apply Permutation_sym; exact P|exact Hy].
      * split; auto. split; [congruence|auto].
    + apply q_pop_crash in E. exists bag. simpl. rewrite E in P. apply Permutation_nil in P. subst bag.
      split; auto. split; auto. split; auto. rewrite E; auto.
  - destruct (q_peek q) as [x|] eqn:E.
    + destruct (q_peek_spec _ _ H E) as (A & B). exists bag. simpl.
      destruct bag as [|b bag].
      { apply perm_nil_inv in P. rewrite P in A. destruct A. }
      split; [|split; auto]. exists x. split; auto. split; [eapply Permutation_in; eauto|].
      split; auto. intros y Hy. rewrite <- K. apply B. eapply Permutation_in; [apply Permutation_sym; exact P|exact Hy].
    + apply q_peek_crash in E. exists bag. simpl. rewrite E in P. apply Permutation_nil in P. subst bag.
      split; auto. split; auto. split; auto. rewrite E; auto.
Qed.

(* whole histories: there is a run of the bag specification producing exactly the queue's outputs *)
Fixpoint q_run (q : queue) (ops : list qop) : list out * queue :=
  match ops with
  | [] => ([], q)
  | o :: r => let '(q', x) := q_step q o in let '(xs, qf) := q_run q' r in (x :: xs, qf)
  end.

Inductive bag_run (k : kind) : list item -> list qop -> list out -> list item -> Prop :=
| br_nil bag : bag_run k bag [] [] bag
| br_cons bag o x bag' ops xs bagf :
    bag_step k bag o x bag' -> bag_run k bag' ops xs bagf -> bag_run k bag (o :: ops) (x :: xs) bagf.

Theorem q_run_refines k ops : forall q bag, R k q bag ->
  exists bagf, bag_run k bag ops (fst (q_run q ops)) bagf /\ R k (snd (q_run q ops)) bagf.
Proof.
  induction ops as [|o r IH]; intros q bag HR; simpl.
  - exists bag. split; [constructor|auto].
  - destruct (q_step_refines k q bag o HR) as (bag' & S & R').
    destruct (q_step q o) as [q' x] eqn:E. simpl in *.
    destruct (IH q' bag' R') as (bagf & BR & RF).
    destruct (q_run q' r) as [xs qf]. simpl in *.
    exists bagf. split; auto. econstructor; eauto.
Qed.

(* ---------------------------------------------------------------- multi-handle scripts *)
Definition all_ok (s : hstore) : Prop := forall h q, hget s h = Some q -> q_ok q.

Lemma hget_hset_eq s h q : hget (hset s h q) h = Some q.
Proof. revert s; induction h as [|h IH]; intros [|a t]; simpl; auto; apply IH. Qed.
Lemma hget_nil h : hget [] h = None.
Proof. unfold hget. destruct h; auto. Qed.
Lemma hget_hset_neq s h h' q : h <> h' -> hget (hset s h q) h' = hget s h'.
Proof.
  revert s h'; induction h as [|h IH]; intros [|a t] [|h'] Hn; simpl; auto; try lia.
  - destruct h'; auto.
  - unfold hget in *. simpl. rewrite IH by lia. destruct h'; auto.
  - unfold hget in *. simpl. apply IH; lia.
Qed.

Definition touches (o : pqop) (h : nat) : Prop :=
  match o with
  | PNew a _ | PPush a _ | PPop a => h = a
  | PReverse _ b => h = b           (* with copying, Reverse writes only the NEW handle *)
  | PPeek _ | PSlice _ | PLen _ => False
  end.

(* with copies = true an operation changes no handle other than the one it names (for Reverse: the new one) *)
Theorem pq_step_frame s o h : ~ touches o h -> hget (fst (pq_step true s o)) h = hget s h.
Proof.
  destruct o as [a k|a x|a|a|a b|a|a]; simpl; intros T.
  - apply hget_hset_neq; auto.
  - destruct (hget s a) as [q|]; auto. destruct (q_push q x); auto. apply hget_hset_neq; auto.
  - destruct (hget s a) as [q|]; auto. destruct (q_pop q) as [[x q']|]; auto. apply hget_hset_neq; auto.
  - destruct (hget s a) as [q|]; auto. destruct (q_peek q); auto.
  - destruct (hget s a) as [q|] eqn:E; auto. simpl.
    rewrite hget_hset_neq by auto.
    destruct (Nat.eq_dec a h) as [->|Hn]; [rewrite hget_hset_eq; auto|apply hget_hset_neq; auto].
  - destruct (hget s a); auto.
  - destruct (hget s a); auto.
Qed.

Theorem pq_step_ok s o : all_ok s -> all_ok (fst (pq_step true s o)).
Proof.
  intros H. destruct o as [a k|a x|a|a|a b|a|a]; simpl.
  - intros h q. destruct (Nat.eq_dec a h) as [->|Hn].
    + rewrite hget_hset_eq. intros E; inversion E. apply q_new_ok.
    + rewrite hget_hset_neq by auto. apply H.
  - destruct (hget s a) as [q|] eqn:E; auto. destruct (q_push q x) as [q'|] eqn:E2; auto. simpl.
    intros h q0. destruct (Nat.eq_dec a h) as [->|Hn].
    + rewrite hget_hset_eq. intros E3; inversion E3; subst. eapply q_push_spec; eauto.
    + rewrite hget_hset_neq by auto. apply H.
  - destruct (hget s a) as [q|] eqn:E; auto. destruct (q_pop q) as [[x q']|] eqn:E2; auto. simpl.
    intros h q0. destruct (Nat.eq_dec a h) as [->|Hn].
    + rewrite hget_hset_eq. intros E3; inversion E3; subst. eapply q_pop_spec; eauto.
    + rewrite hget_hset_neq by auto. apply H.
  - destruct (hget s a) as [q|] eqn:E; auto. destruct (q_peek q); auto.
  - destruct (hget s a) as [q|] eqn:E; auto. simpl.
    intros h q0. destruct (Nat.eq_dec b h) as [->|Hn].
    + rewrite hget_hset_eq. intros E3; inversion E3; subst.
      destruct (heap_init_spec (opp (qk q)) (qh q)) as (A & _). exact A.
    + rewrite hget_hset_neq by auto. destruct (Nat.eq_dec a h) as [->|Hn2].
      * rewrite hget_hset_eq. intros E3; inversion E3; subst. eapply H; eauto.
      * rewrite hget_hset_neq by auto. apply H.
  - destruct (hget s a); auto.
  - destruct (hget s a); auto.
Qed.

Fixpoint pq_final (copies : bool) (s : hstore) (ops : list pqop) : hstore :=
  match ops with [] => s | o :: r => pq_final copies (fst (pq_step copies s o)) r end.

Theorem pq_run_ok ops : forall s, all_ok s -> all_ok (pq_final true s ops).
Proof. induction ops as [|o r IH]; intros s H; simpl; auto. apply IH. apply pq_step_ok; auto. Qed.

Lemma all_ok_nil : all_ok [].
Proof. intros h q. rewrite hget_nil. discriminate. Qed.
