(* Properties/C01.v — Search returns only live items with true scores, sorted, unique, at most k. *)
From Verif Require Import Base.Prelude Store.Spec Store.Partition Store.Proofs Store.Replicas Hnsw.Model Hnsw.Frame Hnsw.Inv Hnsw.Oracle Hnsw.Search Hnsw.Dataset Hnsw.Check Hnsw.Reload Generated.Facts.
From Coq Require Import Sorted.
Open Scope N_scope.

(* tie (a): the hand-over of the entry point skips tombstones and falls back to a remaining vertex; searchLevel /
   greedy skip tombstoned neighbours; the score is the query distance *)
Lemma C01_facts_ok :
  handover_skips_deleted = Known true /\ handover_falls_back = Known true /\ search_skips_deleted = Known true /\
  search_score_is_query_distance = Known true /\ dataset_merge_sort_then_truncate = Known true /\
  (* an update is remove + insert of the merged item (C02): the metadata a later search returns is the merge by key
     presence, new keys winning *)
  update_merge_keeps_old = Known true.
Proof. repeat split; reflexivity. Qed.

(* every history of inserts and removes (any ids, vectors, levels, metadata; updates are remove + insert, see C02),
   every distance function, every iteration order, every config: the invariant holds … *)
Theorem C01_inv_reachable : forall dist ord c (log : list change) s,
  Inv s -> Inv (fst (p_run (h_ops dist ord c) s log)).
Proof. intros dist ord c log s I. exact (proj1 (contract_refines (h_ops dist ord c) Inv (h_contract dist ord c) log s _ I (fun _ => eq_refl))). Qed.
(* … also when every single call iterates its maps in an order of its own (Go map iteration order is unspecified and
   differs from call to call; Remove's re-linking depends on it): the invariant holds and the contents are the sequential map's *)
Theorem C01_inv_any_order : forall dist c steps s cont, Inv s -> Permutation (h_items s) cont ->
  Inv (fold_left (hstep_apply dist c) steps s) /\
  Permutation (h_items (fold_left (hstep_apply dist c) steps s)) (fold_left spec_step steps cont).
Proof. exact any_order_run. Qed.
(* … and with snapshot save-and-load anywhere in the history (the model's reload: what Save writes and Load rebuilds —
   live vertices only, renumbered, links to tombstones gone, counters recomputed; compared dump for dump with the real
   Save + Load by the harness): the invariant survives, the contents are unchanged *)
Theorem C01_reload : forall s, Inv s -> Inv (reload s) /\ h_items (reload s) = h_items s.
Proof. intros s I. split; [apply reload_inv|apply reload_items]; exact I. Qed.
Theorem C01_inv_any_order_with_reload : forall dist c steps s cont, Inv s -> Permutation (h_items s) cont ->
  Inv (fold_left (rstep_apply dist c) steps s) /\
  Permutation (h_items (fold_left (rstep_apply dist c) steps s)) (fold_left rspec_step steps cont).
Proof. exact any_order_run_reload. Qed.
Theorem C01_inv_initial : Inv hnsw_empty.
Proof. exact inv_empty. Qed.

(* … and in every such state, for every query and k: each returned item is stored right now, with its current metadata and
   a score equal to the distance between the query and its current vector; scores ascend; no id twice; at most k;
   and a non-empty index never answers k >= 1 with an empty list *)
Theorem C01_search_sound : forall dist ord c s q k, Inv s ->
  let r := search dist ord c s q k in
  (forall id m d, In (id, m, d) r -> exists v, view (h_ops dist ord c) s id = Some (v, m) /\ d = dist q v) /\
  StronglySorted (fun a b => (snd a <= snd b)%Z) r /\
  NoDup (map (fun x => fst (fst x)) r) /\
  (length r <= k)%nat /\
  (idmap s <> [] -> (0 < k)%nat -> r <> []).
Proof. intros dist ord c s q k I. exact (search_sound dist ord c s q k I). Qed.

(* dataset level: append, sort by score, keep k *)
Theorem C01_dataset_merge : forall k rs,
  (forall x, In x (merge k rs) -> exists r, In r rs /\ In x r) /\
  StronglySorted sle (merge k rs) /\
  (length (merge k rs) <= k)%nat /\
  (NoDup (map (fun x => fst (fst x)) (concat rs)) -> NoDup (map (fun x => fst (fst x)) (merge k rs))) /\
  ((exists r, In r rs /\ r <> []) -> (0 < k)%nat -> merge k rs <> []) /\
  (forall x y, In x (merge k rs) -> In y (skipn k (sort_score (concat rs))) -> sle x y) /\
  Permutation (merge k rs ++ skipn k (sort_score (concat rs))) (concat rs).
Proof. exact merge_spec. Qed.

(* the HNSW index meets the store contract, so C02 / C04 apply to the partition over the real index model *)
Theorem C01_store_contract : forall dist ord c, contract (h_ops dist ord c) Inv.
Proof. exact h_contract. Qed.

Print Assumptions C01_inv_reachable.
Print Assumptions C01_inv_any_order.
Print Assumptions C01_reload.
Print Assumptions C01_inv_any_order_with_reload.
Print Assumptions C01_search_sound.
Print Assumptions C01_dataset_merge.
Print Assumptions C01_store_contract.
