(* Properties/C02.v — A partition is a faithful map id -> (vector, metadata) with exact errors. *)
From Verif Require Import Base.Prelude Store.Spec Store.Partition Store.Proofs Store.Simple Store.Refuted Store.Translated Generated.Translated Generated.Facts.
Open Scope N_scope.

(* tie (a): the apply functions and the counters have the modelled shape in the source now *)
Lemma C02_facts_ok :
  update_allocates_nil_map = Known true /\ update_merge_keeps_old = Known true /\ update_reuses_level = Known true /\
  store_counters_shape = Known true /\ vertex_bytes_shape = Known true /\ process_dispatch_shape = Known true.
Proof. repeat split; reflexivity. Qed.

(* tie (b): the byte counts as TRANSLATED from index/hnsw_vertex.go and index/metadata.go on this run are the model's:
   a vertex accounts 16 + 4·dim + metadata bytes (64-bit wrap written out), metadata the lengths of its keys and values *)
Theorem C02_bytes_translated : forall v m,
  go_vertex_bytesSize (N.of_nat (List.length v)) (meta_bytes m) = wrap (item_bytes v m) /\
  go_Metadata_bytesSize (lens m) = Z.of_N (meta_bytes m).
Proof. intros v m. split; [apply go_vertex_bytesSize_is_model|apply go_bytesSize_is_model]. Qed.

(* Refinement, for EVERY index whose Insert / Remove / GetVertex satisfy the store contract (the simple index
   below and the HNSW index of C01): all logs over any ids, single and batch forms.  Outcomes equal the
   sequential map's, contents equal it pointwise, failing operations change nothing (spec_* return c itself). *)
Theorem C02_map : forall (I : Type) (X : index_ops I) (G : I -> Prop),
  (forall s, G s -> NoDup (map fst (items X s))) ->
  (forall s id v m l x, G s -> view X s id = Some x -> ins X s id v m l = (s, SExists)) ->
  (forall s id v m l, G s -> view X s id = None ->
     exists s', ins X s id v m l = (s', SOk) /\ G s' /\ Permutation (items X s') ((id, (v, m)) :: items X s)) ->
  (forall s id, G s -> view X s id = None -> rem X s id = (s, SNotFound)) ->
  (forall s id x, G s -> view X s id = Some x ->
     exists s', rem X s id = (s', SOk) /\ G s' /\ Permutation (items X s) ((id, x) :: items X s')) ->
  (forall s id, G s -> match getv X s id with Some (m, _) => exists v, view X s id = Some (v, m) | None => view X s id = None end) ->
  forall log s c, G s -> eqc (view X s) c ->
    G (fst (p_run X s log)) /\ eqc (view X (fst (p_run X s log))) (fst (spec_run c log)) /\
    snd (p_run X s log) = snd (spec_run c log).
Proof. exact @p_run_refines. Qed.

(* a refused single operation (insert of a stored id, update or remove of an absent one) is a no-op in the strongest
   sense: the index is in the very state it was in - contents, counters, links and entry point *)
Theorem C02_refused_is_noop : forall (I : Type) (X : index_ops I) (G : I -> Prop),
  (forall s, G s -> NoDup (map fst (items X s))) ->
  (forall s id v m l x, G s -> view X s id = Some x -> ins X s id v m l = (s, SExists)) ->
  (forall s id v m l, G s -> view X s id = None ->
     exists s', ins X s id v m l = (s', SOk) /\ G s' /\ Permutation (items X s') ((id, (v, m)) :: items X s)) ->
  (forall s id, G s -> view X s id = None -> rem X s id = (s, SNotFound)) ->
  (forall s id x, G s -> view X s id = Some x ->
     exists s', rem X s id = (s', SOk) /\ G s' /\ Permutation (items X s) ((id, x) :: items X s')) ->
  (forall s id, G s -> match getv X s id with Some (m, _) => exists v, view X s id = Some (v, m) | None => view X s id = None end) ->
  forall s ch e, G s -> snd (p_apply X s ch) = OSingle e -> e <> ENone -> fst (p_apply X s ch) = s.
Proof. exact @refused_single_is_noop. Qed.

(* the index without the graph (storeVertex / removeVertex + uint64 counters) meets the contract … *)
Theorem C02_simple : forall log s c, sgood s -> eqc (view sidx_ops s) c ->
  sgood (fst (p_run sidx_ops s log)) /\ eqc (view sidx_ops (fst (p_run sidx_ops s log))) (fst (spec_run c log)) /\
  snd (p_run sidx_ops s log) = snd (spec_run c log).
Proof. exact simple_refines. Qed.

(* … and its counters are exact: count = number of live ids, bytes = sum over live items of
   16 + 4*|vector| + key and value bytes; the two's-complement arithmetic never shows below 2^64 *)
Theorem C02_counts : forall s, sgood s ->
  (N.of_nat (length (s_items s)) < two64 -> s_len s = N.of_nat (length (s_items s))) /\
  (sum_bytes (s_items s) < two64 -> s_bytes s = sum_bytes (s_items s)).
Proof. exact simple_counts. Qed.

Example C02_nonvacuous : sgood sidx_empty /\ eqc (view sidx_ops sidx_empty) (fun _ => None).
Proof. split; [exact sgood_empty|intros i; reflexivity]. Qed.

(* regression witness of the repaired nil-map panic *)
Theorem C02_update_nilmeta_refuted :
  p_update_nilpanic witness_state 7 [3; 4] [] = None /\
  snd (p_update sidx_ops witness_state 7 [3; 4] []) = ENone /\
  items sidx_ops (fst (p_update sidx_ops witness_state 7 [3; 4] [])) = [(7, ([3; 4], [([107], [118])]))].
Proof. exact update_nilmeta_refuted. Qed.

Print Assumptions C02_map.
Print Assumptions C02_refused_is_noop.
Print Assumptions C02_bytes_translated.
Print Assumptions C02_simple.
Print Assumptions C02_counts.
Print Assumptions C02_update_nilmeta_refuted.
