(* Properties/C03.v — Acknowledged writes survive a crash at any instant and restart. *)
From Verif Require Import Base.Prelude Store.Spec Store.Partition Wal.Model Replica.Glue Replica.GlueProofs Codec.Model Codec.Proofs Generated.Facts.
From Verif Require Properties.C05.
Open Scope N_scope.

Lemma C03_facts_ok :
  C05.order_now = order_src /\ snapshot_on_apply_goroutine = Known true /\ snapshot_labelled_with_applied_index = Known true /\
  start_loads_snapshot = Known true /\ snapshot_is_index_save = Known true /\ load_accepts_empty = Known true /\ boot_rule_guarded = Known true /\
  save_every_ready = Known true.
Proof. repeat split; reflexivity. Qed.

(* (1) persist before acknowledge: an entry is applied — the proposer's outcome is delivered inside the apply — only
   after the Ready that carries it has been saved, on leaders and followers alike *)
Theorem C03_persist_before_ack : forall d rd leader e dur,
  In (e, dur) (t_applied (exec d (iteration C05.order_now leader rd))) -> dur = saved d rd.
Proof. exact applied_after_save. Qed.

(* (2) recovery is exact: whatever the crash instant, when the durable state is consistent with the committed history
   (snapshot = contents after its index, log suffix = the rest), restart yields the contents of the committed history up
   to the durable commit index — applied in order, nothing else *)
Theorem C03_recover_exact : forall h d, snap_ok h d -> recover d = replay sidx_empty (firstn (d_commit d) h).
Proof. exact recover_exact. Qed.
(* consistency is kept by everything the glue does to the durable state: appending / committing, snapshot+compaction *)
Theorem C03_extend_ok : forall h d new c', snap_ok h d -> (d_commit d <= c')%nat -> (c' <= length (h ++ new))%nat ->
  snap_ok (h ++ new) {| d_commit := c'; d_snap_index := d_snap_index d; d_snap_state := d_snap_state d; d_suffix := d_suffix d ++ new |}.
Proof. exact extend_ok. Qed.
Theorem C03_snapshot_ok : forall h d applied, snap_ok h d -> (d_snap_index d <= applied)%nat -> (applied <= d_commit d)%nat ->
  snap_ok h (take_snapshot d applied (replay sidx_empty (firstn applied h))).
Proof. exact take_snapshot_ok. Qed.
(* (3) an acknowledged write (applied at an index below the durable commit index) is inside what recovery replays *)
Theorem C03_acked_survive : forall (h : history) d k, snap_ok h d -> (k < d_commit d)%nat ->
  nth_error (firstn (d_commit d) h) k = nth_error h k.
Proof. exact acked_survive. Qed.
(* (4) the snapshot bytes carry the contents exactly (C08), the empty index included *)
Theorem C03_snapshot_bytes : forall dim s, wf_osnap dim s -> forall r, flatten r = encode_opt s ->
  exists r', decode_opt dim r = Some (s, r') /\ flatten r' = [].
Proof. exact decode_opt_encode. Qed.
(* (5) restart resumes the stored log (C05) *)
Theorem C03_restart_resumes : forall peers d, pristine d = false -> after_boot (boot_rule C05.guarded_now peers d) peers d = d.
Proof. exact guarded_boot_resumes. Qed.

Print Assumptions C03_persist_before_ack.
Print Assumptions C03_recover_exact.
Print Assumptions C03_snapshot_ok.
Print Assumptions C03_acked_survive.
