(* Properties/C03.v — Acknowledged writes survive a crash at any instant and restart. *)
From Verif Require Import Base.Prelude Store.Spec Store.Partition Wal.Model Replica.Glue Replica.GlueProofs Replica.Run Codec.Model Codec.Proofs Generated.Facts.
From Verif Require Properties.C05.
Open Scope N_scope.

Lemma C03_facts_ok :
  C05.order_now = order_src /\ snapshot_on_apply_goroutine = Known true /\ snapshot_labelled_with_applied_index = Known true /\
  start_loads_snapshot = Known true /\ snapshot_is_index_save = Known true /\ load_accepts_empty = Known true /\ boot_rule_guarded = Known true /\
  save_every_ready = Known true /\
  (* a durable change of the log store is one write batch: the crash points of the model (before / after a Save or a
     local snapshot + compaction) are the only ones there are *)
  wal_calls_one_batch = Known true /\
  (* a restarted replica is handed every committed entry after its snapshot again: the raft node is configured with
     the stored log as it is (no Applied index set) *)
  raft_config_shape = Known true /\
  (* installing a received snapshot replaces the whole stored log (C06's Save): nothing older than the snapshot is left
     for a later restart to replay on top of it *)
  wal_save_snapshot_first = Known true.
Proof. repeat split; reflexivity. Qed.

(* (1) persist before acknowledge: an entry is applied — the proposer's outcome is delivered inside the apply — only
   after the Ready that carries it has been saved, on leaders and followers alike *)
Theorem C03_persist_before_ack : forall d rd leader e dur,
  In (e, dur) (t_applied (exec d (iteration C05.order_now leader rd))) -> dur = saved d rd.
Proof. exact applied_after_save. Qed.

(* (1b) over whole runs and every crash instant: for every well-formed store, every run of Readys that honours the raft
   library's contract (Replica/Run.v ready_ok) and every prefix [p] of the effects of the whole run - a crash between
   two sends, before or after a durable write, between two applies, before or after Advance - every entry applied so far
   (applying is what releases the caller) sits in the durable log at its index, above the snapshot and at or below the
   durable commit index; (2) and (3) below then put it inside what a restart replays *)
Theorem C03_acked_durable_at_every_crash : forall rds d p r, wfm d -> run_ok d rds -> run_effects rds = p ++ r ->
  let t := exec d p in
  wfm (t_durable t) /\ forall e dur, In (e, dur) (t_applied t) -> durable_has (t_durable t) e.
Proof. exact acked_durable_at_every_crash. Qed.
(* the premises are satisfiable: a fresh store, a Ready that appends two entries, a Ready that commits and delivers them;
   crash after the first apply of the second iteration *)
Definition ex_e1 : entry := {| e_term := 1; e_index := 1; e_data := 11; e_size := 4 |}.
Definition ex_e2 : entry := {| e_term := 1; e_index := 2; e_data := 12; e_size := 4 |}.
Definition ex_rd1 : ready := {| rd_hard := {| h_term := 1; h_vote := 1; h_commit := 0 |}; rd_ents := [ex_e1; ex_e2]; rd_snap := empty_snap; rd_committed := []; rd_msgs := [7] |}.
Definition ex_rd2 : ready := {| rd_hard := {| h_term := 1; h_vote := 1; h_commit := 2 |}; rd_ents := []; rd_snap := empty_snap; rd_committed := [ex_e1; ex_e2]; rd_msgs := [8] |}.
Example C03_run_nonvacuous :
  wfm mem_new /\ run_ok mem_new [(true, ex_rd1); (false, ex_rd2)] /\
  (exists p r, run_effects [(true, ex_rd1); (false, ex_rd2)] = p ++ r /\ map fst (t_applied (exec mem_new p)) = [ex_e1] /\ r <> []).
Proof.
  assert (C2 : forall l o, length l = 2%nat -> e_index (nth 0 l dent) = o -> e_index (nth 1 l dent) = o + 1 -> contiguous l o).
  { intros l o L H0 H1 k Hk. rewrite L in Hk. destruct k as [|[|k]]; [rewrite H0|rewrite H1|]; lia. }
  split; [|split].
  - constructor; [discriminate| |vm_compute; discriminate]. intros k Hk. simpl in Hk. destruct k; [reflexivity|lia].
  - constructor; [|constructor; [|constructor]].
    + constructor; [reflexivity| |right; vm_compute; discriminate|intros e []].
      cbn [rd_ents ex_rd1]. split; [vm_compute; reflexivity|]. split; [vm_compute; discriminate|]. apply C2; reflexivity.
    + constructor; [reflexivity|exact I|right; vm_compute; discriminate|].
      intros e [<-|[<-|[]]]; (split; [vm_compute; reflexivity|split; [vm_compute; discriminate|split; [vm_compute; lia|vm_compute; reflexivity]]]).
  - exists (firstn 5 (run_effects [(true, ex_rd1); (false, ex_rd2)])), (skipn 5 (run_effects [(true, ex_rd1); (false, ex_rd2)])).
    split; [symmetry; apply firstn_skipn|]. split; [vm_compute; reflexivity|vm_compute; discriminate].
Qed.

(* (2) recovery is exact: whatever the crash instant, when the durable state is consistent with the committed history
   (snapshot = contents after its index, log suffix = the rest), restart yields the contents of the committed history up
   to the durable commit index — applied in order, nothing else *)
Theorem C03_recover_exact : forall h d, snap_ok h d -> recover d = replay sidx_empty (firstn (d_commit d) h).
Proof. exact recover_exact. Qed.
(* consistency is kept by everything the glue does to the durable state: appending / committing, snapshot+compaction *)
Theorem C03_extend_ok : forall h d new c', snap_ok h d -> (d_commit d <= c')%nat -> (c' <= length (h ++ new))%nat ->
  snap_ok (h ++ new) {| d_commit := c'; d_snap_index := d_snap_index d; d_snap_state := d_snap_state d; d_suffix := d_suffix d ++ new |}.
Proof. exact extend_ok. Qed.
Theorem C03_snapshot_ok : forall h d applied, snap_ok h d -> (d_snap_index d <= applied)%nat -> (applied <= d_commit d)%nat ->
  snap_ok h (take_snapshot d applied (replay sidx_empty (firstn applied h))).
Proof. exact take_snapshot_ok. Qed.
(* (3) an acknowledged write (applied at an index below the durable commit index) is inside what recovery replays *)
Theorem C03_acked_survive : forall (h : history) d k, snap_ok h d -> (k < d_commit d)%nat ->
  nth_error (firstn (d_commit d) h) k = nth_error h k.
Proof. exact acked_survive. Qed.
(* (4) the snapshot bytes carry the contents exactly (C08), the empty index included *)
Theorem C03_snapshot_bytes : forall dim s, wf_osnap dim s -> forall r, flatten r = encode_opt s ->
  exists r', decode_opt dim r = Some (s, r') /\ flatten r' = [].
Proof. exact decode_opt_encode. Qed.
(* (5) restart resumes the stored log (C05) *)
Theorem C03_restart_resumes : forall peers d, pristine d = false -> after_boot (boot_rule C05.guarded_now peers d) peers d = d.
Proof. exact guarded_boot_resumes. Qed.

Print Assumptions C03_persist_before_ack.
Print Assumptions C03_recover_exact.
Print Assumptions C03_acked_durable_at_every_crash.
Print Assumptions C03_snapshot_ok.
Print Assumptions C03_acked_survive.
