(* Properties/C04.v — Replicas applying the same log hold identical contents; snapshot equals replay. *)
From Verif Require Import Base.Prelude Store.Spec Store.Partition Store.Proofs Store.Replicas Store.Simple
  Codec.Model Codec.Proofs Generated.Facts.
Open Scope N_scope.

Lemma C04_facts_ok :
  process_dispatch_shape = Known true /\ update_merge_keeps_old = Known true /\ snapshot_is_index_save = Known true /\
  load_accepts_empty = Known true /\ load_resets_state = Known true /\
  (* the merged metadata is validated before anything is stored, on the single and on the batch path: what a replica
     holds stays within what a snapshot can carry, so restoring at any cut reproduces it (C08's bounds, C12's theorem) *)
  update_checks_merged_metadata = Known true /\
  (* a snapshot is taken on the apply goroutine, between two entries, and labelled with the index applied so far: its
     contents are the replay of exactly the entries up to its label (the premise of the snapshot-cut theorem) *)
  snapshot_on_apply_goroutine = Known true /\ snapshot_labelled_with_applied_index = Known true /\
  (* a restarted replica is handed every committed entry after its snapshot again: the raft node is configured with
     the stored log as it is (no Applied index set) *)
  raft_config_shape = Known true.
Proof. repeat split; reflexivity. Qed.

(* any two replicas — whatever their graphs, levels and iteration orders, as long as their index meets the store
   contract — that start from equal contents and apply the same log report the same outcome for every entry
   (ok / already exists / not found, per item for batches) and end with the same ids, vectors and metadata *)
Theorem C04_deterministic : forall (I J : Type) (X : index_ops I) GX (Y : index_ops J) GY,
  contract X GX -> contract Y GY -> forall log s t, GX s -> GY t -> eqc (view X s) (view Y t) ->
  eqc (view X (fst (p_run X s log))) (view Y (fst (p_run Y t log))) /\ snd (p_run X s log) = snd (p_run Y t log).
Proof. exact @replicas_agree. Qed.

(* … and equal what the sequential map reports *)
Theorem C04_sequential_map : forall (I : Type) (X : index_ops I) G, contract X G -> forall log s c, G s -> eqc (view X s) c ->
  G (fst (p_run X s log)) /\ eqc (view X (fst (p_run X s log))) (fst (spec_run c log)) /\
  snd (p_run X s log) = snd (spec_run c log).
Proof. exact @contract_refines. Qed.

(* every cut point: restoring a contents-preserving snapshot of the first part and applying the rest equals
   applying everything *)
Theorem C04_snapshot_cut : forall (I J : Type) (X : index_ops I) GX (Y : index_ops J) GY,
  contract X GX -> contract Y GY -> forall l1 l2 s t (restore : I -> J),
  GX s -> (forall u, GX u -> GY (restore u) /\ eqc (view Y (restore u)) (view X u)) ->
  t = restore (fst (p_run X s l1)) ->
  eqc (view Y (fst (p_run Y t l2))) (view X (fst (p_run X s (l1 ++ l2)))) /\
  snd (p_run X s (l1 ++ l2)) = snd (p_run X s l1) ++ snd (p_run Y t l2).
Proof. exact @snapshot_cut_equals_replay. Qed.

(* the snapshot mechanism preserves contents: C08's round trip (any chunking), incl. the empty index *)
Theorem C04_snapshot_bytes_roundtrip : forall dim s, wf_osnap dim s -> forall r, flatten r = encode_opt s ->
  exists r', decode_opt dim r = Some (s, r') /\ flatten r' = [].
Proof. exact decode_opt_encode. Qed.

(* the contract is inhabited *)
Theorem C04_contract_simple : contract sidx_ops sgood.
Proof.
  constructor; [exact sgood_nodup|exact s_ins_exists|exact s_ins_new|exact s_rem_absent|exact s_rem_present|exact s_getv_spec].
Qed.

Print Assumptions C04_deterministic.
Print Assumptions C04_snapshot_cut.
Print Assumptions C04_sequential_map.
Print Assumptions C04_contract_simple.
