(* Properties/C05.v — Raft glue keeps consensus safety under message faults and replica restarts.
   What is proved: anndb's obligations towards the raft library (persist before a non-leader sends or anything is
   applied; apply in delivery order; resume, never re-bootstrap, a used log store).  Agreement between replicas and
   convergence are properties of etcd/raft given these obligations: assumed for the library, monitored on the real
   groups by the harness (exploration, not proof). *)
From Verif Require Import Base.Prelude Wal.Model Replica.Glue Replica.GlueProofs Generated.Facts.
From Coq Require Import String.
Open Scope N_scope.

Definition step_of (s : string) : option lstep :=
  if String.eqb s "send-if-leader" then Some LSendIfLeader else if String.eqb s "save" then Some LSave
  else if String.eqb s "apply-snapshot" then Some LApplySnap else if String.eqb s "apply-entries" then Some LApplyEntries
  else if String.eqb s "send-if-not-leader" then Some LSendIfNotLeader else if String.eqb s "advance" then Some LAdvance else None.
Definition order_now : list lstep :=
  match ready_loop_order with
  | Known l => flat_map (fun s => match step_of s with Some x => [x] | None => [] end) l
  | Unrecognised _ => []
  end.
Definition guarded_now : bool := match boot_rule_guarded with Known b => b | Unrecognised _ => false end.
(* does the join path (partition.addNode) hand the replica list to the boot rule? *)
Definition join_passes_members_now : bool := match add_node_joins_existing_log with Known true => false | _ => true end.

Lemma C05_facts_ok : order_now = order_src /\ boot_rule_guarded = Known true /\ apply_advances_applied_index = Known true /\
  (* every Ready goes to the log store, also one that only advances the commit index: the durable hard state is never
     behind what the replica has applied and compacted *)
  save_every_ready = Known true /\
  (* a replica added to a running group starts with no peers: it takes the group's log *)
  add_node_joins_existing_log = Known true /\
  (* the bytes handed to raft.Propose are a slice of their own: the library reads them again when the entry is sent and
     when it is saved, both must see what was proposed *)
  proposal_bytes_fresh = Known true.
Proof. repeat split; reflexivity. Qed.

(* a replica that is not the leader lets every message of a Ready leave only after that Ready's hard state (term,
   vote, commit), entries and snapshot are durable; entries are applied — and their proposers acknowledged — after it too *)
Theorem C05_persist_before_send : forall d rd,
  let t := exec d (iteration order_now false rd) in
  t_durable t = saved d rd /\
  t_sent t = map (fun m => (m, saved d rd)) (rd_msgs rd) /\
  t_applied t = map (fun e => (e, saved d rd)) (rd_committed rd).
Proof. exact nonleader_sends_after_save. Qed.
(* the leader sends before saving (safe under the contract that a leader's Ready attests nothing but a commit index;
   monitored) and applies after saving *)
Theorem C05_leader_applies_after_save : forall d rd,
  let t := exec d (iteration order_now true rd) in
  t_durable t = saved d rd /\ t_sent t = map (fun m => (m, d)) (rd_msgs rd) /\
  t_applied t = map (fun e => (e, saved d rd)) (rd_committed rd).
Proof. exact leader_applies_after_save. Qed.
(* positions are applied in the order the library commits them, each once *)
Theorem C05_apply_in_order : forall d rd leader, map fst (t_applied (exec d (iteration order_now leader rd))) = rd_committed rd.
Proof. exact applied_in_order. Qed.
(* restart: a store that has been used is resumed as it is — same term, vote, commit index and entries *)
Theorem C05_restart_not_older : forall peers d, pristine d = false -> after_boot (boot_rule guarded_now peers d) peers d = d.
Proof. exact guarded_boot_resumes. Qed.
Theorem C05_fresh_store_bootstraps : forall peers d, peers <> [] -> pristine d = true -> boot_rule guarded_now peers d = BStart.
Proof. exact guarded_boot_bootstraps_fresh. Qed.
(* a replica added to a running group (its store is pristine) comes up holding nothing as committed: it agrees with the
   group's log, whatever that is, and takes it from the leader *)
Theorem C05_join_takes_group_log : forall members d g, pristine d = true ->
  committed_agrees (join_boot guarded_now join_passes_members_now members d) g.
Proof. exact (join_takes_group_log true). Qed.
(* handing the joiner the replica list instead: it bootstraps a history of its own *)
Theorem C05_join_with_members_forks_refuted :
  pristine mem_new = true /\ m_term (join_boot true true [1; 2; 3] mem_new) 3 = Ok 1 /\ m_term group_log_12 3 = Ok 2 /\
  h_commit (m_hard (join_boot true true [1; 2; 3] mem_new)) = 3 /\ ~ committed_agrees (join_boot true true [1; 2; 3] mem_new) group_log_12.
Proof. exact join_with_members_forks_refuted. Qed.
(* the recorded finding: the allocator's watch path hands the boot rule the catalogue's current replica list; for a
   replica that was added to a running group and whose store is still pristine the guarded rule bootstraps - the same
   fork, reached without any change to partition.addNode (harness: C05 prologue 7; known_findings.json) *)
Theorem C05_pristine_listed_replica_forks_refuted :
  boot_rule guarded_now [1; 2; 3] mem_new = BStart /\
  after_boot (boot_rule guarded_now [1; 2; 3] mem_new) [1; 2; 3] mem_new = join_boot true true [1; 2; 3] mem_new /\
  ~ committed_agrees (after_boot (boot_rule guarded_now [1; 2; 3] mem_new) [1; 2; 3] mem_new) group_log_12.
Proof. split; [reflexivity|split; [reflexivity|exact (proj2 (proj2 (proj2 (proj2 join_with_members_forks_refuted))))]]. Qed.
(* regression: the unguarded rule *)
Theorem C05_reboot_forks_refuted :
  m_hard (after_boot (boot_rule false [1] used_store) [1] used_store) = {| h_term := 1; h_vote := 0; h_commit := 6 |} /\
  m_last (after_boot (boot_rule false [1] used_store) [1] used_store) = 6 /\
  after_boot (boot_rule true [1] used_store) [1] used_store = used_store.
Proof. exact reboot_forks_refuted. Qed.

Print Assumptions C05_persist_before_send.
Print Assumptions C05_apply_in_order.
Print Assumptions C05_restart_not_older.
Print Assumptions C05_join_takes_group_log.
