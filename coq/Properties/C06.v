(* Properties/C06.v — Badger raft log honours the raft storage contract, per group, across reopen. *)
From Verif Require Import Base.Prelude Wal.Model Wal.Lists Wal.Refine Wal.Keys Wal.Groups Wal.Refuted Generated.Facts.
Open Scope N_scope.

(* tie (a): Save installs a snapshot before writing entries, DeleteGroup removes everything, keys have the modelled layout *)
Definition fsave_now : bool := match wal_save_snapshot_first with Known b => b | Unrecognised _ => false end.
Definition fdel_now : bool := match wal_delete_group_complete with Known b => b | Unrecognised _ => false end.
Lemma C06_facts_ok :
  wal_save_snapshot_first = Known true /\ wal_delete_group_complete = Known true /\ wal_key_layout = Known true.
Proof. repeat split; reflexivity. Qed.

(* every call sequence raft may issue (consecutive entry batches starting at most one past the last index —
   conflicting overwrites and reaches into the compacted prefix included —, hard-state saves, received snapshots
   newer than the current one with or without following entries, local snapshot+compaction up to the last index,
   any Term query, Entries with lo < hi <= last+1, reopen and delete-group anywhere): the Badger store, as the
   source has it now, gives exactly the answers of etcd's MemoryStorage *)
Theorem C06_refines : forall cs w m, Sim w m -> all_legal m cs -> wal_run fsave_now fdel_now w cs = mem_run m cs.
Proof. exact wal_run_refines. Qed.
Theorem C06_initial : Sim wal_new mem_new.
Proof. exact wal_new_sim. Qed.

(* groups sharing one database *)
Theorem C06_groups : forall cs st (ms : N -> mem) g,
  Sim (st g) (ms g) -> all_legal (ms g) (proj g cs) -> proj g (mrun st cs) = mem_run (ms g) (proj g cs).
Proof. exact groups_refine. Qed.
Theorem C06_delete_group : forall st g g', g' <> g ->
  fst (mstep st g KDeleteGroup) g' = st g' /\ (forall m, Sim (st g) m -> Sim (fst (mstep st g KDeleteGroup) g) mem_new).
Proof. exact delete_group_fresh. Qed.

(* the byte-level key layout *)
Theorem C06_key_order : forall i j, i < 2 ^ 64 -> j < 2 ^ 64 -> (lex_lt (Codec.Model.be 8 i) (Codec.Model.be 8 j) <-> i < j).
Proof. exact key_order. Qed.
Theorem C06_prefix_isolation : forall g g', v4_or_nil g -> v4_or_nil g' ->
  ~ has_prefix g (hs_key g') /\ ~ has_prefix g (ss_key g') /\ ~ has_prefix g raftid_key /\
  (forall i, has_prefix g (entry_key g' i) -> g = g').
Proof. exact prefix_isolation. Qed.

(* regression witnesses of the two repaired defects *)
Theorem C06_install_over_longer_log_refuted :
  skipn 2 (wal_run false true wal_new install_calls) = [ONum 10; OErr EUnavailable; ONone; ONum 1; ONum 0] /\
  skipn 2 (mem_run mem_new install_calls) = [ONum 8; ONum 2; ONone; ONum 9; ONum 8] /\
  skipn 2 (wal_run true true wal_new install_calls) = [ONum 8; ONum 2; ONone; ONum 9; ONum 8].
Proof. exact install_over_longer_log_refuted. Qed.
Theorem C06_delete_group_refuted :
  skipn 3 (wal_run true false wal_new delete_calls) =
    [OInit {| h_term := 3; h_vote := 2; h_commit := 4 |} [1]; OSnapshot {| sn_index := 3; sn_term := 3; sn_conf := [1]; sn_data := 5 |}] /\
  skipn 3 (mem_run mem_new delete_calls) = [OInit empty_hard []; OSnapshot empty_snap] /\
  skipn 3 (wal_run true true wal_new delete_calls) = [OInit empty_hard []; OSnapshot empty_snap].
Proof. exact delete_group_refuted. Qed.

Print Assumptions C06_refines.
Print Assumptions C06_groups.
Print Assumptions C06_delete_group.
Print Assumptions C06_key_order.
Print Assumptions C06_prefix_isolation.
