(* Properties/C07.v — Search quality: exact on small collections, high recall on large ones. *)
From Verif Require Import Base.Prelude Store.Spec Store.Partition Hnsw.Model Hnsw.Inv Hnsw.Search Hnsw.Exact Hnsw.Cover Hnsw.Small Hnsw.Config Hnsw.Translated Generated.Translated Generated.Facts.
From Coq Require Import Sorted.
Open Scope N_scope.

Lemma C07_facts_ok :
  search_beam_is_max_ef_k = Known true /\ level0_uses_mmax0 = Known true /\ links_both_ways = Known true /\ search_skips_deleted = Known true /\
  (* the constructor derives the link caps from the M the caller chose (options first, derived values after) *)
  config_derives_after_options = Known true.
Proof. repeat split; reflexivity. Qed.
Definition derive_last_now : bool := match config_derives_after_options with Known b => b | Unrecognised _ => false end.
Definition cfg_of_raw (r : rawcfg) : cfg :=
  {| c_m := Z.to_nat (r_m r); c_mmax := Z.to_nat (r_mmax r); c_mmax0 := Z.to_nat (r_mmax0 r); c_ef := Z.to_nat (r_ef r);
     c_efc := Z.to_nat (r_efc r); c_heur := r_heur r; c_extend := r_extend r; c_keep := r_keep r |}.
(* the premise "mMax0 = 2M" of the exactness clause is what the constructor gives whenever the caller sets no explicit
   caps - for every list of options, the default configuration (M = 16) included *)
Theorem C07_caps_follow_m : forall opts, forallb (fun o => negb (sets_caps o)) opts = true -> (0 <= r_m (new_config derive_last_now opts))%Z ->
  c_mmax0 (cfg_of_raw (new_config derive_last_now opts)) = (2 * c_m (cfg_of_raw (new_config derive_last_now opts)))%nat /\
  c_mmax (cfg_of_raw (new_config derive_last_now opts)) = c_m (cfg_of_raw (new_config derive_last_now opts)).
Proof.
  intros opts H Hm. destruct (caps_follow_m opts H) as [E1 E2]. unfold cfg_of_raw. cbn [c_m c_mmax c_mmax0].
  change derive_last_now with true in *. rewrite E1, E2. split; [rewrite Z2Nat.inj_mul by lia; reflexivity|reflexivity].
Qed.
(* the level-0 beam width of Search as TRANSLATED from index/hnsw.go on this run (math.MaxInt / math.MinInt translated
   from math/math.go, their loops included) is the model's beam width max(ef, min(k, Len)) for all Go ints *)
Theorem C07_beam_width_translated : forall c s k,
  (Z.of_nat (c_ef c) <= MaxIntVal)%Z -> (Z.of_nat k <= MaxIntVal)%Z -> (Z.of_N (hlen s) <= MaxIntVal)%Z ->
  Z.of_nat (beam_width c s k) = go_Search_ef (Z.of_nat (c_ef c)) (Z.of_nat k) (Z.of_N (hlen s)).
Proof. exact beam_width_is_translated. Qed.
Theorem C07_derive_first_refuted :
  r_m (new_config false [OM 32]) = 32%Z /\ r_mmax0 (new_config false [OM 32]) = 32%Z /\ r_mmax0 (new_config true [OM 32]) = 64%Z.
Proof. exact derive_first_refuted. Qed.

(* For every state satisfying the invariant, every query, k, config, distance function and iteration
   order: if the level-0 beam reaches every live vertex, Search returns exactly the k nearest items, in exact order,
   each with its true distance (the beam is then a duplicate-free ascending enumeration of all live vertices and the
   answer is its first k entries). *)
Theorem C07_exact_partial : forall dist ord c s q k, Inv s -> covers s (beam dist ord c s q k) ->
  let found := beam dist ord c s q k in
  map snd (search dist ord c s q k) = firstn k (map fst found) /\
  qsorted found /\ NoDup (map snd found) /\
  (forall n, In n (map snd found) <-> live s n = true) /\
  (forall x, In x found -> fst x = dist q (vvec (vget s (snd x)))).
Proof. exact exact_given_coverage. Qed.

(* THE EXACTNESS CLAUSE IN FULL.  For every insert-only history of at most 2M+1 items with distinct ids (any vectors,
   any level assignment, any insertion order), mMax0 = 2M, M >= 1, every iteration order of the edge maps (any
   permutation at every `range`), both selection modes with or without extendCandidates / keepPruned, any efConstruction >= 0, every distance function, every query
   and every k with n <= max(ef, k): Search returns exactly the k nearest items in exact order with their true
   distances — [found] below enumerates every item exactly once in ascending order of true distance and the answer is
   its first k entries.  (Level 0 stays strongly connected because no link is ever pruned within the bound and every
   new vertex is linked both ways with an earlier one — Hnsw/Small.v; a beam at least as wide as the index never stops
   early and never evicts — Hnsw/Cover.v.)  The 64-bit item counter is assumed not to have wrapped. *)
Theorem C07_exact : forall dist ord c (ops : list (N * vec * meta * nat)) q k,
  (forall es, Permutation (ord es) es) ->
  NoDup (map (fun '(id, _, _, _) => id) ops) ->
  (length ops <= 2 * c_m c + 1)%nat -> c_mmax0 c = (2 * c_m c)%nat -> (1 <= c_m c)%nat ->
  (length ops <= Nat.max (c_ef c) k)%nat -> N.of_nat (length ops) < two64 ->
  let s := insert_only dist ord c ops in
  let found := beam dist ord c s q k in
  map snd (search dist ord c s q k) = firstn k (map fst found) /\
  qsorted found /\ NoDup (map snd found) /\ length found = length ops /\
  (forall n, (n < length ops)%nat -> In n (map snd found)) /\
  (forall x, In x found -> fst x = dist q (vvec (vget s (snd x)))).
Proof.
  intros dist ord c ops q k OP ND LEN M0 M1 WIDE SMALL s found.
  destruct (small_inv dist ord c OP ops ND LEN M0 M1) as (I & KS & L). fold s in I, KS, L.
  pose proof (C07_exact_holds dist ord c OP OP ops q k ND LEN M0 M1 WIDE SMALL) as CV. fold s in CV.
  destruct (exact_given_coverage dist ord c s q k I CV) as (A & B & C & D & E). fold found in A, B, C, D, E.
  assert (ALL : forall n, (n < length ops)%nat -> In n (map snd found)).
  { intros n Hn. apply D. apply (k_live s KS). rewrite L. exact Hn. }
  split; [exact A|split; [exact B|split; [exact C|split; [|split; [exact ALL|exact E]]]]].
  assert (EL : length found = length (map snd found)) by (symmetry; apply map_length). rewrite EL. apply Nat.le_antisymm.
  - rewrite <- L. apply nodup_bound; auto. intros x Hx. apply D in Hx. apply (live_lt s x Hx).
  - rewrite <- (seq_length (length ops) 0). apply NoDup_incl_length; [apply seq_NoDup|].
    intros x Hx. apply in_seq in Hx. apply ALL. lia.
Qed.

(* the premises are satisfiable and the conclusion says something: three points on a line, M = 1, ef = 1, k = 3 *)
Definition ex_dist (a b : vec) : Z := Z.abs (Z.of_N (hd 0 a) - Z.of_N (hd 0 b)).
Definition ex_cfg : cfg := {| c_m := 1; c_mmax := 1; c_mmax0 := 2; c_ef := 1; c_efc := 2; c_heur := true; c_extend := true; c_keep := true |}.
Definition ex_ops : list (N * vec * meta * nat) := [(7, [30], [], 0%nat); (8, [10], [], 1%nat); (9, [20], [], 0%nat)].
Example C07_exact_nonvacuous :
  NoDup (map (fun '(id, _, _, _) => id) ex_ops) /\ (length ex_ops <= 2 * c_m ex_cfg + 1)%nat /\ c_mmax0 ex_cfg = (2 * c_m ex_cfg)%nat /\
  (length ex_ops <= Nat.max (c_ef ex_cfg) 3)%nat /\
  map (fun x => (fst (fst x), snd x)) (search ex_dist (fun l => rev l) ex_cfg (insert_only ex_dist (fun l => rev l) ex_cfg ex_ops) [12] 3) = [(8, 2%Z); (9, 8%Z); (7, 18%Z)].
Proof.
  split; [repeat constructor; simpl; intuition discriminate|]. split; [simpl; lia|]. split; [reflexivity|]. split; [simpl; lia|]. vm_compute. reflexivity.
Qed.

(* The recall floor on large random collections is a statistical statement: measured by the harness, not a theorem. *)

Print Assumptions C07_exact_partial.
Print Assumptions C07_exact.
Print Assumptions C07_caps_follow_m.
Print Assumptions C07_beam_width_translated.
