(* Properties/C07.v — Search quality: exact on small collections, high recall on large ones. *)
From Verif Require Import Base.Prelude Store.Spec Store.Partition Hnsw.Model Hnsw.Inv Hnsw.Search Hnsw.Exact Generated.Facts.
From Coq Require Import Sorted.
Open Scope N_scope.

Lemma C07_facts_ok :
  search_beam_is_max_ef_k = Known true /\ level0_uses_mmax0 = Known true /\ links_both_ways = Known true /\ search_skips_deleted = Known true.
Proof. repeat split; reflexivity. Qed.

(* PROVED PART.  For every state satisfying the invariant, every query, k, config, distance function and iteration
   order: if the level-0 beam reaches every live vertex, Search returns exactly the k nearest items, in exact order,
   each with its true distance (the beam is then a duplicate-free ascending enumeration of all live vertices and the
   answer is its first k entries). *)
Theorem C07_exact_partial : forall dist ord c s q k, Inv s -> covers s (beam dist ord c s q k) ->
  let found := beam dist ord c s q k in
  map snd (search dist ord c s q k) = firstn k (map fst found) /\
  qsorted found /\ NoDup (map snd found) /\
  (forall n, In n (map snd found) <-> live s n = true) /\
  (forall x, In x found -> fst x = dist q (vvec (vget s (snd x)))).
Proof. exact exact_given_coverage. Qed.

(* NOT PROVED HERE (full statement kept visible as Hnsw.Exact.C07_exact_statement): for insert-only collections with at
   most 2M+1 items, mMax0 = 2M and n <= max(ef, k), the beam covers every live vertex.  Checked on the model (covers_b)
   and on the implementation (exact top-k against brute force) for every insertion order of up to 5 items and random
   larger ones within the bound, all three metrics, both selection modes, small and large efConstruction.
   The recall floor on large random collections is a statistical statement: measured, not a theorem. *)

Print Assumptions C07_exact_partial.
