(* Properties/C08.v — Index snapshots round-trip exactly for every reachable state and any reader. *)
From Verif Require Import Base.Prelude Store.Spec Codec.Model Codec.Proofs Codec.Refuted Generated.Facts.
Open Scope N_scope.

(* tie (a): Load reads through io.ReadFull only, accepts the zero bytes of an empty index, resets the state; a partition's
   snapshot / restore are exactly index.Save / index.Load without header, with nothing before or around them *)
Lemma C08_facts_ok :
  load_single_reads = Known 0%nat /\ load_accepts_empty = Known true /\ load_resets_state = Known true /\ snapshot_is_index_save = Known true /\
  (* the load path allocates fixed-size buffers, one map per shard sized by that shard's vertex count, one vector of the
     index dimension per vertex and key / value buffers of the 8- / 16-bit lengths just read: memory is proportional to
     what Save wrote *)
  load_allocations_bounded = Known true /\
  (* the gate of every write path bounds entry count, key and value length by the widths Save writes them with: the
     reachable states are the well-formed snapshot values of the theorem below *)
  metadata_bounds_match_codec = Known true.
Proof. repeat split; reflexivity. Qed.

(* Round trip: for every snapshot value within the field widths of the format (wf_snap: <= 65535 metadata pairs,
   keys <= 255 bytes, values <= 65535 bytes, vectors of the index dimension, levels < 2^31, counts < 2^32),
   every fragmentation of the byte stream and whatever follows it, decoding what was encoded returns exactly the
   value (ids, levels, bit-identical vectors, metadata, links with their cached distances, entry point) and
   leaves exactly the trailing bytes *)
Theorem C08_roundtrip : forall dim s, wf_snap dim s ->
  forall r rest, flatten r = encode s ++ rest -> exists r', decode dim r = Some (s, r') /\ flatten r' = rest.
Proof. exact decode_encode. Qed.

(* including the empty index, whose snapshot is the empty byte string *)
Theorem C08_roundtrip_with_empty : forall dim s, wf_osnap dim s -> forall r, flatten r = encode_opt s ->
  exists r', decode_opt dim r = Some (s, r') /\ flatten r' = [].
Proof. exact decode_opt_encode. Qed.

(* io.ReadFull is insensitive to chunking *)
Theorem C08_read_full_any_chunking : forall r n a rest, flatten r = a ++ rest -> length a = n ->
  exists r', read_full r n = Some (a, r') /\ flatten r' = rest.
Proof. exact read_full_ok. Qed.

(* what lies outside: over-long metadata does not round-trip (must be rejected at the write path, see C12) *)
Theorem C08_overlong_refuted :
  meta_of (ofst (decode 1 [encode (one_vertex [(long_key, [1])])])) <> Some [(long_key, [1])] /\
  meta_of (ofst (decode 1 [encode (one_vertex [(firstn 255 long_key, [1])])])) = Some [(firstn 255 long_key, [1])].
Proof. exact overlong_key_refuted. Qed.

(* regression witnesses of the repaired defects *)
Theorem C08_short_read_refuted :
  let bs := encode (one_vertex []) in
  ofst (get_id_once (map (fun b => [b]) bs)) <> Some 5 /\ ofst (get_be 16 (map (fun b => [b]) bs)) = Some 5.
Proof. exact short_read_refuted. Qed.
Theorem C08_empty_snapshot_refuted : encode_opt None = [] /\ decode 1 [[]] = None /\ decode_opt 1 [[]] = Some (None, [[]]).
Proof. exact empty_snapshot_refuted. Qed.

Print Assumptions C08_roundtrip.
Print Assumptions C08_roundtrip_with_empty.
Print Assumptions C08_read_full_any_chunking.
Print Assumptions C08_overlong_refuted.
