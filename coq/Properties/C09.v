(* Properties/C09.v — Dataset search equals top-k of the union of its partitions, or fails loudly. *)
From Verif Require Import Base.Prelude Base.TopK Base.TopKProofs Proto.FanIn Proto.FanInProofs Api.Translated Generated.Translated Generated.Facts.
From Coq Require Import Sorted.
Open Scope N_scope.

Definition closes_now : bool := match search_closes_channels with Known b => b | Unrecognised _ => true end.
Lemma C09_facts_ok :
  search_closes_channels = Known false /\ search_chans_buffered_per_worker = Known true /\
  search_collector_shape = Known true /\ search_worker_one_message = Known true /\
  (* both merges end with sort.Sort over everything received, then the cut to k *)
  dataset_merge_sort_then_truncate = Known true.
Proof. repeat split; reflexivity. Qed.

(* the cut after the sort, as TRANSLATED from storage/dataset.go on this run (both Search and SearchPartitions): the first
   min(k, number of merged items) entries - what Base.TopK.topk takes *)
Theorem C09_cut_translated : forall k n : nat, (Z.of_nat k <= MaxIntVal)%Z -> (Z.of_nat n <= MaxIntVal)%Z ->
  go_Search_cut (Z.of_nat k) (Z.of_nat n) = Z.of_nat (Nat.min k n) /\ go_SearchPartitions_cut (Z.of_nat k) (Z.of_nat n) = Z.of_nat (Nat.min k n).
Proof. exact go_Search_cut_is_model. Qed.

(* fan-in, as the source has it now: for every number of workers, every assignment of results / errors to the workers
   and every schedule of sends, receives, deadline: success only after the result of EVERY worker was received (so no
   worker failed), and then exactly top-k of all of them; the nil/nil answer is unreachable; a returned error is one
   some worker sent *)
Theorem C09_fanin : forall msgs k sched,
  let s := fan_run closes_now (length msgs) k (fan_init msgs) sched in
  match result s with
  | Some (OOk l) => (forall m, In m msgs -> is_res m) /\ Permutation (map MRes (got s)) msgs /\ l = FanIn.topk k (got s)
  | Some OOkNil => False
  | Some (OErr e) => In (MErr e) msgs
  | _ => True
  end.
Proof. exact fanin_safe. Qed.

(* what top-k means: only returned items, ascending, at most k, the k best (everything kept is no worse than
   everything dropped), a permutation of the input together with the dropped tail *)
Theorem C09_topk : forall k (rs : list (list ritem)),
  (forall x, In x (FanIn.topk k rs) -> exists r, In r rs /\ In x r) /\
  StronglySorted (sle rscore) (FanIn.topk k rs) /\
  (length (FanIn.topk k rs) <= k)%nat /\
  (NoDup (map fst (concat rs)) -> NoDup (map fst (FanIn.topk k rs))) /\
  ((exists r, In r rs /\ r <> []) -> (0 < k)%nat -> FanIn.topk k rs <> []) /\
  (forall x y, In x (FanIn.topk k rs) -> In y (skipn k (sort_by_score rscore (concat rs))) -> sle rscore x y) /\
  Permutation (FanIn.topk k rs ++ skipn k (sort_by_score rscore (concat rs))) (concat rs).
Proof. intros k rs. exact (topk_spec rscore (fun x : ritem => fst x) k rs). Qed.

(* every partition is consulted on exactly one of its replicas *)
Theorem C09_assignment : forall parts draws, map fst (assign parts draws) = map fst parts /\
  Forall2 (fun p a => snd p <> [] -> In (snd a) (snd p)) parts (assign parts draws).
Proof. exact assign_exact. Qed.

(* regression: with the closing goroutine both failures are reachable *)
Theorem C09_closed_select_refuted :
  result (fan_run true 1 5 (fan_init [MRes r1]) [WorkerSend 0; CloserClose; RecvClosedErr]) = Some OOkNil /\
  result (fan_run true 2 5 (fan_init [MErr 9; MRes r1]) [WorkerSend 0; WorkerSend 0; CloserClose; RecvRes; RecvClosedRes; Finish]) = Some (OOk r1) /\
  result (fan_run false 1 5 (fan_init [MRes r1]) [WorkerSend 0; CloserClose; RecvClosedErr; RecvRes; Finish]) = Some (OOk r1) /\
  result (fan_run false 2 5 (fan_init [MErr 9; MRes r1]) [WorkerSend 0; WorkerSend 0; CloserClose; RecvRes; RecvClosedRes; RecvErr; Finish]) = Some (OErr 9).
Proof. exact closed_select_refuted. Qed.

Print Assumptions C09_fanin.
Print Assumptions C09_topk.
Print Assumptions C09_assignment.
Print Assumptions C09_cut_translated.
