(* Properties/C10.v — Item routing is a stable, total function of the id and the partition count. *)
From Verif Require Import Base.Prelude Routing.Model Routing.Proofs Routing.Translated Generated.Translated Generated.Facts.
From Coq Require Import String.
Open Scope N_scope.

(* tie (a): the hash, the owner function and the six write paths have the modelled shape in the source now *)
Lemma C10_facts_ok :
  uuid_mod_shape = Known "le64(lo)%m+le64(hi)%m then %m"%string /\
  owner_fn_shape = Known "partitions[UuidMod(id, partition_count)]"%string /\
  write_paths_via_owner_fn = Known true /\
  (* the partition an index denotes is the catalogue entry's: the same on every node and after every restart *)
  partitions_in_catalogue_order = Known true /\
  (* a batch is grouped by appending each item to the group of getPartitionForId(item id) *)
  batch_grouping_shape = Known true.
Proof. repeat split; reflexivity. Qed.

(* tie (b): utils.UuidMod as TRANSLATED from utils/uuid.go on this run (Generated/Translated.v: 64-bit wrap-around and the
   division by a zero count written out) is the modelled hash, for every id and every count *)
Theorem C10_translated : forall id m, go_UuidMod id m = uuid_mod_go id m.
Proof. exact go_UuidMod_is_model. Qed.

(* total and in range for every 128-bit id and every non-zero count (any uint64) *)
Theorem C10_range : forall lo hi m, 0 < m -> uuid_mod lo hi m < m.
Proof. exact uuid_mod_range. Qed.
Theorem C10_total : forall p id n, 0 < n -> exists o, owner p id n = Some o /\ o < n.
Proof. exact owner_total. Qed.
(* the value: the residue of lo+hi, with no wrap-around for any count up to 2^63 (counts are uint32) *)
Theorem C10_value : forall lo hi m, 0 < m -> m <= 2 ^ 63 -> uuid_mod lo hi m = (lo + hi) mod m.
Proof. exact uuid_mod_value. Qed.
(* stability: the owner depends on nothing but the id and the count — same on every path, node and restart *)
Theorem C10_paths : forall p q id n, owner p id n = owner q id n.
Proof. exact owner_paths. Qed.
(* a write changes exactly the owner partition, and every write on a non-empty dataset is routed *)
Theorem C10_locality : forall (P : Type) (apply : path -> P -> list N -> P) parts p id parts',
  ds_write apply parts p id = Some parts' ->
  exists o, owner p id (N.of_nat (List.length parts)) = Some o /\ List.length parts' = List.length parts /\
            forall i, i <> N.to_nat o -> nth_error parts' i = nth_error parts i.
Proof. exact @ds_write_local. Qed.
Theorem C10_write_total : forall (P : Type) (apply : path -> P -> list N -> P) parts p id,
  parts <> [] -> exists parts', ds_write apply parts p id = Some parts'.
Proof. exact @ds_write_total. Qed.
(* batches: the groups handed to the per-partition workers are exactly the non-empty owner classes of the batch, each in
   batch order, one group per owner - every item reaches its owner's worker and no other, on each of the batch paths *)
Theorem C10_batch_grouping : forall p n items, 0 < n ->
  exists gs, group_batch p n items = Some gs /\ NoDup (map fst gs) /\
    (forall o g, In (o, g) gs <-> g <> [] /\ g = filter (owned_by p n o) items) /\
    (forall it, In it items -> exists o g, owner p it n = Some o /\ In (o, g) gs /\ In it g) /\
    (forall o g it, In (o, g) gs -> In it g -> In it items /\ owner p it n = Some o).
Proof. exact group_batch_spec. Qed.
Example C10_batch_grouping_nonvacuous :
  group_batch PBatchInsert 3 [[1]; [2]; [4]; [3]] = Some [(1, [[1]; [4]]); (2, [[2]]); (0, [[3]])].
Proof. vm_compute. reflexivity. Qed.

(* partition count 0 is a division by zero in the code (a crash; belongs to C12) *)
Theorem C10_zero_count_crashes : forall p id, owner p id 0 = None.
Proof. exact owner_zero. Qed.

Example C10_nonvacuous : uuid_mod 18446744073709551615 18446744073709551615 1000 = 230.
Proof. vm_compute. reflexivity. Qed.

Print Assumptions C10_range.
Print Assumptions C10_translated.
Print Assumptions C10_value.
Print Assumptions C10_total.
Print Assumptions C10_locality.
Print Assumptions C10_batch_grouping.
Print Assumptions C10_write_total.
