(* Properties/C11.v — Write acknowledgements are truthful and reach the right caller. *)
From Verif Require Import Base.Prelude Store.Spec Store.Partition Store.Proofs Proto.Notify Proto.NotifyProofs Proto.BatchFanIn Proto.BatchFanInProofs Generated.Facts.
Open Scope N_scope.

Definition buf_now : nat := match propose_notif_buf with Known n => n | Unrecognised _ => O end.
Definition proxy_err_now : bool := match proxy_returns_err with Known b => b | Unrecognised _ => false end.
Lemma C11_facts_ok :
  propose_notif_buf = Known 1%nat /\ apply_notify_nonblocking = Known true /\ propose_order = Known true /\
  proxy_returns_err = Known true /\ dimension_checked_first = Known true /\
  (* waiter ids are random UUIDs: the id inside a log entry names at most one waiter in the whole cluster *)
  notification_ids_global = Known true /\
  (* every partition worker of a batch hands its result to the collector with a blocking send *)
  batch_results_sent_blocking = Known true.
Proof. repeat split; reflexivity. Qed.
Definition batch_send_blocking_now : bool := match batch_results_sent_blocking with Known b => b | Unrecognised _ => false end.
Lemma buf_positive : (0 < buf_now)%nat. Proof. unfold buf_now. simpl. lia. Qed.

(* every number of concurrent callers, every interleaving with the apply loop (apply completing before the caller waits
   included): what a caller receives is the outcome of its own applied proposal; a caller still waiting has not been
   applied (so only an unapplied proposal can time out); an outcome applied before the caller reaches its select is kept *)
Theorem C11_delivery : forall outs sched p,
  let c := nth p (n_run buf_now (n_init outs) sched) dcaller in
  (forall v, st c = CGot v -> v = nth p outs 0 /\ applied c = true) /\
  (st c = CWaiting -> applied c = false) /\
  (st c = CProposed -> applied c = true -> chan c = Some (nth p outs 0)).
Proof. intros outs sched p. exact (delivery buf_now outs sched p buf_positive). Qed.

(* the apply loop is never held up by a notification *)
Theorem C11_apply_never_blocks : forall cs p, applied (nth p cs dcaller) = false ->
  (st (nth p cs dcaller) = CProposed \/ st (nth p cs dcaller) = CWaiting \/ st (nth p cs dcaller) = CTimedOut) ->
  exists cs', n_step buf_now cs (ApplyNotify p) = Some cs'.
Proof. exact (apply_never_blocks buf_now). Qed.

(* success only if the change was proposed on (and applied by) the owner; wrong dimension rejected before proposing *)
Theorem C11_truthful : forall dim_ok owner_local reachable o,
  fst (ds_write proxy_err_now dim_ok owner_local reachable o) = WOk ->
  snd (ds_write proxy_err_now dim_ok owner_local reachable o) = true /\ o = WOk.
Proof. exact write_truthful. Qed.
Theorem C11_dimension : forall owner_local reachable o, ds_write proxy_err_now false owner_local reachable o = (WErrDim, false).
Proof. exact (dimension_rejected_before_proposing proxy_err_now). Qed.

(* batch calls report an error for exactly the ids that failed: the per-item semantics of C02's batches *)
Theorem C11_batch_errors : forall (I : Type) (X : index_ops I) (G : I -> Prop),
  (forall s, G s -> NoDup (map fst (items X s))) ->
  (forall s id v m l x, G s -> view X s id = Some x -> ins X s id v m l = (s, SExists)) ->
  (forall s id v m l, G s -> view X s id = None ->
     exists s', ins X s id v m l = (s', SOk) /\ G s' /\ Permutation (items X s') ((id, (v, m)) :: items X s)) ->
  (forall s id, G s -> view X s id = None -> rem X s id = (s, SNotFound)) ->
  (forall s id x, G s -> view X s id = Some x ->
     exists s', rem X s id = (s', SOk) /\ G s' /\ Permutation (items X s) ((id, x) :: items X s')) ->
  (forall s id, G s -> match getv X s id with Some (m, _) => exists v, view X s id = Some (v, m) | None => view X s id = None end) ->
  forall s c ch, G s -> eqc (view X s) c -> snd (p_apply X s ch) = snd (spec_apply c ch).
Proof. intros I X G H1 H2 H3 H4 H5 H6 s c ch Gs V. exact (proj2 (proj2 (p_apply_refines X G H1 H2 H3 H4 H5 H6 s c ch Gs V))). Qed.

(* the fan-in of a batch over its partitions: under every interleaving of the partition workers, the closer and the
   collector, a call that returns reports exactly the failures the partitions reported - none is lost, no receive finds
   the channel closed - and the collector is never stuck while results are outstanding *)
Theorem C11_batch_fanin_complete : forall rs sched,
  let s := bfan_run batch_send_blocking_now (length rs) (bfan_init rs) sched in
  bfan_done (length rs) s = true -> Permutation (b_got s) rs /\ (forall x, In x (bfan_errors s) <-> In x (concat rs)).
Proof. exact batch_fanin_complete. Qed.
Theorem C11_batch_fanin_progress : forall rs sched,
  let s := bfan_run batch_send_blocking_now (length rs) (bfan_init rs) sched in
  bfan_done (length rs) s = false -> exists s', bfan_step batch_send_blocking_now (length rs) s (BRendezvous 0) = Some s'.
Proof. exact batch_fanin_progress. Qed.

(* regressions *)
Theorem C11_giving_up_loses_results_refuted :
  let s := bfan_run false 1 (bfan_init [[(1, 7)]]) [BGiveUp 0; BClose; BRecvClosed] in
  bfan_done 1 s = true /\ bfan_errors s = [] /\ In (1, 7) (concat [[(1, 7)]]).
Proof. exact giving_up_loses_results_refuted. Qed.
Theorem C11_lost_wakeup_refuted :
  let sched := [Create 0; Propose 0; ApplyNotify 0; StartWait 0; Deadline 0]%nat in
  (let c := nth 0 (n_run 0 (n_init [42]) sched) dcaller in st c = CTimedOut /\ applied c = true) /\
  (let c := nth 0 (n_run 1 (n_init [42]) sched) dcaller in st c = CGot 42).
Proof. exact lost_wakeup_refuted. Qed.
Theorem C11_proxy_swallow_refuted : ds_write false true false false (WErr 1) = (WOk, false).
Proof. exact proxy_swallow_refuted. Qed.

Print Assumptions C11_delivery.
Print Assumptions C11_apply_never_blocks.
Print Assumptions C11_truthful.
Print Assumptions C11_batch_errors.
Print Assumptions C11_batch_fanin_complete.
Print Assumptions C11_batch_fanin_progress.
