(* Properties/C12.v — no request can crash a node or poison the replicated log. *)
From Verif Require Import Base.Prelude Store.Spec Store.Partition Codec.Model Codec.Proofs Api.Validate Api.ValidateProofs Store.Translated Api.Translated Generated.Translated Generated.Facts.
Open Scope N_scope.

Definition fb12 (f : fact bool) (dflt : bool) : bool := match f with Known b => b | Unrecognised _ => dflt end.
(* the checks the current source performs (an unrecognised shape counts as "not checked") *)
Definition limits_now : limits :=
  {| l_dataset_checked := fb12 dataset_params_checked false;
     l_max_parts := match max_partition_count with Known n => n | Unrecognised _ => 0 end;
     l_items_checked := fb12 write_paths_check_items false && fb12 metadata_bounds_match_codec false;
     l_merge_checked := fb12 update_checks_merged_metadata false;
     l_search_dim_checked := fb12 search_checks_dimension false;
     l_k_allocates := fb12 search_reserves_by_k true |}.

Lemma C12_facts_ok :
  limits_now = limits_safe /\ space_count = Known 3 /\ random_node_total = Known true /\ process_dispatch_shape = Known true /\
  (* the cosine space hands |1 - cos| to the index: the priority queues panic on a negative distance *)
  space_dispatch_shape = Known true.
Proof. repeat split; reflexivity. Qed.

(* for every sequence of write requests (single, batch, partition-level; any ids, vectors and metadata) and every
   contents the partition holds: each item is either logged or answered with an error; everything logged is applied by
   every replica without failing — now and at every replay — and the contents stay within what the distance kernels
   (every vector has the dataset's dimension) and the snapshot encoding (C08's field widths) can handle *)
Theorem C12_no_poison : forall dim (reqs : list (wkind * list ritem)) st, store_ok dim st ->
  exists st', fold_left (fun acc r => match acc with
                                      | Some s => apply_all limits_now (fst r) s (fst (check_items limits_now dim (wv (fst r)) (snd r)))
                                      | None => None end) reqs (Some st) = Some st' /\ store_ok dim st'.
Proof. exact no_poison_history. Qed.
Theorem C12_every_item_answered : forall dim with_value its,
  (length (fst (check_items limits_now dim with_value its)) + snd (check_items limits_now dim with_value its) = length its)%nat.
Proof. exact (check_items_partition limits_now). Qed.
(* the metadata bound is exactly the snapshot format's well-formedness (C08_roundtrip's hypothesis on metadata) *)
Theorem C12_bound_is_codec_bound : forall m, meta_fits m = true <-> wf_meta m.
Proof. exact meta_fits_wf. Qed.
(* accepted datasets can be routed to and allocated; accepted searches have the dataset's dimension and reserve nothing by k *)
Theorem C12_dataset_params : forall dim space parts repl, dataset_ok limits_now dim space parts repl = true ->
  1 <= dim /\ space < 3 /\ 1 <= parts <= 1024 /\ 1 <= repl.
Proof. exact dataset_params. Qed.
Theorem C12_search_checked : forall dim qlen k parts, search_ok limits_now dim qlen = true -> qlen = dim /\ reserved_slots limits_now k parts = 0.
Proof. exact search_checked. Qed.

(* regressions: what each missing check lets through *)
Theorem C12_malformed_id_refuted :
  apply_all lim_unchecked WInsert [] (fst (check_items lim_unchecked 3 true [{| it_id := None; it_vec := [1; 2; 3]; it_meta := [] |}])) = None /\
  fst (check_items limits_safe 3 true [{| it_id := None; it_vec := [1; 2; 3]; it_meta := [] |}]) = [].
Proof. exact malformed_id_refuted. Qed.
Theorem C12_accumulated_metadata_refuted :
  let st := [(5, ([1], many_keys 65535))] in
  let upd := {| it_id := Some 5; it_vec := [1]; it_meta := [([9; 9; 9], [])] |} in
  store_ok_b 1 st = true /\ item_ok 1 true upd = true /\
  match apply1 lim_unchecked WUpdate st upd with Some st' => store_ok_b 1 st' = false | None => False end /\
  match apply1 limits_safe WUpdate st upd with Some st' => store_ok_b 1 st' = true | None => False end.
Proof. exact accumulated_metadata_refuted. Qed.
Theorem C12_dataset_unchecked_refuted :
  dataset_ok lim_unchecked 0 7 0 0 = true /\ dataset_ok limits_safe 2 0 0 1 = false /\ dataset_ok limits_safe 2 0 2147483648 1 = false /\
  reserved_slots lim_unchecked 4000000000 2 = 8000000000.
Proof. exact dataset_unchecked_refuted. Qed.

Example C12_nonvacuous :
  store_ok 2 [(7, ([1; 2], [([1], [2])]))] /\
  check_items limits_now 2 true [{| it_id := Some 8; it_vec := [3; 4]; it_meta := [] |}; {| it_id := None; it_vec := [3; 4]; it_meta := [] |};
                                 {| it_id := Some 9; it_vec := [3]; it_meta := [] |}]
  = ([{| it_id := Some 8; it_vec := [3; 4]; it_meta := [] |}], 2%nat).
Proof. split; [repeat constructor|reflexivity]. Qed.

(* the bounds check every write path applies (index.Metadata.Validate) as TRANSLATED from index/metadata.go on this run
   is the model's meta_fits - the bounds of the snapshot encoding *)
(* Create's parameter check as TRANSLATED from storage/dataset_manager.go on this run refuses exactly what the model's
   dataset_ok refuses, for the limits the source has now *)
Theorem C12_create_check_translated : forall dim space parts repl : N,
  go_Create_refuses (space <? 3) (Z.of_N dim) (Z.of_N parts) (Z.of_N (l_max_parts limits_now)) (Z.of_N repl) = negb (dataset_ok limits_now dim space parts repl).
Proof. intros. apply go_Create_refuses_is_model. reflexivity. Qed.
Theorem C12_validate_translated : forall m, go_Metadata_Validate (lens m) = meta_fits m.
Proof. exact go_Validate_is_model. Qed.

Print Assumptions C12_no_poison.
Print Assumptions C12_every_item_answered.
Print Assumptions C12_bound_is_codec_bound.
Print Assumptions C12_dataset_params.
Print Assumptions C12_validate_translated.
Print Assumptions C12_create_check_translated.
