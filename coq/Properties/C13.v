(* Properties/C13.v — the index is safe under concurrent inserts, removals and searches.
   PARTIAL.  Proved over all interleavings: the three protocol-level facts the concurrent design rests on, and the
   lock discipline (exclusion, no deadlock, bounded schedules).  The absence of data races and of panics in the Go
   code is explored by the race-detector harness (exploration, not proof); the structural invariant at quiescence is the sequential one of C01 and is checked on the quiescent dumps. *)
From Verif Require Import Base.Prelude Proto.Conc Proto.ConcProofs Proto.Locks Proto.LocksProofs Proto.CasProofs Proto.FirstInsert Generated.Facts.

Definition fb13 (f : fact bool) : bool := match f with Known b => b | Unrecognised _ => false end.
Definition reader_skips_dead_entry_now : bool := fb13 search_skips_dead_entry && fb13 search_skips_deleted.
Definition cas_loop_now : bool := fb13 insert_promotes_by_cas_loop.

Lemma C13_facts_ok :
  membership_under_shard_lock = Known true /\ search_skips_dead_entry = Known true /\ search_skips_deleted = Known true /\
  insert_promotes_by_cas_loop = Known true /\ handover_repeats_while_tombstoned = Known true /\ handover_skips_deleted = Known true /\
  (* no critical section of package index acquires a second lock or leaves its region with the lock held *)
  index_locks_not_nested = Known true /\
  (* the first vertex of an empty index is registered in the id map before it is offered as entry point *)
  first_vertex_stored_before_published = Known true.
Proof. repeat split; reflexivity. Qed.
Definition store_first_now : bool := fb13 first_vertex_stored_before_published.

(* (A) insert / remove outcomes are linearizable as operations on a set: every call takes effect in one critical
   section (the model's cs, run in the order of the critical sections), and that order respects real time *)
Theorem C13_cs_order_respects_real_time : forall h a b ia ra ca cb ib,
  call_ok h a -> call_ok h b ->
  pos (is_inv a) h 0 = Some ia -> pos (is_ret a) h 0 = Some ra -> pos (is_cs a) h 0 = Some ca ->
  pos (is_inv b) h 0 = Some ib -> pos (is_cs b) h 0 = Some cb ->
  ra < ib -> ca < cb.
Proof. exact cs_order_respects_real_time. Qed.
Theorem C13_count_matches : forall ops s, m_ok s -> m_ok (fst (run_cs s ops)).
Proof. exact count_matches. Qed.
(* (A, assembled) for every history of invocations, critical sections and responses of any number of concurrent calls on
   any ids: the order of the critical sections is a linearization - it contains every call that took effect exactly
   once, a call that returned before another was invoked comes first, and the outcomes and the final set of the
   concurrent execution (only critical sections touch the id map) are those of the sequential set run in that order,
   with the item count equal to the number of stored ids *)
Theorem C13_membership_linearizable : forall op h s,
  NoDup h -> (forall k, In (HCs k) h -> call_ok h k) ->
  let lin := cs_order h in
  NoDup lin /\ (forall k, In k lin <-> In (HCs k) h) /\
  (forall a b ra ib, In a lin -> In b lin -> pos (is_ret a) h 0 = Some ra -> pos (is_inv b) h 0 = Some ib -> ra < ib ->
     exists xa xb, idx a lin 0 = Some xa /\ idx b lin 0 = Some xb /\ xa < xb) /\
  exec_hist op h s = (fst (run_cs s (map op lin)), combine lin (snd (run_cs s (map op lin)))) /\
  (m_ok s -> m_ok (fst (exec_hist op h s))).
Proof. exact membership_linearizable. Qed.
(* two overlapping inserts of id 5: the one whose critical section comes first succeeds, the other is refused *)
Example C13_linearizable_nonvacuous :
  let h := [HInv 0; HInv 1; HCs 1; HCs 0; HRet 0; HRet 1] in
  NoDup h /\ (forall k, In (HCs k) h -> call_ok h k) /\
  snd (exec_hist (fun _ => MIns 5) h {| m_set := []; m_len := 0 |}) = [(1, true); (0, false)].
Proof.
  split; [repeat constructor; simpl; intuition discriminate|]. split; [|reflexivity].
  intros k [H|[H|[H|[H|[H|[H|[]]]]]]]; try discriminate; injection H as <-.
  - exists 1, 2, 5. repeat split; auto.
  - exists 0, 3, 4. repeat split; auto.
Qed.

(* (B) a search running against the writer's removals, in any interleaving and whatever the traversal reaches, returns
   nothing that was already removed when the search was invoked (every returned item was live at some instant of it) *)
Theorem C13_search_never_returns_removed : forall e sched,
  let s := fold_left (sapply reader_skips_dead_entry_now) sched (s_init e) in Forall (fun x => ~ In x (r_tomb0 s)) (r_res s).
Proof. exact search_never_returns_removed. Qed.

(* (C) any number of writers promoting their vertices in any interleaving: the entry point's level never decreases and,
   when all are done, no inserted vertex is higher than the entry point *)
Theorem C13_promotion_monotone : forall lvl sched s, pinv lvl s ->
  pinv lvl (prun lvl cas_loop_now s sched) /\ lvl (p_entry s) <= lvl (p_entry (prun lvl cas_loop_now s sched)).
Proof. exact promotion_monotone. Qed.
Theorem C13_promotion_final : forall lvl vs e0 sched,
  let s := prun lvl cas_loop_now {| p_entry := e0; p_threads := map (fun v => (v, TIdle)) vs |} sched in
  Forall (fun t => snd t = TDone) (p_threads s) -> Forall (fun t => lvl (fst t) <= lvl (p_entry s)) (p_threads s).
Proof. exact promotion_final. Qed.



(* (C, termination) the compare-and-swap loop is finite: with n writers promoting their vertices, whatever the levels
   and the schedule, there are at most 2·n² steps of writers that have not finished (a writer reloads only because
   another writer's swap succeeded since its load, and each writer swaps or gives up once) *)
Theorem C13_promotion_terminates : forall lvl vs e0 sched,
  effective lvl {| p_entry := e0; p_threads := map (fun v => (v, TIdle)) vs |} sched -> length sched <= 2 * length vs * length vs.
Proof. exact promotion_terminates. Qed.
Example C13_promotion_runs :
  let lvl := fun v => match v with 1 => 2 | 2 => 1 | _ => 0 end in
  let s0 := {| p_entry := 0; p_threads := [(1, TIdle); (2, TIdle)] |} in
  effective lvl s0 [0; 1; 1; 0; 0; 0] /\ Forall (fun t => snd t = TDone) (p_threads (prun lvl true s0 [0; 1; 1; 0; 0; 0])) /\
  p_entry (prun lvl true s0 [0; 1; 1; 0; 0; 0]) = 1.
Proof. split; [cbn; repeat (split; [eexists; split; reflexivity|]); exact I|]. split; [repeat constructor|reflexivity]. Qed.

(* (C') the first inserts into an empty index: any number of writers, any ids (the same id included), every
   interleaving of their two steps (register in the id map; offer as entry point by compare-and-swap from nil): the entry
   point is always a vertex registered in the id map - at quiescence the index is one a sequential history leaves *)
Theorem C13_first_insert_entry_registered : forall ws sched v,
  f_entry (frun store_first_now (finit ws) sched) = Some v -> registered v (f_map (frun store_first_now (finit ws) sched)) = true.
Proof. exact first_insert_entry_registered. Qed.
Theorem C13_swap_first_refuted :
  let s := frun false (finit [(10, 5); (11, 5)]) [0; 1; 1; 0] in
  f_entry s = Some 10 /\ registered 10 (f_map s) = false /\ f_map s = [(5, 11)] /\
  map ft_ok (f_thr s) = [false; true] /\ map ft_pc (f_thr s) = [FDone; FDone].
Proof. exact swap_first_refuted. Qed.

(* (D) the locks: shard locks around the id maps, one read/write lock per vertex and level.  With every critical section
   finite and acquiring no further lock (the fact above), for any number of goroutines, any sequence of critical
   sections and lock-free work in each, any set of locks, with or without sync.RWMutex's writer preference, and every
   schedule: a lock held for writing has exactly one holder; unless every goroutine has finished some goroutine can
   take a step (no deadlock); and no schedule is longer than the total work (every goroutine finishes, whatever the
   scheduler does).  Not covered: blocking other than on these locks (there is none in package index), and the
   finiteness of the code inside a critical section (loops over one edge map or shard). *)
Theorem C13_locks_safe_and_live : forall wpref progs sched ts, run wpref (start progs) sched = Some ts ->
  excl ts /\ length sched <= cost (start progs) /\
  (existsb (fun t => negb (finished t)) ts = true -> exists i, step wpref ts i <> None).
Proof. exact locks_safe_and_live. Qed.
(* the model runs: a writer and two readers of lock 0 and a writer of lock 1, under writer preference; an interleaved
   schedule in which goroutine 1 has to wait for the writer finishes everybody within the bound *)
Example C13_locks_run :
  let progs := [[Crit 0 MW 2; Work 1]; [Crit 0 MR 1; Crit 1 MW 0]; [Work 0; Crit 0 MR 3]] in
  cost (start progs) = 21 /\
  step true (fst (match run true (start progs) [0] with Some ts => (ts, 0) | None => ([], 0) end)) 1 = None /\
  (exists sched ts, length sched = 17 /\ run true (start progs) sched = Some ts /\ forallb finished ts = true).
Proof.
  split; [reflexivity|]. split; [vm_compute; reflexivity|].
  exists [0; 2; 0; 0; 0; 1; 2; 1; 2; 1; 2; 1; 2; 1; 2; 0; 0]%nat. eexists. split; [reflexivity|]. split; [vm_compute; reflexivity|reflexivity].
Qed.

(* regressions *)
Theorem C13_dead_entry_refuted :
  let s := fold_left (sapply false) [SW (WTomb 1); SR RInv; SR RLoad; SR RTakeEntry; SR RRet; SW (WHand 1 (Some 2))] (s_init (Some 1)) in
  r_res s = [1] /\ r_tomb0 s = [1].
Proof. exact dead_entry_refuted. Qed.
Theorem C13_blind_swap_refuted :
  let lvl := fun v => match v with 1 => 2 | 2 => 1 | _ => 0 end in
  let s := prun lvl false {| p_entry := 0; p_threads := [(1, TIdle); (2, TIdle)] |} [0; 1; 0; 1] in
  p_entry s = 2 /\ lvl (p_entry s) = 1 /\
  p_entry (prun lvl true {| p_entry := 0; p_threads := [(1, TIdle); (2, TIdle)] |} [0; 1; 0; 1; 1; 1]) = 1.
Proof. exact blind_swap_refuted. Qed.

Print Assumptions C13_cs_order_respects_real_time.
Print Assumptions C13_count_matches.
Print Assumptions C13_search_never_returns_removed.
Print Assumptions C13_promotion_monotone.
Print Assumptions C13_locks_safe_and_live.
Print Assumptions C13_membership_linearizable.
Print Assumptions C13_first_insert_entry_registered.
Print Assumptions C13_promotion_terminates.
