(* Properties/C14.v — the dataset catalogue is a deterministic function of the zero-group log; deleting is final; a node
   restarting or restoring a snapshot reaches the same catalogue as one that applied every entry. *)
From Verif Require Import Base.Prelude Cluster.Catalogue Cluster.CatalogueProofs Generated.Facts.
From Coq Require Import String.
Open Scope N_scope.
Open Scope list_scope.

Definition restore_replaces_now : bool :=
  match restore_replaces, sync_partition_nodes_shape with Known a, Known b => a && b | _, _ => false end.
Definition wiring_now : list setup_step :=
  match setup_order with
  | Known l => flat_map (fun s => if String.eqb s "catalogue-register" then [RegisterConsumer] else if String.eqb s "zero-start" then [ZeroStart] else []) l
  | Unrecognised _ => []
  end.

Lemma C14_facts_ok :
  setup_order = Known ["zero-new"; "shared-new"; "nodes-manager"; "catalogue-register"; "zero-start"; "listen"]%string /\
  catalogue_registers_all = Known true /\ restore_replaces = Known true /\ sync_partition_nodes_shape = Known true /\
  catalogue_apply_shape = Known true /\ start_loads_snapshot = Known true /\
  (* the zero group's snapshot carries the catalogue's snapshot whatever it holds (an empty catalogue included), and a
     restore hands it to the catalogue: the [restore] of the model is what a member brought up to date by a snapshot runs *)
  shared_snapshot_carries_every_consumer = Known true.
Proof. repeat split; reflexivity. Qed.

(* the catalogue and the outcome of every entry are functions of the log alone (crun is a function); a node that
   restores the snapshot taken after any number of entries — whatever it held before — and applies the rest holds the
   catalogue of a node that applied everything, and reports the same outcomes for the rest *)
Theorem C14_replay_eq_snapshot : forall log cut prior,
  fst (crun (restore restore_replaces_now (csnapshot (fst (crun [] (firstn cut log)))) prior) (skipn cut log)) = fst (crun [] log) /\
  snd (crun [] log) = snd (crun [] (firstn cut log)) ++
                      snd (crun (restore restore_replaces_now (csnapshot (fst (crun [] (firstn cut log)))) prior) (skipn cut log)).
Proof. exact replay_eq_snapshot. Qed.

(* an acknowledged deletion is final: absent at once, and absent after any further entries that do not create the id again *)
Theorem C14_delete_removes : forall id c, NoDup (map fst c) -> cget id c <> None ->
  snd (capply c (CDelete id)) = KNone /\ cget id (fst (capply c (CDelete id))) = None.
Proof. exact delete_removes. Qed.
Theorem C14_delete_final : forall id log c, NoDup (map fst c) -> cget id c = None ->
  forallb (fun ch => negb (creates id ch)) log = true -> cget id (fst (crun c log)) = None.
Proof. exact delete_final. Qed.

(* restart: with the wiring order of Server.setup everything the zero group loads and replays reaches the catalogue,
   whatever the timing of the replay goroutine *)
Theorem C14_wiring : forall has_snapshot replayed before, wiring wiring_now has_snapshot replayed before = WOk replayed.
Proof. exact wiring_ok. Qed.

(* regressions *)
Theorem C14_restore_keeps_deleted_refuted :
  let log := [CCreate 7 m0; CDelete 7] in
  fst (crun (restore false (csnapshot (fst (crun [] log))) [(7, m0)]) []) = [(7, m0)] /\ fst (crun [] log) = [] /\
  fst (crun (restore true (csnapshot (fst (crun [] log))) [(7, m0)]) []) = [].
Proof. exact restore_keeps_deleted_refuted. Qed.
Theorem C14_wiring_refuted :
  wiring [ZeroStart; RegisterConsumer] true 3 0 = WCrashNilProxy /\ wiring [ZeroStart; RegisterConsumer] false 3 2 = WDropped 1 2.
Proof. exact wiring_refuted. Qed.

Example C14_nonvacuous :
  let c := fst (crun [] [CCreate 7 m0; CCreate 9 m0; CAddNode 7 100 5]) in
  NoDup (map fst c) /\ cget 7 c <> None /\ cget 9 c <> None.
Proof. vm_compute. repeat split; try discriminate. repeat constructor; simpl; intuition congruence. Qed.

Print Assumptions C14_replay_eq_snapshot.
Print Assumptions C14_delete_removes.
Print Assumptions C14_delete_final.
Print Assumptions C14_wiring.
