(* Properties/C15.v — AVX/SSE distance kernels agree with the portable kernels and stay in bounds.
   PARTIAL.  Proved for every length and all values: what the kernels read (every element once, nothing else), the order
   in which they add, bit-for-bit equality with the portable loops below one vector group and on unaligned SSE operands.
   NOT proved: a numeric bound on the difference caused by the different association order of the additions in the
   vector body (the model is compared bit for bit with the three real implementations on every generated case, and the
   implementations with each other up to a rounding tolerance: testing).  Refuted, and listed as findings: sqrt(d*d)
   for |d|, the product of the squared norms, the zero vector. *)
From Coq Require Import ZArith List Bool String.
From Flocq Require Import IEEE754.BinarySingleNaN IEEE754.Binary IEEE754.Bits.
From Verif Require Import Simd.NonNeg Simd.SelfZero Simd.Symmetric Simd.Model Simd.Proofs Generated.Facts.
Import ListNotations.
Open Scope list_scope.

Lemma C15_facts_ok :
  sse_guarded_by_alignment = Known true /\ space_dispatch_shape = Known true /\ simd_sources_shape = Known true /\
  simd_wrappers_shape = Known true /\ native_kernels_shape = Known true /\ simd_asm_digest = Known "09ca367f528f8a1a"%string.
Proof. repeat split; reflexivity. Qed.

(* for every length n and both lane widths: the body and the tail together read the elements 0 .. n-1, each exactly
   once and in order; no index at or beyond n is read (no memory outside the two vectors) *)
Theorem C15_reads_exact : forall w n, (0 < w)%nat -> body_reads w n ++ tail_reads w n = seq 0 n.
Proof. exact reads_exact. Qed.
Theorem C15_reads_in_bounds : forall w n i, (0 < w)%nat -> In i (body_reads w n ++ tail_reads w n) -> (i < n)%nat.
Proof. exact reads_in_bounds. Qed.

(* the order of the additions: lane j of the vector body is the left-to-right sum of the j-th term of every group *)
Theorem C15_lane_is_sequential : forall w ts j, (j < w)%nat ->
  nth j (lanes w ts) fzero =
  sum_seq (map (fun c => nth j c fzero) (chunks w (List.length ts) (firstn (body_len w (List.length ts)) ts))) fzero.
Proof. exact lane_is_sequential. Qed.

(* below one vector group (n < 8 for AVX, n < 4 for SSE) and on operands that are not 16-byte aligned (SSE) the result
   is the portable kernel's, bit for bit, for all values *)
Theorem C15_avx_short_exact : forall a b, (List.length a < 8)%nat ->
  avx_euclid a b = native_euclid a b /\ avx_manhattan a b = native_manhattan a b.
Proof. exact avx_short_exact. Qed.
Theorem C15_sse_short_exact : forall al a b, (List.length a < 4)%nat ->
  sse_euclid al a b = native_euclid a b /\ sse_manhattan al a b = native_manhattan a b.
Proof. exact sse_short_exact. Qed.
Theorem C15_sse_unaligned_is_native : forall a b,
  sse_euclid false a b = native_euclid a b /\ sse_manhattan false a b = native_manhattan a b /\ sse_cosine false a b = native_cosine a b.
Proof. exact sse_unaligned_is_native. Qed.

(* refuted parts of the statement (listed findings) *)
Open Scope Z_scope.
Theorem C15_manhattan_underflow_refuted :
  let a := repeat (fl 394264576) 8%nat in let b := repeat (fl 0) 8%nat in
  bits (native_manhattan a b) = 419430400 /\ bits (avx_manhattan a b) = 0 /\ bits (sse_manhattan true a b) = 0.
Proof. exact manhattan_underflow_refuted. Qed.
Theorem C15_manhattan_overflow_refuted :
  let a := repeat (fl 1652555776) 8%nat in let b := repeat (fl 0) 8%nat in
  bits (native_manhattan a b) = 1677721600 /\ bits (avx_manhattan a b) = 2139095040 /\ bits (sse_manhattan true a b) = 2139095040.
Proof. exact manhattan_overflow_refuted. Qed.
Theorem C15_cosine_zero_vector_refuted :
  let z := repeat (fl 0) 8%nat in let v := repeat (fl 1065353216) 8%nat in
  is_nan 24 128 (native_cosine z v) = true /\ is_nan 24 128 (avx_cosine z v) = true /\ is_nan 24 128 (sse_cosine true z v) = true.
Proof. exact cosine_zero_vector_refuted. Qed.
Theorem C15_cosine_overflow_refuted :
  let v := repeat (fl 1518338048) 8%nat in
  bits (native_cosine v v) = 872415232 /\ bits (avx_cosine v v) = 1065353216 /\ bits (sse_cosine true v v) = 1065353216.
Proof. exact cosine_overflow_refuted. Qed.


(* "non-negative": for every pair of vectors - any lengths, any values, infinities and NaNs included - every kernel of
   every implementation (portable, AVX, SSE aligned or not; Euclidean, Manhattan, cosine as the index calls it, i.e.
   with the wrapper's absolute value) returns a NaN or a value whose sign bit is clear.  Never a negative number. *)
Theorem C15_never_negative : forall a b al,
  nn (native_euclid a b) /\ nn (native_manhattan a b) /\ nn (native_cosine a b) /\
  nn (avx_euclid a b) /\ nn (avx_manhattan a b) /\ nn (avx_cosine a b) /\
  nn (sse_euclid al a b) /\ nn (sse_manhattan al a b) /\ nn (sse_cosine al a b).
Proof. exact never_negative. Qed.


(* "zero between a vector and itself" for Euclidean and Manhattan: for every vector of finite values, of any length,
   all six kernels return exactly +0 on (a, a).  (Cosine is not claimed: 1 - dot/(|a||a|) is only close to 0.) *)
Theorem C15_self_distance_zero : forall a al, Forall fin a ->
  native_euclid a a = fzero /\ native_manhattan a a = fzero /\
  avx_euclid a a = fzero /\ avx_manhattan a a = fzero /\
  sse_euclid al a a = fzero /\ sse_manhattan al a a = fzero.
Proof. exact self_distance_zero. Qed.
Example C15_self_distance_nonvacuous :
  let a := map of_bits [1065353216; 3212836864; 0; 1; 2139095039; 1084227584; 1036831949; 3221225472; 1077936128] in
  Forall fin a /\ bits (avx_euclid a a) = 0%Z /\ bits (sse_manhattan true a a) = 0%Z.
Proof. split; [repeat constructor|]. split; vm_compute; reflexivity. Qed.


(* "symmetric": for every pair of equal-length vectors of finite values, of any length, d(a, b) and d(b, a) are the same
   bit pattern - Euclidean, Manhattan and cosine, in all three implementations.  (NaN and infinite components are
   excluded: which NaN payload an operation propagates depends on the operand order.) *)
Theorem C15_symmetric : forall (a b : list f32) al, List.length a = List.length b -> Forall fin a -> Forall fin b ->
  (native_euclid a b = native_euclid b a /\ avx_euclid a b = avx_euclid b a /\ sse_euclid al a b = sse_euclid al b a) /\
  (native_manhattan a b = native_manhattan b a /\ avx_manhattan a b = avx_manhattan b a /\ sse_manhattan al a b = sse_manhattan al b a) /\
  (native_cosine a b = native_cosine b a /\ avx_cosine a b = avx_cosine b a /\ sse_cosine al a b = sse_cosine al b a).
Proof.
  intros a b al L Fa Fb. split; [apply euclid_symmetric; auto|]. split; [apply manhattan_symmetric; auto|apply cosine_symmetric; auto].
Qed.

Print Assumptions C15_reads_exact.
Print Assumptions C15_lane_is_sequential.
Print Assumptions C15_avx_short_exact.
Print Assumptions C15_sse_short_exact.
Print Assumptions C15_never_negative.
Print Assumptions C15_self_distance_zero.
Print Assumptions C15_symmetric.
