(* Properties/C16.v — Every partition is placed on min(R, N) distinct member nodes, independently. *)
From Verif Require Import Base.Prelude Cluster.Placement Cluster.PlacementProofs Cluster.Translated Generated.Translated Generated.Facts.

Definition copies_now : bool := match placement_copies with Known b => b | Unrecognised _ => false end.
Lemma C16_facts_ok : placement_copies = Known true /\ placement_shuffle_per_partition = Known true /\
  (* what Create writes into the catalogue entry is that placement, partition by partition *)
  create_uses_allocator_placement = Known true.
Proof. repeat split; reflexivity. Qed.

(* validity for every member list without duplicates, every partition count, replication factor and seed *)
Theorem C16_valid : forall members p r draws, NoDup members ->
  Forall (valid members r) (place copies_now p r draws members) /\ length (place copies_now p r draws members) = p.
Proof. exact place_copy_valid. Qed.

(* the replica count as TRANSLATED from storage/allocator.go on this run is min(members, replication factor) - the
   length of the prefix the model takes *)
Theorem C16_replica_count_translated : forall n r : nat, (Z.of_nat n <= MaxIntVal)%Z -> (Z.of_nat r <= MaxIntVal)%Z ->
  go_placement_n (Z.of_nat n) (Z.of_nat r) = Z.of_nat (Nat.min n r).
Proof. exact go_placement_n_is_model. Qed.

(* independence: every tuple of valid per-partition orders is produced by some draw sequence *)
Theorem C16_independent : forall members r targets, NoDup members -> members <> [] ->
  Forall (fun t => Permutation t members) targets ->
  exists draws, place copies_now (length targets) r draws members
              = map (fun t => firstn (Nat.min (length members) r) t) targets.
Proof. exact place_copy_surjective. Qed.

(* uniformity ("partitions spread over the cluster"): rand.Shuffle over member lists without duplicates is a bijection
   between canonical draw vectors (step i draws from [0, i], as rand.Intn(i+1) does) and orders of the members - every
   order, hence every choice of a partition's replicas, is produced by exactly one draw vector, so uniform draws give
   each order the same probability 1/N! *)
Theorem C16_uniform : forall members t, NoDup members -> Permutation t members ->
  exists ds, (canon (length members - 1) ds /\ fst (shuffle ds members) = t) /\
             forall ds', canon (length members - 1) ds' -> fst (shuffle ds' members) = t -> ds' = ds.
Proof. exact shuffle_bijective. Qed.
Example C16_uniform_nonvacuous : canon 2 [1; 0] /\ fst (shuffle [1; 0] [7; 8; 9]) = [9; 7; 8].
Proof. split; [simpl; lia|reflexivity]. Qed.

(* regression: with the aliased slices all partitions are the same list, whatever the seed *)
Theorem C16_alias_refuted : forall members p r draws,
  exists c, place false p r draws members = repeat c (length (place false p r draws members)).
Proof. exact place_alias_all_equal. Qed.

Example C16_nonvacuous : NoDup [1; 2; 3; 4; 5] /\ valid [1; 2; 3; 4; 5] 2 [5; 1].
Proof.
  split; [repeat constructor; simpl; intuition congruence|].
  split; [reflexivity|split; [repeat constructor; simpl; intuition congruence|] ].
  intros x [<-|[<-|[]]]; simpl; auto 10.
Qed.

Print Assumptions C16_valid.
Print Assumptions C16_independent.
Print Assumptions C16_replica_count_translated.
Print Assumptions C16_uniform.
Print Assumptions C16_alias_refuted.
