(* Properties/C17.v — Dataset size is the sum of its partitions, each counted once. *)
From Verif Require Import Base.Prelude Proto.SizeInfo Proto.SizeInfoProofs Generated.Facts.
Open Scope N_scope.

Definition captures_now : bool := match sizeinfo_captures_loopvar with Known b => b | Unrecognised _ => true end.
Lemma C17_facts_ok : sizeinfo_captures_loopvar = Known false /\ sizeinfo_shape = Known true.
Proof. split; reflexivity. Qed.

(* every partition list (any mix of local and remote partitions, any sizes, any failing lookups) and every schedule of the
   loop, the workers, the closer, the receives and the deadline: a successful answer is exactly the sums over all
   partitions — each once, whatever the replica count and whichever node is asked — and then no remote lookup failed *)
Theorem C17_sum : forall ps sched l b,
  res (sz_run captures_now ps sz_init sched) = Some (SOk l b) ->
  l = total_len ps /\ b = total_bytes ps /\
  (forall i, (i < length ps)%nat -> p_local (nth i ps dpart) = false -> p_fail (nth i ps dpart) = false).
Proof. exact sizeinfo_exact. Qed.

(* regression: the shared range variable counts one partition twice and another not at all *)
Theorem C17_loopvar_refuted :
  res (sz_run true two_remote sz_init [MainStep; MainStep; WorkerRun 0; WorkerRun 1; Close; RecvClosed; RecvClosed; Finish]) = Some (SOk 40 400) /\
  res (sz_run false two_remote sz_init [MainStep; MainStep; WorkerRun 0; WorkerRun 1; Close; RecvClosed; RecvClosed; Finish]) = Some (SOk 30 300).
Proof. exact loopvar_refuted. Qed.

Print Assumptions C17_sum.
