(* Properties/C18.v — membership changes and restarts never wedge a node's control plane. *)
From Verif Require Import Base.Prelude Proto.Control Proto.ControlProofs Proto.Locks Proto.LockOrder Proto.LockOrderProofs Generated.Facts.

Definition fb (f : fact bool) (dflt : bool) : bool := match f with Known b => b | Unrecognised _ => dflt end.
(* the hand-off design read off the current source (an unrecognised shape counts as the unsafe choice) *)
Definition design_now : design :=
  {| d_upd_queue := fb updates_queued false; d_notif_queue := fb notifications_queued false;
     d_watch_locks := fb watch_holds_lock true;
     (* the allocator holds a lock that applying a catalogue entry takes, while its proposal waits: the watched-partitions
        lock in the handlers, or a catalogue lock inside the proposal call *)
     d_handler_holds := negb (fb handler_copies_partitions false && fb proposal_wait_lock_free false) |}.

Lemma C18_facts_ok :
  design_now = design_safe /\ proposal_checks_group = Known true /\ loop_owns_watched_set = Known true /\
  (* the membership book's locks are taken in one order everywhere: address book, then connection cache, then the
     subscriber list (the "held -> acquired" relation of cluster/conn.go has no cycle) *)
  conn_lock_order_acyclic = Known true /\
  (* the raft transport's group table: nothing but table accesses happens under its lock (no message delivery, which
     can wait for a leader; no dial; no log deletion), so loading and unloading groups waits for table accesses only *)
  transport_lock_only_around_table = Known true.
Proof. repeat split; reflexivity. Qed.

(* for every backlog of membership changes and catalogue entries, every number of proposals the allocator makes for
   each membership change, and every interleaving of the two loops: never both waiting while work remains … *)
Theorem C18_no_wedge : forall backlog sched, stuck design_now (run_sched design_now (init backlog) sched) = false.
Proof. exact no_wedge. Qed.
(* … every sequence of enabled steps does exactly the outstanding work (no run is longer than the work of the backlog) … *)
Theorem C18_bounded_work : forall sched s s', wf s -> exec design_now s sched = Some s' ->
  length sched + measure design_now s' = measure design_now s.
Proof. exact bounded_work. Qed.
(* … and a fair scheduler ends with the whole backlog applied, every notification and update handled, no proposal pending *)
Theorem C18_backlog_applied : forall backlog,
  terminal (run_fair design_now (measure design_now (init backlog)) (init backlog)) = true.
Proof. exact backlog_applied. Qed.

(* regressions: each earlier design wedges *)
Theorem C18_lock_then_send_refuted : stuck design_old (run_sched design_old (init [ZConf 0; ZUpd 1]) [TZ; TZ; TZ; TA]) = true.
Proof. exact lock_then_send_refuted. Qed.
Theorem C18_wait_holding_lock_refuted : stuck design_old (run_sched design_old (init [ZConf 1; ZUpd 1]) [TZ; TZ; TA; TA; TA; TA]) = true.
Proof. exact wait_holding_lock_refuted. Qed.
Theorem C18_notification_channel_refuted :
  stuck design_old (run_sched design_old (init (ZConf 1 :: repeat (ZConf 0) 11)) ([TZ; TZ; TA; TA; TA; TA] ++ repeat TZ 22)) = true.
Proof. exact notification_channel_refuted. Qed.
Theorem C18_queues_only_refuted :
  let d := {| d_upd_queue := true; d_notif_queue := true; d_watch_locks := true; d_handler_holds := true |} in
  stuck d (run_sched d (init [ZConf 1; ZUpd 1]) [TZ; TZ; TA; TA; TA; TA]) = true.
Proof. exact queues_only_refuted. Qed.

Example C18_nonvacuous : wf (init [ZConf 2; ZUpd 3]) /\ measure design_now (init [ZConf 2; ZUpd 3]) = 23.
Proof. split; reflexivity. Qed.


(* the membership book itself (cluster/conn.go): goroutines that apply membership changes, dial peers, read the member
   list and subscribe take its read/write locks nested, but always in rank order (the fact above).  For any number of
   goroutines running any programs that respect that discipline, with or without writer preference, in every reachable
   state: unless all have finished, one of them can take a step — the book cannot deadlock … *)
Theorem C18_book_locks_live : forall wpref progs sched ts, Forall (fun p => okprog [] p) progs ->
  orun wpref (ostart progs) sched = Some ts ->
  existsb (fun t => negb (ofinished t)) ts = true -> exists i, ostep wpref ts i <> None.
Proof. exact ordered_locks_live. Qed.
(* … whereas two goroutines taking two of its locks in opposite orders (a removal holding the address lock and asking
   for the cache lock, a dial holding the cache lock and asking for the address lock) can block each other for ever *)
Theorem C18_opposite_orders_refuted :
  let progs := [[Acq 0 MW; Acq 1 MW; Rel 1; Rel 0]; [Acq 1 MW; Acq 0 MR; Rel 0; Rel 1]] in
  exists ts, orun true (ostart progs) [0; 1] = Some ts /\ ostep true ts 0 = None /\ ostep true ts 1 = None /\ forallb ofinished ts = false.
Proof. exact opposite_orders_deadlock. Qed.
(* the discipline is satisfiable: the programs of RemoveNode (address lock, cache lock, subscriber list), AddNode, Dial
   and a reader respect it, and a schedule runs them to the end *)
Example C18_book_programs_ok :
  let remove := [Acq 0 MW; Acq 1 MW; Acq 2 MR; Wk; Rel 2; Rel 1; Rel 0] in
  let add := [Acq 0 MW; Acq 2 MR; Rel 2; Rel 0] in
  let dial := [Acq 1 MR; Rel 1; Acq 0 MR; Rel 0; Wk; Acq 1 MW; Rel 1] in
  let ids := [Acq 0 MR; Wk; Rel 0] in
  Forall (fun p => okprog [] p) [remove; add; dial; ids] /\
  (exists sched ts, orun true (ostart [remove; add; dial; ids]) sched = Some ts /\ forallb ofinished ts = true).
Proof.
  split.
  - repeat (apply Forall_cons; [cbn; repeat split; intros; cbn in *; intuition lia|]). apply Forall_nil.
  - exists (repeat 0 7 ++ repeat 1 4 ++ repeat 2 7 ++ repeat 3 3)%nat. eexists. split; [vm_compute; reflexivity|reflexivity].
Qed.

Print Assumptions C18_no_wedge.
Print Assumptions C18_book_locks_live.
Print Assumptions C18_bounded_work.
Print Assumptions C18_backlog_applied.
