(* Properties/C19.v — Priority queues pop in order; reversing yields an independent queue.
   Only statements closed by `exact`, plus Print Assumptions.  The facts are regenerated from /repo. *)
From Verif Require Import Base.Prelude PQ.Model PQ.Proofs PQ.Spec PQ.Refuted Generated.Facts.
From Coq Require Import Sorted.

(* tie (a): what the source says now *)
Definition copies_now : bool := match reverse_copies with Known b => b | Unrecognised _ => false end.
Lemma C19_facts_ok : reverse_copies = Known true.
Proof. reflexivity. Qed.

(* every history of push / pop / peek (ties, negative priorities and pops on empty included) is a run of the
   bag specification: each popped / peeked item is in the bag and no remaining item precedes it; the queue
   holds exactly pushed-minus-popped *)
Theorem C19_order : forall k ops q bag, R k q bag ->
  exists bagf, bag_run k bag ops (fst (q_run q ops)) bagf /\ R k (snd (q_run q ops)) bagf.
Proof. exact q_run_refines. Qed.

(* a drain is sorted: non-decreasing for min queues, non-increasing for max queues *)
Theorem C19_drain_sorted : forall fuel q, q_ok q -> length (qh q) <= fuel ->
  Permutation (drain fuel q) (qh q) /\ StronglySorted (kle (qk q)) (drain fuel q).
Proof. exact drain_spec. Qed.
Theorem C19_kle_min : forall a b, kle MinQ a b <-> (ip a <= ip b)%Z. Proof. exact kle_min. Qed.
Theorem C19_kle_max : forall a b, kle MaxQ a b <-> (ip b <= ip a)%Z. Proof. exact kle_max. Qed.

(* Reverse (as the source does it now): same items, opposite order, original untouched *)
Theorem C19_reverse : forall q q0 q1, q_reverse copies_now q = (q0, q1) ->
  q0 = q /\ q_ok q1 /\ qk q1 = opp (qk q) /\ Permutation (qh q1) (qh q).
Proof. exact q_reverse_copy_spec. Qed.

(* scripts over any number of queues: every reachable queue is a heap, and an operation changes no queue other
   than the one it names (Reverse: only the new handle) *)
Theorem C19_scripts_ok : forall ops s, all_ok s -> all_ok (pq_final copies_now s ops).
Proof. exact pq_run_ok. Qed.
Theorem C19_independent : forall s o h, ~ touches o h -> hget (fst (pq_step copies_now s o)) h = hget s h.
Proof. exact pq_step_frame. Qed.

(* non-vacuity: the premises are met by the empty store / fresh queues *)
Example C19_nonvacuous : all_ok [] /\ R MinQ (q_new MinQ) [] /\ R MaxQ (q_new MaxQ) [].
Proof. split; [exact all_ok_nil|]. split; (split; [apply q_new_ok|split; [reflexivity|constructor]]). Qed.

(* regression witness for the aliasing Reverse (fixed in /repo; kept so the violation is recognised if it returns) *)
Theorem C19_reverse_alias_refuted : exists q, q_ok q /\ ~ q_ok (fst (q_reverse false q)).
Proof. exact reverse_alias_breaks_heap. Qed.

Print Assumptions C19_order.
Print Assumptions C19_drain_sorted.
Print Assumptions C19_reverse.
Print Assumptions C19_scripts_ok.
Print Assumptions C19_independent.
Print Assumptions C19_reverse_alias_refuted.
