(* Properties/C20.v — every member's view of cluster membership converges and survives restart. *)
From Verif Require Import Base.Prelude Cluster.Membership Cluster.MembershipProofs Generated.Facts.
Open Scope N_scope.

Definition snapshot_has_addresses_now : bool := match snapshot_has_addresses with Known b => b | Unrecognised _ => false end.
Definition bootstrap_carries_address_now : bool := match bootstrap_carries_address with Known b => b | Unrecognised _ => false end.

Lemma C20_facts_ok :
  snapshot_has_addresses = Known true /\ bootstrap_carries_address = Known true /\ membership_ack_after_apply = Known true /\
  confchange_feeds_book = Known true /\ book_ops_shape = Known true /\ start_loads_snapshot = Known true.
Proof. repeat split; reflexivity. Qed.

(* convergence: a member whose own join is in the log lists exactly what the log says — every joined and not since
   removed node with the address in its membership change — hence any two members agree *)
Theorem C20_member_is_spec : forall x ax log, first_touch x log = Some (MAdd x ax) ->
  forall id, blookup id (member_book x ax log) = blookup id (spec_book log).
Proof. exact member_is_spec. Qed.
Theorem C20_members_agree : forall x ax y ay log, first_touch x log = Some (MAdd x ax) -> first_touch y log = Some (MAdd y ay) ->
  forall id, blookup id (member_book x ax log) = blookup id (member_book y ay log).
Proof. exact members_agree. Qed.

(* the join handshake's stream, interleaved in any way with the replay of the log, changes nothing as long as it carries
   announced addresses and is not staler than the replay *)
Theorem C20_stream_irrelevant : forall ann evs b0, (forall id a, blookup id b0 = Some a -> a = ann id) -> stream_ok ann b0 evs ->
  forall id, blookup id (erun b0 evs) = blookup id (brun b0 (applies evs)).
Proof. exact stream_irrelevant. Qed.

(* restart: restoring the snapshot taken after any prefix and replaying the rest gives the listing of having applied
   everything — with the snapshot contents of the current source *)
Theorem C20_restart : forall self a pre rest, blookup self (member_book self a pre) = Some a ->
  forall id, blookup id (brun (brestore snapshot_has_addresses_now self (member_book self a pre) [(self, a)]) rest)
           = blookup id (member_book self a (pre ++ rest)).
Proof. exact restart_same. Qed.

(* regressions *)
Theorem C20_restart_loses_refuted :
  let log := [MAdd 1 6001; MAdd 2 6002; MAdd 3 6003] in
  brun (brestore false 1 (member_book 1 6001 log) [(1, 6001)]) [] = [(1, 6001)] /\
  brun (brestore true 1 (member_book 1 6001 log) [(1, 6001)]) [] = [(1, 6001); (2, 6002); (3, 6003)].
Proof. exact restart_loses_refuted. Qed.
Theorem C20_boot_address_refuted :
  let log := [MAdd 1 6001; MAdd 2 6002] in
  erun [(2, 6002)] (map EApply (boot_log false log) ++ [EStream 1 6001; EStream 2 6002]) = [(1, 0); (2, 6002)] /\
  erun [(2, 6002)] (map EApply (boot_log true log) ++ [EStream 1 6001; EStream 2 6002]) = [(1, 6001); (2, 6002)].
Proof. exact boot_address_refuted. Qed.
Theorem C20_stale_stream_refuted :
  erun [(4, 6004)] [EApply (MAdd 1 6001); EApply (MAdd 3 6003); EApply (MRemove 3); EStream 3 6003] = [(1, 6001); (3, 6003); (4, 6004)] /\
  brun [(4, 6004)] (applies [EApply (MAdd 1 6001); EApply (MAdd 3 6003); EApply (MRemove 3); EStream 3 6003]) = [(1, 6001); (4, 6004)].
Proof. exact stale_stream_refuted. Qed.

Example C20_nonvacuous :
  first_touch 2 [MAdd 1 6001; MAdd 2 6002; MRemove 1] = Some (MAdd 2 6002) /\
  blookup 2 (member_book 2 6002 [MAdd 1 6001; MAdd 2 6002]) = Some 6002 /\
  stream_ok (fun id => 6000 + id) [(2, 6002)] [EStream 1 6001; EApply (MAdd 1 6001); EApply (MAdd 2 6002)].
Proof. repeat split; try reflexivity. right. reflexivity. Qed.

Print Assumptions C20_member_is_spec.
Print Assumptions C20_members_agree.
Print Assumptions C20_stream_irrelevant.
Print Assumptions C20_restart.
