(* Proto/BatchFanIn.v — the fan-in of the batch write paths (Dataset.partitionsBatchRequest, C11) as a labelled
   transition system: one worker per partition of the batch, each with one result (the ids of its partition that
   failed, with their errors); the result channel is unbuffered, so a worker's send completes only together with a
   receive of the collector; a closer closes the channel after all workers have returned; the collector performs one
   receive per partition and merges what it receives (a receive from the closed channel yields nil: nothing merged).
   [blocking = true]: `resultCh <- result` (the source).  [blocking = false]: a send that gives up when the collector is
   not waiting (`select { case resultCh <- result: default: }`).  Executable; no proofs. *)
From Verif Require Import Base.Prelude Proto.FanIn.
Open Scope N_scope.

Definition bres := list (N * N).                 (* (id, error) for the ids of one partition that failed *)
Record bfan := { b_pending : list bres; b_got : list bres; b_iter : nat; b_closed : bool }.
Inductive blbl := BRendezvous (j : nat) | BGiveUp (j : nat) | BClose | BRecvClosed.

Definition bfan_step (blocking : bool) (n : nat) (s : bfan) (l : blbl) : option bfan :=
  match l with
  | BRendezvous j =>
      if (b_iter s <? n)%nat then
        match nth_error (b_pending s) j with
        | Some r => Some {| b_pending := remove_nth j (b_pending s); b_got := b_got s ++ [r]; b_iter := S (b_iter s); b_closed := b_closed s |}
        | None => None
        end
      else None
  | BGiveUp j =>
      if blocking then None else
        match nth_error (b_pending s) j with
        | Some _ => Some {| b_pending := remove_nth j (b_pending s); b_got := b_got s; b_iter := b_iter s; b_closed := b_closed s |}
        | None => None
        end
  | BClose =>
      match b_pending s with
      | [] => if b_closed s then None else Some {| b_pending := []; b_got := b_got s; b_iter := b_iter s; b_closed := true |}
      | _ => None
      end
  | BRecvClosed =>
      if (b_iter s <? n)%nat && b_closed s
      then Some {| b_pending := b_pending s; b_got := b_got s; b_iter := S (b_iter s); b_closed := true |}
      else None
  end.
Definition bfan_init (rs : list bres) : bfan := {| b_pending := rs; b_got := []; b_iter := O; b_closed := false |}.
(* labels that are not enabled are skipped *)
Fixpoint bfan_run (blocking : bool) (n : nat) (s : bfan) (sched : list blbl) : bfan :=
  match sched with
  | [] => s
  | l :: r => match bfan_step blocking n s l with Some s' => bfan_run blocking n s' r | None => bfan_run blocking n s r end
  end.
(* the error map the call returns once the collector has made its n receives *)
Definition bfan_done (n : nat) (s : bfan) : bool := Nat.eqb (b_iter s) n.
Definition bfan_errors (s : bfan) : list (N * N) := concat (b_got s).
