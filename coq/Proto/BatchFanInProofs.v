(* Proto/BatchFanInProofs.v — with blocking sends the collector of a batch write receives every partition's result:
   under every interleaving of the workers, the closer and the collector, once the collector has made its receives the
   returned error map holds exactly the reported failures of all partitions; a receive never finds the channel closed;
   and the collector is never stuck.  With sends that give up, a result can be lost (refuted by a schedule). *)
From Verif Require Import Base.Prelude Proto.FanIn Proto.FanInProofs Proto.BatchFanIn.
From Coq Require Import ZifyBool ZifyNat.
Local Open Scope nat_scope.

Record BJ (rs : list bres) (s : bfan) : Prop := {
  bj_count : length (b_pending s) + b_iter s = length rs;
  bj_perm : Permutation (b_got s ++ b_pending s) rs;
  bj_closed : b_closed s = true -> b_pending s = [] }.

Lemma remove_nth_length {A} (l : list A) : forall j x, nth_error l j = Some x -> S (length (remove_nth j l)) = length l.
Proof. induction l as [|a l IH]; intros [|j] x H; simpl in *; try discriminate; auto. rewrite (IH j x H). reflexivity. Qed.

Lemma BJ_init rs : BJ rs (bfan_init rs).
Proof. constructor; simpl; [lia|reflexivity|discriminate]. Qed.

Lemma BJ_step rs s l s' : BJ rs s -> bfan_step true (length rs) s l = Some s' -> BJ rs s'.
Proof.
  intros [C P K] H. destruct l as [j|j| |]; simpl in H.
  - destruct (b_iter s <? length rs) eqn:E; [|discriminate]. destruct (nth_error (b_pending s) j) as [r|] eqn:N; [|discriminate].
    injection H as <-. constructor; simpl.
    + pose proof (remove_nth_length _ _ _ N). lia.
    + rewrite <- P. rewrite <- app_assoc. apply Permutation_app_head. simpl. symmetry. apply remove_nth_perm. exact N.
    + intros B. specialize (K B). rewrite K in N. destruct j; discriminate.
  - discriminate.
  - destruct (b_pending s) eqn:EP; [|discriminate]. destruct (b_closed s); [discriminate|]. injection H as <-.
    constructor; simpl; [exact C|exact P|auto].
  - destruct (b_iter s <? length rs) eqn:E; simpl in H; [|discriminate]. destruct (b_closed s) eqn:B; [|discriminate].
    exfalso. rewrite (K eq_refl) in C. simpl in C. lia.
Qed.

Theorem BJ_run rs sched : forall s, BJ rs s -> BJ rs (bfan_run true (length rs) s sched).
Proof.
  induction sched as [|l r IH]; intros s J; simpl; auto.
  destruct (bfan_step true (length rs) s l) eqn:E; [apply IH; eapply BJ_step; eauto|apply IH; auto].
Qed.

(* every schedule: when the call returns, the error map is the reported failures of all partitions, no more, no less *)
Theorem batch_fanin_complete rs sched :
  let s := bfan_run true (length rs) (bfan_init rs) sched in
  bfan_done (length rs) s = true -> Permutation (b_got s) rs /\ (forall x, In x (bfan_errors s) <-> In x (concat rs)).
Proof.
  intros s D. destruct (BJ_run rs sched _ (BJ_init rs)) as [C P K]. fold s in C, P, K.
  unfold bfan_done in D. apply Nat.eqb_eq in D. assert (E : b_pending s = []) by (destruct (b_pending s); auto; simpl in C; lia).
  rewrite E, app_nil_r in P. split; auto. intros x. unfold bfan_errors. split; intros H; rewrite in_concat in *; destruct H as (r & Hr & Hx); exists r; split; auto.
  - eapply Permutation_in; eauto.
  - eapply Permutation_in; [symmetry|]; eauto.
Qed.
(* no receive ever finds the channel closed (a nil result is never merged) *)
Theorem batch_fanin_never_closed_recv rs sched :
  bfan_step true (length rs) (bfan_run true (length rs) (bfan_init rs) sched) BRecvClosed = None.
Proof.
  destruct (bfan_step _ _ _ BRecvClosed) eqn:E; auto. exfalso.
  destruct (BJ_run rs sched _ (BJ_init rs)) as [C P K]. simpl in E.
  destruct (b_iter _ <? length rs) eqn:L; simpl in E; [|discriminate]. destruct (b_closed _) eqn:B; [|discriminate].
  rewrite (K eq_refl) in C. simpl in C. lia.
Qed.
(* the collector is never stuck: while it still has receives to make, some worker can hand over its result *)
Theorem batch_fanin_progress rs sched :
  let s := bfan_run true (length rs) (bfan_init rs) sched in
  bfan_done (length rs) s = false -> exists s', bfan_step true (length rs) s (BRendezvous 0) = Some s'.
Proof.
  intros s D. destruct (BJ_run rs sched _ (BJ_init rs)) as [C P K]. fold s in C, P, K.
  unfold bfan_done in D. apply Nat.eqb_neq in D. simpl. assert (L : b_iter s < length rs) by lia.
  apply Nat.ltb_lt in L. rewrite L. destruct (b_pending s) as [|r t]; [simpl in C; apply Nat.ltb_lt in L; lia|]. simpl. eauto.
Qed.

(* a send that gives up when the collector is not waiting: the worker returns, the channel is closed, the collector
   reads nil - the call returns with the failure of id 1 missing from the error map *)
Theorem giving_up_loses_results_refuted :
  let s := bfan_run false 1 (bfan_init [[(1%N, 7%N)]]) [BGiveUp 0; BClose; BRecvClosed] in
  bfan_done 1 s = true /\ bfan_errors s = [] /\ In (1%N, 7%N) (concat [[(1%N, 7%N)]]).
Proof. vm_compute. repeat split. left. reflexivity. Qed.
