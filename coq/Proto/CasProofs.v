(* Proto/CasProofs.v — C13 (C), termination: the compare-and-swap loop by which writers promote the entry point is
   lock-free and finite.  For any number of writers, any levels and any schedule: a writer repeats its load only
   because another writer's swap succeeded in between, and every writer succeeds or gives up once; so no schedule
   contains more than 2·n² steps of writers that have not finished — after that many, all are done. *)
From Verif Require Import Base.Prelude Proto.Conc.

Definition pdone (t : nat * tpc) : bool := match snd t with TDone => true | _ => false end.
Definition notdone (l : list (nat * tpc)) : nat := length (filter (fun t => negb (pdone t)) l).
(* what a writer still owes: 2 to load and try, 1 to try, 3 to fail, reload and try *)
Definition owe (e : nat) (t : nat * tpc) : nat :=
  match snd t with TIdle => 2 | TLoaded cur => if Nat.eqb cur e then 1 else 3 | TDone => 0 end.
Definition owes (e : nat) (l : list (nat * tpc)) : nat := fold_right (fun t a => owe e t + a) 0 l.
Definition phi (s : pst) : nat := 2 * notdone (p_threads s) * (notdone (p_threads s) - 1) + owes (p_entry s) (p_threads s).

Lemma owes_upd e l : forall i t t', nth_error l i = Some t -> owes e (upd l i t') + owe e t = owes e l + owe e t'.
Proof.
  unfold owes. induction l as [|a l IH]; intros [|i] t t' H; cbn [nth_error upd fold_right] in *; try discriminate.
  - inversion H; subst. lia.
  - specialize (IH i t t' H). lia.
Qed.
Lemma notdone_upd l : forall i t t', nth_error l i = Some t ->
  notdone (upd l i t') + (if pdone t then 0 else 1) = notdone l + (if pdone t' then 0 else 1).
Proof.
  unfold notdone. induction l as [|a l IH]; intros [|i] t t' H; cbn [nth_error upd filter] in *; try discriminate.
  - inversion H; subst. destruct (pdone t), (pdone t'); cbn [negb length]; lia.
  - specialize (IH i t t' H). destruct (pdone a); cbn [negb length]; lia.
Qed.
(* a swap changes the entry point: a writer that had loaded the old one now owes a reload *)
Lemma owes_entry e e' l : owes e' l <= owes e l + 2 * notdone l.
Proof.
  unfold owes, notdone. induction l as [|[v pc] l IH]; cbn [fold_right filter]; [lia|].
  destruct pc as [|cur|].
  - change (pdone (v, TIdle)) with false. change (owe e' (v, TIdle)) with 2. change (owe e (v, TIdle)) with 2. cbn [negb length]. lia.
  - change (pdone (v, TLoaded cur)) with false. cbn [negb length].
    change (owe e' (v, TLoaded cur)) with (if Nat.eqb cur e' then 1 else 3). change (owe e (v, TLoaded cur)) with (if Nat.eqb cur e then 1 else 3).
    destruct (Nat.eqb cur e'), (Nat.eqb cur e); lia.
  - change (pdone (v, TDone)) with true. change (owe e' (v, TDone)) with 0. change (owe e (v, TDone)) with 0. cbn [negb]. lia.
Qed.
Lemma owe_pos e t : pdone t = false -> 1 <= owe e t.
Proof. unfold pdone, owe. destruct (snd t) as [|cur|]; try discriminate; [lia|destruct (Nat.eqb cur e); lia]. Qed.

(* a step of a writer that has not finished uses up potential *)
Lemma pstep_phi lvl s i t : nth_error (p_threads s) i = Some t -> pdone t = false -> phi (pstep lvl true s i) < phi s.
Proof.
  intros Hi ND. unfold pstep. rewrite Hi. destruct t as [v pc]. unfold pdone in ND. cbn [snd] in ND.
  pose proof (notdone_upd (p_threads s) i (v, pc)) as NU. pose proof (owes_upd (p_entry s) (p_threads s) i (v, pc)) as OU.
  assert (K1 : 1 <= notdone (p_threads s)).
  { unfold notdone. clear -Hi ND. revert i Hi. induction (p_threads s) as [|a l IH]; intros [|i] Hi; cbn [nth_error filter] in *; try discriminate.
    - inversion Hi; subst. unfold pdone. cbn [snd]. destruct pc; try discriminate; cbn [negb length]; lia.
    - specialize (IH i Hi). destruct (negb (pdone a)); cbn [length]; lia. }
  destruct pc as [|cur|]; [| |discriminate].
  - (* load *)
    specialize (NU (v, TLoaded (p_entry s)) Hi). specialize (OU (v, TLoaded (p_entry s)) Hi).
    unfold phi. cbn [p_entry p_threads]. unfold pdone in NU. cbn [snd] in NU. unfold owe in OU. cbn [snd] in OU. rewrite Nat.eqb_refl in OU.
    assert (E : notdone (upd (p_threads s) i (v, TLoaded (p_entry s))) = notdone (p_threads s)) by lia. rewrite E. lia.
  - destruct (Nat.leb (lvl v) (lvl cur)).
    + (* gives up: done *)
      specialize (NU (v, TDone) Hi). specialize (OU (v, TDone) Hi).
      unfold phi. cbn [p_entry p_threads]. unfold pdone in NU. cbn [snd] in NU. unfold owe in OU. cbn [snd] in OU.
      set (K := notdone (p_threads s)) in *. set (K' := notdone (upd (p_threads s) i (v, TDone))) in *.
      assert (EK : K = S K') by lia. assert (P : 1 <= (if Nat.eqb cur (p_entry s) then 1 else 3)) by (destruct (Nat.eqb cur (p_entry s)); lia).
      rewrite EK. nia.
    + cbn [negb orb]. destruct (Nat.eqb_spec (p_entry s) cur) as [Heq|Hne].
      * (* the swap succeeds: the others may owe a reload *)
        specialize (NU (v, TDone) Hi). specialize (OU (v, TDone) Hi).
        unfold phi. cbn [p_entry p_threads]. unfold pdone in NU. cbn [snd] in NU. unfold owe in OU. cbn [snd] in OU.
        pose proof (owes_entry (p_entry s) v (upd (p_threads s) i (v, TDone))) as OE.
        set (K := notdone (p_threads s)) in *. set (K' := notdone (upd (p_threads s) i (v, TDone))) in *.
        assert (EK : K = S K') by lia. assert (P : 1 <= (if Nat.eqb cur (p_entry s) then 1 else 3)) by (destruct (Nat.eqb cur (p_entry s)); lia).
        rewrite EK. nia.
      * (* the entry point has changed since the load: reload *)
        specialize (NU (v, TIdle) Hi). specialize (OU (v, TIdle) Hi).
        unfold phi. cbn [p_entry p_threads]. unfold pdone in NU. cbn [snd] in NU. unfold owe in OU. cbn [snd] in OU.
        assert (E3 : Nat.eqb cur (p_entry s) = false) by (apply Nat.eqb_neq; auto). rewrite E3 in OU.
        assert (E : notdone (upd (p_threads s) i (v, TIdle)) = notdone (p_threads s)) by lia. rewrite E. lia.
Qed.

(* a schedule in which every step is taken by a writer that has not finished yet *)
Fixpoint effective (lvl : nat -> nat) (s : pst) (sched : list nat) : Prop :=
  match sched with
  | [] => True
  | i :: r => (exists t, nth_error (p_threads s) i = Some t /\ pdone t = false) /\ effective lvl (pstep lvl true s i) r
  end.
Theorem promotion_bounded lvl sched : forall s, effective lvl s sched -> length sched + phi (prun lvl true s sched) <= phi s.
Proof.
  induction sched as [|i r IH]; intros s E; [simpl; lia|]. destruct E as ((t & Hi & ND) & E).
  pose proof (pstep_phi lvl s i t Hi ND). specialize (IH _ E). unfold prun in *. cbn [fold_left length]. lia.
Qed.
Lemma phi_start vs e0 : phi {| p_entry := e0; p_threads := map (fun v => (v, TIdle)) vs |} = 2 * length vs * length vs.
Proof.
  unfold phi. cbn [p_entry p_threads].
  assert (N : notdone (map (fun v => (v, TIdle)) vs) = length vs) by (unfold notdone; induction vs; simpl; auto).
  assert (O : owes e0 (map (fun v => (v, TIdle)) vs) = 2 * length vs).
  { unfold owes. clear N. induction vs as [|a l IH]; cbn [map fold_right length]; [reflexivity|]. change (owe e0 (a, TIdle)) with 2. rewrite IH. lia. }
  rewrite N, O. destruct (length vs); lia.
Qed.
(* n writers starting together: at most 2·n² steps of unfinished writers, whatever the schedule and the levels *)
Corollary promotion_terminates lvl vs e0 sched :
  effective lvl {| p_entry := e0; p_threads := map (fun v => (v, TIdle)) vs |} sched -> length sched <= 2 * length vs * length vs.
Proof. intros E. pose proof (promotion_bounded lvl sched _ E) as B. rewrite phi_start in B. lia. Qed.
(* and when the potential is used up everybody is done *)
Lemma phi_zero_done s : phi s = 0 -> Forall (fun t => snd t = TDone) (p_threads s).
Proof.
  unfold phi. intros H. assert (O : owes (p_entry s) (p_threads s) = 0) by lia. clear H. unfold owes in O.
  induction (p_threads s) as [|[v pc] l IH]; [constructor|]. cbn [fold_right] in O. constructor.
  - cbn [snd]. unfold owe in O. cbn [snd] in O. destruct pc as [|cur|]; auto; [lia|destruct (Nat.eqb cur (p_entry s)); lia].
  - apply IH. lia.
Qed.
