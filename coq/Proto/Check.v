(* Proto/Check.v — executable checkers for the protocol properties (C09, C17, C11). *)
From Verif Require Import Base.Prelude Base.TopK Proto.FanIn Proto.SizeInfo Proto.Notify.
Open Scope N_scope.

Fixpoint list_eqb {A} (e : A -> A -> bool) (l l' : list A) : bool :=
  match l, l' with [], [] => true | a :: t, b :: t' => e a b && list_eqb e t t' | _, _ => false end.
Fixpoint bad_idx {A} (f : A -> bool) (l : list A) (i : nat) : list nat :=
  match l with [] => [] | a :: t => if f a then bad_idx f t (S i) else i :: bad_idx f t (S i) end.

(* ---- C09 ---- *)
Definition ritem_eqb (a b : ritem) : bool := (fst a =? fst b) && (snd a =? snd b)%Z.
(* canonical order for comparison: by score, then id (sort.Sort is not stable) *)
Fixpoint ins_canon (x : ritem) (l : list ritem) : list ritem :=
  match l with [] => [x] | y :: t => if ((snd x <? snd y)%Z || ((snd x =? snd y)%Z && (fst x <? fst y))) then x :: l else y :: ins_canon x t end.
Definition canon (l : list ritem) : list ritem := fold_right ins_canon [] l.
Definition outcome_eqb (a b : outcome) : bool :=
  match a, b with
  | OOk x, OOk y => list_eqb ritem_eqb (canon x) (canon y)
  | OOkNil, OOkNil => true
  | OErr _, OErr _ => true                 (* which error text is returned is not compared *)
  | OTimeout, OTimeout => true
  | _, _ => false
  end.
Record fan_case := { fc_msgs : list msg; fc_k : nat; fc_obs : outcome }.
(* the observed outcome is one the model can produce under the extracted facts *)
Definition fan_case_model_ok (closes : bool) (c : fan_case) : bool :=
  let n := length (fc_msgs c) in
  existsb (outcome_eqb (fc_obs c)) (outcomes (4 * n + 4) closes n (fc_k c) (fan_init (fc_msgs c))).
(* the property: success iff every worker succeeded, and then exactly the k best of everything returned *)
Definition all_res (ms : list msg) : bool := forallb (fun m => match m with MRes _ => true | MErr _ => false end) ms.
Definition results_of (ms : list msg) : list (list ritem) := flat_map (fun m => match m with MRes r => [r] | MErr _ => [] end) ms.
(* ascending score order as returned (scores are non-negative float32 bit patterns: bit order is numeric order) *)
Fixpoint ascending (l : list ritem) : bool :=
  match l with x :: ((y :: _) as t) => (snd x <=? snd y)%Z && ascending t | _ => true end.
Definition fan_case_oracle_ok (c : fan_case) : bool :=
  match fc_obs c with
  | OOk l => all_res (fc_msgs c) && ascending l && list_eqb ritem_eqb (canon l) (canon (topk (fc_k c) (results_of (fc_msgs c))))
  | OOkNil => false
  | OErr _ => negb (all_res (fc_msgs c))
  | OTimeout => negb (all_res (fc_msgs c))
  end.

(* ---- C17 ---- *)
Definition souts_eqb (a b : souts) : bool :=
  match a, b with SOk l b1, SOk l' b2 => (l =? l') && (b1 =? b2) | SErr, SErr => true | STimeout, STimeout => true | _, _ => false end.
Record sz_case := { zc_parts : list part; zc_obs : souts }.
Definition sz_case_model_ok (captures : bool) (c : sz_case) : bool :=
  let n := length (zc_parts c) in
  existsb (souts_eqb (zc_obs c)) (sz_outcomes (4 * n + 4) captures (zc_parts c) sz_init).
Definition sz_case_oracle_ok (c : sz_case) : bool :=
  let fails := existsb (fun p => negb (p_local p) && p_fail p) (zc_parts c) in
  match zc_obs c with
  | SOk l b => negb fails && (l =? total_len (zc_parts c)) && (b =? total_bytes (zc_parts c))
  | SErr => fails
  | STimeout => fails
  end.

(* ---- C11 ---- *)
Inductive cres := RGot (v : N) | RTimeout.
Definition cres_eqb (a b : cres) : bool := match a, b with RGot x, RGot y => x =? y | RTimeout, RTimeout => true | _, _ => false end.
Record notif_case := { nc_outcome : N; nc_sched : list nlbl; nc_obs : cres }.
Definition notif_case_model_ok (buf : nat) (c : notif_case) : bool :=
  match st (nth 0 (n_run buf (n_init [nc_outcome c]) (nc_sched c)) dcaller) with
  | CGot v => cres_eqb (nc_obs c) (RGot v)
  | CTimedOut => cres_eqb (nc_obs c) RTimeout
  | _ => false
  end.
(* the property on the observation: an applied proposal is acknowledged with its own outcome *)
Definition applied_in (s : list nlbl) : bool := existsb (fun l => match l with ApplyNotify _ => true | _ => false end) s.
Definition deadline_before_apply (s : list nlbl) : bool :=
  (fix f (s : list nlbl) := match s with [] => false | Deadline _ :: _ => true | ApplyNotify _ :: _ => false | _ :: t => f t end) s.
Definition notif_case_oracle_ok (c : notif_case) : bool :=
  if applied_in (nc_sched c) && negb (deadline_before_apply (nc_sched c))
  then cres_eqb (nc_obs c) (RGot (nc_outcome c))
  else true.

Record write_case := { wc_dim_ok : bool; wc_local : bool; wc_reachable : bool; wc_owner : wres; wc_obs : wres; wc_stored : bool }.
Definition wres_eqb (a b : wres) : bool :=
  match a, b with WOk, WOk | WErrDim, WErrDim | WErrUnreachable, WErrUnreachable => true | WErr _, WErr _ => true | _, _ => false end.
Definition write_case_model_ok (proxy_err : bool) (c : write_case) : bool :=
  let '(r, proposed) := ds_write proxy_err (wc_dim_ok c) (wc_local c) (wc_reachable c) (wc_owner c) in
  wres_eqb r (wc_obs c) && (if proposed then true else negb (wc_stored c)).
Definition write_case_oracle_ok (c : write_case) : bool :=
  match wc_obs c with
  | WOk => wc_stored c && wc_dim_ok c          (* success only if applied on the owner *)
  | _ => true
  end && (if wc_dim_ok c then true else negb (wc_stored c) && wres_eqb (wc_obs c) WErrDim).
