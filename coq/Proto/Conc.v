(* Proto/Conc.v — concurrent use of one index (index/hnsw.go): (A) membership changes are critical sections under the
   shard lock (storeVertex / removeVertex); (B) a reader against the single writer's Remove (tombstone first, hand-over
   second); (C) writers promoting the entry point with compare-and-swap (C13).  Executable; no proofs. *)
From Verif Require Import Base.Prelude.

(* ---- (A) membership: every Insert / Remove takes effect in one critical section ---- *)
Inductive mop := MIns (id : nat) | MRem (id : nat).
Record mstate := { m_set : list nat; m_len : nat }.
Definition mem_b (x : nat) (l : list nat) : bool := existsb (Nat.eqb x) l.
Definition cs (s : mstate) (o : mop) : mstate * bool :=
  match o with
  | MIns id => if mem_b id (m_set s) then (s, false) else ({| m_set := id :: m_set s; m_len := S (m_len s) |}, true)
  | MRem id => if mem_b id (m_set s) then ({| m_set := filter (fun y => negb (Nat.eqb y id)) (m_set s); m_len := m_len s - 1 |}, true) else (s, false)
  end.
Fixpoint run_cs (s : mstate) (ops : list mop) : mstate * list bool :=
  match ops with [] => (s, []) | o :: r => let '(s', b) := cs s o in let '(sf, bs) := run_cs s' r in (sf, b :: bs) end.
(* a history: invocation, critical section and response of the calls (numbered), in the order they happened *)
Inductive hev := HInv (k : nat) | HCs (k : nat) | HRet (k : nat).
Fixpoint pos (e : hev -> bool) (h : list hev) (i : nat) : option nat :=
  match h with [] => None | x :: t => if e x then Some i else pos e t (S i) end.
Definition is_inv k e := match e with HInv j => Nat.eqb j k | _ => false end.
Definition is_cs k e := match e with HCs j => Nat.eqb j k | _ => false end.
Definition is_ret k e := match e with HRet j => Nat.eqb j k | _ => false end.
(* every call: invoked, then its critical section, then its response *)
Definition call_ok (h : list hev) (k : nat) : Prop :=
  exists i c r, pos (is_inv k) h 0 = Some i /\ pos (is_cs k) h 0 = Some c /\ pos (is_ret k) h 0 = Some r /\ i < c /\ c < r.

(* ---- (B) a search against the single writer's removals ---- *)
Inductive wstep := WTomb (v : nat) | WHand (v : nat) (n : option nat).      (* tombstone v; then: if the entry point is v, it becomes n *)
Inductive rstep := RInv | RLoad | RTakeEntry | RVisit (x : nat) | RRet.
Record sst := { tomb : list nat; entry : option nat;
                r_tomb0 : list nat;        (* what was tombstoned when the search was invoked *)
                r_entry : option nat; r_res : list nat }.
Definition wapply (s : sst) (w : wstep) : sst :=
  match w with
  | WTomb v => {| tomb := v :: tomb s; entry := entry s; r_tomb0 := r_tomb0 s; r_entry := r_entry s; r_res := r_res s |}
  | WHand v n => {| tomb := tomb s; entry := match entry s with Some e => if Nat.eqb e v then n else Some e | None => None end;
                    r_tomb0 := r_tomb0 s; r_entry := r_entry s; r_res := r_res s |}
  end.
Definition rapply (skip_dead_entry : bool) (s : sst) (r : rstep) : sst :=
  match r with
  | RInv => {| tomb := tomb s; entry := entry s; r_tomb0 := tomb s; r_entry := None; r_res := [] |}
  | RLoad => {| tomb := tomb s; entry := entry s; r_tomb0 := r_tomb0 s; r_entry := entry s; r_res := r_res s |}
  | RTakeEntry =>
      {| tomb := tomb s; entry := entry s; r_tomb0 := r_tomb0 s; r_entry := r_entry s;
         r_res := match r_entry s with
                  | Some e => if skip_dead_entry && mem_b e (tomb s) then r_res s else e :: r_res s
                  | None => r_res s
                  end |}
  | RVisit x => (* a neighbour reached through the links: tombstones are skipped *)
      {| tomb := tomb s; entry := entry s; r_tomb0 := r_tomb0 s; r_entry := r_entry s;
         r_res := if mem_b x (tomb s) then r_res s else x :: r_res s |}
  | RRet => s
  end.
Inductive sstep := SW (w : wstep) | SR (r : rstep).
Definition sapply (skip : bool) (s : sst) (e : sstep) : sst := match e with SW w => wapply s w | SR r => rapply skip s r end.
Definition s_init (e : option nat) : sst := {| tomb := []; entry := e; r_tomb0 := []; r_entry := None; r_res := [] |}.

(* ---- (C) writers promoting the entry point ---- *)
Inductive tpc := TIdle | TLoaded (cur : nat) | TDone.
Record pst := { p_entry : nat; p_threads : list (nat * tpc) }.       (* thread = (the vertex it inserted, program counter) *)
(* cas_loop = true: compare-and-swap on the loaded value, retried; false: the swap "succeeds" whatever the entry point is now *)
Definition pstep (lvl : nat -> nat) (cas_loop : bool) (s : pst) (i : nat) : pst :=
  match nth_error (p_threads s) i with
  | None => s
  | Some (v, TIdle) => {| p_entry := p_entry s; p_threads := upd (p_threads s) i (v, TLoaded (p_entry s)) |}
  | Some (v, TLoaded cur) =>
      if Nat.leb (lvl v) (lvl cur) then {| p_entry := p_entry s; p_threads := upd (p_threads s) i (v, TDone) |}
      else if negb cas_loop || Nat.eqb (p_entry s) cur then {| p_entry := v; p_threads := upd (p_threads s) i (v, TDone) |}
      else {| p_entry := p_entry s; p_threads := upd (p_threads s) i (v, TIdle) |}
  | Some (v, TDone) => s
  end.
Definition prun lvl cas_loop (s : pst) (sched : list nat) : pst := fold_left (pstep lvl cas_loop) sched s.

(* ---- checkers ---- *)
Record conc_case := { cc_server : bool; cc_ok : bool }.
Definition conc_case_model_ok (skip_dead_entry : bool) (c : conc_case) : bool := if skip_dead_entry then cc_ok c else true.
Definition conc_case_oracle_ok (c : conc_case) : bool := cc_ok c.
Fixpoint bad_idx {A} (f : A -> bool) (l : list A) (i : nat) : list nat :=
  match l with [] => [] | a :: t => if f a then bad_idx f t (S i) else i :: bad_idx f t (S i) end.
