(* Proto/ConcProofs.v — C13: linearization of membership changes, a search never returns an item removed before it
   began, writers agree on the highest entry point — for all interleavings. *)
From Verif Require Import Base.Prelude Proto.Conc.

(* ---- (A) ---- *)
(* the order of the critical sections respects real time: a call that returned before another was invoked has its
   critical section first; outcomes and the final set are those of the sequential set run in that order (run_cs is how
   the model computes them: the critical section is the only step that touches the map) *)
Theorem cs_order_respects_real_time h a b ia ra ca cb ib :
  call_ok h a -> call_ok h b ->
  pos (is_inv a) h 0 = Some ia -> pos (is_ret a) h 0 = Some ra -> pos (is_cs a) h 0 = Some ca ->
  pos (is_inv b) h 0 = Some ib -> pos (is_cs b) h 0 = Some cb ->
  ra < ib -> ca < cb.
Proof.
  intros (i & c & r & Hi & Hc & Hr & L1 & L2) (i' & c' & r' & Hi' & Hc' & Hr' & L1' & L2') Ia Ra Ca Ib Cb Lt.
  rewrite Hr in Ra. rewrite Hc in Ca. rewrite Hi' in Ib. rewrite Hc' in Cb. inversion Ra; inversion Ca; inversion Ib; inversion Cb; subst. lia.
Qed.
(* the item count is the number of stored ids after any sequence of critical sections *)
Lemma mem_b_in x l : mem_b x l = true <-> In x l.
Proof. unfold mem_b. rewrite existsb_exists. split; [intros (y & Hy & E); apply Nat.eqb_eq in E; subst; auto|intros H; exists x; split; auto; apply Nat.eqb_refl]. Qed.
Lemma filter_len_nodup id l : NoDup l -> In id l -> length (filter (fun y => negb (Nat.eqb y id)) l) = length l - 1.
Proof.
  induction l as [|x t IH]; intros ND Hin; [destruct Hin|]. inversion ND; subst. simpl.
  destruct (Nat.eqb_spec x id) as [->|Hne]; simpl.
  - assert (E : filter (fun y => negb (Nat.eqb y id)) t = t).
    { clear -H1. induction t as [|y t IH]; simpl; auto. destruct (Nat.eqb_spec y id) as [->|?]; simpl; [exfalso; apply H1; left; auto|].
      f_equal. apply IH. intros H; apply H1; right; auto. }
    rewrite E. lia.
  - destruct Hin as [E|Hin]; [congruence|]. rewrite IH by auto. destruct t; [destruct Hin|simpl; lia].
Qed.
Definition m_ok (s : mstate) : Prop := NoDup (m_set s) /\ m_len s = length (m_set s).
Lemma cs_ok s o : m_ok s -> m_ok (fst (cs s o)).
Proof.
  intros (ND & L). destruct o as [id|id]; simpl; destruct (mem_b id (m_set s)) eqn:E; simpl; try (split; auto; fail).
  - split; simpl; [constructor; auto; intros H; apply mem_b_in in H; congruence|lia].
  - apply mem_b_in in E. split; simpl; [apply NoDup_filter; auto|]. rewrite filter_len_nodup by auto. lia.
Qed.
Theorem count_matches ops : forall s, m_ok s -> m_ok (fst (run_cs s ops)).
Proof.
  induction ops as [|o r IH]; intros s H; simpl; auto.
  pose proof (cs_ok s o H) as H1. destruct (cs s o) as [s' b]. specialize (IH s' H1). destruct (run_cs s' r). auto.
Qed.

(* ---- (B) ---- *)
Definition sinv (s : sst) : Prop := incl (r_tomb0 s) (tomb s) /\ Forall (fun x => ~ In x (r_tomb0 s)) (r_res s).
Lemma sapply_inv s e : sinv s -> sinv (sapply true s e).
Proof.
  intros (I & F). destruct e as [[v|v n]|[| | |x|]]; simpl; unfold sinv; simpl; auto.
  - split; auto. intros y Hy. right. auto.
  - split; [apply incl_refl|constructor].
  - split; auto. destruct (r_entry s) as [e|]; auto. destruct (mem_b e (tomb s)) eqn:E; simpl; auto.
    constructor; auto. intros H. apply I in H. apply mem_b_in in H. congruence.
  - split; auto. destruct (mem_b x (tomb s)) eqn:E; auto. constructor; auto. intros H. apply I in H. apply mem_b_in in H. congruence.
Qed.
(* whatever the writer removes and hands over, in whatever interleaving with the reader's steps and whichever
   vertices the traversal reaches: nothing the search returns was tombstoned when the search was invoked *)
Theorem search_never_returns_removed e sched :
  let s := fold_left (sapply true) sched (s_init e) in Forall (fun x => ~ In x (r_tomb0 s)) (r_res s).
Proof.
  assert (G : forall sched s, sinv s -> sinv (fold_left (sapply true) sched s)).
  { induction sched0 as [|x r IH]; intros s H; simpl; auto. apply IH. apply sapply_inv; auto. }
  apply (G sched (s_init e)). split; [apply incl_refl|constructor].
Qed.
(* without the check on the entry point: the writer has tombstoned the entry point and not yet handed over *)
Theorem dead_entry_refuted :
  let s := fold_left (sapply false) [SW (WTomb 1); SR RInv; SR RLoad; SR RTakeEntry; SR RRet; SW (WHand 1 (Some 2))] (s_init (Some 1)) in
  r_res s = [1] /\ r_tomb0 s = [1].
Proof. split; reflexivity. Qed.

(* ---- (C) ---- *)
Lemma in_upd {A} (l : list A) i x y : In y (upd l i x) -> y = x \/ In y l.
Proof.
  revert i. induction l as [|h t IH]; intros i H; simpl in *; [destruct i; destruct H|].
  destruct i; simpl in H; destruct H as [H|H]; auto. destruct (IH _ H); auto.
Qed.
Section Promote.
  Variable lvl : nat -> nat.
  (* what a thread remembers is never higher than the entry point; a finished thread's vertex is not higher either *)
  Definition pinv (s : pst) : Prop :=
    Forall (fun t => match snd t with
                     | TLoaded cur => lvl cur <= lvl (p_entry s)
                     | TDone => lvl (fst t) <= lvl (p_entry s)
                     | TIdle => True end) (p_threads s).
  Lemma pstep_inv s i : pinv s -> pinv (pstep lvl true s i) /\ lvl (p_entry s) <= lvl (p_entry (pstep lvl true s i)).
  Proof.
    intros P. unfold pstep. destruct (nth_error (p_threads s) i) as [[v pc]|] eqn:E; [|split; auto].
    assert (Hv : match pc with TLoaded cur => lvl cur <= lvl (p_entry s) | TDone => lvl v <= lvl (p_entry s) | TIdle => True end).
    { apply nth_error_In in E. unfold pinv in P. rewrite Forall_forall in P. apply (P _ E). }
    destruct pc as [|cur|]; [| |split; auto].
    - split; simpl; auto. unfold pinv in *. simpl. rewrite Forall_forall in *. intros t Ht. apply in_upd in Ht. destruct Ht as [->|Ht]; simpl; auto. apply P; auto.
    - destruct (Nat.leb_spec (lvl v) (lvl cur)) as [Hle|Hgt].
      + split; simpl; auto. unfold pinv in *. simpl. rewrite Forall_forall in *. intros t Ht. apply in_upd in Ht. destruct Ht as [->|Ht]; simpl; [lia|apply P; auto].
      + simpl. destruct (Nat.eqb_spec (p_entry s) cur) as [Heq|Hne].
        * (* the swap succeeds: the entry point was still the one loaded *)
          subst cur. split; simpl; [|lia]. unfold pinv in *. simpl. rewrite Forall_forall in *. intros t Ht. apply in_upd in Ht.
          destruct Ht as [->|Ht]; simpl; auto. specialize (P _ Ht). destruct (snd t); auto; lia.
        * split; simpl; auto. unfold pinv in *. simpl. rewrite Forall_forall in *. intros t Ht. apply in_upd in Ht. destruct Ht as [->|Ht]; simpl; auto. apply P; auto.
  Qed.
  (* for every number of writers and every schedule: the entry point's level never decreases, and once all writers
     are done it is at least the level of every vertex they inserted *)
  Theorem promotion_monotone sched : forall s, pinv s ->
    pinv (prun lvl true s sched) /\ lvl (p_entry s) <= lvl (p_entry (prun lvl true s sched)).
  Proof.
    induction sched as [|i r IH]; intros s P; simpl; auto. destruct (pstep_inv s i P) as (P1 & L1).
    destruct (IH _ P1) as (P2 & L2). split; auto. unfold prun in *. lia.
  Qed.
  Corollary promotion_final vs e0 sched :
    let s := prun lvl true {| p_entry := e0; p_threads := map (fun v => (v, TIdle)) vs |} sched in
    Forall (fun t => snd t = TDone) (p_threads s) -> Forall (fun t => lvl (fst t) <= lvl (p_entry s)) (p_threads s).
  Proof.
    intros s D. assert (P0 : pinv {| p_entry := e0; p_threads := map (fun v => (v, TIdle)) vs |}).
    { unfold pinv. simpl. apply Forall_forall. intros t Ht. apply in_map_iff in Ht. destruct Ht as (v & <- & _). simpl. auto. }
    destruct (promotion_monotone sched _ P0) as (P & _). fold s in P. unfold pinv in P. rewrite Forall_forall in *.
    intros t Ht. specialize (P t Ht). rewrite (D t Ht) in P. auto.
  Qed.
End Promote.
(* the swap that cannot fail: two writers load the same entry point; the lower one swaps last *)
Theorem blind_swap_refuted :
  let lvl := fun v => match v with 1 => 2 | 2 => 1 | _ => 0 end in
  let s := prun lvl false {| p_entry := 0; p_threads := [(1, TIdle); (2, TIdle)] |} [0; 1; 0; 1] in
  p_entry s = 2 /\ lvl (p_entry s) = 1 /\
  p_entry (prun lvl true {| p_entry := 0; p_threads := [(1, TIdle); (2, TIdle)] |} [0; 1; 0; 1; 1; 1]) = 1.
Proof. repeat split. Qed.

(* ---- (A, assembled) linearizability of membership changes ----
   A concurrent execution is a history of invocations, critical sections and responses; only a critical section touches
   the id map (fact membership_under_shard_lock), so executing the history applies [cs] at the HCs events.  The order of
   the critical sections is a linearization: it contains every call that took effect exactly once, respects real time,
   and the outcomes and the final set of the concurrent execution are those of the sequential set run in that order. *)
Definition cs_order (h : list hev) : list nat := flat_map (fun e => match e with HCs k => [k] | _ => [] end) h.
Fixpoint exec_hist (op : nat -> mop) (h : list hev) (s : mstate) : mstate * list (nat * bool) :=
  match h with
  | [] => (s, [])
  | HCs k :: t => let '(s', b) := cs s (op k) in let '(sf, rs) := exec_hist op t s' in (sf, (k, b) :: rs)
  | _ :: t => exec_hist op t s
  end.
Fixpoint idx (k : nat) (l : list nat) (i : nat) : option nat :=
  match l with [] => None | x :: t => if Nat.eqb x k then Some i else idx k t (S i) end.

Lemma exec_hist_seq op h : forall s,
  exec_hist op h s = (fst (run_cs s (map op (cs_order h))), combine (cs_order h) (snd (run_cs s (map op (cs_order h))))).
Proof.
  induction h as [|e t IH]; intros s; [reflexivity|]. destruct e as [k|k|k]; simpl; try apply IH.
  destruct (cs s (op k)) as [s' b]. rewrite IH. destruct (run_cs s' (map op (cs_order t))) as [sf bs]. reflexivity.
Qed.
Lemma cs_order_in h k : In k (cs_order h) <-> In (HCs k) h.
Proof.
  unfold cs_order. rewrite in_flat_map. split.
  - intros (e & He & Hk). destruct e as [j|j|j]; simpl in Hk; try tauto. destruct Hk as [<-|[]]. exact He.
  - intros H. exists (HCs k). split; simpl; auto.
Qed.
Lemma cs_order_nodup h : NoDup h -> NoDup (cs_order h).
Proof.
  induction h as [|e t IH]; intros ND; [constructor|]. inversion ND as [|? ? Hn ND']; subst. destruct e as [k|k|k]; simpl; auto.
  constructor; auto. rewrite cs_order_in. exact Hn.
Qed.
(* positions of critical sections in the history and positions in the linearization agree on the order *)
Lemma idx_of_pos h a b : forall i j ca cb, pos (is_cs a) h i = Some ca -> pos (is_cs b) h i = Some cb -> ca < cb ->
  exists xa xb, idx a (cs_order h) j = Some xa /\ idx b (cs_order h) j = Some xb /\ xa < xb.
Proof.
  induction h as [|e t IH]; intros i j ca cb Pa Pb Lt; [discriminate|]. simpl in Pa, Pb.
  assert (Mono : forall k t0 i0 c, pos (is_cs k) t0 i0 = Some c -> i0 <= c).
  { intros k t0. induction t0 as [|x t0 IH0]; intros i0 c H; [discriminate|]. simpl in H. destruct (is_cs k x); [injection H as <-; lia|]. apply IH0 in H. lia. }
  assert (Found : forall k t0 i0 c j0, pos (is_cs k) t0 i0 = Some c -> exists x, idx k (cs_order t0) j0 = Some x /\ j0 <= x).
  { intros k t0. induction t0 as [|x t0 IH0]; intros i0 c j0 H; [discriminate|]. simpl in H. destruct x as [m|m|m]; simpl in *; try (eapply IH0; eauto).
    destruct (Nat.eqb_spec m k) as [->|Hne]; [exists j0; split; auto|]. destruct (IH0 _ _ (S j0) H) as (x & Hx & Lx). exists x. split; auto. lia. }
  destruct e as [m|m|m]; simpl in *; try (eapply IH; eauto).
  destruct (Nat.eqb_spec m a) as [->|Hna].
  - injection Pa as <-. destruct (Nat.eqb_spec a b) as [->|Hnb]; [injection Pb as <-; lia|].
    destruct (Found _ _ _ _ (S j) Pb) as (x & Hx & Lx). exists j, x. cbn [idx]. rewrite ?Nat.eqb_refl. destruct (Nat.eqb_spec a b); [congruence|]. repeat split; auto.
  - destruct (Nat.eqb_spec m b) as [->|Hnb]; [injection Pb as <-; apply Mono in Pa; lia|]. eapply IH; eauto.
Qed.

Theorem membership_linearizable op h s :
  NoDup h -> (forall k, In (HCs k) h -> call_ok h k) ->
  let lin := cs_order h in
  (* every call that took effect appears once *)
  NoDup lin /\ (forall k, In k lin <-> In (HCs k) h) /\
  (* real time: a call that returned before another was invoked comes first *)
  (forall a b ra ib, In a lin -> In b lin -> pos (is_ret a) h 0 = Some ra -> pos (is_inv b) h 0 = Some ib -> ra < ib ->
     exists xa xb, idx a lin 0 = Some xa /\ idx b lin 0 = Some xb /\ xa < xb) /\
  (* outcomes and final set are those of the sequential set run in that order *)
  exec_hist op h s = (fst (run_cs s (map op lin)), combine lin (snd (run_cs s (map op lin)))) /\
  (m_ok s -> m_ok (fst (exec_hist op h s))).
Proof.
  intros ND OK lin. split; [apply cs_order_nodup; auto|]. split; [intros k; apply cs_order_in|]. split; [|split].
  - intros a b ra ib Ha Hb Ra Ib Lt. apply cs_order_in in Ha, Hb. pose proof (OK a Ha) as Ca. pose proof (OK b Hb) as Cb.
    destruct Ca as (ia & ca & ra' & Hia & Hca & Hra & L1 & L2). destruct Cb as (ib' & cb & rb & Hib & Hcb & Hrb & L3 & L4).
    assert (ca < cb) by (rewrite Hra in Ra; rewrite Hib in Ib; inversion Ra; inversion Ib; subst; lia).
    apply (idx_of_pos h a b 0 0 ca cb); auto.
  - apply exec_hist_seq.
  - intros M. rewrite exec_hist_seq. cbn [fst]. apply count_matches. exact M.
Qed.
