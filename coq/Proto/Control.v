(* Proto/Control.v — the hand-off protocol between the zero group's apply loop (Z) and the allocator loop (A):
   storage/allocator.go (watch / unwatch / run / node change handlers), cluster/conn.go (AddNode / RemoveNode and their
   notifications), storage/dataset_manager.go (proposals of the allocator wait until the zero group applies them) (C18).
   Locks are implied by the program counters.  Executable; no proofs. *)
From Verif Require Import Base.Prelude.

Record design := {
  d_upd_queue : bool;        (* watch / unwatch updates pass through a queue that always accepts *)
  d_notif_queue : bool;      (* membership notifications pass through a queue that always accepts (else: channel of 10) *)
  d_watch_locks : bool;      (* watch / unwatch hold partitionsMu (write) while sending the update *)
  d_handler_holds : bool     (* the node change handler holds partitionsMu (read) while its proposal waits *)
}.
Definition design_safe : design := {| d_upd_queue := true; d_notif_queue := true; d_watch_locks := false; d_handler_holds := false |}.
Definition design_old : design := {| d_upd_queue := false; d_notif_queue := false; d_watch_locks := true; d_handler_holds := true |}.
Definition notif_cap := 10%nat.

(* backlog entries of the zero group *)
Inductive zop :=
| ZConf (k : nat)      (* a membership change: Conn.AddNode / RemoveNode; the allocator will make k proposals for it *)
| ZUpd (n : nat).      (* a dataset created or deleted: n partitions watched / unwatched *)
Inductive zpc := ZIdle | ZConfSend (k : nat) | ZUpdSend (n : nat).      (* ZConfSend: holds addressesMu; ZUpdSend: holds partitionsMu if d_watch_locks *)
Inductive apc :=
| AIdle
| AHandle (k : nat)    (* took a notification; next: partitionsMu.RLock *)
| ACheck (k : nat)     (* canModifyPartition: reads the address book (addressesMu.RLock) *)
| APropose (k : nat)   (* proposes to the zero group *)
| AWait (k : nat).     (* waits until the zero group has applied the proposal *)
Record st := { z_todo : list zop; z_pc : zpc; props : nat; applied : bool; a_pc : apc; nq : list nat; uq : nat }.
Definition init (backlog : list zop) : st :=
  {| z_todo := backlog; z_pc := ZIdle; props := 0; applied := false; a_pc := AIdle; nq := []; uq := 0 |}.

Definition a_holds_pm (d : design) (s : st) : bool :=
  d_handler_holds d && match a_pc s with ACheck _ | APropose _ | AWait _ => true | _ => false end.
Definition z_holds_pm (d : design) (s : st) : bool :=
  d_watch_locks d && match z_pc s with ZUpdSend _ => true | _ => false end.
Definition z_holds_am (s : st) : bool := match z_pc s with ZConfSend _ => true | _ => false end.

Inductive tid := TZ | TA.

Definition step_z (d : design) (s : st) : option st :=
  match z_pc s with
  | ZIdle =>
      match z_todo s with
      | ZConf k :: r => Some {| z_todo := r; z_pc := ZConfSend k; props := props s; applied := applied s; a_pc := a_pc s; nq := nq s; uq := uq s |}
      | ZUpd O :: r => Some {| z_todo := r; z_pc := ZIdle; props := props s; applied := applied s; a_pc := a_pc s; nq := nq s; uq := uq s |}
      | ZUpd (S n) :: r =>
          (* watch: partitionsMu.Lock if the design locks *)
          if d_watch_locks d && a_holds_pm d s then None
          else Some {| z_todo := ZUpd n :: r; z_pc := ZUpdSend n; props := props s; applied := applied s; a_pc := a_pc s; nq := nq s; uq := uq s |}
      | [] =>
          (* behind the backlog: the allocator's proposal *)
          match props s with
          | O => None
          | S p => Some {| z_todo := []; z_pc := ZIdle; props := p; applied := true; a_pc := a_pc s; nq := nq s; uq := uq s |}
          end
      end
  | ZConfSend k =>
      if d_notif_queue d || Nat.ltb (length (nq s)) notif_cap
      then Some {| z_todo := z_todo s; z_pc := ZIdle; props := props s; applied := applied s; a_pc := a_pc s; nq := nq s ++ [k]; uq := uq s |}
      else None
  | ZUpdSend n =>
      if d_upd_queue d
      then Some {| z_todo := z_todo s; z_pc := ZIdle; props := props s; applied := applied s; a_pc := a_pc s; nq := nq s; uq := S (uq s) |}
      else (* unbuffered channel: the loop must be at its select; it handles the update (loadRaft) before selecting again *)
        match a_pc s with
        | AIdle => Some {| z_todo := z_todo s; z_pc := ZIdle; props := props s; applied := applied s; a_pc := AIdle; nq := nq s; uq := uq s |}
        | _ => None
        end
  end.

Definition step_a (d : design) (s : st) : option st :=
  match a_pc s with
  | AIdle =>
      match nq s, uq s with
      | k :: r, _ => Some {| z_todo := z_todo s; z_pc := z_pc s; props := props s; applied := applied s; a_pc := AHandle k; nq := r; uq := uq s |}
      | [], S u => Some {| z_todo := z_todo s; z_pc := z_pc s; props := props s; applied := applied s; a_pc := AIdle; nq := []; uq := u |}
      | [], O => None
      end
  | AHandle k =>
      (* partitionsMu.RLock (kept during the handler, or only for copying the list) *)
      if z_holds_pm d s then None
      else Some {| z_todo := z_todo s; z_pc := z_pc s; props := props s; applied := applied s; a_pc := ACheck k; nq := nq s; uq := uq s |}
  | ACheck k =>
      if z_holds_am s then None
      else Some {| z_todo := z_todo s; z_pc := z_pc s; props := props s; applied := applied s;
                   a_pc := match k with O => AIdle | S k' => APropose k' end; nq := nq s; uq := uq s |}
  | APropose k => Some {| z_todo := z_todo s; z_pc := z_pc s; props := S (props s); applied := false; a_pc := AWait k; nq := nq s; uq := uq s |}
  | AWait k =>
      if applied s
      then Some {| z_todo := z_todo s; z_pc := z_pc s; props := props s; applied := false; a_pc := ACheck k; nq := nq s; uq := uq s |}
      else None
  end.

Definition step (d : design) (s : st) (t : tid) : option st := match t with TZ => step_z d s | TA => step_a d s end.
Definition terminal (s : st) : bool :=
  match z_todo s, z_pc s, props s, a_pc s, nq s, uq s with [], ZIdle, O, AIdle, [], O => true | _, _, _, _, _, _ => false end.
Definition stuck (d : design) (s : st) : bool :=
  negb (terminal s) && match step d s TZ, step d s TA with None, None => true | _, _ => false end.

(* a schedule: the thread to run at each step (a disabled thread's turn is skipped) *)
Fixpoint run_sched (d : design) (s : st) (sched : list tid) : st :=
  match sched with
  | [] => s
  | t :: r => match step d s t with Some s' => run_sched d s' r | None => run_sched d s r end
  end.
(* a fair scheduler: Z whenever it can, else A *)
Fixpoint run_fair (d : design) (fuel : nat) (s : st) : st :=
  match fuel with
  | O => s
  | S f => match step d s TZ with
           | Some s' => run_fair d f s'
           | None => match step d s TA with Some s' => run_fair d f s' | None => s end
           end
  end.

(* remaining work *)
Definition cost_notif (k : nat) : nat := 3 + 4 * k.
Definition cost_zop (o : zop) : nat := match o with ZConf k => 2 + cost_notif k | ZUpd n => 1 + 3 * n end.
Definition cost_zpc (d : design) (p : zpc) : nat := match p with ZIdle => 0 | ZConfSend k => 1 + cost_notif k | ZUpdSend _ => 2 end.
Definition cost_apc (p : apc) (applied : bool) : nat :=
  match p with
  | AIdle => 0
  | AHandle k => 2 + 4 * k
  | ACheck k => 1 + 4 * k
  | APropose k => 4 + 4 * k
  | AWait k => (if applied then 2 else 3) + 4 * k
  end.
Definition sum_notif (l : list nat) : nat := fold_right (fun k a => cost_notif k + a) 0 l.
Definition sum_todo (l : list zop) : nat := fold_right (fun o a => cost_zop o + a) 0 l.
Definition measure (d : design) (s : st) : nat :=
  sum_todo (z_todo s) + cost_zpc d (z_pc s) + cost_apc (a_pc s) (applied s) + sum_notif (nq s) + uq s.

(* ---- checkers ---- *)
Record ctl_case := { wc_backlog : list zop; wc_finished : bool }.
Definition ctl_case_model_ok (d : design) (c : ctl_case) : bool :=
  let s0 := init (wc_backlog c) in
  Bool.eqb (terminal (run_fair d (S (measure d s0)) s0)) (wc_finished c).
Definition ctl_case_oracle_ok (c : ctl_case) : bool := wc_finished c.
Fixpoint bad_idx {A} (f : A -> bool) (l : list A) (i : nat) : list nat :=
  match l with [] => [] | a :: t => if f a then bad_idx f t (S i) else i :: bad_idx f t (S i) end.
