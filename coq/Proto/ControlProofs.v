(* Proto/ControlProofs.v — C18: with the queued hand-off no interleaving of membership notifications, catalogue
   entries and allocator proposals wedges the two loops, and every backlog is applied in a bounded number of steps;
   the designs without it wedge (witness schedules). *)
From Verif Require Import Base.Prelude Proto.Control.

Local Arguments cost_notif : simpl never.
Local Arguments Nat.mul : simpl never.
Local Arguments sum_notif : simpl never.
Local Arguments sum_todo : simpl never.

Definition wf (s : st) : Prop :=
  match a_pc s with
  | AWait _ => (applied s = false /\ props s = 1) \/ (applied s = true /\ props s = 0)
  | _ => props s = 0
  end.
Lemma wf_init b : wf (init b).
Proof. reflexivity. Qed.

Lemma sum_notif_app l x : sum_notif (l ++ [x]) = sum_notif l + cost_notif x.
Proof. unfold sum_notif. induction l as [|y l IH]; cbn [fold_right app]; lia. Qed.
Lemma sum_notif_cons k r : sum_notif (k :: r) = cost_notif k + sum_notif r.
Proof. reflexivity. Qed.
Lemma sum_todo_cons o r : sum_todo (o :: r) = cost_zop o + sum_todo r.
Proof. reflexivity. Qed.

Lemma wf_step s t s' : wf s -> step design_safe s t = Some s' -> wf s'.
Proof.
  unfold wf. intros W H. destruct t; simpl in H.
  - unfold step_z in H. destruct (z_pc s) eqn:EZ.
    + destruct (z_todo s) as [|[k|[|n]] r] eqn:ET.
      * destruct (props s) as [|p] eqn:EP; [discriminate|]. inversion H; subst; simpl.
        destruct (a_pc s); try discriminate. destruct W as [(A & B)|(A & B)]; [|discriminate]. right. split; [auto|lia].
      * inversion H; subst; simpl; auto.
      * inversion H; subst; simpl; auto.
      * simpl in H. inversion H; subst; simpl; auto.
    + simpl in H. inversion H; subst; simpl; auto.
    + simpl in H. inversion H; subst; simpl; auto.
  - unfold step_a in H. destruct (a_pc s) eqn:EA.
    + destruct (nq s) as [|k r]; [destruct (uq s); [discriminate|]|]; inversion H; subst; simpl; auto.
    + simpl in H. destruct (z_pc s); simpl in H; inversion H; subst; simpl; auto.
    + destruct (z_holds_am s); [discriminate|]. inversion H; subst; simpl. destruct k; auto.
    + inversion H; subst; simpl. left. split; [reflexivity|lia].
    + destruct (applied s) eqn:EAp; [|discriminate]. inversion H; subst; simpl.
      destruct W as [(A & B)|(A & B)]; [congruence|auto].
Qed.

(* every step does exactly one unit of the remaining work *)
Lemma measure_step s t s' : wf s -> step design_safe s t = Some s' -> S (measure design_safe s') = measure design_safe s.
Proof.
  unfold wf, measure. intros W H. destruct t; simpl in H.
  - unfold step_z in H. destruct (z_pc s) eqn:EZ.
    + destruct (z_todo s) as [|[k|[|n]] r] eqn:ET.
      * destruct (props s) as [|p] eqn:EP; [discriminate|]. inversion H; subst; cbn [z_todo z_pc props applied a_pc nq uq cost_zpc cost_apc].
        destruct (a_pc s); try discriminate. destruct W as [(A & B)|(A & B)]; [|discriminate]. rewrite A. cbn [cost_apc]. lia.
      * inversion H; subst; cbn [z_todo z_pc props applied a_pc nq uq cost_zpc cost_apc]. rewrite sum_todo_cons. cbn [cost_zop]. unfold cost_notif. lia.
      * inversion H; subst; cbn [z_todo z_pc props applied a_pc nq uq cost_zpc cost_apc]. rewrite sum_todo_cons. cbn [cost_zop]. unfold cost_notif. lia.
      * simpl in H. inversion H; subst; cbn [z_todo z_pc props applied a_pc nq uq cost_zpc cost_apc]. rewrite !sum_todo_cons. cbn [cost_zop]. lia.
    + simpl in H. inversion H; subst; cbn [z_todo z_pc props applied a_pc nq uq cost_zpc cost_apc]. rewrite sum_notif_app. unfold cost_notif. lia.
    + simpl in H. inversion H; subst; cbn [z_todo z_pc props applied a_pc nq uq cost_zpc cost_apc]. lia.
  - unfold step_a in H. destruct (a_pc s) eqn:EA.
    + destruct (nq s) as [|k r] eqn:EN; [destruct (uq s) eqn:EU; [discriminate|]|]; inversion H; subst; cbn [z_todo z_pc props applied a_pc nq uq cost_zpc cost_apc];
        rewrite ?sum_notif_cons; unfold cost_notif; lia.
    + simpl in H. destruct (z_pc s); simpl in H; inversion H; subst; cbn [z_todo z_pc props applied a_pc nq uq cost_zpc cost_apc]; lia.
    + destruct (z_holds_am s); [discriminate|]. inversion H; subst; cbn [z_todo z_pc props applied a_pc nq uq cost_zpc cost_apc]. destruct k; cbn [cost_apc]; lia.
    + inversion H; subst; cbn [z_todo z_pc props applied a_pc nq uq cost_zpc cost_apc]. lia.
    + destruct (applied s) eqn:EAp; [|discriminate]. inversion H; subst; cbn [z_todo z_pc props applied a_pc nq uq cost_zpc cost_apc]. lia.
Qed.

(* some loop can always move unless everything has been applied *)
Lemma progress s : wf s -> terminal s = false -> step design_safe s TZ <> None \/ step design_safe s TA <> None.
Proof.
  unfold wf, terminal. intros W T. simpl. unfold step_z, step_a.
  destruct (z_pc s) eqn:EZ; simpl; try (left; discriminate).
  destruct (z_todo s) as [|[k|[|n]] r] eqn:ET; try (left; discriminate).
  destruct (props s) as [|p] eqn:EP; [|left; discriminate].
  right. destruct (a_pc s) eqn:EA.
  - destruct (nq s) as [|k r]; [|discriminate]. destruct (uq s); [discriminate T|discriminate].
  - unfold z_holds_pm. simpl. discriminate.
  - unfold z_holds_am. rewrite EZ. discriminate.
  - discriminate.
  - destruct W as [(A & B)|(A & B)]; [discriminate|]. rewrite A. discriminate.
Qed.

Lemma wf_run_sched sched : forall s, wf s -> wf (run_sched design_safe s sched).
Proof.
  induction sched as [|t r IH]; intros s W; simpl; auto.
  destruct (step design_safe s t) eqn:E; auto. apply IH. eapply wf_step; eauto.
Qed.

(* no schedule reaches a state in which both loops wait while work remains *)
Theorem no_wedge backlog sched : stuck design_safe (run_sched design_safe (init backlog) sched) = false.
Proof.
  pose proof (wf_run_sched sched (init backlog) (wf_init backlog)) as W.
  set (s := run_sched design_safe (init backlog) sched) in *. unfold stuck.
  destruct (terminal s) eqn:T; auto.
  destruct (progress s W T) as [H|H]; destruct (step design_safe s TZ) eqn:EZ; destruct (step design_safe s TA) eqn:EA; simpl; auto; exfalso; apply H; reflexivity.
Qed.

(* every run of enabled steps is shorter than the initial amount of work … *)
Fixpoint exec (d : design) (s : st) (sched : list tid) : option st :=
  match sched with [] => Some s | t :: r => match step d s t with Some s' => exec d s' r | None => None end end.
Theorem bounded_work sched : forall s s', wf s -> exec design_safe s sched = Some s' -> length sched + measure design_safe s' = measure design_safe s.
Proof.
  induction sched as [|t r IH]; intros s s' W H; simpl in *; [inversion H; auto|].
  destruct (step design_safe s t) as [s1|] eqn:E; [|discriminate].
  pose proof (measure_step s t s1 W E). rewrite <- (IH s1 s' (wf_step _ _ _ W E) H) in *. lia.
Qed.
(* … and a fair scheduler finishes the backlog *)
Theorem fair_run_finishes : forall fuel s, wf s -> measure design_safe s <= fuel -> terminal (run_fair design_safe fuel s) = true.
Proof.
  induction fuel as [|f IH]; intros s W M.
  - cbn [run_fair]. destruct (terminal s) eqn:T; auto. exfalso.
    destruct (progress s W T) as [H|H].
    + destruct (step design_safe s TZ) eqn:E; [|congruence]. pose proof (measure_step s TZ s0 W E). lia.
    + destruct (step design_safe s TA) eqn:E; [|congruence]. pose proof (measure_step s TA s0 W E). lia.
  - cbn [run_fair]. destruct (step design_safe s TZ) as [s1|] eqn:EZ.
    + apply IH; [eapply wf_step; eauto|]. pose proof (measure_step s TZ s1 W EZ). lia.
    + destruct (step design_safe s TA) as [s1|] eqn:EA.
      * apply IH; [eapply wf_step; eauto|]. pose proof (measure_step s TA s1 W EA). lia.
      * destruct (terminal s) eqn:T; auto. destruct (progress s W T); congruence.
Qed.
Corollary backlog_applied backlog : terminal (run_fair design_safe (measure design_safe (init backlog)) (init backlog)) = true.
Proof. apply fair_run_finishes; [apply wf_init|lia]. Qed.

(* ---- the designs without the queued hand-off wedge ---- *)
(* (1) watch sends while holding the lock the handler needs *)
Theorem lock_then_send_refuted : stuck design_old (run_sched design_old (init [ZConf 0; ZUpd 1]) [TZ; TZ; TZ; TA]) = true.
Proof. reflexivity. Qed.
(* (2) the handler keeps the lock while its proposal waits behind the entry that needs the lock *)
Theorem wait_holding_lock_refuted : stuck design_old (run_sched design_old (init [ZConf 1; ZUpd 1]) [TZ; TZ; TA; TA; TA; TA]) = true.
Proof. reflexivity. Qed.
(* (3) the eleventh notification while the loop waits for the zero group *)
Theorem notification_channel_refuted :
  stuck design_old (run_sched design_old (init (ZConf 1 :: repeat (ZConf 0) 11)) ([TZ; TZ; TA; TA; TA; TA] ++ repeat TZ 22)) = true.
Proof. reflexivity. Qed.
(* queues alone do not help while the handler keeps the lock that watch takes; unlocking alone does not help while the
   channels can refuse *)
Theorem queues_only_refuted :
  let d := {| d_upd_queue := true; d_notif_queue := true; d_watch_locks := true; d_handler_holds := true |} in
  stuck d (run_sched d (init [ZConf 1; ZUpd 1]) [TZ; TZ; TA; TA; TA; TA]) = true.
Proof. reflexivity. Qed.
Theorem unlocking_only_refuted :
  let d := {| d_upd_queue := false; d_notif_queue := false; d_watch_locks := false; d_handler_holds := false |} in
  stuck d (run_sched d (init [ZConf 1; ZUpd 1]) [TZ; TZ; TA; TA; TA; TA; TZ]) = true.
Proof. reflexivity. Qed.
(* the same backlogs are applied under the current design *)
Example same_backlogs_safe :
  terminal (run_fair design_safe 200 (init [ZConf 1; ZUpd 1])) = true /\
  terminal (run_fair design_safe 200 (init (ZConf 1 :: repeat (ZConf 0) 11))) = true.
Proof. split; reflexivity. Qed.
