(* Proto/FanIn.v — the fan-in of Dataset.Search / SearchPartitions (C09) as a labelled transition system:
   N workers each send exactly one message (a result list or an error) on a channel buffered for N messages; an
   optional closer closes both channels after all workers have sent; the collector performs N selects.
   Receive from a closed, empty channel yields the zero value (nil slice / nil error), as in Go.  Executable. *)
From Verif Require Import Base.Prelude Base.TopK.
Open Scope N_scope.

Definition ritem := (N * Z)%type.                       (* id, score *)
Inductive msg := MRes (r : list ritem) | MErr (e : N).
Inductive outcome := OOk (l : list ritem) | OOkNil | OErr (e : N) | OTimeout.

Record fan := {
  pending : list msg;          (* messages of workers that have not sent yet *)
  resbuf : list msg;           (* buffered on resultCh (only MRes) *)
  errbuf : list msg;           (* buffered on errorCh (only MErr) *)
  closed : bool;
  got : list (list ritem);     (* result lists received so far, in arrival order *)
  iter : nat;                  (* selects performed by the collector *)
  result : option outcome }.

Inductive lbl :=
| WorkerSend (j : nat)         (* the j-th pending worker sends *)
| CloserClose
| RecvRes | RecvErr | RecvClosedRes | RecvClosedErr
| Deadline
| Finish.

Fixpoint remove_nth {A} (j : nat) (l : list A) : list A :=
  match l, j with [], _ => [] | _ :: t, O => t | x :: t, S j' => x :: remove_nth j' t end.

Definition rscore (x : ritem) : Z := snd x.
Definition topk (k : nat) (lists : list (list ritem)) : list ritem := Base.TopK.topk rscore k lists.

(* [closes]: the source contains the closing goroutine; [n]: number of workers; [k] *)
Definition fan_step (closes : bool) (n k : nat) (s : fan) (l : lbl) : option fan :=
  match result s with
  | Some _ => None
  | None =>
      match l with
      | WorkerSend j =>
          match nth_error (pending s) j with
          | None => None
          | Some (MRes r) => Some {| pending := remove_nth j (pending s); resbuf := resbuf s ++ [MRes r]; errbuf := errbuf s;
                                     closed := closed s; got := got s; iter := iter s; result := None |}
          | Some (MErr e) => Some {| pending := remove_nth j (pending s); resbuf := resbuf s; errbuf := errbuf s ++ [MErr e];
                                     closed := closed s; got := got s; iter := iter s; result := None |}
          end
      | CloserClose =>
          if closes && negb (closed s) && match pending s with [] => true | _ => false end
          then Some {| pending := []; resbuf := resbuf s; errbuf := errbuf s; closed := true; got := got s; iter := iter s; result := None |}
          else None
      | RecvRes =>
          if (iter s <? n)%nat then
            match resbuf s with
            | MRes r :: t => Some {| pending := pending s; resbuf := t; errbuf := errbuf s; closed := closed s;
                                     got := got s ++ [r]; iter := S (iter s); result := None |}
            | _ => None
            end
          else None
      | RecvErr =>
          if (iter s <? n)%nat then
            match errbuf s with
            | MErr e :: t => Some {| pending := pending s; resbuf := resbuf s; errbuf := t; closed := closed s;
                                     got := got s; iter := S (iter s); result := Some (OErr e) |}
            | _ => None
            end
          else None
      | RecvClosedRes =>
          if (iter s <? n)%nat && closed s && match resbuf s with [] => true | _ => false end
          then Some {| pending := pending s; resbuf := []; errbuf := errbuf s; closed := true; got := got s; iter := S (iter s); result := None |}
          else None
      | RecvClosedErr =>
          if (iter s <? n)%nat && closed s && match errbuf s with [] => true | _ => false end
          then Some {| pending := pending s; resbuf := resbuf s; errbuf := []; closed := true; got := got s; iter := S (iter s);
                       result := Some OOkNil |}                               (* `return nil, err` with err == nil *)
          else None
      | Deadline =>
          if (iter s <? n)%nat
          then Some {| pending := pending s; resbuf := resbuf s; errbuf := errbuf s; closed := closed s; got := got s; iter := iter s;
                       result := Some OTimeout |}
          else None
      | Finish =>
          if Nat.eqb (iter s) n
          then Some {| pending := pending s; resbuf := resbuf s; errbuf := errbuf s; closed := closed s; got := got s; iter := iter s;
                       result := Some (OOk (topk k (got s))) |}
          else None
      end
  end.

Definition fan_init (msgs : list msg) : fan :=
  {| pending := msgs; resbuf := []; errbuf := []; closed := false; got := []; iter := O; result := None |}.

(* run a schedule; labels that are not enabled are skipped *)
Fixpoint fan_run (closes : bool) (n k : nat) (s : fan) (sched : list lbl) : fan :=
  match sched with
  | [] => s
  | l :: r => match fan_step closes n k s l with Some s' => fan_run closes n k s' r | None => fan_run closes n k s r end
  end.

(* all outcomes reachable without the Deadline transition (exhaustive search; fuel bounds the depth) *)
Definition all_labels (s : fan) : list lbl :=
  map WorkerSend (seq 0 (length (pending s))) ++ [CloserClose; RecvRes; RecvErr; RecvClosedRes; RecvClosedErr; Finish].
Fixpoint outcomes (fuel : nat) (closes : bool) (n k : nat) (s : fan) : list outcome :=
  match result s with
  | Some o => [o]
  | None =>
      match fuel with
      | O => []
      | S f => flat_map (fun l => match fan_step closes n k s l with Some s' => outcomes f closes n k s' | None => [] end) (all_labels s)
      end
  end.

(* getSearchQueryNodes: every partition is assigned to one of its replicas (chosen by a draw) *)
Fixpoint assign (parts : list (N * list N)) (draws : list nat) : list (N * N) :=   (* (partition, node) *)
  match parts with
  | [] => []
  | (p, nodes) :: t => (p, nth (hd O draws mod length nodes) nodes 0) :: assign t (tl draws)
  end.
Definition node_partitions (asg : list (N * N)) (node : N) : list N :=
  map fst (filter (fun pn => snd pn =? node) asg).
