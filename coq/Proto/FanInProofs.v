(* Proto/FanInProofs.v — C09: with the channels never closed, for every number of workers, every message
   assignment and every schedule, the collector returns success only after receiving the result of every worker, and
   then returns the top-k of all of them; it can never return the nil/nil answer; an error it returns is one a worker
   sent.  With the closing goroutine, both failures are reachable. *)
From Verif Require Import Base.Prelude Base.TopK Proto.FanIn.
Open Scope N_scope.

Definition is_res (m : msg) : Prop := match m with MRes _ => True | MErr _ => False end.
Definition is_err (m : msg) : Prop := match m with MErr _ => True | MRes _ => False end.

Definition done_ok (msgs : list msg) (k : nat) (s : fan) (o : outcome) : Prop :=
  match o with
  | OOk l => Permutation (map MRes (got s)) msgs /\ l = topk k (got s)
  | OOkNil => False
  | OErr e => In (MErr e) msgs
  | OTimeout => True
  end.

Record J (msgs : list msg) (k : nat) (s : fan) : Prop := {
  j_open : closed s = false;
  j_iter : result s = None -> iter s = length (got s);
  j_live : result s = None -> Permutation (map MRes (got s) ++ resbuf s ++ errbuf s ++ pending s) msgs;
  j_done : forall o, result s = Some o -> done_ok msgs k s o
}.

Lemma remove_nth_perm {A} (l : list A) : forall j x, nth_error l j = Some x -> Permutation l (x :: remove_nth j l).
Proof.
  induction l as [|a l IH]; intros [|j] x H; simpl in *; try discriminate.
  - inversion H; auto.
  - rewrite (IH j x H) at 1. apply perm_swap.
Qed.

Lemma J_init msgs k : J msgs k (fan_init msgs).
Proof. constructor; simpl; auto. discriminate. Qed.

Lemma J_step msgs k s l s' : J msgs k s -> fan_step false (length msgs) k s l = Some s' -> J msgs k s'.
Proof.
  intros [O I L D] H. unfold fan_step in H. destruct (result s) eqn:ER; [discriminate|]. specialize (L eq_refl). specialize (I eq_refl).
  destruct l; simpl in H.
  - (* WorkerSend *)
    destruct (nth_error (pending s) j) as [[r|e]|] eqn:EN; [| |discriminate]; inversion H; subst; clear H;
      constructor; simpl; auto; try discriminate; intros _;
      rewrite <- L; pose proof (remove_nth_perm _ _ _ EN) as P.
    + apply Permutation_app_head. rewrite <- app_assoc. apply Permutation_app_head. simpl.
      apply Permutation_trans with (errbuf s ++ MRes r :: remove_nth j (pending s)); [apply Permutation_middle|].
      apply Permutation_app_head. apply Permutation_sym. exact P.
    + apply Permutation_app_head. apply Permutation_app_head. rewrite <- app_assoc. apply Permutation_app_head. simpl.
      apply Permutation_sym. exact P.
  - discriminate.
  - (* RecvRes *)
    destruct (iter s <? length msgs)%nat; [|discriminate]. destruct (resbuf s) as [|[r|e] t] eqn:EB; try discriminate.
    inversion H; subst; clear H. constructor; simpl; auto; try discriminate.
    + intros _. rewrite app_length. simpl. lia.
    + intros _. rewrite <- L. rewrite map_app. simpl. rewrite <- !app_assoc. simpl. auto.
  - (* RecvErr *)
    destruct (iter s <? length msgs)%nat; [|discriminate]. destruct (errbuf s) as [|[r|e] t] eqn:EB; try discriminate.
    inversion H; subst; clear H. constructor; simpl; auto; try discriminate.
    intros o Ho. inversion Ho; subst. simpl. eapply Permutation_in; [exact L|].
    apply in_or_app. right. apply in_or_app. right. apply in_or_app. left. left. auto.
  - rewrite O in H. rewrite Bool.andb_false_r in H. discriminate.
  - rewrite O in H. rewrite Bool.andb_false_r in H. discriminate.
  - (* Deadline *)
    destruct (iter s <? length msgs)%nat; [|discriminate]. inversion H; subst; clear H.
    constructor; simpl; auto; try discriminate. intros o Ho. inversion Ho. simpl. auto.
  - (* Finish *)
    destruct (Nat.eqb_spec (iter s) (length msgs)) as [E|E]; [|discriminate]. inversion H; subst; clear H.
    constructor; simpl; auto; try discriminate. intros o Ho. inversion Ho; subst. simpl. split; auto.
    pose proof (Permutation_length L) as PL. rewrite !app_length, map_length in PL.
    assert (Z : resbuf s = [] /\ errbuf s = [] /\ pending s = []).
    { destruct (resbuf s), (errbuf s), (pending s); simpl in *; auto; lia. }
    destruct Z as (Z1 & Z2 & Z3). rewrite Z1, Z2, Z3, !app_nil_r in L. auto.
Qed.

Theorem J_run msgs k sched : forall s, J msgs k s -> J msgs k (fan_run false (length msgs) k s sched).
Proof.
  induction sched as [|l r IH]; intros s H; simpl; auto.
  destruct (fan_step false (length msgs) k s l) eqn:E; auto. apply IH. eapply J_step; eauto.
Qed.

(* C09 fan-in: every N, every assignment of results/errors to workers, every schedule *)
Theorem fanin_safe msgs k sched :
  let s := fan_run false (length msgs) k (fan_init msgs) sched in
  match result s with
  | Some (OOk l) => (forall m, In m msgs -> is_res m) /\ Permutation (map MRes (got s)) msgs /\ l = topk k (got s)
  | Some OOkNil => False
  | Some (OErr e) => In (MErr e) msgs
  | _ => True
  end.
Proof.
  intros s. pose proof (J_run msgs k sched _ (J_init msgs k)) as [O I L D]. fold s in O, I, L, D.
  destruct (result s) as [[l| |e|]|] eqn:ER; auto; try (apply (D _ eq_refl)).
  destruct (D _ eq_refl) as (P & E). split; [|split; auto].
  intros m Hm. eapply Permutation_in in Hm; [|apply Permutation_sym; exact P]. apply in_map_iff in Hm.
  destruct Hm as (r & <- & _). simpl. auto.
Qed.

(* the same system WITH the closing goroutine: both failures are reachable *)
Definition r1 : list ritem := [(7, 3%Z)].
Theorem closed_select_refuted :
  (* every worker succeeded, yet the caller gets the nil/nil answer *)
  result (fan_run true 1 5 (fan_init [MRes r1]) [WorkerSend 0; CloserClose; RecvClosedErr]) = Some OOkNil /\
  (* one worker failed, yet the caller gets a partial list with success *)
  result (fan_run true 2 5 (fan_init [MErr 9; MRes r1]) [WorkerSend 0; WorkerSend 0; CloserClose; RecvRes; RecvClosedRes; Finish]) = Some (OOk r1) /\
  (* without the closer the same schedules give the right answers *)
  result (fan_run false 1 5 (fan_init [MRes r1]) [WorkerSend 0; CloserClose; RecvClosedErr; RecvRes; Finish]) = Some (OOk r1) /\
  result (fan_run false 2 5 (fan_init [MErr 9; MRes r1]) [WorkerSend 0; WorkerSend 0; CloserClose; RecvRes; RecvClosedRes; RecvErr; Finish]) = Some (OErr 9).
Proof. repeat split; vm_compute; reflexivity. Qed.

(* every partition is searched on exactly one of its replicas *)
Lemma pick_in (nodes : list N) d : nodes <> [] -> In (nth (d mod length nodes) nodes 0) nodes.
Proof. intros NE. apply nth_In. apply Nat.mod_upper_bound. destruct nodes; [congruence|discriminate]. Qed.

Theorem assign_exact parts : forall draws, map fst (assign parts draws) = map fst parts /\
  Forall2 (fun p a => snd p <> [] -> In (snd a) (snd p)) parts (assign parts draws).
Proof.
  induction parts as [|[p nodes] parts IH]; intros draws; simpl; [split; constructor|].
  destruct (IH (tl draws)) as (A & B). split; [f_equal; auto|]. constructor; auto. simpl. apply pick_in.
Qed.
