(* Proto/FirstInsert.v — C13: any number of writers inserting into an empty index at once (index/hnsw.go Insert, the
   branch taken when no entry point is set).  Each writer registers its vertex in the id map (refused if the id is
   taken) and offers it as entry point by compare-and-swap from nil.  [store_first = true] is the source's order:
   register, then swap; false: swap, then register.  Executable model and proofs. *)
From Verif Require Import Base.Prelude.

Inductive fpc := FStart | FStored | FSwapped | FDone.
(* a writer: its vertex (a number), the id it inserts, where it is, whether its Insert reported success *)
Record fthread := { ft_v : nat; ft_id : nat; ft_pc : fpc; ft_ok : bool }.
Record fstate := { f_entry : option nat; f_map : list (nat * nat) (* id -> vertex *); f_thr : list fthread }.

Definition taken (id : nat) (m : list (nat * nat)) : bool := existsb (fun p => Nat.eqb (fst p) id) m.
Definition registered (v : nat) (m : list (nat * nat)) : bool := existsb (fun p => Nat.eqb (snd p) v) m.
Definition set_thr (s : fstate) (i : nat) (t : fthread) (e : option nat) (m : list (nat * nat)) : fstate :=
  {| f_entry := e; f_map := m; f_thr := upd (f_thr s) i t |}.

Definition fstep (store_first : bool) (s : fstate) (i : nat) : fstate :=
  match nth_error (f_thr s) i with
  | None => s
  | Some t =>
      let at_pc pc ok := {| ft_v := ft_v t; ft_id := ft_id t; ft_pc := pc; ft_ok := ok |} in
      let store_then (next : fpc) :=
        if taken (ft_id t) (f_map s) then set_thr s i (at_pc FDone false) (f_entry s) (f_map s)        (* ItemAlreadyExists *)
        else set_thr s i (at_pc next true) (f_entry s) ((ft_id t, ft_v t) :: f_map s) in
      let swap_then (next : fpc) :=
        match f_entry s with
        | None => set_thr s i (at_pc next (ft_ok t)) (Some (ft_v t)) (f_map s)
        | Some _ => set_thr s i (at_pc next (ft_ok t)) (f_entry s) (f_map s)      (* lost the swap: goes on as any later insert *)
        end in
      match ft_pc t with
      | FStart => if store_first then store_then FStored else swap_then FSwapped
      | FStored => swap_then FDone
      | FSwapped => store_then FDone
      | FDone => s
      end
  end.
Definition frun (store_first : bool) (s : fstate) (sched : list nat) : fstate := fold_left (fstep store_first) sched s.
Definition finit (ws : list (nat * nat)) : fstate :=
  {| f_entry := None; f_map := []; f_thr := map (fun w => {| ft_v := fst w; ft_id := snd w; ft_pc := FStart; ft_ok := false |}) ws |}.

(* the entry point is a registered vertex, or belongs to a writer that is between its two steps and has registered it
   (store first) *)
Definition FI (s : fstate) : Prop :=
  forall v, f_entry s = Some v -> registered v (f_map s) = true.
Definition FT (s : fstate) : Prop :=
  forall t, In t (f_thr s) -> ft_pc t = FStored -> registered (ft_v t) (f_map s) = true.

Lemma registered_cons v p m : registered v m = true -> registered v (p :: m) = true.
Proof. unfold registered. simpl. intros ->. apply Bool.orb_true_r. Qed.
Lemma in_upd_thr (l : list fthread) i x y : In y (upd l i x) -> y = x \/ In y l.
Proof.
  revert i. induction l as [|h t IH]; intros i H; simpl in *; [destruct i; destruct H|].
  destruct i; simpl in H; destruct H as [H|H]; auto. destruct (IH _ H); auto.
Qed.

Lemma fstep_inv s i : FI s /\ FT s -> FI (fstep true s i) /\ FT (fstep true s i).
Proof.
  intros [I T]. unfold fstep. destruct (nth_error (f_thr s) i) as [t|] eqn:N; [|auto].
  assert (Tin : In t (f_thr s)) by (eapply nth_error_In; eauto).
  destruct (ft_pc t) eqn:PC; [| | |auto].
  - (* register *)
    destruct (taken (ft_id t) (f_map s)).
    + split; [exact I|]. intros t' H P. cbn [set_thr f_thr f_map] in *. apply in_upd_thr in H. destruct H as [->|H]; [discriminate|auto].
    + split.
      * intros v E. cbn [set_thr f_entry f_map] in *. apply registered_cons. auto.
      * intros t' H P. cbn [set_thr f_thr f_map] in *. apply in_upd_thr in H. destruct H as [->|H].
        -- unfold registered. simpl. rewrite Nat.eqb_refl. reflexivity.
        -- apply registered_cons. auto.
  - (* swap: the vertex offered has been registered *)
    pose proof (T t Tin PC) as R. destruct (f_entry s) as [e|] eqn:E.
    + split; [intros v Ev; cbn [set_thr f_entry f_map] in *; apply I; rewrite E; exact Ev|].
      intros t' H P. cbn [set_thr f_thr f_map] in *. apply in_upd_thr in H. destruct H as [->|H]; [discriminate|auto].
    + split; [intros v Ev; cbn [set_thr f_entry f_map] in *; injection Ev as <-; exact R|].
      intros t' H P. cbn [set_thr f_thr f_map] in *. apply in_upd_thr in H. destruct H as [->|H]; [discriminate|auto].
  - (* FSwapped does not occur with store_first; the step keeps the invariant anyway when the id is taken *)
    destruct (taken (ft_id t) (f_map s)).
    + split; [exact I|]. intros t' H P. cbn [set_thr f_thr f_map] in *. apply in_upd_thr in H. destruct H as [->|H]; [discriminate|auto].
    + split.
      * intros v E. cbn [set_thr f_entry f_map] in *. apply registered_cons. auto.
      * intros t' H P. cbn [set_thr f_thr f_map] in *. apply in_upd_thr in H. destruct H as [->|H]; [discriminate|apply registered_cons; auto].
Qed.

(* every number of writers, any ids (equal or not), every interleaving: the entry point is always a vertex registered
   in the id map - in particular at quiescence the index is one a sequential history could have left *)
Theorem first_insert_entry_registered ws sched v :
  f_entry (frun true (finit ws) sched) = Some v -> registered v (f_map (frun true (finit ws) sched)) = true.
Proof.
  assert (G : forall sched s, FI s /\ FT s -> FI (frun true s sched) /\ FT (frun true s sched)).
  { induction sched0 as [|i r IH]; intros s H; [exact H|]. simpl. apply IH. apply fstep_inv. exact H. }
  destruct (G sched (finit ws)) as [I _]; [|exact (I v)].
  split; [intros x E; discriminate|]. intros t H P. unfold finit in H. cbn [f_thr] in H. apply in_map_iff in H.
  destruct H as (w & <- & _). discriminate.
Qed.

(* swapping first: two writers of the same id; the loser of the registration keeps the entry point *)
Theorem swap_first_refuted :
  let s := frun false (finit [(10, 5); (11, 5)]) [0; 1; 1; 0] in
  f_entry s = Some 10 /\ registered 10 (f_map s) = false /\ f_map s = [(5, 11)] /\
  map ft_ok (f_thr s) = [false; true] /\ map ft_pc (f_thr s) = [FDone; FDone].
Proof. vm_compute. repeat split. Qed.
