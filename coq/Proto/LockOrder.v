(* Proto/LockOrder.v — nested locking under a global lock order (cluster/conn.go: the membership book takes the address
   lock, then the connection-cache lock, then the subscriber-list lock, never the other way round).  Goroutines run
   programs of lock-free work, acquisitions and releases; an acquisition is allowed by the discipline only for a lock
   ranked above every lock the goroutine already holds (fact conn_lock_order_acyclic: the "held -> acquired" relation
   read off the source has no cycle, so such a ranking exists).  Read/write locks; [wpref]: a reader does not overtake a
   writer that is waiting for the same lock (sync.RWMutex).  Executable; no proofs. *)
From Verif Require Import Base.Prelude Proto.Locks.

Inductive act := Acq (l : nat) (m : lmode) | Rel (l : nat) | Wk.
Record othread := { oprog : list act; oheld : list (nat * lmode) }.
Definition osys := list othread.

Definition oholds (l : nat) (t : othread) : bool := existsb (fun h => Nat.eqb (fst h) l) (oheld t).
Definition oholds_w (l : nat) (t : othread) : bool :=
  existsb (fun h => Nat.eqb (fst h) l && match snd h with MW => true | MR => false end) (oheld t).
Definition owants_w (l : nat) (t : othread) : bool := match oprog t with Acq l' MW :: _ => Nat.eqb l' l | _ => false end.
Definition ocan_w (ts : osys) (l : nat) : bool := negb (existsb (oholds l) ts).
Definition ocan_r (wpref : bool) (ts : osys) (l : nat) : bool :=
  negb (existsb (oholds_w l) ts) && negb (wpref && existsb (owants_w l) ts).

Definition ostep1 (wpref : bool) (ts : osys) (t : othread) : option othread :=
  match oprog t with
  | [] => None
  | Wk :: p => Some {| oprog := p; oheld := oheld t |}
  | Rel l :: p => match oheld t with
                  | (l', _) :: r => if Nat.eqb l' l then Some {| oprog := p; oheld := r |} else None
                  | [] => None
                  end
  | Acq l MW :: p => if ocan_w ts l then Some {| oprog := p; oheld := (l, MW) :: oheld t |} else None
  | Acq l MR :: p => if ocan_r wpref ts l then Some {| oprog := p; oheld := (l, MR) :: oheld t |} else None
  end.
Definition ostep (wpref : bool) (ts : osys) (i : nat) : option osys :=
  match nth_error ts i with
  | Some t => match ostep1 wpref ts t with Some t' => Some (upd ts i t') | None => None end
  | None => None
  end.
Fixpoint orun (wpref : bool) (ts : osys) (sched : list nat) : option osys :=
  match sched with [] => Some ts | i :: r => match ostep wpref ts i with Some ts' => orun wpref ts' r | None => None end end.

(* the discipline, as a static check of a program against the locks held when it starts: every acquisition is ranked
   above everything held, releases are last-in-first-out, nothing is held at the end *)
Fixpoint okprog (held : list nat) (p : list act) : Prop :=
  match p with
  | [] => held = []
  | Wk :: r => okprog held r
  | Acq l _ :: r => (forall h, In h held -> h < l) /\ okprog (l :: held) r
  | Rel l :: r => match held with h :: hs => h = l /\ okprog hs r | [] => False end
  end.
Definition owf (t : othread) : Prop := okprog (map fst (oheld t)) (oprog t).
Definition ofinished (t : othread) : bool := match oprog t with [] => true | _ => false end.
Definition ostart (progs : list (list act)) : osys := map (fun p => {| oprog := p; oheld := [] |}) progs.
