(* Proto/LockOrderProofs.v — C18: nested locks taken in rank order cannot deadlock.  For any number of goroutines, any
   programs that respect the discipline, any locks and modes, with or without writer preference, in every reachable
   state: unless every goroutine has finished, some goroutine can take a step.  (The goroutine whose wanted lock has
   the highest rank can always proceed: whoever holds that lock would have to be waiting for a still higher one.) *)
From Verif Require Import Base.Prelude Proto.Locks Proto.LocksProofs Proto.LockOrder.

Definition owant (t : othread) : option nat := match oprog t with Acq l _ :: _ => Some l | _ => None end.

Lemma ostep1_wf wpref ts t t' : owf t -> ostep1 wpref ts t = Some t' -> owf t'.
Proof.
  unfold owf, ostep1. destruct (oprog t) as [|[l m|l|] p] eqn:EP; try discriminate.
  - destruct m.
    + destruct (ocan_r wpref ts l); [|discriminate]. intros (_ & W) H; inversion H; subst. exact W.
    + destruct (ocan_w ts l); [|discriminate]. intros (_ & W) H; inversion H; subst. exact W.
  - destruct (oheld t) as [|[l' m'] r]; [discriminate|]. destruct (Nat.eqb l' l); [|discriminate].
    cbn [map fst okprog]. intros (_ & W) H; inversion H; subst. exact W.
  - intros W H; inversion H; subst. exact W.
Qed.
Lemma ostep_wf wpref ts i ts' : Forall owf ts -> ostep wpref ts i = Some ts' -> Forall owf ts'.
Proof.
  intros W. unfold ostep. destruct (nth_error ts i) as [t|] eqn:Hi; [|discriminate].
  destruct (ostep1 wpref ts t) as [t'|] eqn:E; [|discriminate]. intros H; inversion H; subst.
  apply Forall_upd; auto. eapply ostep1_wf; eauto. apply nth_error_In in Hi. rewrite Forall_forall in W. auto.
Qed.
Lemma orun_wf wpref sched : forall ts ts', Forall owf ts -> orun wpref ts sched = Some ts' -> Forall owf ts'.
Proof.
  induction sched as [|i r IH]; intros ts ts' W R; simpl in R; [inversion R; subst; auto|].
  destruct (ostep wpref ts i) as [ts1|] eqn:E; [|discriminate]. eapply IH; [eapply ostep_wf; eauto|exact R].
Qed.
Lemma ostart_wf progs : Forall (fun p => okprog [] p) progs -> Forall owf (ostart progs).
Proof.
  intros H. unfold ostart. apply Forall_forall. intros t Ht. apply in_map_iff in Ht. destruct Ht as (p & <- & Hp).
  rewrite Forall_forall in H. exact (H p Hp).
Qed.

(* a goroutine that cannot move and has not finished is waiting for a lock *)
Lemma blocked_wants wpref ts t : owf t -> ostep1 wpref ts t = None -> ofinished t = false -> exists l, owant t = Some l.
Proof.
  unfold owf, ostep1, ofinished, owant. destruct (oprog t) as [|[l m|l|] p]; try discriminate; eauto.
  destruct (oheld t) as [|[l' m'] r]; cbn [map fst okprog]; [tauto|]. intros (E & _). subst. rewrite Nat.eqb_refl. discriminate.
Qed.
(* whoever holds a lock has not finished, and what it wants next is ranked above that lock *)
Lemma holder_wants_higher wpref ts u l : owf u -> oholds l u = true -> ostep1 wpref ts u = None ->
  exists l', owant u = Some l' /\ l < l'.
Proof.
  intros W H B. unfold oholds in H. apply existsb_exists in H. destruct H as ([h hm] & Hin & E). apply Nat.eqb_eq in E. simpl in E. subst h.
  assert (NF : ofinished u = false).
  { unfold ofinished. unfold owf in W. destruct (oprog u); auto. simpl in W. destruct (oheld u); [destruct Hin|discriminate]. }
  destruct (blocked_wants wpref ts u W B NF) as (l' & Hl'). exists l'. split; auto.
  unfold owant in Hl'. unfold owf in W. destruct (oprog u) as [|[l0 m0|l0|] p]; try discriminate. inversion Hl'; subst.
  destruct W as (W & _). apply W. apply in_map_iff. exists (l, hm). auto.
Qed.

(* the highest wanted lock among goroutines that all want one *)
Lemma max_want (ts : osys) : forall t0 l0, In t0 ts -> owant t0 = Some l0 ->
  exists t l, In t ts /\ owant t = Some l /\ forall u lu, In u ts -> owant u = Some lu -> lu <= l.
Proof.
  induction ts as [|a ts IH]; intros t0 l0 Hin Hw; [destruct Hin|].
  assert (REST : (exists t1 l1, In t1 ts /\ owant t1 = Some l1) \/ (forall u lu, In u ts -> owant u = Some lu -> False)).
  { clear. induction ts as [|b ts IH]; [right; intros u lu []|]. destruct (owant b) as [lb|] eqn:E; [left; exists b, lb; split; [left|]; auto|].
    destruct IH as [(t1 & l1 & H1 & H2)|N]; [left; exists t1, l1; split; [right|]; auto|right].
    intros u lu [<-|Hu] Hlu; [congruence|eauto]. }
  destruct REST as [(t1 & l1 & H1 & H2)|N].
  - destruct (IH t1 l1 H1 H2) as (t & l & Ht & Hl & M).
    destruct (owant a) as [la|] eqn:Ea.
    + destruct (Nat.le_gt_cases la l) as [Hle|Hgt].
      * exists t, l. split; [right; auto|split; auto]. intros u lu [<-|Hu] Hlu; [rewrite Ea in Hlu; inversion Hlu; subst; auto|eauto].
      * exists a, la. split; [left; auto|split; auto]. intros u lu [<-|Hu] Hlu; [rewrite Ea in Hlu; inversion Hlu; subst; auto|].
        specialize (M u lu Hu Hlu). lia.
    + exists t, l. split; [right; auto|split; auto]. intros u lu [<-|Hu] Hlu; [congruence|eauto].
  - destruct Hin as [<-|Hin]; [|exfalso; eauto]. exists a, l0. split; [left; auto|split; auto].
    intros u lu [<-|Hu] Hlu; [rewrite Hw in Hlu; inversion Hlu; subst; auto|exfalso; eauto].
Qed.

Theorem ordered_progress wpref ts : Forall owf ts -> existsb (fun t => negb (ofinished t)) ts = true -> exists i, ostep wpref ts i <> None.
Proof.
  intros W U. rewrite Forall_forall in W.
  (* either some goroutine can move, or all of them are stuck *)
  destruct (existsb (fun t => match ostep1 wpref ts t with Some _ => true | None => false end) ts) eqn:EX.
  { apply existsb_exists in EX. destruct EX as (t & Ht & E). destruct (ostep1 wpref ts t) as [t'|] eqn:E1; [|discriminate].
    destruct (In_nth_error _ _ Ht) as (i & Hi). exists i. unfold ostep. rewrite Hi, E1. discriminate. }
  exfalso. rewrite existsb_false in EX.
  assert (STUCK : forall t, In t ts -> ostep1 wpref ts t = None) by (intros t Ht; specialize (EX t Ht); destruct (ostep1 wpref ts t); [discriminate|auto]).
  apply existsb_exists in U. destruct U as (u0 & Hu0 & NF0). apply negb_true_iff in NF0.
  destruct (blocked_wants wpref ts u0 (W u0 Hu0) (STUCK u0 Hu0) NF0) as (l0 & Hl0).
  destruct (max_want ts u0 l0 Hu0 Hl0) as (t & m & Ht & Hm & MAX).
  (* nobody holds m: a holder would want something above m *)
  assert (FREE : existsb (oholds m) ts = false).
  { apply existsb_false. intros u Hu. destruct (oholds m u) eqn:E; auto.
    destruct (holder_wants_higher wpref ts u m (W u Hu) E (STUCK u Hu)) as (l' & Hl' & Lt). specialize (MAX u l' Hu Hl'). lia. }
  assert (FREEW : existsb (oholds_w m) ts = false).
  { apply existsb_false. intros u Hu. rewrite existsb_false in FREE. specialize (FREE u Hu). unfold oholds_w. unfold oholds in FREE.
    apply existsb_false. intros h Hh. rewrite existsb_false in FREE. rewrite (FREE h Hh). reflexivity. }
  pose proof (STUCK t Ht) as B. unfold ostep1 in B. unfold owant in Hm.
  destruct (oprog t) as [|[l md|l|] p] eqn:EP; try discriminate. inversion Hm; subst l.
  destruct md.
  - (* a reader: blocked only by a writer waiting for m, who is stuck although m is free *)
    unfold ocan_r in B. rewrite FREEW in B. cbn [negb andb] in B. destruct wpref; cbn [andb negb] in B; [|discriminate].
    destruct (existsb (owants_w m) ts) eqn:EW; [|discriminate]. apply existsb_exists in EW. destruct EW as (v & Hv & Wv).
    pose proof (STUCK v Hv) as Bv. unfold ostep1 in Bv. unfold owants_w in Wv. destruct (oprog v) as [|[lv [|]|lv|] pv]; try discriminate.
    apply Nat.eqb_eq in Wv. subst lv. unfold ocan_w in Bv. rewrite FREE in Bv. discriminate.
  - unfold ocan_w in B. rewrite FREE in B. discriminate.
Qed.

Theorem ordered_locks_live wpref progs sched ts : Forall (fun p => okprog [] p) progs -> orun wpref (ostart progs) sched = Some ts ->
  existsb (fun t => negb (ofinished t)) ts = true -> exists i, ostep wpref ts i <> None.
Proof. intros OK R. apply ordered_progress. eapply orun_wf; [apply ostart_wf; exact OK|exact R]. Qed.

(* without the discipline: two goroutines taking two locks in opposite orders can both be stuck for ever *)
Theorem opposite_orders_deadlock :
  let progs := [[Acq 0 MW; Acq 1 MW; Rel 1; Rel 0]; [Acq 1 MW; Acq 0 MR; Rel 0; Rel 1]] in
  exists ts, orun true (ostart progs) [0; 1] = Some ts /\ ostep true ts 0 = None /\ ostep true ts 1 = None /\ forallb ofinished ts = false.
Proof. eexists. split; [reflexivity|]. split; [reflexivity|]. split; reflexivity. Qed.
