(* Proto/Locks.v — the lock discipline of the index (index/hnsw.go, index/hnsw_vertex.go): shard locks around the id
   maps, one read/write lock per vertex and level around its edge map.  Every critical section is a finite piece of
   code that acquires no further lock (fact index_locks_not_nested), so a goroutine is a sequence of lock-free work
   and non-nested critical sections.  The lock state is the set of holders (derived from the goroutines' statuses);
   [wpref] selects sync.RWMutex's writer preference (a waiting writer blocks new readers).  Executable; no proofs. *)
From Verif Require Import Base.Prelude.

Inductive lmode := MR | MW.
Inductive item := Crit (l : nat) (m : lmode) (body : nat) | Work (n : nat).
Inductive status := Out | Wait (l : nat) (body : nat) | Ins (l : nat) (m : lmode) (k : nat).
Record thread := { prog : list item; st : status }.
Definition sys := list thread.

Definition holds (l : nat) (t : thread) : bool := match st t with Ins l' _ _ => Nat.eqb l' l | _ => false end.
Definition holds_w (l : nat) (t : thread) : bool := match st t with Ins l' MW _ => Nat.eqb l' l | _ => false end.
Definition waits (l : nat) (t : thread) : bool := match st t with Wait l' _ => Nat.eqb l' l | _ => false end.
Definition can_w (ts : sys) (l : nat) : bool := negb (existsb (holds l) ts).
Definition can_r (wpref : bool) (ts : sys) (l : nat) : bool :=
  negb (existsb (holds_w l) ts) && negb (wpref && existsb (waits l) ts).

(* one step of goroutine i; None = it cannot move now (blocked on a lock, or finished) *)
Definition tstep (wpref : bool) (ts : sys) (t : thread) : option thread :=
  match st t with
  | Ins l m (S k) => Some {| prog := prog t; st := Ins l m k |}
  | Ins l m O => Some {| prog := tl (prog t); st := Out |}
  | Wait l b => if can_w ts l then Some {| prog := prog t; st := Ins l MW b |} else None
  | Out =>
      match prog t with
      | [] => None
      | Work O :: p => Some {| prog := p; st := Out |}
      | Work (S n) :: p => Some {| prog := Work n :: p; st := Out |}
      | Crit l MW b :: p => if can_w ts l then Some {| prog := prog t; st := Ins l MW b |}
                            else if wpref then Some {| prog := prog t; st := Wait l b |} else None
      | Crit l MR b :: p => if can_r wpref ts l then Some {| prog := prog t; st := Ins l MR b |} else None
      end
  end.
Definition step (wpref : bool) (ts : sys) (i : nat) : option sys :=
  match nth_error ts i with
  | Some t => match tstep wpref ts t with Some t' => Some (upd ts i t') | None => None end
  | None => None
  end.
Fixpoint run (wpref : bool) (ts : sys) (sched : list nat) : option sys :=
  match sched with [] => Some ts | i :: r => match step wpref ts i with Some ts' => run wpref ts' r | None => None end end.

Definition finished (t : thread) : bool := match st t, prog t with Out, [] => true | _, _ => false end.
Definition start (progs : list (list item)) : sys := map (fun p => {| prog := p; st := Out |}) progs.

(* work left: strictly decreases with every step *)
Definition icost (x : item) : nat := match x with Crit _ _ b => b + 3 | Work n => n + 1 end.
Definition pcost (p : list item) : nat := fold_right (fun x a => icost x + a) 0 p.
Definition tcost (t : thread) : nat :=
  match st t with
  | Out => pcost (prog t)
  | Wait _ _ => pcost (prog t) - 1
  | Ins _ _ k => pcost (tl (prog t)) + k + 1
  end.
Definition cost (ts : sys) : nat := fold_right (fun t a => tcost t + a) 0 ts.
(* a goroutine waiting for or inside a critical section has that section at the head of its program *)
Definition twf (t : thread) : Prop :=
  match st t with
  | Out => True
  | Wait l b => exists p, prog t = Crit l MW b :: p
  | Ins l m k => exists b p, prog t = Crit l m b :: p /\ k <= b
  end.
