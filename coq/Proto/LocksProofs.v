(* Proto/LocksProofs.v — C13: the lock discipline cannot deadlock, excludes writers, and every schedule is finite.
   For any number of goroutines, any programs of lock-free work and non-nested critical sections, any locks, with or
   without writer preference, in every state: (1) a lock held for writing has exactly one holder; (2) unless every
   goroutine has finished, some goroutine can take a step; (3) every step uses up work, so a schedule has at most
   [cost] steps — together: whatever the scheduler does, all goroutines finish. *)
From Verif Require Import Base.Prelude Proto.Locks.

Definition isIns (t : thread) : bool := match st t with Ins _ _ _ => true | _ => false end.
Definition isWait (t : thread) : bool := match st t with Wait _ _ => true | _ => false end.

Lemma existsb_false {A} (f : A -> bool) l : existsb f l = false <-> forall x, In x l -> f x = false.
Proof.
  split.
  - intros H x Hx. destruct (f x) eqn:E; auto. assert (existsb f l = true) by (apply existsb_exists; eauto). congruence.
  - intros H. destruct (existsb f l) eqn:E; auto. apply existsb_exists in E. destruct E as (x & Hx & Fx). rewrite (H x Hx) in Fx. discriminate.
Qed.

Lemma step_of_in wpref ts t t' : In t ts -> tstep wpref ts t = Some t' -> exists i, step wpref ts i <> None.
Proof.
  intros Hin E. destruct (In_nth_error _ _ Hin) as (i & Hi). exists i. unfold step. rewrite Hi, E. discriminate.
Qed.

(* (2) progress *)
Theorem progress wpref ts : existsb (fun t => negb (finished t)) ts = true -> exists i, step wpref ts i <> None.
Proof.
  intros U. apply existsb_exists in U. destruct U as (u & Hu & Fu).
  destruct (existsb isIns ts) eqn:EI.
  { apply existsb_exists in EI. destruct EI as (t & Ht & It). unfold isIns in It.
    destruct (st t) as [| |l m k] eqn:ES; try discriminate.
    destruct k as [|k]; eapply (step_of_in wpref ts t); eauto; unfold tstep; rewrite ES; reflexivity. }
  assert (NOH : forall l, existsb (holds l) ts = false /\ existsb (holds_w l) ts = false).
  { intros l. rewrite existsb_false in EI. split; apply existsb_false; intros x Hx; specialize (EI x Hx); unfold isIns in EI;
      unfold holds, holds_w; destruct (st x) as [| |? [|] ?]; auto; discriminate. }
  destruct (existsb isWait ts) eqn:EW.
  { apply existsb_exists in EW. destruct EW as (t & Ht & Wt). unfold isWait in Wt.
    destruct (st t) as [|l b|] eqn:ES; try discriminate.
    eapply (step_of_in wpref ts t); eauto. unfold tstep. rewrite ES. unfold can_w. rewrite (proj1 (NOH l)). reflexivity. }
  assert (NOW : forall l, existsb (waits l) ts = false).
  { intros l. rewrite existsb_false in EW. apply existsb_false. intros x Hx. specialize (EW x Hx). unfold isWait in EW.
    unfold waits. destruct (st x); auto; discriminate. }
  assert (OU : st u = Out).
  { rewrite existsb_false in EI, EW. specialize (EI u Hu). specialize (EW u Hu). unfold isIns in EI. unfold isWait in EW.
    destruct (st u); auto; discriminate. }
  unfold finished in Fu. rewrite OU in Fu.
  destruct (prog u) as [|[l [|] b|[|n]] p] eqn:EP; try discriminate.
  - eapply (step_of_in wpref ts u); eauto. unfold tstep. rewrite OU, EP. unfold can_r. rewrite (proj2 (NOH l)), NOW, andb_false_r. reflexivity.
  - eapply (step_of_in wpref ts u); eauto. unfold tstep. rewrite OU, EP. unfold can_w. rewrite (proj1 (NOH l)). reflexivity.
  - eapply (step_of_in wpref ts u); eauto. unfold tstep. rewrite OU, EP. reflexivity.
  - eapply (step_of_in wpref ts u); eauto. unfold tstep. rewrite OU, EP. reflexivity.
Qed.

(* (3) every step uses up work *)
Lemma tstep_wf wpref ts t t' : twf t -> tstep wpref ts t = Some t' -> twf t' /\ tcost t' < tcost t.
Proof.
  unfold twf, tstep, tcost. destruct (st t) as [|l b|l m k] eqn:ES.
  - intros _. destruct (prog t) as [|[l [|] b|[|n]] p] eqn:EP; try discriminate.
    + destruct (can_r wpref ts l); [|discriminate]. intros H; inversion H; subst; clear H. cbn [st prog].
      split; [exists b, p; auto|]. cbn [tl pcost fold_right icost]. fold (pcost p). lia.
    + destruct (can_w ts l).
      * intros H; inversion H; subst; clear H. cbn [st prog]. split; [exists b, p; auto|]. cbn [tl pcost fold_right icost]. fold (pcost p). lia.
      * destruct wpref; [|discriminate]. intros H; inversion H; subst; clear H. cbn [st prog]. split; [exists p; auto|].
        cbn [pcost fold_right icost]. lia.
    + intros H; inversion H; subst; clear H. cbn [st prog]. split; [exact I|]. cbn [pcost fold_right icost]. fold (pcost p). lia.
    + intros H; inversion H; subst; clear H. cbn [st prog]. split; [exact I|]. cbn [pcost fold_right icost]. fold (pcost p). lia.
  - intros (p & EP). destruct (can_w ts l); [|discriminate]. intros H; inversion H; subst; clear H. cbn [st prog]. rewrite EP.
    split; [exists b, p; auto|]. cbn [tl pcost fold_right icost]. fold (pcost p). lia.
  - intros (b & p & EP & Hk). destruct k as [|k]; intros H; inversion H; subst; clear H; cbn [st prog].
    + split; [exact I|]. lia.
    + rewrite EP. split; [exists b, p; split; auto; lia|]. lia.
Qed.
Lemma cost_upd ts : forall i t t', nth_error ts i = Some t -> cost (upd ts i t') + tcost t = cost ts + tcost t'.
Proof.
  unfold cost. induction ts as [|a ts IH]; intros [|i] t t' H; cbn [nth_error upd fold_right] in *; try discriminate.
  - inversion H; subst. lia.
  - specialize (IH i t t' H). lia.
Qed.
Lemma Forall_upd {A} (P : A -> Prop) (l : list A) : forall i x, Forall P l -> P x -> Forall P (upd l i x).
Proof. induction l as [|a l IH]; intros [|i] x F Px; simpl; auto; inversion F; subst; constructor; auto. Qed.
Lemma step_cost wpref ts i ts' : Forall twf ts -> step wpref ts i = Some ts' -> Forall twf ts' /\ cost ts' < cost ts.
Proof.
  intros W. unfold step. destruct (nth_error ts i) as [t|] eqn:Hi; [|discriminate].
  destruct (tstep wpref ts t) as [t'|] eqn:E; [|discriminate]. intros H; inversion H; subst; clear H.
  assert (Wt : twf t) by (apply nth_error_In in Hi; rewrite Forall_forall in W; auto).
  destruct (tstep_wf wpref ts t t' Wt E) as (W' & C). split; [apply Forall_upd; auto|].
  pose proof (cost_upd ts i t t' Hi). lia.
Qed.
Theorem run_bounded wpref sched : forall ts ts', Forall twf ts -> run wpref ts sched = Some ts' -> Forall twf ts' /\ length sched + cost ts' <= cost ts.
Proof.
  induction sched as [|i r IH]; intros ts ts' W R; simpl in R.
  - inversion R; subst. split; [auto|simpl; lia].
  - destruct (step wpref ts i) as [ts1|] eqn:E; [|discriminate]. destruct (step_cost wpref ts i ts1 W E) as (W1 & C1).
    destruct (IH ts1 ts' W1 R) as (W2 & C2). split; [auto|simpl; lia].
Qed.
Lemma start_wf progs : Forall twf (start progs).
Proof. unfold start. apply Forall_forall. intros t Ht. apply in_map_iff in Ht. destruct Ht as (p & <- & _). exact I. Qed.

(* (1) exclusion: per lock, either nobody holds it for writing or it has exactly one holder *)
Definition cnt (f : thread -> bool) (ts : sys) : nat := length (filter f ts).
Definition b2n (b : bool) : nat := if b then 1 else 0.
Lemma cnt_upd f ts : forall i t t', nth_error ts i = Some t -> cnt f (upd ts i t') + b2n (f t) = cnt f ts + b2n (f t').
Proof.
  unfold cnt. induction ts as [|a ts IH]; intros [|i] t t' H; cbn [nth_error upd filter] in *; try discriminate.
  - inversion H; subst. destruct (f t), (f t'); cbn [length b2n]; lia.
  - specialize (IH i t t' H). destruct (f a); cbn [length]; lia.
Qed.
Lemma cnt_zero f ts : existsb f ts = false <-> cnt f ts = 0.
Proof.
  unfold cnt. induction ts as [|a ts IH]; simpl; [tauto|]. destruct (f a); simpl; [split; intros; discriminate|exact IH].
Qed.
Lemma cnt_le (f g : thread -> bool) ts : (forall t, f t = true -> g t = true) -> cnt f ts <= cnt g ts.
Proof.
  intros H. unfold cnt. induction ts as [|a ts IH]; simpl; auto. destruct (f a) eqn:F.
  - rewrite (H a F). simpl. lia.
  - destruct (g a); simpl; lia.
Qed.
Definition excl (ts : sys) : Prop := forall l, cnt (holds_w l) ts = 0 \/ cnt (holds l) ts = 1.
Lemma holds_w_holds l t : holds_w l t = true -> holds l t = true.
Proof. unfold holds_w, holds. destruct (st t) as [| |? [|] ?]; auto; discriminate. Qed.

Lemma holds_st l t : holds l t = match st t with Ins l' _ _ => Nat.eqb l' l | _ => false end.
Proof. reflexivity. Qed.
Lemma holds_w_st l t : holds_w l t = match st t with Ins l' MW _ => Nat.eqb l' l | _ => false end.
Proof. reflexivity. Qed.
Lemma step_excl wpref ts i ts' : excl ts -> step wpref ts i = Some ts' -> excl ts'.
Proof.
  intros X. unfold step. destruct (nth_error ts i) as [t|] eqn:Hi; [|discriminate].
  destruct (tstep wpref ts t) as [t'|] eqn:E; [|discriminate]. intros H; inversion H; subst; clear H.
  intros l. pose proof (cnt_upd (holds l) ts i t t' Hi) as CH. pose proof (cnt_upd (holds_w l) ts i t t' Hi) as CW.
  pose proof (cnt_le (holds_w l) (holds l) (upd ts i t') (holds_w_holds l)) as LE'.
  pose proof (cnt_le (holds_w l) (holds l) ts (holds_w_holds l)) as LE.
  specialize (X l). unfold tstep in E. destruct (st t) as [|l0 b|l0 m k] eqn:ES.
  - assert (H0 : holds l t = false /\ holds_w l t = false) by (unfold holds, holds_w; rewrite ES; auto). destruct H0 as (H0 & W0).
    rewrite H0 in CH. rewrite W0 in CW. cbn [b2n] in CH, CW.
    destruct (prog t) as [|[l1 [|] b|[|n]] p] eqn:EP; try discriminate.
    + destruct (can_r wpref ts l1) eqn:CR; [|discriminate]. inversion E; subst; clear E.
      rewrite ?holds_st in CH; rewrite ?holds_w_st in CW. cbn [st] in CH, CW. cbn [b2n] in CW.
      destruct (Nat.eqb_spec l1 l) as [->|Hne]; cbn [b2n] in CH; [|lia].
      unfold can_r in CR. apply andb_true_iff in CR. destruct CR as (CR & _). apply negb_true_iff in CR. apply cnt_zero in CR. lia.
    + destruct (can_w ts l1) eqn:CWW.
      * inversion E; subst; clear E. rewrite ?holds_st in CH; rewrite ?holds_w_st in CW. cbn [st] in CH, CW.
        destruct (Nat.eqb_spec l1 l) as [->|Hne]; cbn [b2n] in CH, CW; [|lia].
        unfold can_w in CWW. apply negb_true_iff in CWW. apply cnt_zero in CWW. lia.
      * destruct wpref; [|discriminate]. inversion E; subst; clear E. rewrite ?holds_st in CH; rewrite ?holds_w_st in CW. cbn [st b2n] in CH, CW. lia.
    + inversion E; subst; clear E. rewrite ?holds_st in CH; rewrite ?holds_w_st in CW. cbn [st b2n] in CH, CW. lia.
    + inversion E; subst; clear E. rewrite ?holds_st in CH; rewrite ?holds_w_st in CW. cbn [st b2n] in CH, CW. lia.
  - assert (H0 : holds l t = false /\ holds_w l t = false) by (unfold holds, holds_w; rewrite ES; auto). destruct H0 as (H0 & W0).
    rewrite H0 in CH. rewrite W0 in CW. cbn [b2n] in CH, CW.
    destruct (can_w ts l0) eqn:CWW; [|discriminate]. inversion E; subst; clear E. rewrite ?holds_st in CH; rewrite ?holds_w_st in CW. cbn [st] in CH, CW.
    destruct (Nat.eqb_spec l0 l) as [->|Hne]; cbn [b2n] in CH, CW; [|lia].
    unfold can_w in CWW. apply negb_true_iff in CWW. apply cnt_zero in CWW. lia.
  - destruct k as [|k]; inversion E; subst; clear E.
    + (* release *)
      rewrite ?holds_st in CH; rewrite ?holds_w_st in CW. rewrite ES in CH, CW. cbn [st] in CH, CW. cbn [b2n] in CH, CW.
      destruct (Nat.eqb_spec l0 l) as [->|Hne]; [|destruct m; cbn [b2n] in CH, CW; lia].
      destruct m; cbn [b2n] in CH, CW; lia.
    + rewrite ?holds_st in CH; rewrite ?holds_w_st in CW. rewrite ES in CH, CW. cbn [st] in CH, CW. lia.
Qed.
Theorem run_excl wpref sched : forall ts ts', excl ts -> run wpref ts sched = Some ts' -> excl ts'.
Proof.
  induction sched as [|i r IH]; intros ts ts' X R; simpl in R; [inversion R; subst; auto|].
  destruct (step wpref ts i) as [ts1|] eqn:E; [|discriminate]. eapply IH; [eapply step_excl; eauto|exact R].
Qed.
Lemma start_excl progs : excl (start progs).
Proof.
  intros l. left. apply cnt_zero. apply existsb_false. intros t Ht. unfold start in Ht. apply in_map_iff in Ht.
  destruct Ht as (p & <- & _). reflexivity.
Qed.

(* all together: from the start, every schedule the runtime can produce keeps writers exclusive, is at most [cost]
   steps long, and can be extended unless every goroutine has finished *)
Theorem locks_safe_and_live wpref progs sched ts : run wpref (start progs) sched = Some ts ->
  excl ts /\ length sched <= cost (start progs) /\
  (existsb (fun t => negb (finished t)) ts = true -> exists i, step wpref ts i <> None).
Proof.
  intros R. split; [eapply run_excl; [apply start_excl|exact R]|]. split.
  - destruct (run_bounded wpref sched _ _ (start_wf progs) R) as (_ & B). lia.
  - apply progress.
Qed.
(* nested acquisition is what the discipline excludes: two goroutines taking two locks in opposite orders can both be
   blocked for ever (a model with nesting would need [Ins] to stack; the two-lock cycle is the classical witness and is
   the reason the fact index_locks_not_nested is part of the tie) *)
