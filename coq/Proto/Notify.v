(* Proto/Notify.v — proposeAndWaitForCommit against the apply loop (C11): a caller creates a notification channel
   with [buf] slots under a fresh id, proposes, then waits in a select; the apply loop applies the entry and notifies
   without blocking.  A non-blocking send succeeds when a receiver is parked in its select or a buffer slot is free;
   otherwise the outcome is dropped.  Executable. *)
From Verif Require Import Base.Prelude.
Open Scope N_scope.

Inductive cstate := CInit | CCreated | CProposed | CWaiting | CGot (v : N) | CTimedOut.
Record caller := { st : cstate; chan : option N; applied : bool; outcome_of : N }.   (* chan: the buffered value, if any *)
Inductive nlbl := Create (p : nat) | Propose (p : nat) | StartWait (p : nat) | ApplyNotify (p : nat) | Deadline (p : nat).

Definition upd_caller (cs : list caller) (p : nat) (c : caller) : list caller := upd cs p c.
Definition dcaller : caller := {| st := CInit; chan := None; applied := false; outcome_of := 0 |}.

Definition n_step (buf : nat) (cs : list caller) (l : nlbl) : option (list caller) :=
  let get p := nth p cs dcaller in
  let ok p := (p <? length cs)%nat in
  match l with
  | Create p =>
      match st (get p) with
      | CInit => if ok p then Some (upd_caller cs p {| st := CCreated; chan := None; applied := applied (get p); outcome_of := outcome_of (get p) |}) else None
      | _ => None
      end
  | Propose p =>
      match st (get p) with
      | CCreated => Some (upd_caller cs p {| st := CProposed; chan := chan (get p); applied := applied (get p); outcome_of := outcome_of (get p) |})
      | _ => None
      end
  | StartWait p =>
      match st (get p) with
      | CProposed =>
          (* reaching the select: a buffered outcome is taken at once *)
          match chan (get p) with
          | Some v => Some (upd_caller cs p {| st := CGot v; chan := None; applied := applied (get p); outcome_of := outcome_of (get p) |})
          | None => Some (upd_caller cs p {| st := CWaiting; chan := None; applied := applied (get p); outcome_of := outcome_of (get p) |})
          end
      | _ => None
      end
  | ApplyNotify p =>
      (* the apply loop never blocks: it applies and performs a non-blocking Notify *)
      if applied (get p) then None else
      match st (get p) with
      | CProposed =>
          if (0 <? buf)%nat && match chan (get p) with None => true | Some _ => false end
          then Some (upd_caller cs p {| st := CProposed; chan := Some (outcome_of (get p)); applied := true; outcome_of := outcome_of (get p) |})
          else Some (upd_caller cs p {| st := CProposed; chan := chan (get p); applied := true; outcome_of := outcome_of (get p) |})   (* dropped *)
      | CWaiting => Some (upd_caller cs p {| st := CGot (outcome_of (get p)); chan := None; applied := true; outcome_of := outcome_of (get p) |})
      | CTimedOut => Some (upd_caller cs p {| st := CTimedOut; chan := None; applied := true; outcome_of := outcome_of (get p) |})  (* channel removed *)
      | _ => None
      end
  | Deadline p =>
      match st (get p) with
      | CWaiting => Some (upd_caller cs p {| st := CTimedOut; chan := None; applied := applied (get p); outcome_of := outcome_of (get p) |})
      | _ => None
      end
  end.

Fixpoint n_run (buf : nat) (cs : list caller) (sched : list nlbl) : list caller :=
  match sched with
  | [] => cs
  | l :: r => match n_step buf cs l with Some cs' => n_run buf cs' r | None => n_run buf cs r end
  end.
Definition n_init (outs : list N) : list caller := map (fun o => {| st := CInit; chan := None; applied := false; outcome_of := o |}) outs.

(* ---- the write path of Dataset.Insert / Update / Remove ---- *)
Inductive wres := WOk | WErrDim | WErrUnreachable | WErr (e : N).
(* [proxy_returns_err]: the branch taken when the owner's client cannot be obtained returns the error (not nil) *)
Definition ds_write (proxy_returns_err : bool) (dim_ok owner_local reachable : bool) (owner_outcome : wres) : wres * bool (* proposed on owner? *) :=
  if negb dim_ok then (WErrDim, false)
  else if owner_local then (owner_outcome, true)
  else if reachable then (owner_outcome, true)
  else ((if proxy_returns_err then WErrUnreachable else WOk), false).
