(* Proto/NotifyProofs.v — C11: with at least one buffer slot, every applied proposal delivers its outcome to its
   own caller (no lost wake-up, no misdelivery), for every number of callers and every schedule; with an unbuffered
   channel an outcome applied before the caller waits is lost. *)
From Verif Require Import Base.Prelude Proto.Notify.
Open Scope N_scope.

Definition cinv (c : caller) : Prop :=
  match st c with
  | CInit | CCreated => applied c = false /\ chan c = None
  | CProposed => (applied c = true -> chan c = Some (outcome_of c)) /\ (applied c = false -> chan c = None)
  | CWaiting => applied c = false /\ chan c = None          (* a waiting caller's proposal has not been applied yet *)
  | CGot v => v = outcome_of c /\ applied c = true
  | CTimedOut => True
  end.

Lemma nth_upd_caller cs p c q : (p < length cs)%nat -> nth q (upd_caller cs p c) dcaller = if Nat.eqb p q then c else nth q cs dcaller.
Proof.
  intros H. unfold upd_caller. rewrite nth_upd. destruct (Nat.eqb_spec p q); simpl; auto.
  destruct (Nat.ltb_spec p (length cs)); auto. lia.
Qed.

Lemma step_inv buf cs l cs' : (0 < buf)%nat -> (forall q, cinv (nth q cs dcaller)) -> n_step buf cs l = Some cs' ->
  (forall q, cinv (nth q cs' dcaller)) /\
  (forall q, outcome_of (nth q cs' dcaller) = outcome_of (nth q cs dcaller)).
Proof.
  intros B I H.
  assert (OOB : forall p, (length cs <= p)%nat -> st (nth p cs dcaller) = CInit) by (intros p Hp; rewrite nth_overflow; auto).
  assert (G : forall p c, (p < length cs)%nat -> cinv c -> outcome_of c = outcome_of (nth p cs dcaller) ->
              (forall q, cinv (nth q (upd_caller cs p c) dcaller)) /\
              (forall q, outcome_of (nth q (upd_caller cs p c) dcaller) = outcome_of (nth q cs dcaller))).
  { intros p c Hp Hc Ho. split; intros q; rewrite nth_upd_caller by auto; destruct (Nat.eqb_spec p q); subst; auto. }
  assert (LT : forall p, st (nth p cs dcaller) <> CInit -> (p < length cs)%nat).
  { intros p Hn. destruct (le_lt_dec (length cs) p); auto. rewrite OOB in Hn; auto. congruence. }
  destruct l as [p|p|p|p|p]; simpl in H; pose proof (I p) as Ip; unfold cinv in Ip.
  - destruct (st (nth p cs dcaller)) eqn:ES; try discriminate. destruct (Nat.ltb_spec p (length cs)); [|discriminate].
    inversion H; subst. apply G; auto. unfold cinv; simpl. tauto.
  - destruct (st (nth p cs dcaller)) eqn:ES; try discriminate. inversion H; subst.
    apply G; auto; [apply LT; congruence|]. unfold cinv; simpl. destruct Ip as (A & C). split; intros; auto; congruence.
  - destruct (st (nth p cs dcaller)) eqn:ES; try discriminate.
    assert (Hp : (p < length cs)%nat) by (apply LT; congruence).
    destruct (chan (nth p cs dcaller)) eqn:EC; inversion H; subst; apply G; auto; unfold cinv; simpl.
    + destruct Ip as (A & C). destruct (applied (nth p cs dcaller)) eqn:EA; [specialize (A eq_refl)|specialize (C eq_refl)]; try congruence.
      split; congruence.
    + destruct Ip as (A & C). destruct (applied (nth p cs dcaller)) eqn:EA; [specialize (A eq_refl); congruence|auto].
  - destruct (applied (nth p cs dcaller)) eqn:EA; [discriminate|].
    destruct (st (nth p cs dcaller)) eqn:ES; try discriminate;
      assert (Hp : (p < length cs)%nat) by (apply LT; congruence).
    + destruct Ip as (A & C). specialize (C eq_refl). rewrite C in H. destruct (Nat.ltb_spec 0 buf); [|lia]. simpl in H.
      inversion H; subst. apply G; auto. unfold cinv; simpl. split; intros; auto; discriminate.
    + inversion H; subst. apply G; auto; unfold cinv; simpl; auto.
    + inversion H; subst. apply G; auto; unfold cinv; simpl; auto.
  - destruct (st (nth p cs dcaller)) eqn:ES; try discriminate. inversion H; subst.
    apply G; auto; try (apply LT; congruence); unfold cinv; simpl; auto.
Qed.

Lemma nth_init outs q : nth q (n_init outs) dcaller = {| st := CInit; chan := None; applied := false; outcome_of := nth q outs 0 |}.
Proof.
  unfold n_init. revert q. induction outs as [|o outs IH]; intros [|q]; simpl; auto.
Qed.
Lemma init_inv outs q : cinv (nth q (n_init outs) dcaller).
Proof. rewrite nth_init. unfold cinv. simpl. auto. Qed.

Theorem run_inv buf sched : (0 < buf)%nat -> forall cs, (forall q, cinv (nth q cs dcaller)) ->
  (forall q, cinv (nth q (n_run buf cs sched) dcaller)) /\
  (forall q, outcome_of (nth q (n_run buf cs sched) dcaller) = outcome_of (nth q cs dcaller)).
Proof.
  intros B. induction sched as [|l r IH]; intros cs I; simpl; auto.
  destruct (n_step buf cs l) as [cs'|] eqn:E; auto.
  destruct (step_inv buf cs l cs' B I E) as (I' & O'). destruct (IH cs' I') as (A & C). split; auto.
  intros q. rewrite C. auto.
Qed.

(* C11 delivery: every caller, every schedule *)
Theorem delivery buf outs sched p : (0 < buf)%nat ->
  let c := nth p (n_run buf (n_init outs) sched) dcaller in
  (* no misdelivery: what a caller receives is the outcome of its own proposal, which was applied *)
  (forall v, st c = CGot v -> v = nth p outs 0 /\ applied c = true) /\
  (* no lost wake-up: a caller that is waiting has not been applied yet; hence a timeout only happens to a caller
     whose proposal had not been applied when the deadline fired *)
  (st c = CWaiting -> applied c = false) /\
  (* an outcome applied before the caller reached its select is kept for it *)
  (st c = CProposed -> applied c = true -> chan c = Some (nth p outs 0)).
Proof.
  intros B c. destruct (run_inv buf sched B (n_init outs) (init_inv outs)) as (I & O).
  specialize (I p). specialize (O p). fold c in I, O. unfold cinv in I.
  assert (OI : outcome_of (nth p (n_init outs) dcaller) = nth p outs 0) by (rewrite nth_init; auto).
  rewrite OI in O. repeat split.
  - rewrite H in I. destruct I. congruence.
  - rewrite H in I. tauto.
  - intros H. rewrite H in I. tauto.
  - intros H A. rewrite H in I. destruct I as (I1 & _). rewrite (I1 A). congruence.
Qed.

(* the apply loop is never blocked by a notification *)
Theorem apply_never_blocks buf cs p : applied (nth p cs dcaller) = false ->
  (st (nth p cs dcaller) = CProposed \/ st (nth p cs dcaller) = CWaiting \/ st (nth p cs dcaller) = CTimedOut) ->
  exists cs', n_step buf cs (ApplyNotify p) = Some cs'.
Proof.
  intros A H. simpl. rewrite A. destruct H as [->|[->| ->]]; eauto. destruct (_ && _); eauto.
Qed.

(* the unbuffered channel: applied before the caller waits, yet the caller times out *)
Theorem lost_wakeup_refuted :
  let sched := [Create 0; Propose 0; ApplyNotify 0; StartWait 0; Deadline 0]%nat in
  (let c := nth 0 (n_run 0 (n_init [42]) sched) dcaller in st c = CTimedOut /\ applied c = true) /\
  (let c := nth 0 (n_run 1 (n_init [42]) sched) dcaller in st c = CGot 42).
Proof. split; vm_compute; auto. Qed.

(* truthful acknowledgements on the dataset write path *)
Theorem write_truthful dim_ok owner_local reachable o :
  fst (ds_write true dim_ok owner_local reachable o) = WOk -> snd (ds_write true dim_ok owner_local reachable o) = true /\ o = WOk.
Proof. unfold ds_write. destruct dim_ok, owner_local, reachable; simpl; intros H; try discriminate; auto. Qed.
Theorem dimension_rejected_before_proposing pre owner_local reachable o :
  ds_write pre false owner_local reachable o = (WErrDim, false).
Proof. reflexivity. Qed.
Theorem proxy_swallow_refuted : ds_write false true false false (WErr 1) = (WOk, false).
Proof. reflexivity. Qed.
