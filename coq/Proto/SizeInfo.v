(* Proto/SizeInfo.v — Dataset.SizeInfo (C17) as a transition system: the calling goroutine walks the partition list
   (local partitions are added inline and push nil on errorCh; each remote partition starts a worker), a closer closes
   errorCh after all workers are done, then the caller performs one receive per partition.  [captures]: the worker
   closure reads the shared range variable when it runs (language version < go1.22 and no per-iteration copy) instead
   of the partition it was started for.  Executable. *)
From Verif Require Import Base.Prelude.
Open Scope N_scope.

Record part := { p_local : bool; p_len : N; p_bytes : N; p_fail : bool }.
Inductive souts := SOk (l b : N) | SErr | STimeout.

Record sz := {
  pc : nat;                         (* next partition the loop will handle; = number of partitions when the loop is over *)
  var : nat;                        (* the range variable (index of the partition of the current / last iteration) *)
  workers : list (nat * bool);      (* spawned workers: the partition index bound at spawn time, done? *)
  sum_l : N; sum_b : N;
  errbuf : list bool;               (* buffered on errorCh: false = nil (a local partition), true = an error *)
  closed : bool;
  coll : nat;                       (* receives performed *)
  zeros : nat;                      (* ghost: how many of them were zero values from the closed channel *)
  res : option souts }.

Inductive slbl := MainStep | WorkerRun (w : nat) | Close | Recv | RecvClosed | Deadline | Finish.

Definition dpart : part := {| p_local := true; p_len := 0; p_bytes := 0; p_fail := false |}.
Fixpoint set_done (ws : list (nat * bool)) (w : nat) : list (nat * bool) :=
  match ws, w with
  | [], _ => []
  | (i, _) :: t, O => (i, true) :: t
  | x :: t, S w' => x :: set_done t w'
  end.

Definition sz_step (captures : bool) (ps : list part) (s : sz) (l : slbl) : option sz :=
  let n := length ps in
  match res s with
  | Some _ => None
  | None =>
      match l with
      | MainStep =>
          if (pc s <? n)%nat then
            let p := nth (pc s) ps dpart in
            if p_local p
            then Some {| pc := S (pc s); var := pc s; workers := workers s; sum_l := sum_l s + p_len p; sum_b := sum_b s + p_bytes p;
                         errbuf := errbuf s ++ [false]; closed := closed s; coll := coll s; zeros := zeros s; res := None |}
            else Some {| pc := S (pc s); var := pc s; workers := workers s ++ [(pc s, false)]; sum_l := sum_l s; sum_b := sum_b s;
                         errbuf := errbuf s; closed := closed s; coll := coll s; zeros := zeros s; res := None |}
          else None
      | WorkerRun w =>
          match nth_error (workers s) w with
          | Some (i, false) =>
              let idx := if captures then var s else i in
              let p := nth idx ps dpart in
              if p_fail p
              then Some {| pc := pc s; var := var s; workers := set_done (workers s) w; sum_l := sum_l s; sum_b := sum_b s;
                           errbuf := errbuf s ++ [true]; closed := closed s; coll := coll s; zeros := zeros s; res := None |}
              else Some {| pc := pc s; var := var s; workers := set_done (workers s) w; sum_l := sum_l s + p_len p; sum_b := sum_b s + p_bytes p;
                           errbuf := errbuf s; closed := closed s; coll := coll s; zeros := zeros s; res := None |}
          | _ => None
          end
      | Close =>
          if Nat.eqb (pc s) n && forallb snd (workers s) && negb (closed s)
          then Some {| pc := pc s; var := var s; workers := workers s; sum_l := sum_l s; sum_b := sum_b s; errbuf := errbuf s;
                       closed := true; coll := coll s; zeros := zeros s; res := None |}
          else None
      | Recv =>
          if Nat.eqb (pc s) n && (coll s <? n)%nat then
            match errbuf s with
            | false :: t => Some {| pc := pc s; var := var s; workers := workers s; sum_l := sum_l s; sum_b := sum_b s; errbuf := t;
                                    closed := closed s; coll := S (coll s); zeros := zeros s; res := None |}
            | true :: t => Some {| pc := pc s; var := var s; workers := workers s; sum_l := sum_l s; sum_b := sum_b s; errbuf := t;
                                   closed := closed s; coll := S (coll s); zeros := zeros s; res := Some SErr |}
            | [] => None
            end
          else None
      | RecvClosed =>
          if Nat.eqb (pc s) n && (coll s <? n)%nat && closed s && match errbuf s with [] => true | _ => false end
          then Some {| pc := pc s; var := var s; workers := workers s; sum_l := sum_l s; sum_b := sum_b s; errbuf := [];
                       closed := true; coll := S (coll s); zeros := S (zeros s); res := None |}
          else None
      | Deadline =>
          if Nat.eqb (pc s) n && (coll s <? n)%nat
          then Some {| pc := pc s; var := var s; workers := workers s; sum_l := sum_l s; sum_b := sum_b s; errbuf := errbuf s;
                       closed := closed s; coll := coll s; zeros := zeros s; res := Some STimeout |}
          else None
      | Finish =>
          if Nat.eqb (pc s) n && Nat.eqb (coll s) n
          then Some {| pc := pc s; var := var s; workers := workers s; sum_l := sum_l s; sum_b := sum_b s; errbuf := errbuf s;
                       closed := closed s; coll := coll s; zeros := zeros s; res := Some (SOk (sum_l s) (sum_b s)) |}
          else None
      end
  end.

Definition sz_init : sz :=
  {| pc := O; var := O; workers := []; sum_l := 0; sum_b := 0; errbuf := []; closed := false; coll := O; zeros := O; res := None |}.
Fixpoint sz_run (captures : bool) (ps : list part) (s : sz) (sched : list slbl) : sz :=
  match sched with
  | [] => s
  | l :: r => match sz_step captures ps s l with Some s' => sz_run captures ps s' r | None => sz_run captures ps s r end
  end.

Definition total_len (ps : list part) : N := fold_right (fun p a => p_len p + a) 0 ps.
Definition total_bytes (ps : list part) : N := fold_right (fun p a => p_bytes p + a) 0 ps.

(* all outcomes reachable without Deadline (exhaustive; fuel bounds the depth) *)
Definition sz_labels (s : sz) : list slbl :=
  MainStep :: map WorkerRun (seq 0 (length (workers s))) ++ [Close; Recv; RecvClosed; Finish].
Fixpoint sz_outcomes (fuel : nat) (captures : bool) (ps : list part) (s : sz) : list souts :=
  match res s with
  | Some o => [o]
  | None => match fuel with
            | O => []
            | S f => flat_map (fun l => match sz_step captures ps s l with Some s' => sz_outcomes f captures ps s' | None => [] end) (sz_labels s)
            end
  end.
