(* Proto/SizeInfoProofs.v — C17: when each worker looks up the partition it was started for, a successful SizeInfo
   reports exactly the sums over all partitions (each once) and no remote lookup failed — for every partition list,
   placement, sizes and schedule.  With the shared range variable, a partition is counted twice and another not at all. *)
From Verif Require Import Base.Prelude Proto.SizeInfo.
From Coq Require Import ZifyN ZifyBool ZifyNat.
Open Scope N_scope.

Lemma fold_acc {A} (f : A -> N) (l : list A) : forall a0, fold_right (fun i a => f i + a) a0 l = fold_right (fun i a => f i + a) 0 l + a0.
Proof. induction l as [|x l IH]; intros a0; simpl; [lia|rewrite IH; lia]. Qed.

Section Inv.
  Variable ps : list part.
  Notation P i := (nth i ps dpart).

  Definition lsum_l (k : nat) : N := fold_right (fun i a => (if p_local (P i) then p_len (P i) else 0) + a) 0 (seq 0 k).
  Definition lsum_b (k : nat) : N := fold_right (fun i a => (if p_local (P i) then p_bytes (P i) else 0) + a) 0 (seq 0 k).
  Definition wsum_l (ws : list (nat * bool)) : N :=
    fold_right (fun w a => (if snd w && negb (p_fail (P (fst w))) then p_len (P (fst w)) else 0) + a) 0 ws.
  Definition wsum_b (ws : list (nat * bool)) : N :=
    fold_right (fun w a => (if snd w && negb (p_fail (P (fst w))) then p_bytes (P (fst w)) else 0) + a) 0 ws.
  Definition donefail (ws : list (nat * bool)) : nat := length (filter (fun w => snd w && p_fail (P (fst w))) ws).
  Definition nlocal (k : nat) : nat := length (filter (fun i => p_local (P i)) (seq 0 k)).
  Definition rem_idx (k : nat) : list nat := filter (fun i => negb (p_local (P i))) (seq 0 k).
  Definition ntrue (l : list bool) : nat := length (filter (fun b => b) l).
  Definition nfalse (l : list bool) : nat := length (filter negb l).

  Record SI (s : sz) : Prop := {
    si_pc : (pc s <= length ps)%nat;
    si_ws : map fst (workers s) = rem_idx (pc s);
    si_l : sum_l s = lsum_l (pc s) + wsum_l (workers s);
    si_b : sum_b s = lsum_b (pc s) + wsum_b (workers s);
    si_closed : closed s = true -> pc s = length ps /\ forallb snd (workers s) = true;
    si_true : res s = None -> ntrue (errbuf s) = donefail (workers s);
    si_false : res s = None -> (coll s - zeros s + nfalse (errbuf s) = nlocal (pc s))%nat /\ (zeros s <= coll s)%nat;
    si_zero : (0 < zeros s)%nat -> closed s = true /\ forallb (fun w => negb (p_fail (P (fst w)))) (workers s) = true;
    si_ok : forall l b, res s = Some (SOk l b) ->
              l = lsum_l (length ps) + wsum_l (workers s) /\ b = lsum_b (length ps) + wsum_b (workers s) /\
              map fst (workers s) = rem_idx (length ps) /\ forallb snd (workers s) = true /\
              forallb (fun w => negb (p_fail (P (fst w)))) (workers s) = true
  }.

  Lemma seq_S k : seq 0 (S k) = seq 0 k ++ [k].
  Proof. rewrite seq_S. auto. Qed.

  Lemma set_done_spec ws : forall w i, nth_error ws w = Some (i, false) ->
    map fst (set_done ws w) = map fst ws /\
    wsum_l (set_done ws w) = wsum_l ws + (if p_fail (P i) then 0 else p_len (P i)) /\
    wsum_b (set_done ws w) = wsum_b ws + (if p_fail (P i) then 0 else p_bytes (P i)) /\
    donefail (set_done ws w) = (donefail ws + (if p_fail (P i) then 1 else 0))%nat /\
    (forallb (fun x : nat * bool => negb (p_fail (P (fst x)))) (set_done ws w) = forallb (fun x : nat * bool => negb (p_fail (P (fst x)))) ws).
  Proof.
    induction ws as [|[j d] ws IH]; intros [|w] i H; simpl in *; try discriminate.
    - inversion H; subst. simpl. unfold donefail. simpl. destruct (p_fail (P i)); simpl; repeat split; auto; lia.
    - destruct (IH w i H) as (A & B & C & D & E). unfold donefail in *. simpl.
      rewrite A, B, C, E. repeat split; auto; try lia.
      destruct (d && p_fail (P j)); simpl; lia.
  Qed.

  Lemma nth_error_not_all_done (ws : list (nat * bool)) w (i : nat) : nth_error ws w = Some (i, false) -> forallb snd ws = false.
  Proof.
    revert w; induction ws as [|[j d] ws IH]; intros [|w] H; simpl in *; try discriminate.
    - inversion H; subst. auto.
    - rewrite (IH w H). apply Bool.andb_false_r.
  Qed.

  Lemma SI_init : SI sz_init.
  Proof. constructor; simpl; auto; try lia; try discriminate. Qed.

  Lemma ntrue_app l b : ntrue (l ++ [b]) = (ntrue l + if b then 1 else 0)%nat.
  Proof. unfold ntrue. rewrite filter_app, app_length. destruct b; simpl; lia. Qed.
  Lemma nfalse_app l b : nfalse (l ++ [b]) = (nfalse l + if b then 0 else 1)%nat.
  Proof. unfold nfalse. rewrite filter_app, app_length. destruct b; simpl; lia. Qed.

  Lemma SI_step s l s' : SI s -> sz_step false ps s l = Some s' -> SI s'.
  Proof.
    intros [Hpc Hws Hl Hb Hc Ht Hf Hz Hok] H. unfold sz_step in H. destruct (res s) eqn:ER; [discriminate|].
    specialize (Ht eq_refl). destruct (Hf eq_refl) as (Hf1 & Hf2).
    destruct l.
    - (* MainStep *)
      destruct (Nat.ltb_spec (pc s) (length ps)) as [Hlt|]; [|discriminate].
      assert (NC : closed s = false) by (destruct (closed s) eqn:EC; auto; destruct (Hc eq_refl); lia).
      assert (Z0 : zeros s = 0%nat) by (destruct (zeros s) eqn:EZ; auto; destruct (Hz ltac:(lia)); congruence).
      destruct (p_local (P (pc s))) eqn:EL; inversion H; subst; clear H; constructor; cbn [pc var workers sum_l sum_b errbuf closed coll zeros res]; auto; try lia; try discriminate; try congruence.
      + rewrite Hws. unfold rem_idx. rewrite seq_S, filter_app. simpl. rewrite EL. simpl. rewrite app_nil_r. auto.
      + rewrite Hl. unfold lsum_l. rewrite seq_S, fold_right_app. simpl. rewrite EL.
        rewrite (fold_acc (fun i => if p_local (P i) then p_len (P i) else 0) _ (_ + 0)). lia.
      + rewrite Hb. unfold lsum_b. rewrite seq_S, fold_right_app. simpl. rewrite EL.
        rewrite (fold_acc (fun i => if p_local (P i) then p_bytes (P i) else 0) _ (_ + 0)). lia.
      + intros _. rewrite ntrue_app. simpl. lia.
      + intros _. rewrite nfalse_app. unfold nlocal in *. rewrite seq_S, filter_app, app_length. simpl. rewrite EL. simpl. lia.
      + rewrite map_app. simpl. unfold rem_idx. rewrite seq_S, filter_app. simpl. rewrite EL. simpl. rewrite Hws. reflexivity.
      + rewrite Hl. unfold lsum_l, wsum_l. rewrite seq_S, !fold_right_app. simpl. rewrite EL. simpl.
        reflexivity.
      + rewrite Hb. unfold lsum_b, wsum_b. rewrite seq_S, !fold_right_app. simpl. rewrite EL. simpl.
        reflexivity.
      + intros _. rewrite Ht. unfold donefail. rewrite filter_app, app_length. simpl. lia.
      + intros _. unfold nlocal in *. rewrite seq_S, filter_app, app_length. simpl. rewrite EL. simpl. lia.
    - (* WorkerRun *)
      destruct (nth_error (workers s) w) as [[i [|]]|] eqn:EN; try discriminate.
      assert (NC : closed s = false).
      { destruct (closed s) eqn:EC; auto. destruct (Hc eq_refl) as (_ & AD). rewrite (nth_error_not_all_done _ _ _ EN) in AD. discriminate. }
      assert (Z0 : zeros s = 0%nat) by (destruct (zeros s) eqn:EZ; auto; destruct (Hz ltac:(lia)); congruence).
      destruct (set_done_spec (workers s) w i EN) as (A & B & C & D & E).
      destruct (p_fail (P i)) eqn:EF; inversion H; subst; clear H; constructor; cbn [pc var workers sum_l sum_b errbuf closed coll zeros res]; auto; try lia; try discriminate; try congruence;
        try (rewrite Hl, B; lia); try (rewrite Hb, C; lia);
        try (intros _; rewrite ?ntrue_app, ?nfalse_app, ?D, ?Ht; simpl; lia).
    - (* Close *)
      destruct (Nat.eqb_spec (pc s) (length ps)) as [E1|]; [|discriminate]. destruct (forallb snd (workers s)) eqn:AD; [|discriminate].
      destruct (closed s) eqn:EC; [discriminate|]. inversion H; subst; clear H.
      constructor; cbn [pc var workers sum_l sum_b errbuf closed coll zeros res]; auto; try discriminate.
      intros Hz0. destruct (Hz Hz0). congruence.
    - (* Recv *)
      destruct (Nat.eqb_spec (pc s) (length ps)) as [E1|]; [|discriminate]. destruct (Nat.ltb_spec (coll s) (length ps)); [|discriminate].
      destruct (errbuf s) as [|[|] t] eqn:EB; try discriminate; inversion H; subst; clear H;
        constructor; cbn [pc var workers sum_l sum_b errbuf closed coll zeros res]; auto; try discriminate;
        try (intros _; unfold ntrue, nfalse in *; cbn [filter negb length] in *; lia).
    - (* RecvClosed *)
      destruct (Nat.eqb_spec (pc s) (length ps)) as [E1|]; [|discriminate]. destruct (Nat.ltb_spec (coll s) (length ps)); [|discriminate].
      destruct (closed s) eqn:EC; [|discriminate]. destruct (errbuf s) eqn:EB; [|discriminate]. inversion H; subst; clear H.
      destruct (Hc eq_refl) as (_ & AD).
      constructor; cbn [pc var workers sum_l sum_b errbuf closed coll zeros res]; auto; try discriminate.
      + intros _. unfold nfalse in *. cbn [filter negb length] in *. lia.
      + intros _. split; auto.
        (* all done, none of them produced an error: no worker's partition fails *)
        unfold ntrue, donefail in Ht. simpl in Ht.
        clear -Ht AD. induction (workers s) as [|[i d] ws IH]; simpl in *; auto.
        apply Bool.andb_true_iff in AD. destruct AD as (D1 & D2). simpl in D1. subst d. simpl in Ht.
        destruct (p_fail (P i)); simpl in *; [discriminate|]. apply IH; auto.
    - (* Deadline *)
      destruct (Nat.eqb (pc s) (length ps) && (coll s <? length ps)%nat); [|discriminate]. inversion H; subst; clear H.
      constructor; cbn [pc var workers sum_l sum_b errbuf closed coll zeros res]; auto; try discriminate.
    - (* Finish *)
      destruct (Nat.eqb_spec (pc s) (length ps)) as [E1|]; [|discriminate]. destruct (Nat.eqb_spec (coll s) (length ps)) as [E2|]; [|discriminate].
      inversion H; subst; clear H.
      constructor; cbn [pc var workers sum_l sum_b errbuf closed coll zeros res]; auto; try discriminate.
      intros l b Hr. inversion Hr; subst. rewrite E1 in *. split; [auto|split; [auto|split; [auto|]]].
      (* counting: receives = locals + zero values, so with any remote partition a zero value was received *)
      assert (NL : (nlocal (length ps) + length (rem_idx (length ps)) = length ps)%nat).
      { unfold nlocal, rem_idx. rewrite <- (seq_length (length ps) 0) at 3. generalize (seq 0 (length ps)). intros sq.
        induction sq as [|a sq IH]; simpl; auto. destruct (p_local (P a)); simpl; lia. }
      destruct (workers s) as [|w0 ws] eqn:EW.
      { simpl. auto. }
      assert (RL : (0 < length (rem_idx (length ps)))%nat) by (rewrite <- Hws; simpl; lia).
      assert (ZP : (0 < zeros s)%nat) by lia.
      destruct (Hz ZP) as (CL & NF). destruct (Hc CL) as (_ & AD). split; auto.
  Qed.

  Theorem SI_run sched : forall s, SI s -> SI (sz_run false ps s sched).
  Proof.
    induction sched as [|l r IH]; intros s H; simpl; auto.
    destruct (sz_step false ps s l) eqn:E; auto. apply IH. eapply SI_step; eauto.
  Qed.

  (* sums over local partitions + sums over all (done, non-failing) remote workers = the totals *)
  Lemma totals_split ws : map fst ws = rem_idx (length ps) -> forallb snd ws = true ->
    forallb (fun w => negb (p_fail (P (fst w)))) ws = true ->
    lsum_l (length ps) + wsum_l ws = total_len ps /\ lsum_b (length ps) + wsum_b ws = total_bytes ps.
  Proof.
    intros M AD NF.
    assert (W : wsum_l ws = fold_right (fun i a => p_len (P i) + a) 0 (map fst ws) /\ wsum_b ws = fold_right (fun i a => p_bytes (P i) + a) 0 (map fst ws)).
    { clear M. induction ws as [|[i d] ws IH]; simpl in *; auto.
      apply Bool.andb_true_iff in AD. destruct AD as (D1 & D2). apply Bool.andb_true_iff in NF. destruct NF as (N1 & N2).
      simpl in *. subst d. destruct (p_fail (P i)); [discriminate|]. simpl. destruct (IH D2 N2) as (A & B). unfold wsum_l, wsum_b in *. rewrite A, B. auto. }
    destruct W as (W1 & W2). rewrite W1, W2, M. unfold lsum_l, lsum_b, rem_idx.
    assert (G : forall (f : part -> N) (l : list nat),
              fold_right (fun i a => (if p_local (P i) then f (P i) else 0) + a) 0 l +
              fold_right (fun i a => f (P i) + a) 0 (filter (fun i => negb (p_local (P i))) l) =
              fold_right (fun i a => f (P i) + a) 0 l).
    { intros f l. induction l as [|a l IH]; simpl; auto. destruct (p_local (P a)); simpl; lia. }
    assert (T : forall (f : part -> N), fold_right (fun i a => f (P i) + a) 0 (seq 0 (length ps)) = fold_right (fun p a => f p + a) 0 ps).
    { intros f. clear. 
      assert (H : forall (l : list part) k, fold_right (fun i a => f (nth i (firstn k ps ++ l) dpart) + a) 0 (seq k (length l)) = fold_right (fun p a => f p + a) 0 l -> True) by auto.
      assert (G2 : forall (pre l : list part), fold_right (fun i a => f (nth i (pre ++ l) dpart) + a) 0 (seq (length pre) (length l)) = fold_right (fun p a => f p + a) 0 l).
      { intros pre l. revert pre. induction l as [|x l IH]; intros pre; simpl; auto.
        rewrite app_nth2, Nat.sub_diag by lia. simpl. f_equal.
        specialize (IH (pre ++ [x])). rewrite app_length in IH. simpl in IH. rewrite <- app_assoc in IH. simpl in IH.
        replace (length pre + 1)%nat with (S (length pre)) in IH by lia. auto. }
      apply (G2 [] ps). }
    split.
    - rewrite (G p_len). apply (T p_len).
    - rewrite (G p_bytes). apply (T p_bytes).
  Qed.

  Theorem sizeinfo_exact sched l b :
    res (sz_run false ps sz_init sched) = Some (SOk l b) ->
    l = total_len ps /\ b = total_bytes ps /\
    (forall i, (i < length ps)%nat -> p_local (P i) = false -> p_fail (P i) = false).
  Proof.
    intros H. pose proof (SI_run sched _ SI_init) as I. destruct (si_ok _ I _ _ H) as (A & B & M & AD & NF).
    destruct (totals_split _ M AD NF) as (T1 & T2). split; [congruence|split; [congruence|]].
    intros i Hi HL. assert (Hin : In i (rem_idx (length ps))).
    { unfold rem_idx. apply filter_In. split; [apply in_seq; lia|rewrite HL; auto]. }
    rewrite <- M in Hin. apply in_map_iff in Hin. destruct Hin as ([j d] & <- & Hw).
    rewrite forallb_forall in NF. specialize (NF _ Hw). simpl in *. destruct (p_fail (P j)); [discriminate|auto].
  Qed.
End Inv.

(* the shared range variable: two remote partitions of sizes 10 and 20; both workers run after the loop *)
Definition two_remote : list part :=
  [{| p_local := false; p_len := 10; p_bytes := 100; p_fail := false |}; {| p_local := false; p_len := 20; p_bytes := 200; p_fail := false |}].
Theorem loopvar_refuted :
  res (sz_run true two_remote sz_init [MainStep; MainStep; WorkerRun 0; WorkerRun 1; Close; RecvClosed; RecvClosed; Finish]) = Some (SOk 40 400) /\
  res (sz_run false two_remote sz_init [MainStep; MainStep; WorkerRun 0; WorkerRun 1; Close; RecvClosed; RecvClosed; Finish]) = Some (SOk 30 300).
Proof. split; vm_compute; reflexivity. Qed.
