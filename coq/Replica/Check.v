(* Replica/Check.v — executable oracle for crash/restart runs (C03): the recovered contents must be the result of
   applying, in order, every acknowledged write and any subset of the unacknowledged (in-flight) ones. *)
From Verif Require Import Base.Prelude Store.Spec Store.Partition Store.Check.
Open Scope N_scope.

Record rc_case := { rc_ops : list (change * bool); rc_recovered : list (N * item) }.

Definition same_contents (s : sidx) (obs : list (N * item)) : bool :=
  list_eqb item_eqb (canon_items (items sidx_ops s)) (canon_items obs).

(* branch on every unacknowledged op: applied or not *)
Fixpoint explains (s : sidx) (ops : list (change * bool)) (obs : list (N * item)) : bool :=
  match ops with
  | [] => same_contents s obs
  | (ch, true) :: r => explains (fst (p_apply sidx_ops s ch)) r obs
  | (ch, false) :: r => explains (fst (p_apply sidx_ops s ch)) r obs || explains s r obs
  end.
Definition rc_case_oracle_ok (c : rc_case) : bool := explains sidx_empty (rc_ops c) (rc_recovered c).
