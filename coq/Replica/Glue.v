(* Replica/Glue.v — the raft glue of storage/raft/group.go: one iteration of the Ready loop as a list of effects
   in the order the source performs them, the boot rule (StartNode vs RestartNode), and crash recovery of a partition
   from its durable state (snapshot + log + commit index).  Executable; no proofs. *)
From Verif Require Import Base.Prelude Store.Spec Store.Partition Wal.Model.
Open Scope N_scope.

Inductive lstep := LSendIfLeader | LSave | LApplySnap | LApplyEntries | LSendIfNotLeader | LAdvance.
Record ready := { rd_hard : hard; rd_ents : list entry; rd_snap : snapshot; rd_committed : list entry; rd_msgs : list N }.
Inductive effect :=
| ESend (m : N) | ESave (h : hard) (es : list entry) (s : snapshot) | EApplySnap (s : snapshot) | EApply (e : entry) | EAdvance.

Definition step_effects (leader : bool) (rd : ready) (s : lstep) : list effect :=
  match s with
  | LSendIfLeader => if leader then map ESend (rd_msgs rd) else []
  | LSave => [ESave (rd_hard rd) (rd_ents rd) (rd_snap rd)]
  | LApplySnap => if is_empty_snap (rd_snap rd) then [] else [EApplySnap (rd_snap rd)]
  | LApplyEntries => map EApply (rd_committed rd)
  | LSendIfNotLeader => if leader then [] else map ESend (rd_msgs rd)
  | LAdvance => [EAdvance]
  end.
Definition iteration (order : list lstep) (leader : bool) (rd : ready) : list effect := flat_map (step_effects leader rd) order.

(* executing effects against the durable store (the reference storage of C06): what was durable when each message
   left and when each entry was applied (its outcome is acknowledged inside the apply) *)
Record trace := { t_durable : mem; t_sent : list (N * mem); t_applied : list (entry * mem) }.
Definition exec_effect (t : trace) (e : effect) : trace :=
  match e with
  | ESave h es s => {| t_durable := match m_save (t_durable t) h es s with Ok m => m | Err _ => t_durable t end;
                       t_sent := t_sent t; t_applied := t_applied t |}
  | ESend m => {| t_durable := t_durable t; t_sent := t_sent t ++ [(m, t_durable t)]; t_applied := t_applied t |}
  | EApply en => {| t_durable := t_durable t; t_sent := t_sent t; t_applied := t_applied t ++ [(en, t_durable t)] |}
  | _ => t
  end.
Definition exec (d : mem) (es : list effect) : trace := fold_left exec_effect es {| t_durable := d; t_sent := []; t_applied := [] |}.

(* ---- boot rule ---- *)
Inductive boot := BStart | BRestart.
(* [guarded = true]: StartNode only for a pristine store (after the fix); false: StartNode whenever peers are given *)
Definition pristine (d : mem) : bool := is_empty_hard (m_hard d) && is_empty_snap (m_snap d) && (m_last d =? 0).
Definition boot_rule (guarded : bool) (peers : list N) (d : mem) : boot :=
  match peers with
  | [] => BRestart
  | _ => if guarded then (if pristine d then BStart else BRestart) else BStart
  end.
(* what the raft library does to the store on the first Ready after each (read off etcd raft v3.3.19 StartNode:
   becomeFollower(1, None); one ConfChange entry per peer appended at lastIndex+1 with term 1; committed = lastIndex) *)
Definition conf_entries (from : N) (peers : list N) : list entry :=
  map (fun p => {| e_term := 1; e_index := from + N.of_nat (fst p); e_data := 1000 + snd p; e_size := 4 |}) (combine (seq 0 (length peers)) peers).
Definition after_boot (b : boot) (peers : list N) (d : mem) : mem :=
  match b with
  | BRestart => d
  | BStart =>
      let es := conf_entries (m_last d + 1) peers in
      {| m_hard := {| h_term := 1; h_vote := 0; h_commit := m_last d + N.of_nat (length peers) |};
         m_snap := m_snap d; m_ents := m_ents d ++ es |}
  end.

(* ---- a replica joining a running group (partition.addNode) ---- *)
(* the peers the join path hands to the boot rule: none (the joiner takes the group's log), or - [passes_members] - the
   partition's replica list, as the allocator's first start does *)
Definition join_peers (passes_members : bool) (members : list N) : list N := if passes_members then members else [].
Definition join_boot (guarded passes_members : bool) (members : list N) (d : mem) : mem :=
  after_boot (boot_rule guarded (join_peers passes_members members) d) (join_peers passes_members members) d.
(* what a store holds as committed is what the group's log [g] holds at those positions *)
Definition committed_agrees (d g : mem) : Prop := forall i, 1 <= i <= h_commit (m_hard d) -> m_term d i = m_term g i.

(* ---- recovery of a partition ---- *)
(* the committed history as the state machine sees it: entry k (1-based) carries a change or nothing (conf / empty) *)
Definition history := list (option change).
Definition replay (s : sidx) (h : history) : sidx :=
  fold_left (fun s c => match c with Some ch => fst (p_apply sidx_ops s ch) | None => s end) h s.
Record durable := { d_commit : nat; d_snap_index : nat; d_snap_state : sidx; d_suffix : history (* entries after the snapshot index *) }.
(* Start(): load the snapshot; the raft library then re-delivers the entries (snapshot index, commit] *)
Definition recover (d : durable) : sidx := replay (d_snap_state d) (firstn (d_commit d - d_snap_index d) (d_suffix d)).
(* trySnapshot(lastApplied): snapshot of the current contents at the applied index, log compacted up to it *)
Definition take_snapshot (d : durable) (applied : nat) (state : sidx) : durable :=
  {| d_commit := d_commit d; d_snap_index := applied; d_snap_state := state; d_suffix := skipn (applied - d_snap_index d) (d_suffix d) |}.
