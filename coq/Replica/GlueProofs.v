(* Replica/GlueProofs.v — C05 glue obligations and C03 recovery. *)
From Verif Require Import Base.Prelude Store.Spec Store.Partition Wal.Model Replica.Glue.
Open Scope N_scope.

(* the order the source has after the fixes of this repository: leader sends first; then Save; apply snapshot; apply
   entries (which acknowledges); non-leaders send; Advance *)
Definition order_src : list lstep := [LSendIfLeader; LSave; LApplySnap; LApplyEntries; LSendIfNotLeader; LAdvance].

Definition saved (d : mem) (rd : ready) : mem := match m_save d (rd_hard rd) (rd_ents rd) (rd_snap rd) with Ok m => m | Err _ => d end.

Lemma exec_app d es1 es2 : exec d (es1 ++ es2) = fold_left exec_effect es2 (exec d es1).
Proof. unfold exec. apply fold_left_app. Qed.

Lemma fold_sends t ms : fold_left exec_effect (map ESend ms) t =
  {| t_durable := t_durable t; t_sent := t_sent t ++ map (fun m => (m, t_durable t)) ms; t_applied := t_applied t |}.
Proof.
  revert t. induction ms as [|m ms IH]; intros t; simpl.
  - rewrite app_nil_r. destruct t; auto.
  - rewrite IH. simpl. rewrite <- app_assoc. auto.
Qed.
Lemma fold_applies t es : fold_left exec_effect (map EApply es) t =
  {| t_durable := t_durable t; t_sent := t_sent t; t_applied := t_applied t ++ map (fun e => (e, t_durable t)) es |}.
Proof.
  revert t. induction es as [|e es IH]; intros t; simpl.
  - rewrite app_nil_r. destruct t; auto.
  - rewrite IH. simpl. rewrite <- app_assoc. auto.
Qed.

Definition snapE (rd : ready) : list effect := if is_empty_snap (rd_snap rd) then [] else [EApplySnap (rd_snap rd)].
Lemma iter_nonleader rd : iteration order_src false rd =
  [ESave (rd_hard rd) (rd_ents rd) (rd_snap rd)] ++ snapE rd ++ map EApply (rd_committed rd) ++ map ESend (rd_msgs rd) ++ [EAdvance].
Proof. unfold iteration, order_src, snapE. cbn [flat_map step_effects app]. rewrite ?app_nil_r. reflexivity. Qed.
Lemma iter_leader rd : iteration order_src true rd =
  map ESend (rd_msgs rd) ++ [ESave (rd_hard rd) (rd_ents rd) (rd_snap rd)] ++ snapE rd ++ map EApply (rd_committed rd) ++ [EAdvance].
Proof. unfold iteration, order_src, snapE. cbn [flat_map step_effects app]. rewrite ?app_nil_r. reflexivity. Qed.
Lemma fold_snapE t rd : fold_left exec_effect (snapE rd) t = t.
Proof. unfold snapE. destruct (is_empty_snap (rd_snap rd)); reflexivity. Qed.

(* a replica that is not the leader: every message of the iteration leaves after the Save, i.e. with the Ready's
   hard state, entries and snapshot durable; every entry is applied (and its proposer acknowledged) after the Save *)
Theorem nonleader_sends_after_save d rd :
  let t := exec d (iteration order_src false rd) in
  t_durable t = saved d rd /\
  t_sent t = map (fun m => (m, saved d rd)) (rd_msgs rd) /\
  t_applied t = map (fun e => (e, saved d rd)) (rd_committed rd).
Proof.
  cbv zeta. rewrite iter_nonleader. unfold exec. rewrite !fold_left_app. cbn [fold_left exec_effect t_durable t_sent t_applied].
  rewrite fold_snapE, fold_applies, fold_sends. cbn [t_durable t_sent t_applied app]. fold (saved d rd). auto.
Qed.

(* the leader branch: messages leave before the Save (safe only if a leader's Ready attests nothing new besides the
   commit index — the contract hypothesis monitored by the harness); entries are still applied after the Save *)
Theorem leader_applies_after_save d rd :
  let t := exec d (iteration order_src true rd) in
  t_durable t = saved d rd /\
  t_sent t = map (fun m => (m, d)) (rd_msgs rd) /\
  t_applied t = map (fun e => (e, saved d rd)) (rd_committed rd).
Proof.
  cbv zeta. rewrite iter_leader. unfold exec. rewrite !fold_left_app. rewrite fold_sends.
  cbn [fold_left exec_effect t_durable t_sent t_applied app].
  rewrite fold_snapE, fold_applies. cbn [t_durable t_sent t_applied app]. fold (saved d rd). auto.
Qed.

(* entries are applied in the order the library delivers them, each exactly once *)
Theorem applied_in_order d rd leader : map fst (t_applied (exec d (iteration order_src leader rd))) = rd_committed rd.
Proof.
  destruct leader.
  - destruct (leader_applies_after_save d rd) as (_ & _ & ->). rewrite map_map. simpl. apply map_id.
  - destruct (nonleader_sends_after_save d rd) as (_ & _ & ->). rewrite map_map. simpl. apply map_id.
Qed.

Theorem applied_after_save d rd leader e dur :
  In (e, dur) (t_applied (exec d (iteration order_src leader rd))) -> dur = saved d rd.
Proof.
  intros H. destruct leader.
  - destruct (leader_applies_after_save d rd) as (_ & _ & E). rewrite E in H.
    apply in_map_iff in H. destruct H as (x & Hx & _). congruence.
  - destruct (nonleader_sends_after_save d rd) as (_ & _ & E). rewrite E in H.
    apply in_map_iff in H. destruct H as (x & Hx & _). congruence.
Qed.

(* ---- boot ---- *)
Theorem guarded_boot_resumes peers d : pristine d = false -> after_boot (boot_rule true peers d) peers d = d.
Proof. intros H. unfold boot_rule. destruct peers; auto. rewrite H. auto. Qed.
Theorem guarded_boot_bootstraps_fresh peers d : peers <> [] -> pristine d = true -> boot_rule true peers d = BStart.
Proof. intros H P. unfold boot_rule. destruct peers; [congruence|]. rewrite P. auto. Qed.

(* the unguarded rule (before the fix): a store holding term 3, entries 1..5 with commit 3 comes back with term 1,
   commit 6 and a sixth entry of term 1 — older term, entries 4 and 5 declared committed, history forked *)
Definition used_store : mem :=
  {| m_hard := {| h_term := 3; h_vote := 1; h_commit := 3 |}; m_snap := empty_snap;
     m_ents := map (fun i => {| e_term := (if i <? 3 then 1 else 3); e_index := i; e_data := i; e_size := 4 |}) [0; 1; 2; 3; 4; 5] |}.
Theorem reboot_forks_refuted :
  m_hard (after_boot (boot_rule false [1] used_store) [1] used_store) = {| h_term := 1; h_vote := 0; h_commit := 6 |} /\
  m_last (after_boot (boot_rule false [1] used_store) [1] used_store) = 6 /\
  after_boot (boot_rule true [1] used_store) [1] used_store = used_store.
Proof. repeat split; vm_compute; reflexivity. Qed.

(* ---- join ---- *)
(* a joiner whose boot is given no peers keeps its store as it is; a pristine store holds nothing as committed, so it
   agrees with whatever log the group has (the leader then replicates that log to it) *)
Theorem join_takes_group_log guarded members d g : pristine d = true -> committed_agrees (join_boot guarded false members d) g.
Proof.
  intros P. unfold join_boot, join_peers, boot_rule, after_boot. intros i Hi. exfalso.
  unfold pristine, is_empty_hard in P. destruct (h_commit (m_hard d) =? 0) eqn:E.
  - apply N.eqb_eq in E. lia.
  - rewrite !Bool.andb_false_r in P. simpl in P. discriminate.
Qed.
(* handing the joiner the member list makes it bootstrap: it holds positions 1..|members| as committed with term 1,
   while a group that has elected a leader holds a later term there - two histories *)
Definition group_log_12 : mem :=
  {| m_hard := {| h_term := 2; h_vote := 1; h_commit := 5 |}; m_snap := empty_snap;
     m_ents := map (fun i => {| e_term := (if i <? 3 then (if i =? 0 then 0 else 1) else 2); e_index := i; e_data := i; e_size := 4 |}) [0; 1; 2; 3; 4; 5] |}.
Theorem join_with_members_forks_refuted :
  pristine mem_new = true /\ m_term (join_boot true true [1; 2; 3] mem_new) 3 = Ok 1 /\ m_term group_log_12 3 = Ok 2 /\
  h_commit (m_hard (join_boot true true [1; 2; 3] mem_new)) = 3 /\ ~ committed_agrees (join_boot true true [1; 2; 3] mem_new) group_log_12.
Proof.
  repeat split; try (vm_compute; reflexivity). intros H. specialize (H 3). vm_compute in H.
  assert (E : Ok 1 = Ok 2) by (apply H; split; discriminate). discriminate.
Qed.

(* ---- recovery ---- *)
Lemma replay_app s h1 h2 : replay s (h1 ++ h2) = replay (replay s h1) h2.
Proof. unfold replay. apply fold_left_app. Qed.

(* the durable state is consistent with the committed history [h] when the snapshot holds the contents after
   d_snap_index entries and the log suffix is the rest of the history *)
Definition snap_ok (h : history) (d : durable) : Prop :=
  (d_snap_index d <= d_commit d)%nat /\ (d_commit d <= length h)%nat /\
  d_snap_state d = replay sidx_empty (firstn (d_snap_index d) h) /\
  d_suffix d = skipn (d_snap_index d) h.

Lemma firstn_split {A} (l : list A) a c : (a <= c)%nat -> (c <= length l)%nat ->
  firstn c l = firstn a l ++ firstn (c - a) (skipn a l).
Proof.
  intros H1 H2. rewrite <- (firstn_skipn a l) at 1. rewrite firstn_app.
  rewrite firstn_length, Nat.min_l by lia. f_equal. apply firstn_all2. rewrite firstn_length. lia.
Qed.

(* restart: contents = the committed history up to the durable commit index, applied in order — nothing else *)
Theorem recover_exact h d : snap_ok h d -> recover d = replay sidx_empty (firstn (d_commit d) h).
Proof.
  intros (A & B & C & D). unfold recover. rewrite C, D, <- replay_app. f_equal. symmetry. apply firstn_split; auto.
Qed.

(* a snapshot taken at the applied index with the contents at that index keeps the durable state consistent *)
Lemma skipn_skipn_ {A} (l : list A) : forall a b, skipn a (skipn b l) = skipn (b + a) l.
Proof.
  induction l as [|x t IH]; intros a b.
  - destruct a, b; reflexivity.
  - destruct b; simpl; [reflexivity|apply IH].
Qed.
Theorem take_snapshot_ok h d applied : snap_ok h d -> (d_snap_index d <= applied)%nat -> (applied <= d_commit d)%nat ->
  snap_ok h (take_snapshot d applied (replay sidx_empty (firstn applied h))).
Proof.
  intros (A & B & C & D) H1 H2. unfold snap_ok, take_snapshot. simpl. repeat split; auto.
  rewrite D, skipn_skipn_. f_equal. lia.
Qed.

(* new entries are appended to the history and the log; the commit index only grows within the log *)
Theorem extend_ok h d new c' : snap_ok h d -> (d_commit d <= c')%nat -> (c' <= length (h ++ new))%nat ->
  snap_ok (h ++ new) {| d_commit := c'; d_snap_index := d_snap_index d; d_snap_state := d_snap_state d; d_suffix := d_suffix d ++ new |}.
Proof.
  intros (A & B & C & D) H1 H2. unfold snap_ok. simpl. repeat split; auto; try lia.
  - rewrite C. f_equal. rewrite firstn_app. replace (d_snap_index d - length h)%nat with O by lia. simpl. rewrite app_nil_r. auto.
  - rewrite D. rewrite skipn_app. replace (d_snap_index d - length h)%nat with O by lia. auto.
Qed.

(* an acknowledged entry (applied, hence at an index not above the durable commit index at that time, see
   nonleader_sends_after_save / leader_applies_after_save) is part of what recovery replays *)
Theorem acked_survive (h : history) d k : snap_ok h d -> (k < d_commit d)%nat ->
  nth_error (firstn (d_commit d) h) k = nth_error h k.
Proof.
  intros _ H. revert k H. generalize (d_commit d). intros c. revert h.
  induction c as [|c IH]; intros h k H; [lia|]. destruct h as [|x h]; simpl; [destruct k; auto|].
  destruct k; simpl; auto. apply IH. lia.
Qed.
