(* Replica/Run.v — C03 over whole runs: for every sequence of Readys that honours the raft library's contract and a
   crash between any two effects of the ready loop (sends, the durable write, each apply, Advance), every entry that
   has been applied - hence every acknowledged write - is in the durable log at or below the durable commit index. *)
From Verif Require Import Base.Prelude Store.Spec Store.Partition Wal.Model Replica.Glue Replica.GlueProofs.
From Coq Require Import ZifyN ZifyNat ZifyBool.
Open Scope N_scope.

Definition dent : entry := {| e_term := 0; e_index := 0; e_data := 0; e_size := 0 |}.
Definition contiguous (l : list entry) (off : N) : Prop :=
  forall k, (k < length l)%nat -> e_index (nth k l dent) = off + N.of_nat k.
Record wfm (m : mem) : Prop := {
  wf_ne : m_ents m <> [];
  wf_cont : contiguous (m_ents m) (m_offset m);
  wf_commit : m_offset m <= h_commit (m_hard m) }.
Definition pos (m : mem) (e : entry) : nat := N.to_nat (e_index e - m_offset m).
(* the entry sits in the durable log at its index, above the snapshot and at or below the durable commit index:
   a restart re-delivers it (C03_recover_exact replays the log up to the commit index) *)
Definition durable_has (m : mem) (e : entry) : Prop :=
  m_offset m < e_index e /\ e_index e <= h_commit (m_hard m) /\ (pos m e < length (m_ents m))%nat /\ nth (pos m e) (m_ents m) dent = e.

(* the raft library's side of the contract for one Ready delivered when the store holds [d]: no incoming snapshot
   (that case replaces the log: C04/C08), new entries are consecutive, start no later than the end of the log and above
   the commit index (a committed entry is never overwritten), the commit index does not go back, and what the Ready
   delivers as committed is stable once this Ready is saved *)
Record ready_ok (d : mem) (rd : ready) : Prop := {
  ro_nosnap : is_empty_snap (rd_snap rd) = true;
  ro_ents : match rd_ents rd with
            | [] => True
            | e0 :: _ => h_commit (m_hard d) < e_index e0 /\ e_index e0 <= m_last d + 1 /\ contiguous (rd_ents rd) (e_index e0)
            end;
  ro_hard : is_empty_hard (rd_hard rd) = true \/ h_commit (m_hard d) <= h_commit (rd_hard rd);
  ro_comm : forall e, In e (rd_committed rd) -> durable_has (saved d rd) e }.

Lemma app_split {A} (X Y p r : list A) : X ++ Y = p ++ r ->
  (exists z, X = p ++ z /\ r = z ++ Y) \/ (exists z, p = X ++ z /\ Y = z ++ r).
Proof.
  revert p. induction X as [|x X IH]; intros p H; simpl in H.
  - right. exists p. auto.
  - destruct p as [|a p]; simpl in H.
    + left. exists (x :: X). subst r. auto.
    + injection H as <- H. destruct (IH p H) as [(z & -> & ->)|(z & -> & ->)]; [left|right]; exists z; auto.
Qed.
Lemma nth_firstn_lt {A} (l : list A) : forall n k d, (k < n)%nat -> nth k (firstn n l) d = nth k l d.
Proof. induction l as [|a l IH]; intros [|n] [|k] d H; simpl; auto; try lia. apply IH. lia. Qed.

Definition new_ents (d : mem) (es : list entry) : list entry :=
  match es with [] => m_ents d | e0 :: _ => firstn (N.to_nat (e_index e0 - m_offset d)) (m_ents d) ++ es end.

Lemma saved_form d rd : wfm d -> ready_ok d rd ->
  m_ents (saved d rd) = new_ents d (rd_ents rd) /\ m_snap (saved d rd) = m_snap d /\
  m_hard (saved d rd) = (if is_empty_hard (rd_hard rd) then m_hard d else rd_hard rd).
Proof.
  intros W R. unfold saved, m_save. rewrite (ro_nosnap _ _ R). pose proof (ro_ents _ _ R) as RE. pose proof (wf_commit _ W) as WC.
  assert (A : m_ents (m_append d (rd_ents rd)) = new_ents d (rd_ents rd) /\ m_snap (m_append d (rd_ents rd)) = m_snap d /\ m_hard (m_append d (rd_ents rd)) = m_hard d).
  { unfold m_append, new_ents. destruct (rd_ents rd) as [|e0 t] eqn:E; [auto|]. destruct RE as (R1 & R2 & R3).
    unfold m_first. cbn [length]. rewrite Nat2N.inj_succ.
    destruct (N.ltb_spec (e_index e0 + N.succ (N.of_nat (length t)) - 1) (m_offset d + 1)); [lia|].
    destruct (N.ltb_spec (e_index e0) (m_offset d + 1)); [lia|]. cbn [m_ents m_snap m_hard]. auto. }
  destruct A as (A1 & A2 & A3). destruct (is_empty_hard (rd_hard rd)); cbn [m_ents m_snap m_hard]; auto.
Qed.

Lemma m_offset_firstn d n t : m_ents d <> [] -> (0 < n)%nat ->
  match firstn n (m_ents d) ++ t with e :: _ => e_index e | [] => 0 end = m_offset d.
Proof. unfold m_offset. destruct (m_ents d) as [|a l]; [congruence|]. destruct n; [lia|]. reflexivity. Qed.

Lemma saved_offset d rd : wfm d -> ready_ok d rd -> m_offset (saved d rd) = m_offset d.
Proof.
  intros W R. destruct (saved_form d rd W R) as (E & _ & _). unfold m_offset at 1. rewrite E. unfold new_ents.
  pose proof (ro_ents _ _ R) as RE. destruct (rd_ents rd) as [|e0 t]; [reflexivity|]. destruct RE as (R1 & _ & _).
  apply m_offset_firstn; [apply (wf_ne _ W)|]. pose proof (wf_commit _ W). lia.
Qed.
Lemma last_len d : m_ents d <> [] -> m_last d + 1 = m_offset d + N.of_nat (length (m_ents d)).
Proof. intros H. unfold m_last. destruct (m_ents d); [congruence|]. cbn [length]. lia. Qed.

Lemma saved_wf d rd : wfm d -> ready_ok d rd -> wfm (saved d rd).
Proof.
  intros W R. destruct (saved_form d rd W R) as (E & _ & EH). pose proof (saved_offset d rd W R) as EO.
  pose proof (ro_ents _ _ R) as RE. pose proof (wf_commit _ W) as WC. pose proof (last_len d (wf_ne _ W)) as LL.
  constructor.
  - rewrite E. unfold new_ents. destruct (rd_ents rd) as [|e0 t]; [apply (wf_ne _ W)|]. intros H. apply app_eq_nil in H. destruct H; discriminate.
  - rewrite EO, E. unfold new_ents. destruct (rd_ents rd) as [|e0 t] eqn:EE; [apply (wf_cont _ W)|]. destruct RE as (R1 & R2 & R3).
    set (off := N.to_nat (e_index e0 - m_offset d)).
    assert (Lf : length (firstn off (m_ents d)) = off) by (apply firstn_length_le; unfold off; lia).
    intros k Hk. rewrite app_length, Lf in Hk. destruct (Nat.ltb_spec k off) as [Hlt|Hge].
    + rewrite app_nth1 by lia. rewrite nth_firstn_lt by auto. apply (wf_cont _ W). lia.
    + rewrite app_nth2 by lia. rewrite Lf. rewrite (R3 (k - off)%nat) by lia. unfold off in *. lia.
  - rewrite EO, EH. destruct (ro_hard _ _ R) as [H|H]; [rewrite H; auto|]. destruct (is_empty_hard (rd_hard rd)); lia.
Qed.

(* what was durable and committed stays so: a later Ready appends above the commit index and never lowers it *)
Lemma saved_keeps d rd e : wfm d -> ready_ok d rd -> durable_has d e -> durable_has (saved d rd) e.
Proof.
  intros W R (H1 & H2 & H3 & H4). destruct (saved_form d rd W R) as (E & _ & EH). pose proof (saved_offset d rd W R) as EO.
  pose proof (ro_ents _ _ R) as RE. pose proof (last_len d (wf_ne _ W)) as LL.
  assert (Hc : h_commit (m_hard d) <= h_commit (m_hard (saved d rd))).
  { rewrite EH. destruct (ro_hard _ _ R) as [H|H]; [rewrite H; lia|]. destruct (is_empty_hard (rd_hard rd)); lia. }
  unfold durable_has, pos in *. rewrite EO, E. unfold new_ents. split; [auto|]. split; [lia|].
  destruct (rd_ents rd) as [|e0 t]; [auto|]. destruct RE as (R1 & R2 & R3).
  set (off := N.to_nat (e_index e0 - m_offset d)). set (p := N.to_nat (e_index e - m_offset d)) in *.
  assert (Lf : length (firstn off (m_ents d)) = off) by (apply firstn_length_le; unfold off; lia).
  assert (Hp : (p < off)%nat) by (unfold p, off; lia).
  split; [rewrite app_length, Lf; lia|]. rewrite app_nth1 by lia. rewrite nth_firstn_lt by auto. exact H4.
Qed.

(* ---- runs and crash points ---- *)
Definition run_effects (rds : list (bool * ready)) : list effect := flat_map (fun lr => iteration order_src (fst lr) (snd lr)) rds.
Inductive run_ok : mem -> list (bool * ready) -> Prop :=
| run_nil d : run_ok d []
| run_cons d l rd rest : ready_ok d rd -> run_ok (saved d rd) rest -> run_ok d ((l, rd) :: rest).

(* the invariant at every instant: the store is well formed and holds every applied entry as committed *)
Definition TI (t : trace) : Prop := wfm (t_durable t) /\ forall e dur, In (e, dur) (t_applied t) -> durable_has (t_durable t) e.

Lemma fold_sends_TI t ms : TI t -> TI (fold_left exec_effect (map ESend ms) t) /\ t_durable (fold_left exec_effect (map ESend ms) t) = t_durable t.
Proof. intros H. rewrite fold_sends. split; [exact H|reflexivity]. Qed.
Lemma fold_applies_TI t cs : TI t -> (forall e, In e cs -> durable_has (t_durable t) e) ->
  TI (fold_left exec_effect (map EApply cs) t) /\ t_durable (fold_left exec_effect (map EApply cs) t) = t_durable t.
Proof.
  intros [W A] H. rewrite fold_applies. split; [|reflexivity]. split; [exact W|]. cbn [t_applied t_durable]. intros e dur Hin.
  apply in_app_or in Hin. destruct Hin as [Hin|Hin]; [eapply A; eauto|]. apply in_map_iff in Hin. destruct Hin as (x & Ex & Hx).
  injection Ex as <- _. auto.
Qed.
Lemma save_TI t rd : TI t -> ready_ok (t_durable t) rd ->
  TI (exec_effect t (ESave (rd_hard rd) (rd_ents rd) (rd_snap rd))) /\
  t_durable (exec_effect t (ESave (rd_hard rd) (rd_ents rd) (rd_snap rd))) = saved (t_durable t) rd.
Proof.
  intros [W A] R. cbn [exec_effect t_durable t_applied]. fold (saved (t_durable t) rd). split; [|reflexivity]. split.
  - apply saved_wf; auto.
  - intros e dur Hin. apply saved_keeps; auto. eapply A; eauto.
Qed.

(* a crash inside one iteration of the ready loop: after any prefix of its effects the invariant holds *)
Lemma iter_prefix_TI t l rd p r : TI t -> ready_ok (t_durable t) rd -> iteration order_src l rd = p ++ r ->
  TI (fold_left exec_effect p t) /\ (r = [] -> t_durable (fold_left exec_effect p t) = saved (t_durable t) rd).
Proof.
  intros T R E. assert (SN : snapE rd = []) by (unfold snapE; rewrite (ro_nosnap _ _ R); reflexivity).
  set (sv := ESave (rd_hard rd) (rd_ents rd) (rd_snap rd)) in *.
  (* prefixes of a block of sends / of applies *)
  assert (PS : forall t0 ms q z, map ESend ms = q ++ z -> TI t0 -> TI (fold_left exec_effect q t0) /\ t_durable (fold_left exec_effect q t0) = t_durable t0).
  { intros t0 ms q z Em T0. apply map_eq_app in Em. destruct Em as (m1 & m2 & _ & <- & _). apply fold_sends_TI; auto. }
  assert (PA : forall t0 cs q z, map EApply cs = q ++ z -> TI t0 -> (forall e, In e cs -> durable_has (t_durable t0) e) ->
               TI (fold_left exec_effect q t0) /\ t_durable (fold_left exec_effect q t0) = t_durable t0).
  { intros t0 cs q z Em T0 H0. apply map_eq_app in Em. destruct Em as (c1 & c2 & -> & <- & _). apply fold_applies_TI; auto.
    intros e He. apply H0. apply in_or_app. auto. }
  destruct (save_TI t rd T R) as [Ts Ds]. fold sv in Ts, Ds.
  assert (CM : forall e, In e (rd_committed rd) -> durable_has (t_durable (exec_effect t sv)) e) by (intros e He; rewrite Ds; apply (ro_comm _ _ R); auto).
  destruct l.
  - (* leader: sends, Save, applies, Advance *)
    rewrite iter_leader, SN in E. cbn [app] in E. fold sv in E.
    destruct (app_split _ _ _ _ E) as [(z & E1 & ->)|(z & -> & E1)].
    + destruct (PS t _ _ _ E1 T) as [T1 _]. split; [exact T1|]. intros H. apply app_eq_nil in H. destruct H; discriminate.
    + rewrite fold_left_app. destruct (fold_sends_TI t (rd_msgs rd) T) as [T1 D1]. set (t1 := fold_left exec_effect (map ESend (rd_msgs rd)) t) in *.
      assert (R1 : ready_ok (t_durable t1) rd) by (rewrite D1; exact R).
      destruct z as [|a z]; [cbn [fold_left]; split; [exact T1|intros ->; discriminate]|].
      simpl in E1. injection E1 as <- E1. cbn [fold_left]. destruct (save_TI t1 rd T1 R1) as [T2 D2]. fold sv in T2, D2.
      set (t2 := exec_effect t1 sv) in *.
      assert (CM2 : forall e, In e (rd_committed rd) -> durable_has (t_durable t2) e) by (intros e He; rewrite D2, D1; apply (ro_comm _ _ R); auto).
      destruct (app_split _ _ _ _ E1) as [(y & E2 & ->)|(y & -> & E2)].
      * destruct (PA t2 _ _ _ E2 T2 CM2) as [T3 _]. split; [exact T3|]. intros H. apply app_eq_nil in H. destruct H; discriminate.
      * rewrite fold_left_app. destruct (fold_applies_TI t2 (rd_committed rd) T2 CM2) as [T3 D3].
        set (t3 := fold_left exec_effect (map EApply (rd_committed rd)) t2) in *.
        destruct y as [|b y]; [cbn [fold_left]; split; [exact T3|intros ->; discriminate]|].
        simpl in E2. injection E2 as <- E2. destruct y; [|discriminate]. cbn [fold_left exec_effect].
        split; [exact T3|]. intros _. rewrite D3, D2, D1. reflexivity.
  - (* not the leader: Save, applies, sends, Advance *)
    rewrite iter_nonleader, SN in E. cbn [app] in E. fold sv in E.
    destruct p as [|a p]; [cbn [fold_left]; split; [exact T|intros ->; discriminate]|].
    injection E as <- E. cbn [fold_left]. set (t2 := exec_effect t sv) in *.
    destruct (app_split _ _ _ _ E) as [(y & E2 & ->)|(y & -> & E2)].
    + destruct (PA t2 _ _ _ E2 Ts CM) as [T3 _]. split; [exact T3|]. intros H. apply app_eq_nil in H. destruct H as [_ H]. apply app_eq_nil in H. destruct H; discriminate.
    + rewrite fold_left_app. destruct (fold_applies_TI t2 (rd_committed rd) Ts CM) as [T3 D3].
      set (t3 := fold_left exec_effect (map EApply (rd_committed rd)) t2) in *.
      destruct (app_split _ _ _ _ E2) as [(x & E3 & ->)|(x & -> & E3)].
      * destruct (PS t3 _ _ _ E3 T3) as [T4 _]. split; [exact T4|]. intros H. apply app_eq_nil in H. destruct H; discriminate.
      * rewrite fold_left_app. destruct (fold_sends_TI t3 (rd_msgs rd) T3) as [T4 D4].
        set (t4 := fold_left exec_effect (map ESend (rd_msgs rd)) t3) in *.
        destruct x as [|b x]; [cbn [fold_left]; split; [exact T4|intros ->; discriminate]|].
        simpl in E3. injection E3 as <- E3. destruct x; [|discriminate]. cbn [fold_left exec_effect].
        split; [exact T4|]. intros _. rewrite D4, D3. exact Ds.
Qed.

(* THE RUN-LEVEL STATEMENT.  For every store that is well formed, every run of Readys that honours the contract, and
   every crash point - after any prefix [p] of the effects of the whole run (between two sends, before or after a durable
   write, between two applies, before or after Advance): every entry applied so far is in the durable log at its index,
   at or below the durable commit index.  (Applying an entry is what releases the caller: every acknowledged write is
   there.) *)
Theorem acked_durable_at_every_crash : forall rds d p r, wfm d -> run_ok d rds -> run_effects rds = p ++ r ->
  let t := exec d p in
  wfm (t_durable t) /\ forall e dur, In (e, dur) (t_applied t) -> durable_has (t_durable t) e.
Proof.
  intros rds d p r W RO E. cbv zeta. unfold exec.
  assert (G : forall rds t p r, TI t -> run_ok (t_durable t) rds -> run_effects rds = p ++ r -> TI (fold_left exec_effect p t)).
  { clear. induction rds as [|[l rd] rest IH]; intros t p r T RO E.
    - simpl in E. destruct p; [exact T|discriminate].
    - inversion RO as [|? ? ? ? R RO']; subst. unfold run_effects in E. cbn [flat_map fst snd] in E. fold (run_effects rest) in E.
      destruct (app_split _ _ _ _ E) as [(z & E1 & ->)|(z & -> & E1)].
      + apply (iter_prefix_TI t l rd p z T R E1).
      + rewrite fold_left_app. destruct (iter_prefix_TI t l rd (iteration order_src l rd) [] T R) as [T1 D1]; [rewrite app_nil_r; reflexivity|].
        apply (IH _ z r T1); [rewrite (D1 eq_refl); exact RO'|exact E1]. }
  apply (G rds _ p r); auto. split; [exact W|]. intros e dur [].
Qed.
