(* Replica/Run.v — C03 over whole runs: for every sequence of Readys that honours the raft library's contract and a
   crash between any two effects of the ready loop (sends, the durable write, each apply, Advance), every entry that
   has been applied - hence every acknowledged write - is in the durable log at or below the durable commit index. *)
From Verif Require Import Base.Prelude Store.Spec Store.Partition Wal.Model Replica.Glue Replica.GlueProofs.
From Coq Require Import ZifyN ZifyNat ZifyBool.
Open Scope N_scope.

Definition dent : entry := {| e_term := 0; e_index := 0; e_data := 0; e_size := 0 |}.
Definition contiguous (l : list entry) (off : N) : Prop :=
  forall k, (k < length l)%nat -> e_index (nth k l dent) = off + N.of_nat k.
Record wfm (m : mem) : Prop := {
  wf_ne : m_ents m <> [];
  wf_cont : contiguous (m_ents m) (m_offset m);
  wf_commit : m_offset m <= h_commit (m_hard m) }.
Definition pos (m : mem) (e : entry) : nat := N.to_nat (e_index e - m_offset m).
(* the entry sits in the durable log at its index, above the snapshot and at or below the durable commit index:
   a restart re-delivers it (C03_recover_exact replays the log up to the commit index) *)
Definition durable_has (m : mem) (e : entry) : Prop :=
  m_offset m < e_index e /\ e_index e <= h_commit (m_hard m) /\ (pos m e < length (m_ents m))%nat /\ nth (pos m e) (m_ents m) dent = e.

(* the raft library's side of the contract for one Ready delivered when the store holds [d]: no incoming snapshot
   (that case replaces the log: C04/C08), new entries are consecutive, start no later than the end of the log and above
   the commit index (a committed entry is never overwritten), the commit index does not go back, and what the Ready
   delivers as committed is stable once this Ready is saved *)
Record ready_ok (d : mem) (rd : ready) : Prop := {
  ro_nosnap : is_empty_snap (rd_snap rd) = true;
  ro_ents : match rd_ents rd with
            | [] => True
            | e0 :: _ => h_commit (m_hard d) < e_index e0 /\ e_index e0 <= m_last d + 1 /\ contiguous (rd_ents rd) (e_index e0)
            end;
  ro_hard : is_empty_hard (rd_hard rd) = true \/ h_commit (m_hard d) <= h_commit (rd_hard rd);
  ro_comm : forall e, In e (rd_committed rd) -> durable_has (saved d rd) e }.

Lemma app_split {A} (X Y p r : list A) : X ++ Y = p ++ r ->
  (exists z, X = p ++ z /\ r = z ++ Y) \/ (exists z, p = X ++ z /\ Y = z ++ r).
Proof.
  revert p. induction X as [|x X IH]; intros p H; simpl in H.
  - right. exists p. auto.
  - destruct p as [|a p]; simpl in H.
    + left. exists (x :: X). subst r. auto.
    + injection H as <- H. destruct (IH p H) as [(z & -> & ->)|(z & -> & ->)]; [left|right]; exists z; auto.
Qed.
Lemma nth_firstn_lt {A} (l : list A) : forall n k d, (k < n)%nat -> nth k (firstn n l) d = nth k l d.
Proof. induction l as [|a l IH]; intros [|n] [|k] d H; simpl; auto; try lia. apply IH. lia. Qed.

Definition new_ents (d : mem) (es : list entry) : list entry :=
  match es with [] => m_ents d | e0 :: _ => firstn (N.to_nat (e_index e0 - m_offset d)) (m_ents d) ++ es end.

Lemma saved_form d rd : wfm d -> ready_ok d rd ->
  m_ents (saved d rd) = new_ents d (rd_ents rd) /\ m_snap (saved d rd) = m_snap d /\
  m_hard (saved d rd) = (if is_empty_hard (rd_hard rd) then m_hard d else rd_hard rd).
Proof.
  intros W R. unfold saved, m_save. rewrite (ro_nosnap _ _ R). pose proof (ro_ents _ _ R) as RE. pose proof (wf_commit _ W) as WC.
  assert (A : m_ents (m_append d (rd_ents rd)) = new_ents d (rd_ents rd) /\ m_snap (m_append d (rd_ents rd)) = m_snap d /\ m_hard (m_append d (rd_ents rd)) = m_hard d).
  { unfold m_append, new_ents. destruct (rd_ents rd) as [|e0 t] eqn:E; [auto|]. destruct RE as (R1 & R2 & R3).
    unfold m_first. cbn [length]. rewrite Nat2N.inj_succ.
    destruct (N.ltb_spec (e_index e0 + N.succ (N.of_nat (length t)) - 1) (m_offset d + 1)); [lia|].
    destruct (N.ltb_spec (e_index e0) (m_offset d + 1)); [lia|]. cbn [m_ents m_snap m_hard]. auto. }
  destruct A as (A1 & A2 & A3). destruct (is_empty_hard (rd_hard rd)); cbn [m_ents m_snap m_hard]; auto.
Qed.
