(* Routing/Model.v — utils.UuidMod and the owner computation of storage/dataset.go (C10). Executable, no proofs. *)
From Verif Require Import Base.Prelude.
Open Scope N_scope.

Definition two64 : N := 2 ^ 64.

(* binary.LittleEndian.Uint64 over 8 bytes *)
Fixpoint le_bytes (bs : list N) : N :=
  match bs with [] => 0 | b :: r => b + 256 * le_bytes r end.

(* res := (le(x[:8]) % mod) + (le(x[8:]) % mod)   (uint64 addition wraps);  return res % mod *)
Definition uuid_mod (lo hi m : N) : N := (((lo mod m) + (hi mod m)) mod two64) mod m.

(* Go panics with "integer divide by zero" when mod = 0 *)
Definition uuid_mod_go (id : list N) (m : N) : option N :=
  if m =? 0 then None else Some (uuid_mod (le_bytes (firstn 8 id)) (le_bytes (skipn 8 id)) m).

(* the dataset routes an id to partitions[UuidMod(id, uint64(partition_count))] — every write path *)
Inductive path := PInsert | PUpdate | PRemove | PBatchInsert | PBatchUpdate | PBatchRemove.
Definition owner (p : path) (id : list N) (partition_count : N) : option N := uuid_mod_go id partition_count.

(* a dataset as a vector of partition states; one write is applied at the owner only *)
Section Dataset.
  Context {P : Type} (apply : path -> P -> list N -> P).
  Definition ds_write (parts : list P) (p : path) (id : list N) : option (list P) :=
    match owner p id (N.of_nat (length parts)) with
    | None => None
    | Some o => match nth_error parts (N.to_nat o) with
                | None => None
                | Some st => Some (upd parts (N.to_nat o) (apply p st id))
                end
    end.
End Dataset.

(* groupBatchItemsByPartition: the items of a batch grouped under their owners (a Go map from partition to the items
   appended in batch order; here an association list, groups in order of first appearance) - one worker per group *)
Fixpoint add_to_group (o : N) (it : list N) (gs : list (N * list (list N))) : list (N * list (list N)) :=
  match gs with
  | [] => [(o, [it])]
  | (o', g) :: t => if o' =? o then (o', g ++ [it]) :: t else (o', g) :: add_to_group o it t
  end.
Definition group_batch (p : path) (n : N) (items : list (list N)) : option (list (N * list (list N))) :=
  fold_left (fun acc it => match acc, owner p it n with
                           | Some gs, Some o => Some (add_to_group o it gs)
                           | _, _ => None
                           end) items (Some []).
Definition owned_by (p : path) (n o : N) (it : list N) : bool :=
  match owner p it n with Some o' => o' =? o | None => false end.

(* checker used by the harness: (id bytes, m, observed) *)
Definition route_case_ok (c : list N * N * option N) : bool :=
  let '(id, m, obs) := c in
  match uuid_mod_go id m, obs with
  | None, None => true
  | Some a, Some b => a =? b
  | _, _ => false
  end.
(* property oracle on the observation alone: in range *)
Definition route_oracle_ok (c : list N * N * option N) : bool :=
  let '(id, m, obs) := c in
  match obs with None => m =? 0 | Some b => b <? m end.

Fixpoint bad_idx {A} (f : A -> bool) (l : list A) (i : nat) : list nat :=
  match l with [] => [] | a :: t => if f a then bad_idx f t (S i) else i :: bad_idx f t (S i) end.
