(* Routing/Proofs.v — range, value and locality of the routing function. *)
From Verif Require Import Base.Prelude Routing.Model.
From Coq Require Import ZifyN ZifyBool.
Ltac Zify.zify_post_hook ::= Z.div_mod_to_equations.
Open Scope N_scope.

Lemma uuid_mod_range lo hi m : 0 < m -> uuid_mod lo hi m < m.
Proof. intros H. unfold uuid_mod. apply N.mod_lt. lia. Qed.

Lemma two64_val : two64 = 18446744073709551616.
Proof. reflexivity. Qed.

(* no wrap-around for any partition count up to 2^63 (a uint32 count is far below): the plain residue of lo+hi *)
Lemma uuid_mod_value lo hi m : 0 < m -> m <= 2 ^ 63 -> uuid_mod lo hi m = (lo + hi) mod m.
Proof.
  intros H0 H1. unfold uuid_mod.
  assert (A : lo mod m < m) by (apply N.mod_lt; lia).
  assert (B : hi mod m < m) by (apply N.mod_lt; lia).
  assert (E : 2 ^ 63 = 9223372036854775808) by reflexivity. rewrite E in H1. clear E.
  assert (S : lo mod m + hi mod m < two64).
  { rewrite two64_val. generalize dependent (lo mod m). generalize dependent (hi mod m). intros; lia. }
  rewrite (N.mod_small _ _ S).
  rewrite <- N.add_mod by lia. reflexivity.
Qed.

(* routing depends on nothing but the id bytes and the count: any two evaluations agree (stability), whatever
   the path and whichever node evaluates it *)
Lemma owner_paths p q id n : owner p id n = owner q id n.
Proof. reflexivity. Qed.

Lemma owner_total p id n : 0 < n -> exists o, owner p id n = Some o /\ o < n.
Proof.
  intros H. unfold owner, uuid_mod_go. destruct (N.eqb_spec n 0); [lia|].
  eexists; split; [reflexivity|]. apply uuid_mod_range; auto.
Qed.

Lemma owner_zero p id : owner p id 0 = None.
Proof. reflexivity. Qed.

Section Locality.
  Context {P : Type} (apply : path -> P -> list N -> P).

  (* a write changes exactly the owner partition *)
  Lemma ds_write_local parts p id parts' :
    ds_write apply parts p id = Some parts' ->
    exists o, owner p id (N.of_nat (length parts)) = Some o /\
      length parts' = length parts /\
      forall i, i <> N.to_nat o -> nth_error parts' i = nth_error parts i.
  Proof.
    unfold ds_write. destruct (owner p id (N.of_nat (length parts))) as [o|] eqn:E; [|discriminate].
    destruct (nth_error parts (N.to_nat o)) as [st|] eqn:E2; [|discriminate].
    intros H; inversion H; subst. exists o. split; auto. split; [apply upd_length|].
    intros i Hi. clear -Hi. revert i Hi. generalize (N.to_nat o) as k. generalize (apply p st id) as x.
    induction parts as [|a t IH]; intros x k i Hi; destruct k, i; simpl; auto; try lia.
  Qed.

  Lemma ds_write_total parts p id : parts <> [] -> exists parts', ds_write apply parts p id = Some parts'.
  Proof.
    intros H. unfold ds_write.
    destruct (owner_total p id (N.of_nat (length parts))) as (o & E & L).
    { destruct parts; [congruence|simpl; lia]. }
    rewrite E. destruct (nth_error parts (N.to_nat o)) eqn:E2; eauto.
    apply nth_error_None in E2. lia.
  Qed.
End Locality.

(* ---- batch grouping: every item goes to the group of its owner, once, in batch order; one group per owner ---- *)
Fixpoint glook (o : N) (gs : list (N * list (list N))) : option (list (list N)) :=
  match gs with [] => None | (o', g) :: t => if o' =? o then Some g else glook o t end.

Lemma glook_add_same o it gs :
  glook o (add_to_group o it gs) = Some (match glook o gs with Some g => g ++ [it] | None => [it] end).
Proof.
  induction gs as [|[o' g] t IH]; simpl; [rewrite N.eqb_refl; reflexivity|].
  destruct (o' =? o) eqn:E; simpl; rewrite E; auto.
Qed.
Lemma glook_add_other o o1 it gs : o1 <> o -> glook o1 (add_to_group o it gs) = glook o1 gs.
Proof.
  intros Hne. induction gs as [|[o' g] t IH]; simpl.
  - destruct (N.eqb_spec o o1); [congruence|reflexivity].
  - destruct (N.eqb_spec o' o) as [->|Hn]; simpl.
    + destruct (N.eqb_spec o o1); [congruence|reflexivity].
    + destruct (o' =? o1); auto.
Qed.
Lemma add_keys_in o it gs x : In x (map fst (add_to_group o it gs)) <-> x = o \/ In x (map fst gs).
Proof.
  induction gs as [|[o' g] t IH]; simpl; [intuition|].
  destruct (N.eqb_spec o' o) as [->|Hn]; simpl; [intuition|]. rewrite IH. intuition.
Qed.
Lemma add_keys_nodup o it gs : NoDup (map fst gs) -> NoDup (map fst (add_to_group o it gs)).
Proof.
  induction gs as [|[o' g] t IH]; simpl; intros ND; [repeat constructor; auto|].
  inversion ND as [|? ? Hnin ND']; subst. destruct (N.eqb_spec o' o) as [->|Hn]; simpl; [constructor; auto|].
  constructor; [|auto]. rewrite add_keys_in. intros [E|H]; [congruence|auto].
Qed.
Lemma glook_in o g gs : NoDup (map fst gs) -> (In (o, g) gs <-> glook o gs = Some g).
Proof.
  induction gs as [|[o' g'] t IH]; simpl; intros ND; [split; [tauto|discriminate]|].
  inversion ND as [|? ? Hnin ND']; subst. destruct (N.eqb_spec o' o) as [->|Hn].
  - split; [intros [H|H]; [congruence|]|intros H; left; congruence].
    exfalso. apply Hnin. apply in_map_iff. exists (o, g). auto.
  - rewrite <- (IH ND'). split; [intros [H|H]; [congruence|auto]|auto].
Qed.

Section Group.
  Variable p : path.
  Variable n : N.
  Let own := owned_by p n.
  Definition spec_group (o : N) (l : list (list N)) : option (list (list N)) :=
    match filter (own o) l with [] => None | g => Some g end.
  Definition GI (l : list (list N)) (gs : list (N * list (list N))) : Prop :=
    NoDup (map fst gs) /\ forall o, glook o gs = spec_group o l.

  Lemma own_true o it : own o it = true <-> owner p it n = Some o.
  Proof.
    unfold own, owned_by. destruct (owner p it n) as [o'|]; split; intros H; try discriminate.
    - apply N.eqb_eq in H. subst. reflexivity.
    - injection H as ->. apply N.eqb_refl.
  Qed.
  Lemma GI_step l gs x ox : GI l gs -> owner p x n = Some ox -> GI (l ++ [x]) (add_to_group ox x gs).
  Proof.
    intros [ND G] Hx. split; [apply add_keys_nodup; auto|]. intros o. unfold spec_group. rewrite filter_app. simpl.
    destruct (N.eq_dec o ox) as [->|Hne].
    - rewrite glook_add_same, G. unfold spec_group. rewrite (proj2 (own_true ox x) Hx).
      destruct (filter (own ox) l) as [|a t]; reflexivity.
    - rewrite glook_add_other by auto. rewrite G. unfold spec_group.
      destruct (own o x) eqn:E; [apply own_true in E; congruence|]. rewrite app_nil_r. reflexivity.
  Qed.
  Lemma GI_fold (Hn : 0 < n) items : forall l gs, GI l gs ->
    exists gs', fold_left (fun acc it => match acc, owner p it n with
                                         | Some gs, Some o => Some (add_to_group o it gs) | _, _ => None end) items (Some gs) = Some gs' /\
                GI (l ++ items) gs'.
  Proof.
    induction items as [|x t IH]; intros l gs H; simpl.
    - exists gs. rewrite app_nil_r. auto.
    - destruct (owner_total p x n Hn) as (ox & Ex & _). rewrite Ex.
      destruct (IH (l ++ [x]) _ (GI_step l gs x ox H Ex)) as (gs' & F & G'). exists gs'. rewrite <- app_assoc in G'. auto.
  Qed.

  (* the groups are exactly the non-empty owner classes of the batch, each in batch order, one per owner: every item is
     handed to one worker - its owner's - and to no other *)
  Theorem group_batch_spec items : 0 < n ->
    exists gs, group_batch p n items = Some gs /\ NoDup (map fst gs) /\
      (forall o g, In (o, g) gs <-> g <> [] /\ g = filter (own o) items) /\
      (forall it, In it items -> exists o g, owner p it n = Some o /\ In (o, g) gs /\ In it g) /\
      (forall o g it, In (o, g) gs -> In it g -> In it items /\ owner p it n = Some o).
  Proof.
    intros Hn. destruct (GI_fold Hn items [] []) as (gs & F & ND & G).
    { split; [constructor|]. intros o. reflexivity. }
    simpl in G. exists gs. split; [exact F|]. split; [exact ND|].
    assert (Char : forall o g, In (o, g) gs <-> g <> [] /\ g = filter (own o) items).
    { intros o g. rewrite (glook_in o g gs ND), G. unfold spec_group. destruct (filter (own o) items) as [|a t] eqn:E.
      - split; [discriminate|]. intros [H1 H2]. congruence.
      - split; [intros H; injection H as <-; split; [discriminate|reflexivity]|intros [_ ->]; reflexivity]. }
    split; [exact Char|]. split.
    - intros it Hit. destruct (owner_total p it n Hn) as (o & Eo & _). exists o, (filter (own o) items).
      assert (Hin : In it (filter (own o) items)) by (apply filter_In; split; auto; apply own_true; auto).
      split; auto. split; auto. apply Char. split; auto. intros E. rewrite E in Hin. destruct Hin.
    - intros o g it Hg Hit. apply Char in Hg. destruct Hg as [_ ->]. apply filter_In in Hit. destruct Hit as [H1 H2].
      split; auto. apply own_true; auto.
  Qed.
End Group.
