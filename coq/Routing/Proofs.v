(* Routing/Proofs.v — range, value and locality of the routing function. *)
From Verif Require Import Base.Prelude Routing.Model.
From Coq Require Import ZifyN ZifyBool.
Ltac Zify.zify_post_hook ::= Z.div_mod_to_equations.
Open Scope N_scope.

Lemma uuid_mod_range lo hi m : 0 < m -> uuid_mod lo hi m < m.
Proof. intros H. unfold uuid_mod. apply N.mod_lt. lia. Qed.

Lemma two64_val : two64 = 18446744073709551616.
Proof. reflexivity. Qed.

(* no wrap-around for any partition count up to 2^63 (a uint32 count is far below): the plain residue of lo+hi *)
Lemma uuid_mod_value lo hi m : 0 < m -> m <= 2 ^ 63 -> uuid_mod lo hi m = (lo + hi) mod m.
Proof.
  intros H0 H1. unfold uuid_mod.
  assert (A : lo mod m < m) by (apply N.mod_lt; lia).
  assert (B : hi mod m < m) by (apply N.mod_lt; lia).
  assert (E : 2 ^ 63 = 9223372036854775808) by reflexivity. rewrite E in H1. clear E.
  assert (S : lo mod m + hi mod m < two64).
  { rewrite two64_val. generalize dependent (lo mod m). generalize dependent (hi mod m). intros; lia. }
  rewrite (N.mod_small _ _ S).
  rewrite <- N.add_mod by lia. reflexivity.
Qed.

(* routing depends on nothing but the id bytes and the count: any two evaluations agree (stability), whatever
   the path and whichever node evaluates it *)
Lemma owner_paths p q id n : owner p id n = owner q id n.
Proof. reflexivity. Qed.

Lemma owner_total p id n : 0 < n -> exists o, owner p id n = Some o /\ o < n.
Proof.
  intros H. unfold owner, uuid_mod_go. destruct (N.eqb_spec n 0); [lia|].
  eexists; split; [reflexivity|]. apply uuid_mod_range; auto.
Qed.

Lemma owner_zero p id : owner p id 0 = None.
Proof. reflexivity. Qed.

Section Locality.
  Context {P : Type} (apply : path -> P -> list N -> P).

  (* a write changes exactly the owner partition *)
  Lemma ds_write_local parts p id parts' :
    ds_write apply parts p id = Some parts' ->
    exists o, owner p id (N.of_nat (length parts)) = Some o /\
      length parts' = length parts /\
      forall i, i <> N.to_nat o -> nth_error parts' i = nth_error parts i.
  Proof.
    unfold ds_write. destruct (owner p id (N.of_nat (length parts))) as [o|] eqn:E; [|discriminate].
    destruct (nth_error parts (N.to_nat o)) as [st|] eqn:E2; [|discriminate].
    intros H; inversion H; subst. exists o. split; auto. split; [apply upd_length|].
    intros i Hi. clear -Hi. revert i Hi. generalize (N.to_nat o) as k. generalize (apply p st id) as x.
    induction parts as [|a t IH]; intros x k i Hi; destruct k, i; simpl; auto; try lia.
  Qed.

  Lemma ds_write_total parts p id : parts <> [] -> exists parts', ds_write apply parts p id = Some parts'.
  Proof.
    intros H. unfold ds_write.
    destruct (owner_total p id (N.of_nat (length parts))) as (o & E & L).
    { destruct parts; [congruence|simpl; lia]. }
    rewrite E. destruct (nth_error parts (N.to_nat o)) eqn:E2; eauto.
    apply nth_error_None in E2. lia.
  Qed.
End Locality.
