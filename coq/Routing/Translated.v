(* Routing/Translated.v — utils.UuidMod as translated from utils/uuid.go on this run is the modelled hash. *)
From Verif Require Import Base.Prelude Routing.Model Generated.Translated.
Open Scope N_scope.

Lemma le_bytesN_eq l : le_bytesN l = le_bytes l.
Proof. induction l as [|b r IH]; [reflexivity|]. cbn [le_bytesN le_bytes]. rewrite IH. reflexivity. Qed.
Theorem go_UuidMod_is_model id m : go_UuidMod id m = uuid_mod_go id m.
Proof.
  unfold go_UuidMod, uuid_mod_go, uuid_mod. destruct (m =? 0); [reflexivity|].
  rewrite !le_bytesN_eq. reflexivity.
Qed.
