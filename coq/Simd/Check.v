(* Simd/Check.v — bit-exact comparison of the model with the three implementations. *)
From Coq Require Import ZArith List Bool.
From Verif Require Import Simd.Model.
Import ListNotations.
Open Scope Z_scope.

Record simd_case := { sc_a : list Z; sc_b : list Z; sc_aligned : bool; sc_native : list Z; sc_avx : list Z; sc_sse : list Z }.
Definition zlist_eqb (a b : list Z) : bool :=
  Nat.eqb (length a) (length b) && forallb (fun p => Z.eqb (fst p) (snd p)) (combine a b).
(* NaN results are compared as NaN (payload and sign of a NaN are not part of the value) *)
Definition is_nan_bits (z : Z) : bool := (Z.land z 2139095040 =? 2139095040) && negb (Z.land z 8388607 =? 0).
Definition res_eqb (a b : list Z) : bool :=
  Nat.eqb (length a) (length b) && forallb (fun p => Z.eqb (fst p) (snd p) || (is_nan_bits (fst p) && is_nan_bits (snd p))) (combine a b).
Definition simd_case_model_ok (c : simd_case) : bool :=
  let a := map of_bits (sc_a c) in let b := map of_bits (sc_b c) in
  res_eqb (map bits [native_euclid a b; native_manhattan a b; native_cosine a b]) (sc_native c) &&
  res_eqb (map bits [avx_euclid a b; avx_manhattan a b; avx_cosine a b]) (sc_avx c) &&
  res_eqb (map bits [sse_euclid (sc_aligned c) a b; sse_manhattan (sc_aligned c) a b; sse_cosine (sc_aligned c) a b]) (sc_sse c).
(* the Go side judges agreement up to rounding; here: results are never negative *)
Definition simd_case_oracle_ok (c : simd_case) : bool :=
  forallb (fun z => is_nan_bits z || (z <? 2147483648)) (sc_native c ++ sc_avx c ++ sc_sse c).
Fixpoint bad_idx {A} (f : A -> bool) (l : list A) (i : nat) : list nat :=
  match l with [] => [] | a :: t => if f a then bad_idx f t (S i) else i :: bad_idx f t (S i) end.
