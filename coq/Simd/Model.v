(* Simd/Model.v — the three distance kernel implementations over IEEE-754 binary32 (Flocq): the portable Go loops
   (index/space/native_impl.go), the AVX kernels (simd/cpp/avx.cpp as compiled into simd/avx/AVX_amd64.s) and the SSE
   kernels (simd/cpp/sse.cpp, simd/sse/SSE_amd64.s) with their Go wrappers (C15).  Executable; no proofs. *)
From Coq Require Import ZArith List Bool.
From Flocq Require Import IEEE754.BinarySingleNaN IEEE754.Binary IEEE754.Bits Core.Zaux.
Import ListNotations.
Open Scope Z_scope.

Definition f32 := binary32.
Definition fadd := b32_plus mode_NE.
Definition fsub := b32_minus mode_NE.
Definition fmul := b32_mult mode_NE.
Definition fdiv := b32_div mode_NE.
Definition fsqrt := b32_sqrt mode_NE.
Definition of_bits (z : Z) : f32 := b32_of_bits z.
Definition bits (x : f32) : Z := bits_of_b32 x.
Definition fzero : f32 := of_bits 0.
Definition fone : f32 := of_bits 1065353216.
(* |x|: the sign bit cleared (andps with 0x7fffffff; math.Abs; the ternary of sse.cpp/avx.cpp on non-NaN values) *)
Definition fabs (x : f32) : f32 := of_bits (Z.land (bits x) 2147483647).
(* float32(math.Sqrt(float64(x))): the binary64 square root of a binary32 value rounded back to binary32 is the
   correctly rounded binary32 square root (53 >= 2*24+2: double rounding is innocuous for sqrt) *)
Definition gsqrt := fsqrt.

(* per-element terms *)
Definition sq_diff (x y : f32) : f32 := let d := fsub x y in fmul d d.
Definition abs_diff (x y : f32) : f32 := fabs (fsub x y).
Definition sqrt_sq_diff (x y : f32) : f32 := fsqrt (sq_diff x y).          (* _mm*_sqrt_ps(_mm*_mul_ps(d, d)) *)

(* ---- the portable implementation: one accumulator, left to right ---- *)
Definition sum_seq (ts : list f32) (acc : f32) : f32 := fold_left fadd ts acc.
Definition terms (f : f32 -> f32 -> f32) (a b : list f32) : list f32 := map (fun p => f (fst p) (snd p)) (combine a b).
Definition native_euclid (a b : list f32) : f32 := gsqrt (sum_seq (terms sq_diff a b) fzero).
Definition native_manhattan (a b : list f32) : f32 := sum_seq (terms abs_diff a b) fzero.
Definition native_cosine (a b : list f32) : f32 :=
  let dot := sum_seq (terms fmul a b) fzero in
  let na := sum_seq (terms fmul a a) fzero in
  let nb := sum_seq (terms fmul b b) fzero in
  fabs (fsub fone (fdiv dot (fmul (gsqrt na) (gsqrt nb)))).

(* ---- the vector kernels: [w] lanes, each accumulating every w-th term of the body; the lanes are then summed
   ([hsum]) and the remaining terms added one by one ---- *)
Fixpoint chunks {A} (w : nat) (fuel : nat) (l : list A) : list (list A) :=
  match fuel with
  | O => []
  | S f => if Nat.leb w (length l) then firstn w l :: chunks w f (skipn w l) else []
  end.
Definition body_len (w n : nat) : nat := (n / w * w)%nat.
Definition lanes_step (acc ts : list f32) : list f32 := map (fun p => fadd (fst p) (snd p)) (combine acc ts).
Definition lanes (w : nat) (ts : list f32) : list f32 :=
  fold_left lanes_step (chunks w (length ts) (firstn (body_len w (length ts)) ts)) (repeat fzero w).
(* AVX _sum_vector: two hadd, then element 0 + element 4 *)
Definition hsum8 (v : list f32) : f32 :=
  let g i := nth i v fzero in
  fadd (fadd (fadd (g 0%nat) (g 1%nat)) (fadd (g 2%nat) (g 3%nat))) (fadd (fadd (g 4%nat) (g 5%nat)) (fadd (g 6%nat) (g 7%nat))).
(* SSE _sum_vector: v[0] + v[1] + v[2] + v[3] *)
Definition hsum4 (v : list f32) : f32 := let g i := nth i v fzero in fadd (fadd (fadd (g 0%nat) (g 1%nat)) (g 2%nat)) (g 3%nat).
Definition vsum (w : nat) (hsum : list f32 -> f32) (body tail : list f32) : f32 := sum_seq tail (hsum (lanes w body)).
Definition kernel_sum (w : nat) (hsum : list f32 -> f32) (fbody ftail : f32 -> f32 -> f32) (a b : list f32) : f32 :=
  let n := length a in
  let k := body_len w n in
  vsum w hsum (terms fbody (firstn k a) (firstn k b)) (terms ftail (skipn k a) (skipn k b)).

Definition vec_euclid w hsum a b : f32 := gsqrt (kernel_sum w hsum sq_diff sq_diff a b).
Definition vec_manhattan w hsum a b : f32 := kernel_sum w hsum sqrt_sq_diff abs_diff a b.
Definition vec_cosine w hsum a b : f32 :=
  let dot := kernel_sum w hsum fmul fmul a b in
  let na := kernel_sum w hsum fmul fmul a a in
  let nb := kernel_sum w hsum fmul fmul b b in
  fabs (fsub fone (fdiv dot (gsqrt (fmul na nb)))).

Definition avx_euclid := vec_euclid 8 hsum8.
Definition avx_manhattan := vec_manhattan 8 hsum8.
Definition avx_cosine := vec_cosine 8 hsum8.
(* the SSE implementation object uses its kernels on 16-byte aligned operands only *)
Definition sse_euclid (aligned : bool) a b := if aligned then vec_euclid 4 hsum4 a b else native_euclid a b.
Definition sse_manhattan (aligned : bool) a b := if aligned then vec_manhattan 4 hsum4 a b else native_manhattan a b.
Definition sse_cosine (aligned : bool) a b := if aligned then vec_cosine 4 hsum4 a b else native_cosine a b.

(* the element indices a vector kernel reads: the body in groups of w, then the tail *)
Definition body_reads (w n : nat) : list nat := flat_map (fun c => map (fun j => (c * w + j)%nat) (seq 0 w)) (seq 0 (n / w)).
Definition tail_reads (w n : nat) : list nat := seq (body_len w n) (n - body_len w n).
