(* Simd/NonNeg.v — C15: no distance is ever negative.  For every pair of vectors (any lengths, any values incl.
   infinities and NaNs) each of the nine kernels of the model — portable, AVX, SSE (aligned or not) x Euclidean,
   Manhattan, cosine — returns a NaN or a value whose sign bit is clear.  (Sums start at +0 and add squares, absolute
   values or square roots of squares; rounding to nearest never turns such a sum negative; the cosine wrapper clears
   the sign bit.) *)
From Coq Require Import ZArith List Bool Arith Lia Reals Lra.
From Flocq Require Import Core IEEE754.BinarySingleNaN IEEE754.Binary IEEE754.Bits.
From Verif Require Import Simd.Model.
Import ListNotations.

Definition nn (x : f32) : Prop := is_nan 24 128 x = true \/ Bsign 24 128 x = false.

Lemma B2R_nonneg (x : f32) : Bsign 24 128 x = false -> (0 <= B2R 24 128 x)%R.
Proof.
  destruct x as [s|s|s pl H|s m e H]; simpl; intros E; try lra. subst s. apply F2R_ge_0. simpl. lia.
Qed.
Lemma FF_inf_sign (r : f32) : B2FF 24 128 r = F754_infinity false -> Bsign 24 128 r = false.
Proof. destruct r; simpl; intros H; inversion H; auto. Qed.

Lemma nn_fadd x y : nn x -> nn y -> nn (fadd x y).
Proof.
  unfold nn, fadd, b32_plus. intros Hx Hy.
  destruct (is_finite 24 128 x) eqn:Fx; [destruct (is_finite 24 128 y) eqn:Fy|].
  - (* both finite *)
    assert (Sx : Bsign 24 128 x = false) by (destruct Hx as [N|S]; auto; destruct x; simpl in *; discriminate).
    assert (Sy : Bsign 24 128 y = false) by (destruct Hy as [N|S]; auto; destruct y; simpl in *; discriminate).
    match goal with |- context [Bplus ?p ?e ?h1 ?h2 ?n ?m x y] => pose proof (Bplus_correct p e h1 h2 n m x y Fx Fy) as C end.
    destruct (Rlt_bool _ _).
    + destruct C as (_ & _ & S). right. rewrite S. rewrite Sx, Sy.
      pose proof (B2R_nonneg x Sx). pose proof (B2R_nonneg y Sy).
      destruct (Rcompare_spec (B2R 24 128 x + B2R 24 128 y) 0); auto. lra.
    + destruct C as (C & _). rewrite Sx in C. right. apply FF_inf_sign. exact C.
  - (* y infinite or NaN *)
    destruct x as [sx|sx|sx plx Hplx|sx mx ex Hmx]; try discriminate; destruct y as [sy|sy|sy ply Hply|sy my ey Hmy]; try discriminate;
      simpl; auto; destruct Hy as [N|S]; simpl in *; auto; discriminate.
  - destruct x as [sx|sx|sx plx Hplx|sx mx ex Hmx]; try discriminate; destruct y as [sy|sy|sy ply Hply|sy my ey Hmy];
      simpl; auto; destruct Hx as [N|S]; simpl in *; try discriminate; subst; destruct Hy as [N'|S']; simpl in *; try discriminate; subst; auto.
Qed.

Lemma nn_fzero : nn fzero.
Proof. right. reflexivity. Qed.

Lemma nn_fmul_self d : nn (fmul d d).
Proof.
  unfold nn, fmul, b32_mult.
  match goal with |- context [Bmult ?p ?e ?h1 ?h2 ?n ?m d d] => pose proof (Bmult_correct p e h1 h2 n m d d) as C; set (r := Bmult p e h1 h2 n m d d) in * end.
  rewrite xorb_nilpotent in C. destruct (Rlt_bool _ _).
  - destruct C as (_ & _ & S). destruct (is_nan 24 128 r) eqn:N; auto.
  - right. apply FF_inf_sign. exact C.
Qed.

Lemma nn_fsqrt x : nn x -> nn (fsqrt x).
Proof.
  unfold nn, fsqrt, b32_sqrt. intros Hx.
  match goal with |- context [Bsqrt ?p ?e ?h1 ?h2 ?n ?m x] => pose proof (Bsqrt_correct p e h1 h2 n m x) as C; set (r := Bsqrt p e h1 h2 n m x) in * end.
  destruct C as (_ & _ & S). destruct (is_nan 24 128 r) eqn:N; auto. right. rewrite (S eq_refl).
  destruct Hx as [Nx|Sx]; auto. exfalso. subst r. destruct x; simpl in *; discriminate.
Qed.

(* clearing the sign bit *)
Lemma of_bits_sign z : (0 <= z < 2147483648)%Z -> Bsign 24 128 (of_bits z) = false.
Proof.
  intros Hz. unfold of_bits, b32_of_bits, binary_float_of_bits. rewrite Bsign_FF2B.
  unfold binary_float_of_bits_aux, split_bits.
  assert (E : (2 ^ 23 * 2 ^ 8 <=? z)%Z = false) by (apply Z.leb_gt; change (2 ^ 23 * 2 ^ 8)%Z with 2147483648%Z; lia).
  rewrite E. destruct (Zeq_bool _ _); [destruct (z mod 2 ^ 23)%Z; reflexivity|]. destruct (Zeq_bool _ _); [destruct (z mod 2 ^ 23)%Z; reflexivity|].
  destruct (z mod 2 ^ 23 + 2 ^ 23)%Z; reflexivity.
Qed.
Lemma nn_fabs x : nn (fabs x).
Proof.
  right. unfold fabs. apply of_bits_sign. change 2147483647%Z with (Z.ones 31). rewrite Z.land_ones by lia.
  pose proof (Z.mod_pos_bound (bits x) (2 ^ 31) ltac:(lia)). change (2 ^ 31)%Z with 2147483648%Z in *. lia.
Qed.

(* ---- sums of non-negative terms ---- *)
Lemma nn_sum_seq ts : forall acc, Forall nn ts -> nn acc -> nn (sum_seq ts acc).
Proof.
  unfold sum_seq. induction ts as [|t ts IH]; intros acc F A; simpl; auto. inversion F; subst. apply IH; auto. apply nn_fadd; auto.
Qed.
Lemma nn_terms (f : f32 -> f32 -> f32) a b : (forall x y, nn (f x y)) -> Forall nn (terms f a b).
Proof. intros H. unfold terms. apply Forall_forall. intros t Ht. apply in_map_iff in Ht. destruct Ht as (p & <- & _). apply H. Qed.
Lemma nn_lanes_step acc ts : Forall nn acc -> Forall nn ts -> Forall nn (lanes_step acc ts).
Proof.
  intros A T. unfold lanes_step. apply Forall_forall. intros r Hr. apply in_map_iff in Hr. destruct Hr as ([x y] & <- & Hp).
  rewrite Forall_forall in A, T. apply nn_fadd; [apply A; eapply in_combine_l; eauto|apply T; eapply in_combine_r; eauto].
Qed.
Lemma Forall_firstn {A} (P : A -> Prop) l : forall k, Forall P l -> Forall P (firstn k l).
Proof. induction l as [|a l IH]; intros [|k] F; simpl; auto; inversion F; subst; constructor; auto. Qed.
Lemma Forall_skipn {A} (P : A -> Prop) l : forall k, Forall P l -> Forall P (skipn k l).
Proof. induction l as [|a l IH]; intros [|k] F; simpl; auto; inversion F; subst; auto. Qed.
Lemma nn_chunks w : forall fuel ts, Forall nn ts -> Forall (Forall nn) (chunks w fuel ts).
Proof.
  induction fuel as [|f IH]; intros ts F; simpl; [constructor|]. destruct (Nat.leb w (length ts)); [|constructor].
  constructor; [apply Forall_firstn; auto|apply IH; apply Forall_skipn; auto].
Qed.
Lemma nn_lanes w ts : Forall nn ts -> Forall nn (lanes w ts).
Proof.
  intros F. unfold lanes.
  assert (G : forall cs acc, Forall (Forall nn) cs -> Forall nn acc -> Forall nn (fold_left lanes_step cs acc)).
  { induction cs as [|c cs IH]; intros acc C A; simpl; auto. inversion C; subst. apply IH; auto. apply nn_lanes_step; auto. }
  apply G; [apply nn_chunks; apply Forall_firstn; auto|]. apply Forall_forall. intros x Hx. apply repeat_spec in Hx. subst. apply nn_fzero.
Qed.
Lemma nn_nth v i : Forall nn v -> nn (nth i v fzero).
Proof.
  intros F. destruct (Nat.lt_ge_cases i (length v)) as [H|H]; [rewrite Forall_forall in F; apply F; apply nth_In; auto|].
  rewrite nth_overflow by auto. apply nn_fzero.
Qed.
Lemma nn_hsum8 v : Forall nn v -> nn (hsum8 v).
Proof. intros F. unfold hsum8. repeat apply nn_fadd; apply nn_nth; auto. Qed.
Lemma nn_hsum4 v : Forall nn v -> nn (hsum4 v).
Proof. intros F. unfold hsum4. repeat apply nn_fadd; apply nn_nth; auto. Qed.
Lemma nn_kernel_sum w hsum fb ft a b : (forall v, Forall nn v -> nn (hsum v)) -> (forall x y, nn (fb x y)) -> (forall x y, nn (ft x y)) ->
  nn (kernel_sum w hsum fb ft a b).
Proof.
  intros Hh Hb Ht. unfold kernel_sum, vsum. apply nn_sum_seq; [apply nn_terms; auto|]. apply Hh. apply nn_lanes. apply nn_terms; auto.
Qed.

Lemma nn_sq_diff x y : nn (sq_diff x y). Proof. unfold sq_diff. apply nn_fmul_self. Qed.
Lemma nn_abs_diff x y : nn (abs_diff x y). Proof. apply nn_fabs. Qed.
Lemma nn_sqrt_sq_diff x y : nn (sqrt_sq_diff x y). Proof. unfold sqrt_sq_diff. apply nn_fsqrt. apply nn_sq_diff. Qed.

(* every kernel of every implementation, for all vectors *)
Theorem never_negative a b al :
  nn (native_euclid a b) /\ nn (native_manhattan a b) /\ nn (native_cosine a b) /\
  nn (avx_euclid a b) /\ nn (avx_manhattan a b) /\ nn (avx_cosine a b) /\
  nn (sse_euclid al a b) /\ nn (sse_manhattan al a b) /\ nn (sse_cosine al a b).
Proof.
  assert (NE : nn (native_euclid a b)).
  { unfold native_euclid, gsqrt. apply nn_fsqrt. apply nn_sum_seq; [apply nn_terms; apply nn_sq_diff|apply nn_fzero]. }
  assert (NM : nn (native_manhattan a b)).
  { unfold native_manhattan. apply nn_sum_seq; [apply nn_terms; apply nn_abs_diff|apply nn_fzero]. }
  assert (NC : nn (native_cosine a b)) by (unfold native_cosine; apply nn_fabs).
  assert (VE : forall w hs, (forall v, Forall nn v -> nn (hs v)) -> nn (vec_euclid w hs a b)).
  { intros w hs H. unfold vec_euclid, gsqrt. apply nn_fsqrt. apply nn_kernel_sum; auto using nn_sq_diff. }
  assert (VM : forall w hs, (forall v, Forall nn v -> nn (hs v)) -> nn (vec_manhattan w hs a b)).
  { intros w hs H. unfold vec_manhattan. apply nn_kernel_sum; auto using nn_sqrt_sq_diff, nn_abs_diff. }
  assert (VC : forall w hs, nn (vec_cosine w hs a b)) by (intros; unfold vec_cosine; apply nn_fabs).
  split; [exact NE|]. split; [exact NM|]. split; [exact NC|]. split; [apply VE; apply nn_hsum8|]. split; [apply VM; apply nn_hsum8|].
  split; [apply VC|]. split; [unfold sse_euclid; destruct al; [apply VE; apply nn_hsum4|exact NE]|].
  split; [unfold sse_manhattan; destruct al; [apply VM; apply nn_hsum4|exact NM]|].
  unfold sse_cosine; destruct al; [apply VC|exact NC].
Qed.
(* in terms of the bit pattern the harness compares: a NaN or below 2^31 *)
