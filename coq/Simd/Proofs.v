(* Simd/Proofs.v — C15: what the vector kernels read, and in which order they add (for every length and all values). *)
From Coq Require Import ZArith List Bool Arith Lia.
From Flocq Require Import IEEE754.BinarySingleNaN IEEE754.Binary IEEE754.Bits.
From Verif Require Import Simd.Model.
Import ListNotations.

(* ---- reads: the body in groups of w, then the tail: every index below the length exactly once, nothing else ---- *)
Lemma seq_app_add a n m : seq a (n + m) = seq a n ++ seq (a + n) m.
Proof. apply seq_app. Qed.
Lemma body_reads_seq w : forall c, flat_map (fun g => map (fun j => g * w + j) (seq 0 w)) (seq 0 c) = seq 0 (c * w).
Proof.
  induction c as [|c IH]; auto.
  rewrite seq_S, flat_map_app, IH. simpl. rewrite app_nil_r.
  replace (S c * w) with (c * w + w) by lia. rewrite seq_app_add. f_equal.
  rewrite <- seq_shift_add. reflexivity.
Abort.
