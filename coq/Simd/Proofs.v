(* Simd/Proofs.v — C15: what the vector kernels read and in which order they add, for every length and all values. *)
From Coq Require Import ZArith List Bool Arith Lia.
From Flocq Require Import IEEE754.BinarySingleNaN IEEE754.Binary IEEE754.Bits.
From Verif Require Import Simd.Model.
Import ListNotations.
Local Open Scope nat_scope.

(* ---- reads: the body in groups of w, then the tail: every index below the length exactly once, in order ---- *)
Lemma seq_shift_by a w : map (fun j => a + j) (seq 0 w) = seq a w.
Proof.
  revert a. induction w as [|w IH]; intros a; auto. simpl. rewrite Nat.add_0_r. f_equal.
  rewrite <- seq_shift, map_map. rewrite <- (IH (S a)). apply map_ext. intros j. lia.
Qed.
Lemma body_reads_seq w c : flat_map (fun g => map (fun j => g * w + j) (seq 0 w)) (seq 0 c) = seq 0 (c * w).
Proof.
  induction c as [|c IH]; auto.
  rewrite seq_S, flat_map_app, IH. simpl. rewrite app_nil_r, seq_shift_by.
  replace (w + c * w) with (c * w + w) by lia. rewrite seq_app. reflexivity.
Qed.
Theorem reads_exact w n : 0 < w -> body_reads w n ++ tail_reads w n = seq 0 n.
Proof.
  intros Hw. unfold body_reads, tail_reads, body_len. rewrite body_reads_seq.
  pose proof (Nat.div_mod n w ltac:(lia)) as D. pose proof (Nat.mod_upper_bound n w ltac:(lia)) as M.
  assert (E : n = n / w * w + (n - n / w * w)) by lia. pose proof (seq_app (n / w * w) (n - n / w * w) 0) as SA. simpl in SA. rewrite <- SA, <- E. reflexivity.
Qed.
Corollary reads_in_bounds w n i : 0 < w -> In i (body_reads w n ++ tail_reads w n) -> i < n.
Proof. intros Hw H. rewrite reads_exact in H by auto. apply in_seq in H. lia. Qed.
Corollary reads_once w n : 0 < w -> NoDup (body_reads w n ++ tail_reads w n).
Proof. intros Hw. rewrite reads_exact by auto. apply seq_NoDup. Qed.

(* ---- order of the additions: lane j of the body is the left-to-right sum of the j-th element of every group ---- *)
Lemma lanes_step_length acc c : length c = length acc -> length (lanes_step acc c) = length acc.
Proof. intros H. unfold lanes_step. rewrite map_length, combine_length. lia. Qed.
Lemma lanes_step_nth acc c j : j < length acc -> length c = length acc ->
  nth j (lanes_step acc c) fzero = fadd (nth j acc fzero) (nth j c fzero).
Proof.
  intros Hj Hl. unfold lanes_step.
  rewrite (nth_indep _ fzero (fadd (fst (fzero, fzero)) (snd (fzero, fzero)))) by (rewrite map_length, combine_length; lia).
  rewrite (map_nth (fun p => fadd (fst p) (snd p)) (combine acc c) (fzero, fzero)). rewrite combine_nth by auto. reflexivity.
Qed.
Lemma lanes_fold_nth j : forall (cs : list (list f32)) acc, j < length acc -> Forall (fun c => length c = length acc) cs ->
  nth j (fold_left lanes_step cs acc) fzero = fold_left fadd (map (fun c => nth j c fzero) cs) (nth j acc fzero).
Proof.
  induction cs as [|c r IH]; intros acc Hj F; simpl; auto. inversion F; subst.
  rewrite IH.
  - rewrite lanes_step_nth by auto. reflexivity.
  - rewrite lanes_step_length; auto.
  - rewrite lanes_step_length by auto. auto.
Qed.
Lemma chunks_lengths {A} w : forall fuel (l : list A), Forall (fun c => length c = w) (chunks w fuel l).
Proof.
  induction fuel as [|f IH]; intros l; simpl; auto. destruct (Nat.leb_spec w (length l)); auto.
  constructor; auto. rewrite firstn_length. lia.
Qed.
Theorem lane_is_sequential w ts j : j < w ->
  nth j (lanes w ts) fzero =
  sum_seq (map (fun c => nth j c fzero) (chunks w (length ts) (firstn (body_len w (length ts)) ts))) fzero.
Proof.
  intros Hj. unfold lanes, sum_seq. rewrite lanes_fold_nth.
  - rewrite nth_repeat. reflexivity.
  - rewrite repeat_length. auto.
  - rewrite repeat_length. apply chunks_lengths.
Qed.

(* ---- below one group the kernels are the portable loop, bit for bit (every value, NaN and infinities included) ---- *)
Lemma fadd_zero_zero : fadd fzero fzero = fzero.
Proof. vm_compute. reflexivity. Qed.
Lemma short_body w (a : list f32) : length a < w -> body_len w (length a) = 0.
Proof. intros H. unfold body_len. rewrite Nat.div_small by auto. reflexivity. Qed.
Lemma short_kernel_sum8 fb ft a b : length a < 8 ->
  kernel_sum 8 hsum8 fb ft a b = sum_seq (terms ft a b) fzero.
Proof.
  intros H. unfold kernel_sum. rewrite (short_body 8 a H). simpl firstn. simpl skipn. unfold vsum, terms at 1. simpl combine. simpl map.
  unfold lanes. simpl. unfold hsum8. simpl. rewrite !fadd_zero_zero. reflexivity.
Qed.
Lemma short_kernel_sum4 fb ft a b : length a < 4 ->
  kernel_sum 4 hsum4 fb ft a b = sum_seq (terms ft a b) fzero.
Proof.
  intros H. unfold kernel_sum. rewrite (short_body 4 a H). simpl firstn. simpl skipn. unfold vsum, terms at 1. simpl combine. simpl map.
  unfold lanes. simpl. unfold hsum4. simpl. rewrite !fadd_zero_zero. reflexivity.
Qed.
Theorem avx_short_exact a b : length a < 8 ->
  avx_euclid a b = native_euclid a b /\ avx_manhattan a b = native_manhattan a b.
Proof.
  intros H. unfold avx_euclid, avx_manhattan, vec_euclid, vec_manhattan, native_euclid, native_manhattan.
  rewrite !short_kernel_sum8 by auto. auto.
Qed.
Theorem sse_short_exact al a b : length a < 4 ->
  sse_euclid al a b = native_euclid a b /\ sse_manhattan al a b = native_manhattan a b.
Proof.
  intros H. unfold sse_euclid, sse_manhattan. destruct al; auto. unfold vec_euclid, vec_manhattan, native_euclid, native_manhattan.
  rewrite !short_kernel_sum4 by auto. auto.
Qed.
(* on operands that are not 16-byte aligned the SSE implementation IS the portable one *)
Theorem sse_unaligned_is_native a b :
  sse_euclid false a b = native_euclid a b /\ sse_manhattan false a b = native_manhattan a b /\ sse_cosine false a b = native_cosine a b.
Proof. repeat split. Qed.

(* ---- where the kernels leave "up to rounding" (computed with Flocq's binary32) ---- *)
Local Open Scope Z_scope.
Definition fl (z : Z) := of_bits z.
(* 2^-80 and 0: |d| = 2^-80 for the portable loop; sqrt(d*d) = sqrt(0) = 0 in the vector body (d*d underflows) *)
Theorem manhattan_underflow_refuted :
  let a := repeat (fl 394264576) 8%nat in let b := repeat (fl 0) 8%nat in
  bits (native_manhattan a b) = 419430400 /\ bits (avx_manhattan a b) = 0 /\ bits (sse_manhattan true a b) = 0.
Proof. vm_compute. auto. Qed.
(* 2^70 and 0: finite for the portable loop, +Inf in the vector body (d*d overflows) *)
Theorem manhattan_overflow_refuted :
  let a := repeat (fl 1652555776) 8%nat in let b := repeat (fl 0) 8%nat in
  bits (native_manhattan a b) = 1677721600 /\ bits (avx_manhattan a b) = 2139095040 /\ bits (sse_manhattan true a b) = 2139095040.
Proof. vm_compute. auto. Qed.
(* cosine: the zero vector has no direction: NaN in every implementation; and norms whose product overflows *)
Theorem cosine_zero_vector_refuted :
  let z := repeat (fl 0) 8%nat in let v := repeat (fl 1065353216) 8%nat in
  is_nan 24 128 (native_cosine z v) = true /\ is_nan 24 128 (avx_cosine z v) = true /\ is_nan 24 128 (sse_cosine true z v) = true.
Proof. vm_compute. auto. Qed.
Theorem cosine_overflow_refuted :
  let v := repeat (fl 1518338048) 8%nat in     (* 2^54 in every component: |v|^2 = 2^111, |v|^2 |v|^2 = 2^222 overflows *)
  bits (native_cosine v v) = 872415232 (* 2^-23 *) /\ bits (avx_cosine v v) = 1065353216 (* 1.0 *) /\ bits (sse_cosine true v v) = 1065353216.
Proof. vm_compute. auto. Qed.
