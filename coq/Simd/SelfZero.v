(* Simd/SelfZero.v — C15: "zero between a vector and itself" for the Euclidean and Manhattan kernels.  For every vector
   of finite values (any length) all six kernels return exactly +0 on (a, a): x - x is +0 under round-to-nearest, its
   square, absolute value and square root are +0, and every accumulation of +0 terms stays +0.  (Not for cosine: there
   1 - dot/(|a||a|) is only close to 0 - compared with a tolerance by the harness; and not for infinities or NaNs,
   where x - x is a NaN.) *)
From Coq Require Import ZArith List Bool Arith Lia Reals Lra.
From Flocq Require Import Core IEEE754.BinarySingleNaN IEEE754.Binary IEEE754.Bits.
From Verif Require Import Simd.Model Simd.Proofs.
Import ListNotations.

Definition fin (x : f32) : Prop := is_finite 24 128 x = true.

Lemma fsub_self x : fin x -> fsub x x = fzero.
Proof.
  intros F. unfold fsub, b32_minus.
  match goal with |- Bminus ?p ?e ?h1 ?h2 ?n ?m x x = _ => pose proof (Bminus_correct p e h1 h2 n m x x F F) as C; set (r := Bminus p e h1 h2 n m x x) in * end.
  replace (B2R 24 128 x - B2R 24 128 x)%R with 0%R in C by lra.
  rewrite round_0 in C by auto with typeclass_instances. rewrite Rabs_R0 in C. rewrite Rlt_bool_true in C by apply bpow_gt_0.
  destruct C as (R & Fr & S). rewrite Rcompare_Eq in S by reflexivity.
  apply B2R_Bsign_inj; auto.
  - rewrite S. destruct (Bsign 24 128 x); reflexivity.
Qed.
Lemma sq_diff_self x : fin x -> sq_diff x x = fzero.
Proof. intros F. unfold sq_diff. rewrite fsub_self by auto. reflexivity. Qed.
Lemma abs_diff_self x : fin x -> abs_diff x x = fzero.
Proof. intros F. unfold abs_diff. rewrite fsub_self by auto. vm_compute. reflexivity. Qed.
Lemma sqrt_sq_diff_self x : fin x -> sqrt_sq_diff x x = fzero.
Proof. intros F. unfold sqrt_sq_diff. rewrite sq_diff_self by auto. reflexivity. Qed.

Definition zeros (l : list f32) : Prop := Forall (fun t => t = fzero) l.
Lemma terms_self f a : (forall x, fin x -> f x x = fzero) -> Forall fin a -> zeros (terms f a a).
Proof.
  intros H F. unfold zeros, terms. induction F as [|x l Fx Fl IH]; simpl; constructor; auto.
Qed.
Lemma sum_zeros ts : zeros ts -> sum_seq ts fzero = fzero.
Proof. unfold sum_seq. induction 1 as [|t ts Ht Hts IH]; simpl; auto. subst. rewrite fadd_zero_zero. exact IH. Qed.
Lemma zeros_firstn l : forall k, zeros l -> zeros (firstn k l).
Proof. unfold zeros. induction l as [|a l IH]; intros [|k] F; simpl; auto; inversion F; subst; constructor; auto. Qed.
Lemma zeros_skipn l : forall k, zeros l -> zeros (skipn k l).
Proof. unfold zeros. induction l as [|a l IH]; intros [|k] F; simpl; auto; inversion F; subst; auto. Qed.
Lemma lanes_step_zeros acc ts : zeros acc -> zeros ts -> zeros (lanes_step acc ts).
Proof.
  unfold zeros, lanes_step. intros A. revert ts. induction A as [|x acc Hx Hacc IH]; intros ts T; simpl; [constructor|].
  destruct ts as [|t ts]; simpl; [constructor|]. inversion T; subst. constructor; [apply fadd_zero_zero|apply IH; auto].
Qed.
Lemma chunks_zeros w : forall fuel ts, zeros ts -> Forall zeros (chunks w fuel ts).
Proof.
  induction fuel as [|f IH]; intros ts F; simpl; [constructor|]. destruct (Nat.leb w (length ts)); [|constructor].
  constructor; [apply zeros_firstn; auto|apply IH; apply zeros_skipn; auto].
Qed.
Lemma lanes_zeros w ts : zeros ts -> zeros (lanes w ts).
Proof.
  intros F. unfold lanes.
  assert (G : forall cs acc, Forall zeros cs -> zeros acc -> zeros (fold_left lanes_step cs acc)).
  { induction cs as [|c cs IH]; intros acc C A; simpl; auto. inversion C; subst. apply IH; auto. apply lanes_step_zeros; auto. }
  apply G; [apply chunks_zeros; apply zeros_firstn; auto|]. unfold zeros. apply Forall_forall. intros x Hx. apply repeat_spec in Hx. auto.
Qed.
Lemma nth_zeros v i : zeros v -> nth i v fzero = fzero.
Proof.
  intros F. destruct (Nat.lt_ge_cases i (length v)) as [H|H]; [|apply nth_overflow; auto].
  unfold zeros in F. rewrite Forall_forall in F. apply F. apply nth_In. auto.
Qed.
Lemma hsum8_zeros v : zeros v -> hsum8 v = fzero.
Proof. intros F. unfold hsum8. rewrite !(nth_zeros v _ F). rewrite !fadd_zero_zero. reflexivity. Qed.
Lemma hsum4_zeros v : zeros v -> hsum4 v = fzero.
Proof. intros F. unfold hsum4. rewrite !(nth_zeros v _ F). rewrite !fadd_zero_zero. reflexivity. Qed.
Lemma terms_firstn_self f a k : terms f (firstn k a) (firstn k a) = firstn k (terms f a a).
Proof. unfold terms. revert k. induction a as [|x a IH]; intros [|k]; simpl; auto. f_equal. apply IH. Qed.
Lemma terms_skipn_self f a k : terms f (skipn k a) (skipn k a) = skipn k (terms f a a).
Proof. unfold terms. revert k. induction a as [|x a IH]; intros [|k]; simpl; auto. Qed.
Lemma kernel_sum_self w hsum fb ft a : (forall v, zeros v -> hsum v = fzero) ->
  (forall x, fin x -> fb x x = fzero) -> (forall x, fin x -> ft x x = fzero) -> Forall fin a -> kernel_sum w hsum fb ft a a = fzero.
Proof.
  intros Hh Hb Ht F. unfold kernel_sum, vsum. rewrite terms_firstn_self, terms_skipn_self.
  rewrite Hh by (apply lanes_zeros; apply zeros_firstn; apply terms_self; auto).
  apply sum_zeros. apply zeros_skipn. apply terms_self; auto.
Qed.

Theorem self_distance_zero a al : Forall fin a ->
  native_euclid a a = fzero /\ native_manhattan a a = fzero /\
  avx_euclid a a = fzero /\ avx_manhattan a a = fzero /\
  sse_euclid al a a = fzero /\ sse_manhattan al a a = fzero.
Proof.
  intros F.
  assert (NE : native_euclid a a = fzero) by (unfold native_euclid, gsqrt; rewrite sum_zeros by (apply terms_self; auto using sq_diff_self); reflexivity).
  assert (NM : native_manhattan a a = fzero) by (unfold native_manhattan; apply sum_zeros; apply terms_self; auto using abs_diff_self).
  assert (VE : forall w hs, (forall v, zeros v -> hs v = fzero) -> vec_euclid w hs a a = fzero).
  { intros w hs H. unfold vec_euclid, gsqrt. rewrite kernel_sum_self; auto using sq_diff_self. }
  assert (VM : forall w hs, (forall v, zeros v -> hs v = fzero) -> vec_manhattan w hs a a = fzero).
  { intros w hs H. unfold vec_manhattan. apply kernel_sum_self; auto using sqrt_sq_diff_self, abs_diff_self. }
  split; [exact NE|]. split; [exact NM|]. split; [apply VE; apply hsum8_zeros|]. split; [apply VM; apply hsum8_zeros|].
  split; [unfold sse_euclid; destruct al; [apply VE; apply hsum4_zeros|exact NE]|].
  unfold sse_manhattan; destruct al; [apply VM; apply hsum4_zeros|exact NM].
Qed.
