(* Simd/Symmetric.v — C15: "each distance is symmetric".  For every pair of equal-length vectors of finite values (any
   length) d(a, b) and d(b, a) are the same bit pattern, for Euclidean, Manhattan and cosine, in all three
   implementations (portable, AVX, SSE aligned or not).  x - y and y - x round to opposite values (round-to-nearest is
   symmetric), so their squares and absolute values coincide; products of finite numbers commute (the only asymmetric
   part of IEEE multiplication is which NaN payload is propagated); the squared norms are non-negative numbers, whose
   product commutes as well; every accumulation then adds the same terms in the same order.  NaN or infinite inputs
   are excluded: the payload of a propagated NaN depends on the operand order. *)
From Coq Require Import ZArith List Bool Arith Lia Reals Lra.
From Flocq Require Import Core IEEE754.BinarySingleNaN IEEE754.Binary IEEE754.Bits.
From Verif Require Import Simd.Model Simd.Proofs Simd.SelfZero.
Import ListNotations.

(* multiplication of finite numbers commutes (the NaN payload rule is the only asymmetric part of Bmult) *)
Lemma fmul_comm x y : fin x -> fin y -> fmul x y = fmul y x.
Proof.
  intros Fx Fy. unfold fmul, b32_mult.
  match goal with |- Bmult ?p ?e ?h1 ?h2 ?n ?m x y = _ =>
    pose proof (Bmult_correct p e h1 h2 n m x y) as C1; pose proof (Bmult_correct p e h1 h2 n m y x) as C2;
    set (r1 := Bmult p e h1 h2 n m x y) in *; set (r2 := Bmult p e h1 h2 n m y x) in * end.
  rewrite (Rmult_comm (B2R 24 128 y) (B2R 24 128 x)) in C2. rewrite (xorb_comm (Bsign 24 128 y)) in C2.
  destruct (Rlt_bool _ _).
  - destruct C1 as (R1 & F1 & S1). destruct C2 as (R2 & F2 & S2). unfold fin in *. rewrite Fx, Fy in F1, F2. simpl in F1, F2.
    apply B2R_Bsign_inj; auto; [congruence|].
    rewrite S1, S2; auto; [destruct r2; simpl in *; auto; discriminate|destruct r1; simpl in *; auto; discriminate].
  - apply B2FF_inj. congruence.
Qed.

(* x - y and y - x: both finite with opposite values, or infinities of opposite signs *)
Definition opp_pair (d d' : f32) : Prop :=
  (is_finite 24 128 d = true /\ is_finite 24 128 d' = true /\ B2R 24 128 d' = (- B2R 24 128 d)%R) \/
  (exists s, d = B754_infinity 24 128 s /\ d' = B754_infinity 24 128 (negb s)).
Lemma FF_inf (r : f32) s : B2FF 24 128 r = F754_infinity s -> r = B754_infinity 24 128 s.
Proof. destruct r; simpl; intros H; inversion H; auto. Qed.
Lemma fsub_swap x y : fin x -> fin y -> opp_pair (fsub x y) (fsub y x).
Proof.
  intros Fx Fy. unfold fsub, b32_minus.
  match goal with |- opp_pair (Bminus ?p ?e ?h1 ?h2 ?n ?m x y) _ =>
    pose proof (Bminus_correct p e h1 h2 n m x y Fx Fy) as C1; pose proof (Bminus_correct p e h1 h2 n m y x Fy Fx) as C2;
    set (d := Bminus p e h1 h2 n m x y) in *; set (d' := Bminus p e h1 h2 n m y x) in * end.
  replace (B2R 24 128 y - B2R 24 128 x)%R with (- (B2R 24 128 x - B2R 24 128 y))%R in C2 by lra.
  cbn [round_mode] in C1, C2. rewrite round_NE_opp in C2. rewrite Rabs_Ropp in C2.
  destruct (Rlt_bool _ _).
  - left. destruct C1 as (R1 & F1 & _). destruct C2 as (R2 & F2 & _). split; [auto|split; [auto|]]. rewrite R2, R1. reflexivity.
  - right. destruct C1 as (O1 & S1). destruct C2 as (O2 & S2). exists (Bsign 24 128 x).
    split; apply FF_inf; [rewrite O1|rewrite O2, S1, negb_involutive]; reflexivity.
Qed.

Lemma fmul_self_opp d d' : opp_pair d d' -> fmul d d = fmul d' d'.
Proof.
  intros [(F & F' & R)|(s & -> & ->)]; [|destruct s; reflexivity].
  unfold fmul, b32_mult.
  match goal with |- Bmult ?p ?e ?h1 ?h2 ?n ?m d d = _ =>
    pose proof (Bmult_correct p e h1 h2 n m d d) as C1; pose proof (Bmult_correct p e h1 h2 n m d' d') as C2;
    set (r1 := Bmult p e h1 h2 n m d d) in *; set (r2 := Bmult p e h1 h2 n m d' d') in * end.
  rewrite R in C2. replace (- B2R 24 128 d * - B2R 24 128 d)%R with (B2R 24 128 d * B2R 24 128 d)%R in C2 by lra.
  rewrite !xorb_nilpotent in C1, C2. destruct (Rlt_bool _ _).
  - destruct C1 as (R1 & F1 & S1). destruct C2 as (R2 & F2 & S2). rewrite F in F1. rewrite F' in F2. simpl in F1, F2.
    apply B2R_Bsign_inj; auto; [congruence|].
    rewrite S1, S2; auto; [destruct r2; simpl in *; auto; discriminate|destruct r1; simpl in *; auto; discriminate].
  - apply B2FF_inj. congruence.
Qed.
Lemma sq_diff_sym x y : fin x -> fin y -> sq_diff x y = sq_diff y x.
Proof. intros Fx Fy. unfold sq_diff. apply fmul_self_opp. apply fsub_swap; auto. Qed.

(* ---- symmetric term functions give symmetric kernels (equal-length vectors of finite values) ---- *)
Lemma terms_sym f a : forall b, (forall x y, fin x -> fin y -> f x y = f y x) -> Forall fin a -> Forall fin b -> terms f a b = terms f b a.
Proof.
  unfold terms. induction a as [|x a IH]; intros [|y b] H Fa Fb; simpl; auto. inversion Fa; inversion Fb; subst. f_equal; auto.
Qed.
Lemma Forall_firstn' {A} (P : A -> Prop) l k : Forall P l -> Forall P (firstn k l).
Proof. revert k. induction l as [|a l IH]; intros [|k] F; simpl; auto; inversion F; subst; constructor; auto. Qed.
Lemma Forall_skipn' {A} (P : A -> Prop) l k : Forall P l -> Forall P (skipn k l).
Proof. revert k. induction l as [|a l IH]; intros [|k] F; simpl; auto; inversion F; subst; auto. Qed.
Lemma kernel_sum_sym w hsum fb ft a b : length a = length b ->
  (forall x y, fin x -> fin y -> fb x y = fb y x) -> (forall x y, fin x -> fin y -> ft x y = ft y x) ->
  Forall fin a -> Forall fin b -> kernel_sum w hsum fb ft a b = kernel_sum w hsum fb ft b a.
Proof.
  intros L Hb Ht Fa Fb. unfold kernel_sum. rewrite <- L.
  rewrite (terms_sym fb (firstn _ a) (firstn _ b)) by (auto using Forall_firstn').
  rewrite (terms_sym ft (skipn _ a) (skipn _ b)) by (auto using Forall_skipn'). reflexivity.
Qed.
Theorem euclid_symmetric a b al : length a = length b -> Forall fin a -> Forall fin b ->
  native_euclid a b = native_euclid b a /\ avx_euclid a b = avx_euclid b a /\ sse_euclid al a b = sse_euclid al b a.
Proof.
  intros L Fa Fb.
  assert (N : native_euclid a b = native_euclid b a) by (unfold native_euclid; rewrite (terms_sym sq_diff a b) by (auto using sq_diff_sym); reflexivity).
  assert (V : forall w hs, vec_euclid w hs a b = vec_euclid w hs b a).
  { intros w hs. unfold vec_euclid. rewrite (kernel_sum_sym w hs sq_diff sq_diff a b) by (auto using sq_diff_sym). reflexivity. }
  split; [exact N|]. split; [apply V|]. unfold sse_euclid. destruct al; [apply V|exact N].
Qed.

(* ---- cosine: products commute, and so do the two squared norms ---- *)
Definition pos (x : f32) : Prop := is_nan 24 128 x = false /\ Bsign 24 128 x = false.
Lemma pos_fzero : pos fzero. Proof. split; reflexivity. Qed.
Lemma B2R_nonneg' (x : f32) : Bsign 24 128 x = false -> (0 <= B2R 24 128 x)%R.
Proof. destruct x as [s|s|s pl H|s m e H]; simpl; intros E; try lra. subst s. apply F2R_ge_0. simpl. lia. Qed.
Lemma pos_fadd x y : pos x -> pos y -> pos (fadd x y).
Proof.
  unfold pos, fadd, b32_plus. intros (Nx & Sx) (Ny & Sy).
  destruct (is_finite 24 128 x) eqn:Fx; [destruct (is_finite 24 128 y) eqn:Fy|].
  - match goal with |- context [Bplus ?p ?e ?h1 ?h2 ?n ?m x y] => pose proof (Bplus_correct p e h1 h2 n m x y Fx Fy) as C; set (r := Bplus p e h1 h2 n m x y) in * end.
    destruct (Rlt_bool _ _).
    + destruct C as (_ & F & S). split; [destruct r; simpl in *; auto; discriminate|]. rewrite S, Sx, Sy.
      pose proof (B2R_nonneg' x Sx). pose proof (B2R_nonneg' y Sy).
      destruct (Rcompare_spec (B2R 24 128 x + B2R 24 128 y) 0); auto. lra.
    + destruct C as (C & _). rewrite Sx in C. destruct r; simpl in C; inversion C; subst; split; reflexivity.
  - destruct x as [sx|sx|sx plx Hplx|sx mx ex Hmx]; try discriminate; destruct y as [sy|sy|sy ply Hply|sy my ey Hmy]; try discriminate;
      simpl in *; subst; split; reflexivity.
  - destruct x as [sx|sx|sx plx Hplx|sx mx ex Hmx]; try discriminate; destruct y as [sy|sy|sy ply Hply|sy my ey Hmy]; try discriminate;
      simpl in *; subst; split; reflexivity.
Qed.
Lemma pos_fmul_self x : fin x -> pos (fmul x x).
Proof.
  intros F. unfold pos, fmul, b32_mult.
  match goal with |- context [Bmult ?p ?e ?h1 ?h2 ?n ?m x x] => pose proof (Bmult_correct p e h1 h2 n m x x) as C; set (r := Bmult p e h1 h2 n m x x) in * end.
  rewrite xorb_nilpotent in C. destruct (Rlt_bool _ _).
  - destruct C as (_ & Fr & S). unfold fin in F. rewrite F in Fr. simpl in Fr.
    assert (N : is_nan 24 128 r = false) by (destruct r; simpl in *; auto; discriminate). split; auto.
  - destruct r; simpl in C; inversion C; subst; split; reflexivity.
Qed.
Lemma pos_fsqrt x : pos x -> pos (fsqrt x).
Proof.
  intros (N & S). unfold pos, fsqrt, b32_sqrt.
  match goal with |- context [Bsqrt ?p ?e ?h1 ?h2 ?n ?m x] => pose proof (Bsqrt_correct p e h1 h2 n m x) as C; set (r := Bsqrt p e h1 h2 n m x) in * end.
  destruct C as (_ & F & Sg).
  assert (Nr : is_nan 24 128 r = false).
  { destruct x as [s|s|s pl H|s m e H]; simpl in *; try discriminate; subst.
    - destruct r; simpl in *; auto; discriminate.
    - subst r. reflexivity.
    - destruct r; simpl in *; auto; discriminate. }
  split; auto. rewrite (Sg Nr). exact S.
Qed.
Lemma fmul_comm_pos x y : pos x -> pos y -> fmul x y = fmul y x.
Proof.
  intros (Nx & Sx) (Ny & Sy).
  destruct (is_finite 24 128 x) eqn:Fx; [destruct (is_finite 24 128 y) eqn:Fy|].
  - apply fmul_comm; auto.
  - destruct x as [sx|sx|sx plx Hplx|sx mx ex Hmx]; try discriminate; destruct y as [sy|sy|sy ply Hply|sy my ey Hmy]; try discriminate;
      simpl in *; subst; reflexivity.
  - destruct x as [sx|sx|sx plx Hplx|sx mx ex Hmx]; try discriminate; destruct y as [sy|sy|sy ply Hply|sy my ey Hmy]; try discriminate;
      simpl in *; subst; reflexivity.
Qed.

(* a predicate kept by addition is kept by every accumulation of the kernels *)
Section Closed.
  Variable Q : f32 -> Prop.
  Hypothesis Q_zero : Q fzero.
  Hypothesis Q_add : forall x y, Q x -> Q y -> Q (fadd x y).
  Lemma Q_sum_seq ts : forall acc, Forall Q ts -> Q acc -> Q (sum_seq ts acc).
  Proof. unfold sum_seq. induction ts as [|t ts IH]; intros acc F A; simpl; auto. inversion F; subst. apply IH; auto. Qed.
  Lemma Q_lanes_step acc ts : Forall Q acc -> Forall Q ts -> Forall Q (lanes_step acc ts).
  Proof.
    intros A T. unfold lanes_step. apply Forall_forall. intros r Hr. apply in_map_iff in Hr. destruct Hr as ([x y] & <- & Hp).
    rewrite Forall_forall in A, T. apply Q_add; [apply A; eapply in_combine_l; eauto|apply T; eapply in_combine_r; eauto].
  Qed.
  Lemma Q_chunks w : forall fuel ts, Forall Q ts -> Forall (Forall Q) (chunks w fuel ts).
  Proof.
    induction fuel as [|f IH]; intros ts F; simpl; [constructor|]. destruct (Nat.leb w (length ts)); [|constructor].
    constructor; [apply Forall_firstn'; auto|apply IH; apply Forall_skipn'; auto].
  Qed.
  Lemma Q_lanes w ts : Forall Q ts -> Forall Q (lanes w ts).
  Proof.
    intros F. unfold lanes.
    assert (G : forall cs acc, Forall (Forall Q) cs -> Forall Q acc -> Forall Q (fold_left lanes_step cs acc)).
    { induction cs as [|c cs IH]; intros acc C A; simpl; auto. inversion C; subst. apply IH; auto. apply Q_lanes_step; auto. }
    apply G; [apply Q_chunks; apply Forall_firstn'; auto|]. apply Forall_forall. intros x Hx. apply repeat_spec in Hx. subst. apply Q_zero.
  Qed.
  Lemma Q_nth v i : Forall Q v -> Q (nth i v fzero).
  Proof.
    intros F. destruct (Nat.lt_ge_cases i (length v)) as [H|H]; [rewrite Forall_forall in F; apply F; apply nth_In; auto|].
    rewrite nth_overflow by auto. apply Q_zero.
  Qed.
  Lemma Q_hsum8 v : Forall Q v -> Q (hsum8 v).
  Proof. intros F. unfold hsum8. repeat apply Q_add; apply Q_nth; auto. Qed.
  Lemma Q_hsum4 v : Forall Q v -> Q (hsum4 v).
  Proof. intros F. unfold hsum4. repeat apply Q_add; apply Q_nth; auto. Qed.
  Lemma Q_kernel_sum w hsum f a b : (forall v, Forall Q v -> Q (hsum v)) -> Forall Q (terms f (firstn (body_len w (length a)) a) (firstn (body_len w (length a)) b)) ->
    Forall Q (terms f (skipn (body_len w (length a)) a) (skipn (body_len w (length a)) b)) -> Q (kernel_sum w hsum f f a b).
  Proof. intros Hh Fb Ft. unfold kernel_sum, vsum. apply Q_sum_seq; auto. apply Hh. apply Q_lanes. auto. Qed.
End Closed.

Lemma terms_self_pos a : Forall fin a -> Forall pos (terms fmul a a).
Proof. intros F. unfold terms. induction F as [|x l Fx Fl IH]; simpl; constructor; auto. apply pos_fmul_self; auto. Qed.

Theorem cosine_symmetric a b al : length a = length b -> Forall fin a -> Forall fin b ->
  native_cosine a b = native_cosine b a /\ avx_cosine a b = avx_cosine b a /\ sse_cosine al a b = sse_cosine al b a.
Proof.
  intros L Fa Fb.
  assert (NS : forall v, Forall fin v -> pos (sum_seq (terms fmul v v) fzero)).
  { intros v Fv. apply (Q_sum_seq pos pos_fadd); [apply terms_self_pos; auto|apply pos_fzero]. }
  assert (N : native_cosine a b = native_cosine b a).
  { unfold native_cosine. rewrite (terms_sym fmul a b) by (auto using fmul_comm).
    rewrite (fmul_comm_pos (gsqrt (sum_seq (terms fmul a a) fzero)) (gsqrt (sum_seq (terms fmul b b) fzero))) by (apply pos_fsqrt; apply NS; auto).
    reflexivity. }
  assert (V : forall w hs, (forall v, Forall pos v -> pos (hs v)) -> vec_cosine w hs a b = vec_cosine w hs b a).
  { intros w hs Hh. unfold vec_cosine.
    assert (KS : forall v, Forall fin v -> pos (kernel_sum w hs fmul fmul v v)).
    { intros v Fv. apply (Q_kernel_sum pos pos_fzero pos_fadd); auto.
      - rewrite <- (firstn_skipn 0 (firstn (body_len w (length v)) v)) at 1 2. simpl. apply terms_self_pos. apply Forall_firstn'; auto.
      - apply terms_self_pos. apply Forall_skipn'; auto. }
    rewrite (kernel_sum_sym w hs fmul fmul a b) by (auto using fmul_comm).
    rewrite (fmul_comm_pos (kernel_sum w hs fmul fmul a a) (kernel_sum w hs fmul fmul b b)) by (apply KS; auto).
    reflexivity. }
  split; [exact N|]. split; [apply V; apply (Q_hsum8 pos pos_fzero pos_fadd)|].
  unfold sse_cosine. destruct al; [apply V; apply (Q_hsum4 pos pos_fzero pos_fadd)|exact N].
Qed.

(* ---- Manhattan: |x - y| = |y - x|; the sign-bit mask of the model is the structural "clear the sign" ---- *)
Definition withsign (s : bool) (x : f32) : f32 :=
  match x with
  | B754_zero _ _ _ => B754_zero 24 128 s
  | B754_infinity _ _ _ => B754_infinity 24 128 s
  | B754_nan _ _ _ pl H => B754_nan 24 128 s pl H
  | B754_finite _ _ _ m e H => B754_finite 24 128 s m e H
  end.
Lemma withsign_self x : withsign (Bsign 24 128 x) x = x.
Proof. destruct x; reflexivity. Qed.
Lemma bits_withsign s x : bits (withsign s x) = ((if s then 2147483648 else 0) + bits (withsign false x))%Z.
Proof.
  unfold bits, bits_of_b32, bits_of_binary_float. destruct x as [sx|sx|sx pl H|sx m e H]; cbn [withsign];
    try (destruct (Zle_bool 0 (Z.pos m - 2 ^ 23))); unfold join_bits; rewrite !Z.shiftl_mul_pow2 by lia; destruct s; lia.
Qed.
Lemma fabs_withsign x : fabs x = withsign false x.
Proof.
  unfold fabs. rewrite <- (withsign_self x) at 1. rewrite bits_withsign.
  pose proof (bits_of_binary_float_range 23 8 eq_refl eq_refl (withsign true x)) as R1.
  pose proof (bits_of_binary_float_range 23 8 eq_refl eq_refl (withsign false x)) as R0.
  fold bits_of_b32 in R1, R0. fold (bits (withsign true x)) in R1. fold (bits (withsign false x)) in R0.
  rewrite (bits_withsign true x) in R1. change (2 ^ (23 + 8 + 1))%Z with 4294967296%Z in *.
  change 2147483647%Z with (Z.ones 31). rewrite Z.land_ones by lia. change (2 ^ 31)%Z with 2147483648%Z.
  assert (E : (((if Bsign 24 128 x then 2147483648 else 0) + bits (withsign false x)) mod 2147483648 = bits (withsign false x))%Z).
  { destruct (Bsign 24 128 x).
    - replace (2147483648 + bits (withsign false x))%Z with (bits (withsign false x) + 1 * 2147483648)%Z by lia. rewrite Z_mod_plus_full. apply Z.mod_small. lia.
    - rewrite Z.add_0_l. apply Z.mod_small. lia. }
  rewrite E. unfold of_bits, bits, b32_of_bits, bits_of_b32. exact (binary_float_of_bits_of_binary_float 23 8 eq_refl eq_refl eq_refl (withsign false x)).
Qed.

Lemma B2R_withsign_false x : is_finite 24 128 x = true -> B2R 24 128 (withsign false x) = Rabs (B2R 24 128 x).
Proof.
  destruct x as [s|s|s pl H|s m e H]; simpl; intros F; try discriminate; [rewrite Rabs_R0; reflexivity|].
  rewrite <- F2R_Zabs. destruct s; reflexivity.
Qed.
Lemma fabs_opp d d' : opp_pair d d' -> fabs d = fabs d'.
Proof.
  rewrite !fabs_withsign. intros [(F & F' & R)|(s & -> & ->)]; [|reflexivity].
  apply B2R_Bsign_inj.
  - destruct d; simpl in *; auto.
  - destruct d'; simpl in *; auto.
  - rewrite !B2R_withsign_false by auto. rewrite R. symmetry. apply Rabs_Ropp.
  - destruct d, d'; reflexivity.
Qed.
Lemma abs_diff_sym x y : fin x -> fin y -> abs_diff x y = abs_diff y x.
Proof. intros Fx Fy. unfold abs_diff. apply fabs_opp. apply fsub_swap; auto. Qed.
Lemma sqrt_sq_diff_sym x y : fin x -> fin y -> sqrt_sq_diff x y = sqrt_sq_diff y x.
Proof. intros Fx Fy. unfold sqrt_sq_diff. rewrite (sq_diff_sym x y) by auto. reflexivity. Qed.

Theorem manhattan_symmetric a b al : length a = length b -> Forall fin a -> Forall fin b ->
  native_manhattan a b = native_manhattan b a /\ avx_manhattan a b = avx_manhattan b a /\ sse_manhattan al a b = sse_manhattan al b a.
Proof.
  intros L Fa Fb.
  assert (N : native_manhattan a b = native_manhattan b a) by (unfold native_manhattan; rewrite (terms_sym abs_diff a b) by (auto using abs_diff_sym); reflexivity).
  assert (V : forall w hs, vec_manhattan w hs a b = vec_manhattan w hs b a).
  { intros w hs. unfold vec_manhattan. apply kernel_sum_sym; auto using sqrt_sq_diff_sym, abs_diff_sym. }
  split; [exact N|]. split; [apply V|]. unfold sse_manhattan. destruct al; [apply V|exact N].
Qed.
