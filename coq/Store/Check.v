(* Store/Check.v — executable checkers for the partition state machine (C02, C04). *)
From Verif Require Import Base.Prelude Store.Spec Store.Partition.
Open Scope N_scope.

(* canonical forms: metadata sorted by key (lexicographic on bytes), contents sorted by id, batch errors by id *)
Fixpoint bytes_ltb (a b : bytes) : bool :=
  match a, b with
  | [], [] => false
  | [], _ => true
  | _, [] => false
  | x :: a', y :: b' => if x <? y then true else if y <? x then false else bytes_ltb a' b'
  end.
Fixpoint ins_sorted {A} (lt : A -> A -> bool) (x : A) (l : list A) : list A :=
  match l with [] => [x] | y :: t => if lt x y then x :: l else y :: ins_sorted lt x t end.
Definition sort_by {A} (lt : A -> A -> bool) (l : list A) : list A := fold_right (ins_sorted lt) [] l.
Definition canon_meta (m : meta) : meta := sort_by (fun a b => bytes_ltb (fst a) (fst b)) m.
Definition canon_items (l : list (N * item)) : list (N * item) :=
  sort_by (fun a b => fst a <? fst b) (map (fun '(id, (v, m)) => (id, (v, canon_meta m))) l).

Definition err_eqb (a b : err) : bool :=
  match a, b with ENone, ENone | EExists, EExists | ENotFound, ENotFound => true | _, _ => false end.
(* Go reports batch errors as a map id -> error: for an id failing several times the last error stays *)
Fixpoint dedup_last (l : list (N * err)) : list (N * err) :=
  match l with
  | [] => []
  | (id, e) :: t => if existsb (fun x => fst x =? id) t then dedup_last t else (id, e) :: dedup_last t
  end.
Definition canon_errs (l : list (N * err)) : list (N * err) := sort_by (fun a b => fst a <? fst b) (dedup_last l).

Fixpoint list_eqb {A} (e : A -> A -> bool) (l l' : list A) : bool :=
  match l, l' with [], [] => true | a :: t, b :: t' => e a b && list_eqb e t t' | _, _ => false end.
Definition vec_eqb := list_eqb N.eqb.
Definition kv_eqb (a b : bytes * bytes) := bytes_eqb (fst a) (fst b) && bytes_eqb (snd a) (snd b).
Definition meta_eqb := list_eqb kv_eqb.
Definition item_eqb (a b : N * item) := (fst a =? fst b) && vec_eqb (fst (snd a)) (fst (snd b)) && meta_eqb (snd (snd a)) (snd (snd b)).
Definition outcome_eqb (a b : outcome) : bool :=
  match a, b with
  | OSingle x, OSingle y => err_eqb x y
  | OBatch x, OBatch y => list_eqb (fun p q => (fst p =? fst q) && err_eqb (snd p) (snd q)) (canon_errs x) (canon_errs y)
  | _, _ => false
  end.

Record store_case := {
  sc_log : list change;
  sc_outs : list outcome;                  (* observed outcome per entry *)
  sc_counts : list (N * N);                (* observed (Len, data-bytes counter) after each entry *)
  sc_final : list (N * item)               (* observed contents at the end, any order *)
}.

(* model run with per-entry counters *)
Fixpoint run_counts (s : sidx) (log : list change) : list outcome * list (N * N) * sidx :=
  match log with
  | [] => ([], [], s)
  | ch :: r => let '(s', o) := p_apply sidx_ops s ch in
               let '(os, cs, sf) := run_counts s' r in (o :: os, (s_len s', s_bytes s') :: cs, sf)
  end.

(* (1) correspondence with the executable model: outcomes, counters after every entry, final contents *)
Definition store_case_model_ok (c : store_case) : bool :=
  let '(os, cs, sf) := run_counts sidx_empty (sc_log c) in
  list_eqb outcome_eqb os (sc_outs c) &&
  list_eqb (fun a b => (fst a =? fst b) && (snd a =? snd b)) cs (sc_counts c) &&
  list_eqb item_eqb (canon_items (items sidx_ops sf)) (canon_items (sc_final c)).

(* (2) the property itself against the map specification (contents as a function), on the observations only *)
Definition change_ids (ch : change) : list N :=
  match ch with
  | CInsert id _ _ _ | CUpdate id _ _ | CDelete id => [id]
  | CBatchInsert its => map id4 its
  | CBatchUpdate its => map id3 its
  | CBatchDelete ids => ids
  end.
Definition opt_item_eqb (a b : option item) : bool :=
  match a, b with
  | None, None => true
  | Some (v, m), Some (v', m') => vec_eqb v v' && meta_eqb (canon_meta m) (canon_meta m')
  | _, _ => false
  end.
Definition store_case_oracle_ok (c : store_case) : bool :=
  let '(cf, os) := spec_run (fun _ => None) (sc_log c) in
  let ids := flat_map change_ids (sc_log c) ++ map fst (sc_final c) in
  list_eqb outcome_eqb os (sc_outs c) &&
  forallb (fun id => opt_item_eqb (cf id) (alookup id (sc_final c))) ids &&
  (* the item count equals the number of live ids; no id listed twice *)
  match last (sc_counts c) (0, 0) with (n, _) => n =? N.of_nat (length (sc_final c)) end &&
  list_eqb N.eqb (map fst (canon_items (sc_final c))) (nodup N.eq_dec (map fst (canon_items (sc_final c)))).

Fixpoint bad_idx {A} (f : A -> bool) (l : list A) (i : nat) : list nat :=
  match l with [] => [] | a :: t => if f a then bad_idx f t (S i) else i :: bad_idx f t (S i) end.
