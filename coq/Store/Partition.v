(* Store/Partition.v — partition.process and the six *Value functions of storage/partition.go over an abstract
   index (Insert / Remove / GetVertex), plus the simple executable index used in correspondence runs. No proofs. *)
From Verif Require Import Base.Prelude Store.Spec.
Open Scope N_scope.

Inductive status := SOk | SExists | SNotFound.
Definition err_of (s : status) : err := match s with SOk => ENone | SExists => EExists | SNotFound => ENotFound end.

Record index_ops (I : Type) := {
  ins : I -> N -> vec -> meta -> nat -> I * status;     (* Hnsw.Insert(id, value, metadata, level) *)
  rem : I -> N -> I * status;                          (* Hnsw.Remove(id) *)
  getv : I -> N -> option (meta * nat);                (* Hnsw.GetVertex(id): its metadata and level *)
  items : I -> list (N * item);                        (* observable contents *)
  ilen : I -> N;                                       (* Len() counter, uint64 *)
  ibytes : I -> N                                      (* data-bytes counter, uint64 *)
}.
Arguments ins {I}. Arguments rem {I}. Arguments getv {I}. Arguments items {I}. Arguments ilen {I}. Arguments ibytes {I}.

Section Machine.
  Context {I : Type} (X : index_ops I).

  Definition p_insert (s : I) id v m lvl : I * err := let '(s', st) := ins X s id v m lvl in (s', err_of st).
  Definition p_delete (s : I) id : I * err := let '(s', st) := rem X s id in (s', err_of st).
  (* updateValue: GetVertex; Remove; merge old metadata under the incoming one; Insert at the old level *)
  Definition p_update (s : I) id v m : I * err :=
    match getv X s id with
    | None => (s, ENotFound)
    | Some (om, lvl) =>
        let '(s1, st1) := rem X s id in
        match st1 with
        | SOk => let '(s2, st2) := ins X s1 id v (merge m om) lvl in (s2, err_of st2)
        | _ => (s1, err_of st1)
        end
    end.

  Definition p_ins4 (s : I) (t : N * vec * meta * nat) := let '(id, v, m, lvl) := t in p_insert s id v m lvl.
  Definition p_upd3 (s : I) (t : N * vec * meta) := let '(id, v, m) := t in p_update s id v m.

  Definition p_apply (s : I) (ch : change) : I * outcome :=
    match ch with
    | CInsert id v m lvl => let '(s', e) := p_insert s id v m lvl in (s', OSingle e)
    | CUpdate id v m => let '(s', e) := p_update s id v m in (s', OSingle e)
    | CDelete id => let '(s', e) := p_delete s id in (s', OSingle e)
    | CBatchInsert its => let '(s', es) := batch p_ins4 id4 its s in (s', OBatch es)
    | CBatchUpdate its => let '(s', es) := batch p_upd3 id3 its s in (s', OBatch es)
    | CBatchDelete ids => let '(s', es) := batch p_delete (fun id => id) ids s in (s', OBatch es)
    end.

  Fixpoint p_run (s : I) (log : list change) : I * list outcome :=
    match log with
    | [] => (s, [])
    | ch :: r => let '(s', o) := p_apply s ch in let '(sf, os) := p_run s' r in (sf, o :: os)
    end.
End Machine.

(* ---- the simple index: contents as an association list, counters with uint64 wrap-around (storeVertex /
   removeVertex of index/hnsw.go without the graph) ---- *)
Record sidx := { s_items : list (N * (vec * meta * nat)); s_len : N; s_bytes : N }.
Definition sidx_empty : sidx := {| s_items := []; s_len := 0; s_bytes := 0 |}.

Fixpoint alookup {A} (id : N) (l : list (N * A)) : option A :=
  match l with [] => None | (k, x) :: t => if k =? id then Some x else alookup id t end.
Fixpoint aremove {A} (id : N) (l : list (N * A)) : list (N * A) :=
  match l with [] => [] | (k, x) :: t => if k =? id then t else (k, x) :: aremove id t end.

Definition s_ins (s : sidx) id v m (lvl : nat) : sidx * status :=
  match alookup id (s_items s) with
  | Some _ => (s, SExists)
  | None =>
      (* the first vertex of an empty index is created at level 0 *)
      let lvl' := match s_items s with [] => O | _ => lvl end in
      ({| s_items := (id, (v, m, lvl')) :: s_items s;
          s_len := wrap (s_len s + 1);                          (* atomic.AddUint64(&len, 1) *)
          s_bytes := wrap (s_bytes s + wrap (item_bytes v m)) |}, SOk)
  end.
Definition s_rem (s : sidx) id : sidx * status :=
  match alookup id (s_items s) with
  | None => (s, SNotFound)
  | Some (v, m, _) =>
      ({| s_items := aremove id (s_items s);
          s_len := wrap (s_len s + (two64 - 1));                  (* AddUint64(&len, ^uint64(0)) *)
          s_bytes := wrap (s_bytes s + (two64 - 1 - wrap (wrap (item_bytes v m) + (two64 - 1)))) |}, SOk)
                                                                 (* AddUint64(&bytesSize, ^uint64(size-1)) *)
  end.
Definition s_getv (s : sidx) id : option (meta * nat) :=
  match alookup id (s_items s) with Some (_, m, l) => Some (m, l) | None => None end.

Definition sidx_ops : index_ops sidx :=
  {| ins := s_ins; rem := s_rem; getv := s_getv;
     items := fun s => map (fun '(id, (v, m, _)) => (id, (v, m))) (s_items s);
     ilen := s_len; ibytes := s_bytes |}.
