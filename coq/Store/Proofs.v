(* Store/Proofs.v — every index satisfying the store contract makes the partition machine refine the map spec;
   the simple index satisfies the contract, with exact counters. *)
From Verif Require Import Base.Prelude Store.Spec Store.Partition.
From Coq Require Import ZifyN ZifyBool ZifyNat.
Ltac Zify.zify_post_hook ::= Z.div_mod_to_equations.
Open Scope N_scope.

Definition eqc (c c' : cont) : Prop := forall i, c i = c' i.

Lemma alookup_in {A} id (l : list (N * A)) x : alookup id l = Some x -> In (id, x) l.
Proof.
  induction l as [|[k y] t IH]; simpl; [discriminate|]. destruct (N.eqb_spec k id) as [->|Hn].
  - intros E; inversion E; auto.
  - auto.
Qed.
Lemma alookup_none {A} id (l : list (N * A)) : alookup id l = None <-> ~ In id (map fst l).
Proof.
  induction l as [|[k y] t IH]; simpl; [tauto|]. destruct (N.eqb_spec k id) as [->|Hn].
  - split; [discriminate|tauto].
  - rewrite IH. tauto.
Qed.
Lemma in_alookup {A} id (l : list (N * A)) x : NoDup (map fst l) -> In (id, x) l -> alookup id l = Some x.
Proof.
  induction l as [|[k y] t IH]; simpl; [tauto|]. intros ND [E|Hin].
  - inversion E; subst. rewrite N.eqb_refl. auto.
  - inversion ND; subst. destruct (N.eqb_spec k id) as [->|Hn].
    + exfalso. apply H1. apply in_map_iff. exists (id, x). auto.
    + auto.
Qed.
Lemma alookup_perm {A} id (l l' : list (N * A)) : NoDup (map fst l) -> Permutation l l' -> alookup id l = alookup id l'.
Proof.
  intros ND P. assert (ND' : NoDup (map fst l')) by (eapply Permutation_NoDup; [apply Permutation_map; eauto|auto]).
  destruct (alookup id l) as [x|] eqn:E.
  - symmetry. apply in_alookup; auto. eapply Permutation_in; eauto. apply alookup_in; auto.
  - symmetry. apply alookup_none. apply alookup_none in E. intros Hin. apply E.
    eapply Permutation_in; [apply Permutation_map; apply Permutation_sym; eauto|auto].
Qed.

Section Refinement.
  Context {I : Type} (X : index_ops I) (G : I -> Prop).
  Definition view (s : I) : cont := fun id => alookup id (items X s).

  (* the store contract (what Insert / Remove / GetVertex of an index must provide) *)
  Hypothesis G_nodup : forall s, G s -> NoDup (map fst (items X s)).
  Hypothesis ins_exists : forall s id v m l x, G s -> view s id = Some x -> ins X s id v m l = (s, SExists).
  Hypothesis ins_new : forall s id v m l, G s -> view s id = None ->
    exists s', ins X s id v m l = (s', SOk) /\ G s' /\ Permutation (items X s') ((id, (v, m)) :: items X s).
  Hypothesis rem_absent : forall s id, G s -> view s id = None -> rem X s id = (s, SNotFound).
  Hypothesis rem_present : forall s id x, G s -> view s id = Some x ->
    exists s', rem X s id = (s', SOk) /\ G s' /\ Permutation (items X s) ((id, x) :: items X s').
  Hypothesis getv_spec : forall s id, G s ->
    match getv X s id with Some (m, _) => exists v, view s id = Some (v, m) | None => view s id = None end.

  Lemma view_ins_new s s' id v m : G s -> G s' -> Permutation (items X s') ((id, (v, m)) :: items X s) ->
    eqc (view s') (cset (view s) id (Some (v, m))).
  Proof.
    intros Gs Gs' P i. unfold view, cset. rewrite (alookup_perm i _ _ (G_nodup _ Gs') P). simpl.
    rewrite N.eqb_sym. auto.
  Qed.
  Lemma view_rem s s' id x : G s -> G s' -> Permutation (items X s) ((id, x) :: items X s') ->
    eqc (view s') (cset (view s) id None).
  Proof.
    intros Gs Gs' P i. unfold view, cset. rewrite (alookup_perm i _ _ (G_nodup _ Gs) P). simpl.
    rewrite (N.eqb_sym i id). destruct (N.eqb_spec id i) as [->|Hn]; auto.
    apply alookup_none. pose proof (G_nodup _ Gs) as ND.
    apply (Permutation_map fst) in P. eapply Permutation_NoDup in ND; eauto. simpl in ND. inversion ND; auto.
  Qed.

  Lemma p_insert_ref s id v m l : G s ->
    G (fst (p_insert X s id v m l)) /\ eqc (view (fst (p_insert X s id v m l))) (fst (spec_insert (view s) id v m))
    /\ snd (p_insert X s id v m l) = snd (spec_insert (view s) id v m).
  Proof.
    intros Gs. unfold p_insert, spec_insert. destruct (view s id) as [x|] eqn:E.
    - rewrite (ins_exists s id v m l x Gs E). simpl. repeat split; auto; try (intros i; reflexivity).
    - destruct (ins_new s id v m l Gs E) as (s' & -> & Gs' & P). simpl. repeat split; auto.
      eapply view_ins_new; eauto.
  Qed.
  Lemma p_delete_ref s id : G s ->
    G (fst (p_delete X s id)) /\ eqc (view (fst (p_delete X s id))) (fst (spec_delete (view s) id))
    /\ snd (p_delete X s id) = snd (spec_delete (view s) id).
  Proof.
    intros Gs. unfold p_delete, spec_delete. destruct (view s id) as [x|] eqn:E.
    - destruct (rem_present s id x Gs E) as (s' & -> & Gs' & P). simpl. repeat split; auto.
      eapply view_rem; eauto.
    - rewrite (rem_absent s id Gs E). simpl. repeat split; auto; try (intros i; reflexivity).
  Qed.
  Lemma p_update_ref s id v m : G s ->
    G (fst (p_update X s id v m)) /\ eqc (view (fst (p_update X s id v m))) (fst (spec_update (view s) id v m))
    /\ snd (p_update X s id v m) = snd (spec_update (view s) id v m).
  Proof.
    intros Gs. unfold p_update, spec_update. pose proof (getv_spec s id Gs) as GV.
    destruct (getv X s id) as [[om lvl]|].
    - destruct GV as (ov & E). rewrite E.
      destruct (rem_present s id _ Gs E) as (s1 & -> & G1 & P1).
      pose proof (view_rem _ _ _ _ Gs G1 P1) as V1.
      assert (E1 : view s1 id = None) by (rewrite V1; unfold cset; rewrite N.eqb_refl; auto).
      destruct (ins_new s1 id v (merge m om) lvl G1 E1) as (s2 & -> & G2 & P2). simpl.
      repeat split; auto. intros i. rewrite (view_ins_new _ _ _ _ _ G1 G2 P2 i). unfold cset.
      destruct (N.eqb_spec i id); auto. rewrite V1. unfold cset. destruct (N.eqb_spec i id); auto; congruence.
    - rewrite GV. simpl. repeat split; auto; try (intros i; reflexivity).
  Qed.

  (* the spec respects pointwise equality of contents (no functional extensionality needed) *)
  Lemma spec_insert_ext c c' id v m : eqc c c' ->
    eqc (fst (spec_insert c id v m)) (fst (spec_insert c' id v m)) /\ snd (spec_insert c id v m) = snd (spec_insert c' id v m).
  Proof.
    intros H. unfold spec_insert. rewrite (H id). destruct (c' id); simpl; split; auto.
    intros j; unfold cset; destruct (j =? id); auto.
  Qed.
  Lemma spec_update_ext c c' id v m : eqc c c' ->
    eqc (fst (spec_update c id v m)) (fst (spec_update c' id v m)) /\ snd (spec_update c id v m) = snd (spec_update c' id v m).
  Proof.
    intros H. unfold spec_update. rewrite (H id). destruct (c' id) as [[? ?]|]; simpl; split; auto.
    intros j; unfold cset; destruct (j =? id); auto.
  Qed.
  Lemma spec_delete_ext c c' id : eqc c c' ->
    eqc (fst (spec_delete c id)) (fst (spec_delete c' id)) /\ snd (spec_delete c id) = snd (spec_delete c' id).
  Proof.
    intros H. unfold spec_delete. rewrite (H id). destruct (c' id); simpl; split; auto.
    intros j; unfold cset; destruct (j =? id); auto.
  Qed.

  (* a concrete step refining a spec step lifts to batches *)
  Lemma batch_ref {T} (cstep : I -> T -> I * err) (sstep : cont -> T -> cont * err) (idof : T -> N)
    (Href : forall s t, G s -> G (fst (cstep s t)) /\ eqc (view (fst (cstep s t))) (fst (sstep (view s) t)) /\ snd (cstep s t) = snd (sstep (view s) t))
    (Hext : forall c c' t, eqc c c' -> eqc (fst (sstep c t)) (fst (sstep c' t)) /\ snd (sstep c t) = snd (sstep c' t)) :
    forall its s c, G s -> eqc (view s) c ->
      G (fst (batch cstep idof its s)) /\ eqc (view (fst (batch cstep idof its s))) (fst (batch sstep idof its c)) /\
      snd (batch cstep idof its s) = snd (batch sstep idof its c).
  Proof.
    unfold batch. intros its s c. generalize (@nil (N * err)) as es. revert s c.
    induction its as [|t its IH]; intros s c es Gs V; simpl; [auto|].
    destruct (Href s t Gs) as (G1 & V1 & E1). destruct (Hext (view s) c t V) as (V2 & E2).
    destruct (cstep s t) as [s1 e1]. destruct (sstep c t) as [c1 e1']. destruct (sstep (view s) t) as [c2 e2]. simpl in *.
    subst. apply IH; auto. intros j. rewrite V1, V2. auto.
  Qed.

  Theorem p_apply_refines s c ch : G s -> eqc (view s) c ->
    G (fst (p_apply X s ch)) /\ eqc (view (fst (p_apply X s ch))) (fst (spec_apply c ch)) /\
    snd (p_apply X s ch) = snd (spec_apply c ch).
  Proof.
    intros Gs V. destruct ch as [id v m l|id v m|id|its|its|ids]; simpl.
    - destruct (p_insert_ref s id v m l Gs) as (A & B & C). destruct (spec_insert_ext _ _ id v m V) as (D & E).
      destruct (p_insert X s id v m l), (spec_insert c id v m), (spec_insert (view s) id v m); simpl in *.
      repeat split; auto; [intros j; rewrite B, D; auto | congruence].
    - destruct (p_update_ref s id v m Gs) as (A & B & C). destruct (spec_update_ext _ _ id v m V) as (D & E).
      destruct (p_update X s id v m), (spec_update c id v m), (spec_update (view s) id v m); simpl in *.
      repeat split; auto; [intros j; rewrite B, D; auto | congruence].
    - destruct (p_delete_ref s id Gs) as (A & B & C). destruct (spec_delete_ext _ _ id V) as (D & E).
      destruct (p_delete X s id), (spec_delete c id), (spec_delete (view s) id); simpl in *.
      repeat split; auto; [intros j; rewrite B, D; auto | congruence].
    - destruct (batch_ref (p_ins4 X) spec_ins4 id4) with (its := its) (s := s) (c := c) as (A & B & C); auto.
      + intros s0 [[[id v] m] l] G0. apply p_insert_ref; auto.
      + intros c0 c0' [[[id v] m] l] H0. apply spec_insert_ext; auto.
      + destruct (batch (p_ins4 X) id4 its s), (batch spec_ins4 id4 its c); simpl in *. repeat split; auto. congruence.
    - destruct (batch_ref (p_upd3 X) spec_upd3 id3) with (its := its) (s := s) (c := c) as (A & B & C); auto.
      + intros s0 [[id v] m] G0. apply p_update_ref; auto.
      + intros c0 c0' [[id v] m] H0. apply spec_update_ext; auto.
      + destruct (batch (p_upd3 X) id3 its s), (batch spec_upd3 id3 its c); simpl in *. repeat split; auto. congruence.
    - destruct (batch_ref (p_delete X) spec_delete (fun id => id)) with (its := ids) (s := s) (c := c) as (A & B & C); auto.
      + intros s0 id G0. apply p_delete_ref; auto.
      + intros c0 c0' id H0. apply spec_delete_ext; auto.
      + destruct (batch (p_delete X) (fun id => id) ids s), (batch spec_delete (fun id => id) ids c); simpl in *.
        repeat split; auto. congruence.
  Qed.

  (* a refused single operation leaves the index exactly as it was - not merely the same contents: the same state, so
     counters, links and entry point included *)
  Theorem refused_single_is_noop s ch e : G s -> snd (p_apply X s ch) = OSingle e -> e <> ENone ->
    fst (p_apply X s ch) = s.
  Proof.
    intros Gs O Ne. destruct ch as [id v m l|id v m|id|its|its|ids]; simpl in O |- *.
    - unfold p_insert in *. destruct (view s id) as [x|] eqn:V.
      + rewrite (ins_exists s id v m l x Gs V) in *. reflexivity.
      + destruct (ins_new s id v m l Gs V) as (s' & E & _). rewrite E in *. simpl in O. injection O as <-. congruence.
    - unfold p_update in *. pose proof (getv_spec s id Gs) as GV. destruct (getv X s id) as [[om lvl]|].
      + destruct GV as (v0 & V). destruct (rem_present s id _ Gs V) as (s1 & E & G1 & P). rewrite E in *.
        assert (V1 : view s1 id = None).
        { unfold view. destruct (alookup id (items X s1)) as [y|] eqn:A; auto. exfalso.
          pose proof (G_nodup s Gs) as ND. rewrite (Permutation_map fst P) in ND. simpl in ND. inversion ND as [|? ? Hn _]; subst.
          apply Hn. apply in_map_iff. exists (id, y). split; auto. apply alookup_in. exact A. }
        destruct (ins_new s1 id v (merge m om) lvl G1 V1) as (s2 & E2 & _). rewrite E2 in *. simpl in O. injection O as <-. congruence.
      + reflexivity.
    - unfold p_delete in *. destruct (view s id) as [x|] eqn:V.
      + destruct (rem_present s id x Gs V) as (s' & E & _). rewrite E in *. simpl in O. injection O as <-. congruence.
      + rewrite (rem_absent s id Gs V) in *. reflexivity.
    - destruct (batch (p_ins4 X) id4 its s). discriminate.
    - destruct (batch (p_upd3 X) id3 its s). discriminate.
    - destruct (batch (p_delete X) (fun id => id) ids s). discriminate.
  Qed.

  (* whole logs: same outcomes as the sequential map, same contents, invariant kept *)
  Theorem p_run_refines log : forall s c, G s -> eqc (view s) c ->
    G (fst (p_run X s log)) /\ eqc (view (fst (p_run X s log))) (fst (spec_run c log)) /\
    snd (p_run X s log) = snd (spec_run c log).
  Proof.
    induction log as [|ch r IH]; intros s c Gs V; simpl; [auto|].
    destruct (p_apply_refines s c ch Gs V) as (A & B & C).
    destruct (p_apply X s ch) as [s1 o1]. destruct (spec_apply c ch) as [c1 o1']. simpl in *. subst o1'.
    destruct (IH s1 c1 A B) as (D & E & F).
    destruct (p_run X s1 r) as [sf os]. destruct (spec_run c1 r) as [cf os']. simpl in *.
    repeat split; auto. congruence.
  Qed.
End Refinement.
