(* Store/Refuted.v — regression witness: before the fix, an update carrying no metadata of an item that has
   metadata wrote into a nil map and panicked in the apply loop (on every replica, and again on replay). *)
From Verif Require Import Base.Prelude Store.Spec Store.Partition.
Open Scope N_scope.

(* updateValue with the nil-map write: None = panic *)
Definition p_update_nilpanic (s : sidx) id (v : vec) (m : meta) : option (sidx * err) :=
  match s_getv s id with
  | None => Some (s, ENotFound)
  | Some (om, lvl) =>
      match m, om with
      | [], _ :: _ => None        (* metadata[k] = v on a nil map *)
      | _, _ => Some (p_update sidx_ops s id v m)
      end
  end.

Definition witness_state : sidx := fst (s_ins sidx_empty 7 [1; 2] [([107], [118])] 0).

Theorem update_nilmeta_refuted :
  p_update_nilpanic witness_state 7 [3; 4] [] = None /\
  snd (p_update sidx_ops witness_state 7 [3; 4] []) = ENone /\
  items sidx_ops (fst (p_update sidx_ops witness_state 7 [3; 4] [])) = [(7, ([3; 4], [([107], [118])]))].
Proof. repeat split; vm_compute; reflexivity. Qed.
