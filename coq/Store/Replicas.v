(* Store/Replicas.v — C04: replicas applying the same log hold the same contents; snapshot + rest = replay.
   Stated over any two index implementations meeting the store contract (different graphs, levels, iteration
   orders …) and over any snapshot mechanism that preserves the contents. *)
From Verif Require Import Base.Prelude Store.Spec Store.Partition Store.Proofs.
Open Scope N_scope.

Record contract {I : Type} (X : index_ops I) (G : I -> Prop) : Prop := {
  c_nodup : forall s, G s -> NoDup (map fst (items X s));
  c_ins_exists : forall s id v m l x, G s -> view X s id = Some x -> ins X s id v m l = (s, SExists);
  c_ins_new : forall s id v m l, G s -> view X s id = None ->
    exists s', ins X s id v m l = (s', SOk) /\ G s' /\ Permutation (items X s') ((id, (v, m)) :: items X s);
  c_rem_absent : forall s id, G s -> view X s id = None -> rem X s id = (s, SNotFound);
  c_rem_present : forall s id x, G s -> view X s id = Some x ->
    exists s', rem X s id = (s', SOk) /\ G s' /\ Permutation (items X s) ((id, x) :: items X s');
  c_getv : forall s id, G s ->
    match getv X s id with Some (m, _) => exists v, view X s id = Some (v, m) | None => view X s id = None end
}.

Lemma contract_refines {I} (X : index_ops I) G : contract X G -> forall log s c, G s -> eqc (view X s) c ->
  G (fst (p_run X s log)) /\ eqc (view X (fst (p_run X s log))) (fst (spec_run c log)) /\
  snd (p_run X s log) = snd (spec_run c log).
Proof. intros [A B C D E F]. apply p_run_refines; auto. Qed.

Lemma eqc_trans a b c : eqc a b -> eqc b c -> eqc a c.
Proof. intros H1 H2 i. rewrite H1. auto. Qed.
Lemma eqc_sym a b : eqc a b -> eqc b a.
Proof. intros H i. auto. Qed.

Lemma spec_run_ext log : forall c c', eqc c c' ->
  eqc (fst (spec_run c log)) (fst (spec_run c' log)) /\ snd (spec_run c log) = snd (spec_run c' log).
Proof.
  (* via the simple fact that the spec refines itself: instantiate the generic theorem with the identity index *)
  induction log as [|ch r IH]; intros c c' H; simpl; [auto|].
  assert (A : eqc (fst (spec_apply c ch)) (fst (spec_apply c' ch)) /\ snd (spec_apply c ch) = snd (spec_apply c' ch)).
  { clear IH. destruct ch as [id v m l|id v m|id|its|its|ids]; simpl.
    - destruct (spec_insert_ext c c' id v m H) as (A & B). destruct (spec_insert c id v m), (spec_insert c' id v m); simpl in *. split; [auto|congruence].
    - destruct (spec_update_ext c c' id v m H) as (A & B). destruct (spec_update c id v m), (spec_update c' id v m); simpl in *. split; [auto|congruence].
    - destruct (spec_delete_ext c c' id H) as (A & B). destruct (spec_delete c id), (spec_delete c' id); simpl in *. split; [auto|congruence].
    - assert (B : forall its c c' es, eqc c c' ->
        let f := (fun acc t => let '(s', e) := spec_ins4 (fst acc) t in (s', add_err (id4 t) e (snd acc))) in
        eqc (fst (fold_left f its (c, es))) (fst (fold_left f its (c', es))) /\ snd (fold_left f its (c, es)) = snd (fold_left f its (c', es))).
      { clear. induction its as [|t its IH]; intros c c' es H; simpl; [auto|].
        destruct t as [[[id v] m] l]. simpl. destruct (spec_insert_ext c c' id v m H) as (A & B).
        destruct (spec_insert c id v m), (spec_insert c' id v m); simpl in *. subst. apply IH; auto. }
      specialize (B its c c' [] H). unfold batch. cbv zeta in B.
      destruct (fold_left _ its (c, [])), (fold_left _ its (c', [])); simpl in *. destruct B; split; [auto|congruence].
    - assert (B : forall its c c' es, eqc c c' ->
        let f := (fun acc t => let '(s', e) := spec_upd3 (fst acc) t in (s', add_err (id3 t) e (snd acc))) in
        eqc (fst (fold_left f its (c, es))) (fst (fold_left f its (c', es))) /\ snd (fold_left f its (c, es)) = snd (fold_left f its (c', es))).
      { clear. induction its as [|t its IH]; intros c c' es H; simpl; [auto|].
        destruct t as [[id v] m]. simpl. destruct (spec_update_ext c c' id v m H) as (A & B).
        destruct (spec_update c id v m), (spec_update c' id v m); simpl in *. subst. apply IH; auto. }
      specialize (B its c c' [] H). unfold batch. cbv zeta in B.
      destruct (fold_left _ its (c, [])), (fold_left _ its (c', [])); simpl in *. destruct B; split; [auto|congruence].
    - assert (B : forall its c c' es, eqc c c' ->
        let f := (fun acc t => let '(s', e) := spec_delete (fst acc) t in (s', add_err t e (snd acc))) in
        eqc (fst (fold_left f its (c, es))) (fst (fold_left f its (c', es))) /\ snd (fold_left f its (c, es)) = snd (fold_left f its (c', es))).
      { clear. induction its as [|t its IH]; intros c c' es H; simpl; [auto|].
        destruct (spec_delete_ext c c' t H) as (A & B).
        destruct (spec_delete c t), (spec_delete c' t); simpl in *. subst. apply IH; auto. }
      specialize (B ids c c' [] H). unfold batch. cbv zeta in B.
      destruct (fold_left _ ids (c, [])), (fold_left _ ids (c', [])); simpl in *. destruct B; split; [auto|congruence]. }
  destruct (spec_apply c ch) as [c1 o1], (spec_apply c' ch) as [c1' o1']. simpl in A. destruct A as (A1 & A2). subst.
  destruct (IH c1 c1' A1) as (B1 & B2). destruct (spec_run c1 r), (spec_run c1' r). simpl in *. split; [auto|congruence].
Qed.

Lemma spec_run_app c l1 l2 :
  spec_run c (l1 ++ l2) = let '(c1, o1) := spec_run c l1 in let '(c2, o2) := spec_run c1 l2 in (c2, o1 ++ o2).
Proof.
  revert c. induction l1 as [|ch l1 IH]; intros c; simpl.
  - destruct (spec_run c l2); auto.
  - destruct (spec_apply c ch) as [c' o]. rewrite IH. destruct (spec_run c' l1) as [c1 o1]. destruct (spec_run c1 l2); auto.
Qed.

Section Replicas.
  Context {I J : Type} (X : index_ops I) (GX : I -> Prop) (Y : index_ops J) (GY : J -> Prop).
  Hypothesis CX : contract X GX.
  Hypothesis CY : contract Y GY.

  (* same log from equal contents: same outcomes for every entry, same contents at the end *)
  Theorem replicas_agree log s t : GX s -> GY t -> eqc (view X s) (view Y t) ->
    eqc (view X (fst (p_run X s log))) (view Y (fst (p_run Y t log))) /\ snd (p_run X s log) = snd (p_run Y t log).
  Proof.
    intros Gs Gt E.
    destruct (contract_refines X GX CX log s (view X s) Gs ltac:(intros i; reflexivity)) as (_ & A & B).
    destruct (contract_refines Y GY CY log t (view X s) Gt (eqc_sym _ _ E)) as (_ & C & D).
    split; [|congruence]. eapply eqc_trans; [exact A|apply eqc_sym; exact C].
  Qed.

  (* snapshot at any cut: a replica that restores a contents-preserving snapshot of the first [cut] entries and applies
     the rest ends with the contents and the outcomes (of the rest) of a replica that applied everything *)
  Theorem snapshot_cut_equals_replay l1 l2 s t (restore : I -> J) :
    GX s -> (forall u, GX u -> GY (restore u) /\ eqc (view Y (restore u)) (view X u)) ->
    t = restore (fst (p_run X s l1)) ->
    eqc (view Y (fst (p_run Y t l2))) (view X (fst (p_run X s (l1 ++ l2)))) /\
    snd (p_run X s (l1 ++ l2)) = snd (p_run X s l1) ++ snd (p_run Y t l2).
  Proof.
    intros Gs R ->.
    destruct (contract_refines X GX CX l1 s (view X s) Gs ltac:(intros i; reflexivity)) as (G1 & A1 & B1).
    destruct (R _ G1) as (Gt & Et).
    destruct (contract_refines X GX CX (l1 ++ l2) s (view X s) Gs ltac:(intros i; reflexivity)) as (_ & A & B).
    destruct (contract_refines Y GY CY l2 _ (fst (spec_run (view X s) l1)) Gt (eqc_trans _ _ _ Et A1)) as (_ & C & D).
    rewrite spec_run_app in A, B. destruct (spec_run (view X s) l1) as [c1 o1]. simpl in *.
    destruct (spec_run c1 l2) as [c2 o2]. simpl in *.
    split; [eapply eqc_trans; [exact C|apply eqc_sym; exact A]|]. rewrite B, B1, D. auto.
  Qed.
End Replicas.
