(* Store/Simple.v — the simple index (contents + uint64 counters) satisfies the store contract, and its counters
   are exact: len = number of live ids, bytes = sum of live item sizes, modulo 2^64 and without wrap below it. *)
From Verif Require Import Base.Prelude Store.Spec Store.Partition Store.Proofs.
From Coq Require Import ZifyN ZifyBool ZifyNat.
Ltac Zify.zify_post_hook ::= Z.div_mod_to_equations.
Open Scope N_scope.

Definition sum_bytes (l : list (N * (vec * meta * nat))) : N :=
  fold_right (fun '(_, (v, m, _)) a => item_bytes v m + a) 0 l.

Definition sgood (s : sidx) : Prop :=
  NoDup (map fst (s_items s)) /\
  s_len s = wrap (N.of_nat (length (s_items s))) /\
  s_bytes s = wrap (sum_bytes (s_items s)).

Lemma two64_val : two64 = 18446744073709551616. Proof. reflexivity. Qed.

Lemma wrap_add a b : wrap (wrap a + wrap b) = wrap (a + b).
Proof. unfold wrap. rewrite two64_val. lia. Qed.
Lemma wrap_add1 a : wrap (wrap a + 1) = wrap (a + 1).
Proof. unfold wrap. rewrite two64_val. lia. Qed.
Lemma wrap_dec a : 1 <= a -> wrap (wrap a + (two64 - 1)) = wrap (a - 1).
Proof. unfold wrap. rewrite two64_val. lia. Qed.
Lemma wrap_sub a x : x <= a -> wrap (wrap a + (two64 - 1 - wrap (wrap x + (two64 - 1)))) = wrap (a - x).
Proof. unfold wrap. rewrite two64_val. lia. Qed.
Lemma wrap_small a : a < two64 -> wrap a = a.
Proof. unfold wrap. intros. apply N.mod_small; auto. Qed.

Lemma aremove_spec {A} id (l : list (N * A)) x : NoDup (map fst l) -> alookup id l = Some x ->
  Permutation l ((id, x) :: aremove id l) /\ NoDup (map fst (aremove id l)) /\ length l = S (length (aremove id l)).
Proof.
  induction l as [|[k y] t IH]; simpl; [discriminate|]. intros ND E. inversion ND; subst.
  destruct (N.eqb_spec k id) as [->|Hn].
  - inversion E; subst. auto.
  - destruct (IH H2 E) as (P & ND' & L). simpl. split; [|split].
    + rewrite perm_swap. constructor. auto.
    + constructor; auto. intros Hin. apply H1.
      apply (Permutation_map fst) in P. eapply Permutation_in; [apply Permutation_sym; eauto|]. simpl. right. auto.
    + lia.
Qed.

Lemma sum_bytes_remove id (l : list (N * (vec * meta * nat))) v m lv : NoDup (map fst l) -> alookup id l = Some (v, m, lv) ->
  sum_bytes l = item_bytes v m + sum_bytes (aremove id l).
Proof.
  induction l as [|[k [[v' m'] l']] t IH]; simpl; [discriminate|]. intros ND E. inversion ND; subst.
  destruct (N.eqb_spec k id) as [->|Hn].
  - inversion E; subst. auto.
  - simpl. rewrite (IH H2 E). lia.
Qed.

Definition sitems (s : sidx) := items sidx_ops s.

Lemma sitems_fst s : map fst (sitems s) = map fst (s_items s).
Proof. unfold sitems; simpl. rewrite map_map. apply map_ext. intros [k [[v m] l]]; auto. Qed.

Lemma sview_lookup s id : view sidx_ops s id = match alookup id (s_items s) with Some (v, m, _) => Some (v, m) | None => None end.
Proof.
  unfold view; simpl. induction (s_items s) as [|[k [[v m] l]] t IH]; simpl; auto.
  destruct (k =? id); auto.
Qed.

Lemma s_ins_exists s id v m l x : sgood s -> view sidx_ops s id = Some x -> ins sidx_ops s id v m l = (s, SExists).
Proof.
  intros _ E. rewrite sview_lookup in E. simpl. unfold s_ins. destruct (alookup id (s_items s)) as [[[? ?] ?]|]; [auto|discriminate].
Qed.

Lemma s_ins_new s id v m l : sgood s -> view sidx_ops s id = None ->
  exists s', ins sidx_ops s id v m l = (s', SOk) /\ sgood s' /\ Permutation (items sidx_ops s') ((id, (v, m)) :: items sidx_ops s).
Proof.
  intros (ND & L & B) E. rewrite sview_lookup in E. simpl. unfold s_ins.
  destruct (alookup id (s_items s)) as [[[? ?] ?]|] eqn:E2; [discriminate|].
  eexists; split; [reflexivity|]. split.
  - split; [|split]; cbn [s_items s_len s_bytes map fst length].
    + constructor; auto. apply alookup_none; auto.
    + rewrite L, wrap_add1. f_equal. cbn [length]. lia.
    + rewrite B, wrap_add. f_equal. unfold sum_bytes at 2. cbn [fold_right]. fold (sum_bytes (s_items s)). lia.
  - simpl. auto.
Qed.

Lemma s_rem_absent s id : sgood s -> view sidx_ops s id = None -> rem sidx_ops s id = (s, SNotFound).
Proof.
  intros _ E. rewrite sview_lookup in E. simpl. unfold s_rem. destruct (alookup id (s_items s)) as [[[? ?] ?]|]; [discriminate|auto].
Qed.

Lemma s_rem_present s id x : sgood s -> view sidx_ops s id = Some x ->
  exists s', rem sidx_ops s id = (s', SOk) /\ sgood s' /\ Permutation (items sidx_ops s) ((id, x) :: items sidx_ops s').
Proof.
  intros (ND & L & B) E. rewrite sview_lookup in E. simpl. unfold s_rem.
  destruct (alookup id (s_items s)) as [[[v m] lv]|] eqn:E2; [|discriminate]. inversion E; subst x.
  destruct (aremove_spec id _ _ ND E2) as (P & ND' & Len).
  pose proof (sum_bytes_remove id _ v m lv ND E2) as SB.
  eexists; split; [reflexivity|]. split.
  - split; [|split]; cbn [s_items s_len s_bytes]; auto.
    + rewrite L, wrap_dec by lia. f_equal. lia.
    + rewrite B, wrap_sub by lia. f_equal. lia.
  - simpl. apply (Permutation_map (fun '(id, (v, m, _)) => (id, (v, m)))) in P. exact P.
Qed.

Lemma s_getv_spec s id : sgood s ->
  match getv sidx_ops s id with Some (m, _) => exists v, view sidx_ops s id = Some (v, m) | None => view sidx_ops s id = None end.
Proof.
  intros _. rewrite sview_lookup. simpl. unfold s_getv. destruct (alookup id (s_items s)) as [[[v m] l]|]; eauto.
Qed.

Lemma sgood_nodup s : sgood s -> NoDup (map fst (items sidx_ops s)).
Proof. intros (ND & _). fold (sitems s). rewrite sitems_fst. auto. Qed.

Lemma sgood_empty : sgood sidx_empty.
Proof. split; [constructor|split; reflexivity]. Qed.

(* C02 for the simple index: all logs, from any good state *)
Theorem simple_refines log s c : sgood s -> eqc (view sidx_ops s) c ->
  sgood (fst (p_run sidx_ops s log)) /\ eqc (view sidx_ops (fst (p_run sidx_ops s log))) (fst (spec_run c log)) /\
  snd (p_run sidx_ops s log) = snd (spec_run c log).
Proof.
  apply (p_run_refines sidx_ops sgood sgood_nodup s_ins_exists s_ins_new s_rem_absent s_rem_present s_getv_spec).
Qed.

(* counters never show their wrap-around: exact whenever the true quantities fit in 64 bits *)
Theorem simple_counts s : sgood s ->
  (N.of_nat (length (s_items s)) < two64 -> s_len s = N.of_nat (length (s_items s))) /\
  (sum_bytes (s_items s) < two64 -> s_bytes s = sum_bytes (s_items s)).
Proof. intros (_ & L & B). split; intros H; [rewrite L|rewrite B]; apply wrap_small; auto. Qed.
