(* Store/Spec.v — the sequential map specification of a partition (C02, C04): 30 lines that can be read in minutes.
   Contents are a function id -> option (vector, metadata); metadata is an association list with unique keys. *)
From Verif Require Import Base.Prelude.
Open Scope N_scope.

Definition vec := list N.               (* float32 bit patterns *)
Definition bytes := list N.             (* byte strings *)
Definition meta := list (bytes * bytes).
Definition item := (vec * meta)%type.
Definition cont := N -> option item.

Fixpoint bytes_eqb (a b : bytes) : bool :=
  match a, b with [], [] => true | x :: a', y :: b' => (x =? y) && bytes_eqb a' b' | _, _ => false end.
Fixpoint meta_get (k : bytes) (m : meta) : option bytes :=
  match m with [] => None | (k', v) :: t => if bytes_eqb k' k then Some v else meta_get k t end.
Definition meta_has (k : bytes) (m : meta) : bool := match meta_get k m with Some _ => true | None => false end.
(* update: new keys win, old keys are kept *)
Definition merge (new old : meta) : meta := new ++ filter (fun kv => negb (meta_has (fst kv) new)) old.

Inductive err := ENone | EExists | ENotFound.
Inductive change :=
| CInsert (id : N) (v : vec) (m : meta) (lvl : nat)
| CUpdate (id : N) (v : vec) (m : meta)
| CDelete (id : N)
| CBatchInsert (items : list (N * vec * meta * nat))
| CBatchUpdate (items : list (N * vec * meta))
| CBatchDelete (ids : list N).
Inductive outcome := OSingle (e : err) | OBatch (errs : list (N * err)).   (* batch: failing items only, in order *)

Definition cset (c : cont) (id : N) (x : option item) : cont := fun i => if i =? id then x else c i.

Definition spec_insert (c : cont) id v m : cont * err :=
  match c id with Some _ => (c, EExists) | None => (cset c id (Some (v, m)), ENone) end.
Definition spec_update (c : cont) id v m : cont * err :=
  match c id with None => (c, ENotFound) | Some (_, om) => (cset c id (Some (v, merge m om)), ENone) end.
Definition spec_delete (c : cont) id : cont * err :=
  match c id with None => (c, ENotFound) | Some _ => (cset c id None, ENone) end.

Definition add_err (id : N) (e : err) (acc : list (N * err)) := match e with ENone => acc | _ => acc ++ [(id, e)] end.

(* a batch applies its items in order and reports the failing ones *)
Definition batch {S T : Type} (step : S -> T -> S * err) (idof : T -> N) (its : list T) (s : S) : S * list (N * err) :=
  fold_left (fun acc t => let '(s', e) := step (fst acc) t in (s', add_err (idof t) e (snd acc))) its (s, []).

Definition id4 (t : N * vec * meta * nat) : N := let '(id, _, _, _) := t in id.
Definition id3 (t : N * vec * meta) : N := let '(id, _, _) := t in id.
Definition spec_ins4 (c : cont) (t : N * vec * meta * nat) := let '(id, v, m, _) := t in spec_insert c id v m.
Definition spec_upd3 (c : cont) (t : N * vec * meta) := let '(id, v, m) := t in spec_update c id v m.

Definition spec_apply (c : cont) (ch : change) : cont * outcome :=
  match ch with
  | CInsert id v m _ => let '(c', e) := spec_insert c id v m in (c', OSingle e)
  | CUpdate id v m => let '(c', e) := spec_update c id v m in (c', OSingle e)
  | CDelete id => let '(c', e) := spec_delete c id in (c', OSingle e)
  | CBatchInsert its => let '(c', es) := batch spec_ins4 id4 its c in (c', OBatch es)
  | CBatchUpdate its => let '(c', es) := batch spec_upd3 id3 its c in (c', OBatch es)
  | CBatchDelete ids => let '(c', es) := batch spec_delete (fun id => id) ids c in (c', OBatch es)
  end.

Fixpoint spec_run (c : cont) (log : list change) : cont * list outcome :=
  match log with
  | [] => (c, [])
  | ch :: r => let '(c', o) := spec_apply c ch in let '(cf, os) := spec_run c' r in (cf, o :: os)
  end.

(* data bytes of one item: 16 (id) + 4 per component + key and value bytes *)
Definition meta_bytes (m : meta) : N := fold_right (fun kv a => N.of_nat (length (fst kv)) + N.of_nat (length (snd kv)) + a) 0 m.
Definition item_bytes (v : vec) (m : meta) : N := 16 + 4 * N.of_nat (length v) + meta_bytes m.
Definition two64 : N := 2 ^ 64.
Definition wrap (x : N) : N := x mod two64.
