(* Store/Translated.v — index.Metadata.Validate, Metadata.bytesSize and hnswVertex.bytesSize as translated from
   index/metadata.go and index/hnsw_vertex.go on this run are the models' meta_fits, meta_bytes and (wrapped) item_bytes. *)
From Verif Require Import Base.Prelude Store.Spec Api.Validate Generated.Translated.
From Coq Require Import ZArith NArith Lia ZifyN ZifyNat ZifyBool.

(* a metadata map seen through the lengths of its keys and values *)
Definition lens (m : meta) : list (Z * Z) := map (fun kv => (Z.of_nat (length (fst kv)), Z.of_nat (length (snd kv)))) m.

Theorem go_Validate_is_model m : go_Metadata_Validate (lens m) = meta_fits m.
Proof.
  unfold go_Metadata_Validate, meta_fits, lens. rewrite map_length.
  assert (E : existsb (fun '(len_k, len_v) => (255 <? len_k)%Z || (65535 <? len_v)%Z)
                (map (fun kv : list N * list N => (Z.of_nat (length (fst kv)), Z.of_nat (length (snd kv)))) m) =
              negb (forallb (fun kv : list N * list N => (N.of_nat (length (fst kv)) <? 256) && (N.of_nat (length (snd kv)) <? 65536)) m)).
  { induction m as [|[k v] t IH]; [reflexivity|]. cbn [map existsb forallb fst snd]. rewrite IH.
    match goal with |- context [forallb ?f t] => destruct (forallb f t) end; destruct (255 <? Z.of_nat (length k))%Z eqn:A, (65535 <? Z.of_nat (length v))%Z eqn:B,
      (N.of_nat (length k) <? 256) eqn:C, (N.of_nat (length v) <? 65536) eqn:D; simpl; try reflexivity; lia. }
  rewrite E. unfold meta, bytes in *. match goal with |- context [Z.ltb 65535 ?x] => destruct (Z.ltb 65535 x) eqn:A end;
    match goal with |- context [N.ltb ?x 65536] => destruct (N.ltb x 65536) eqn:B end; try lia;
    match goal with |- context [forallb ?f m] => destruct (forallb f m) end; reflexivity.
Qed.

Lemma fold_add_fst (l : list (Z * Z)) : forall a, fold_left (fun n kv => let '(lk, lv) := kv in (n + lk)%Z) l a = (a + fold_right (fun kv s => fst kv + s) 0 l)%Z.
Proof. induction l as [|[x y] t IH]; intros a; simpl; [lia|]. rewrite IH. lia. Qed.
Lemma fold_add_snd (l : list (Z * Z)) : forall a, fold_left (fun n kv => let '(lk, lv) := kv in (n + lv)%Z) l a = (a + fold_right (fun kv s => snd kv + s) 0 l)%Z.
Proof. induction l as [|[x y] t IH]; intros a; simpl; [lia|]. rewrite IH. lia. Qed.
Theorem go_bytesSize_is_model m : go_Metadata_bytesSize (lens m) = Z.of_N (meta_bytes m).
Proof.
  unfold go_Metadata_bytesSize. rewrite fold_add_fst, fold_add_snd. unfold lens, meta_bytes.
  induction m as [|[k v] t IH]; [reflexivity|]. cbn [map fold_right fst snd] in *. lia.
Qed.

Theorem go_vertex_bytesSize_is_model v m :
  go_vertex_bytesSize (N.of_nat (length v)) (meta_bytes m) = wrap (item_bytes v m).
Proof.
  unfold go_vertex_bytesSize, wrap, item_bytes, two64N, two64. change (2 ^ 64)%N with 18446744073709551616%N.
  set (M := 18446744073709551616%N). assert (HM : M <> 0%N) by (unfold M; lia).
  rewrite N.add_mod_idemp_r by auto. rewrite N.add_mod_idemp_l by auto. reflexivity.
Qed.
