(* Wal/Check.v — executable checkers for the raft log store (C06). *)
From Verif Require Import Base.Prelude Wal.Model.
Open Scope N_scope.

Fixpoint list_eqb {A} (e : A -> A -> bool) (l l' : list A) : bool :=
  match l, l' with [], [] => true | a :: t, b :: t' => e a b && list_eqb e t t' | _, _ => false end.
Definition entry_eqb (a b : entry) := (e_term a =? e_term b) && (e_index a =? e_index b) && (e_data a =? e_data b).
Definition snap_eqb (a b : snapshot) :=
  (sn_index a =? sn_index b) && (sn_term a =? sn_term b) && list_eqb N.eqb (sn_conf a) (sn_conf b) && (sn_data a =? sn_data b).
Definition hard_eqb (a b : hard) := (h_term a =? h_term b) && (h_vote a =? h_vote b) && (h_commit a =? h_commit b).
Definition werr_eqb (a b : werr) : bool :=
  match a, b with
  | ECompacted, ECompacted | EUnavailable, EUnavailable | ESnapOutOfDate, ESnapOutOfDate
  | ENotFound, ENotFound | EEmptyConf, EEmptyConf | EOther, EOther => true
  | _, _ => false
  end.
Definition obs_eqb (a b : obs) : bool :=
  match a, b with
  | ONone, ONone => true
  | OErr x, OErr y => werr_eqb x y
  | ONum x, ONum y => x =? y
  | OEnts x, OEnts y => list_eqb entry_eqb x y
  | OSnapshot x, OSnapshot y => snap_eqb x y
  | OInit h c, OInit h' c' => hard_eqb h h' && list_eqb N.eqb c c'
  | _, _ => false
  end.

Record wal_case := { wc_calls : list call; wc_legal : list bool; wc_obs : list obs; wc_ref : list obs }.

(* (1) the Badger model reproduces the implementation's answers on every call, legal or not *)
Definition wal_case_model_ok (fsave fdel : bool) (c : wal_case) : bool :=
  list_eqb obs_eqb (wal_run fsave fdel wal_new (wc_calls c)) (wc_obs c).
(* (1') the reference model reproduces etcd's MemoryStorage on the calls raft may issue *)
Fixpoint masked_eqb (legal : list bool) (a b : list obs) : bool :=
  match legal, a, b with
  | [], [], [] => true
  | l :: lt, x :: at_, y :: bt => (if l then obs_eqb x y else true) && masked_eqb lt at_ bt
  | _, _, _ => false
  end.
Definition wal_case_ref_ok (c : wal_case) : bool := masked_eqb (wc_legal c) (mem_run mem_new (wc_calls c)) (wc_ref c).
(* (2) the property on the observations: on legal calls the store answers as the reference does *)
Definition wal_case_oracle_ok (c : wal_case) : bool := masked_eqb (wc_legal c) (wc_obs c) (wc_ref c).

Fixpoint bad_idx {A} (f : A -> bool) (l : list A) (i : nat) : list nat :=
  match l with [] => [] | a :: t => if f a then bad_idx f t (S i) else i :: bad_idx f t (S i) end.
