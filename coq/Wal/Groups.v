(* Wal/Groups.v — several groups in one database: each group's answers are those of its own run.
   (The structured store keeps one slice per group; Wal/Keys.v shows the byte keys cannot collide or prefix each
   other for version-4 / nil group ids.) *)
From Verif Require Import Base.Prelude Wal.Model Wal.Lists Wal.Refine.
Open Scope N_scope.

Definition mstore := N -> wal.
Definition mstep (st : mstore) (g : N) (c : call) : mstore * obs :=
  let '(w', o) := wal_step true true (st g) c in (fun x => if x =? g then w' else st x, o).

Fixpoint mrun (st : mstore) (cs : list (N * call)) : list (N * obs) :=
  match cs with [] => [] | (g, c) :: r => let '(st', o) := mstep st g c in (g, o) :: mrun st' r end.

Definition proj {A} (g : N) (l : list (N * A)) : list A := map snd (filter (fun x => fst x =? g) l).

Theorem groups_isolated cs : forall st g, proj g (mrun st cs) = wal_run true true (st g) (proj g cs).
Proof.
  induction cs as [|[g' c] r IH]; intros st g; simpl; auto.
  unfold mstep. destruct (wal_step true true (st g') c) as [w' o] eqn:E. simpl.
  destruct (N.eqb_spec g' g) as [->|Hn].
  - unfold proj. simpl. rewrite N.eqb_refl. simpl. rewrite E. f_equal.
    fold (proj g (mrun (fun x => if x =? g then w' else st x) r)). rewrite IH. rewrite N.eqb_refl. auto.
  - unfold proj. simpl. destruct (N.eqb_spec g' g); [congruence|].
    fold (proj g (mrun (fun x => if x =? g' then w' else st x) r)). rewrite IH.
    destruct (N.eqb_spec g g'); [congruence|]. auto.
Qed.

(* hence: every group of an interleaved history refines its own reference storage *)
Theorem groups_refine cs st (ms : N -> mem) g :
  Sim (st g) (ms g) -> all_legal (ms g) (proj g cs) -> proj g (mrun st cs) = mem_run (ms g) (proj g cs).
Proof. intros HS L. rewrite groups_isolated. apply wal_run_refines; auto. Qed.

(* deleting a group: a store later opened for the same id is fresh, the others are untouched *)
Theorem delete_group_fresh st g : forall g', g' <> g ->
  fst (mstep st g KDeleteGroup) g' = st g' /\
  (forall m, Sim (st g) m -> Sim (fst (mstep st g KDeleteGroup) g) mem_new).
Proof.
  intros g' Hn. unfold mstep. simpl. destruct (N.eqb_spec g' g); [congruence|]. split; auto.
  intros m HS. rewrite N.eqb_refl. apply (delete_group_sim _ m HS).
Qed.
