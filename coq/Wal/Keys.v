(* Wal/Keys.v — the byte-level key layout justifies the structured view of Wal/Model.v:
   (1) within a group, the lexicographic order of entry keys is the numeric order of indices (iterators seek and
       scan in index order); (2) no key of another group — entry, hard-state or snapshot key — and not the
       "raftid" key has a version-4 (or nil) group id as a 16-byte prefix (prefix iteration stays inside the group). *)
From Verif Require Import Base.Prelude Store.Spec Codec.Model Codec.Proofs.
From Coq Require Import ZifyN ZifyBool ZifyNat.
Open Scope N_scope.
Ltac zify_div_lia := (Zify.zify; Z.div_mod_to_equations; lia).

(* bytes.Compare on equal-length strings *)
Fixpoint lex_lt (a b : list N) : Prop :=
  match a, b with
  | x :: a', y :: b' => x < y \/ (x = y /\ lex_lt a' b')
  | _, _ => False
  end.

Lemma be_bytes n x : Forall (fun b => b < 256) (be n x).
Proof. induction n; simpl; constructor; auto. apply N.mod_lt. lia. Qed.

Lemma unbe_bound l : Forall (fun b => b < 256) l -> unbe l < 256 ^ N.of_nat (length l).
Proof.
  induction 1 as [|y l Hy Hl IH].
  - unfold unbe; simpl. lia.
  - rewrite unbe_cons. cbn [length]. rewrite Nat2N.inj_succ, N.pow_succ_r'.
    assert (P : 0 < 256 ^ N.of_nat (length l)) by (apply N.neq_0_lt_0; apply N.pow_nonzero; lia). nia.
Qed.

Lemma lex_unbe a : forall b, length a = length b -> Forall (fun x => x < 256) a -> Forall (fun x => x < 256) b ->
  (lex_lt a b <-> unbe a < unbe b).
Proof.
  induction a as [|x a IH]; intros [|y b] L Fa Fb; simpl in L; try discriminate.
  - simpl. unfold unbe; simpl. lia.
  - inversion Fa; inversion Fb; subst. injection L as L. rewrite !unbe_cons, <- L.
    pose proof (unbe_bound a H2). pose proof (unbe_bound b H6). rewrite <- L in H0.
    assert (P : 0 < 256 ^ N.of_nat (length a)) by (apply N.neq_0_lt_0; apply N.pow_nonzero; lia).
    simpl lex_lt. rewrite (IH b L H2 H6). split.
    + intros [Hlt|[-> Hl]]; nia.
    + intros Hlt. destruct (N.lt_trichotomy x y) as [?|[->|?]]; [left; auto|right; split; auto; nia|nia].
Qed.

(* entryKey(idx) = groupId ++ BigEndian(idx) *)
Definition entry_key (gid : list N) (i : N) : list N := gid ++ be 8 i.
Definition hs_key (gid : list N) : list N := [104; 115] ++ gid.        (* "hs" *)
Definition ss_key (gid : list N) : list N := [115; 115] ++ gid.        (* "ss" *)
Definition raftid_key : list N := [114; 97; 102; 116; 105; 100].       (* "raftid" *)

Theorem key_order i j : i < 2 ^ 64 -> j < 2 ^ 64 -> (lex_lt (be 8 i) (be 8 j) <-> i < j).
Proof.
  intros Hi Hj. rewrite (lex_unbe (be 8 i) (be 8 j)); rewrite ?be_length; auto; try apply be_bytes.
  rewrite !unbe_be; [tauto| |]; change (256 ^ N.of_nat 8) with (2 ^ 64); auto.
Qed.

(* group ids: 16 bytes, version 4 (byte 6 = 0x4_, byte 8 = 0b10______) or all zero (the zero group) *)
Definition is_v4 (g : list N) : Prop := length g = 16%nat /\ nth 6 g 0 / 16 = 4 /\ 128 <= nth 8 g 0 < 192.
Definition is_nil (g : list N) : Prop := g = repeat 0 16.
Definition v4_or_nil (g : list N) : Prop := is_v4 g \/ is_nil g.
Definition has_prefix (p k : list N) : Prop := firstn (length p) k = p.

Lemma sixteen_bytes (g : list N) : length g = 16%nat ->
  exists b0 b1 b2 b3 b4 b5 b6 b7 b8 b9 b10 b11 b12 b13 b14 b15,
    g = [b0; b1; b2; b3; b4; b5; b6; b7; b8; b9; b10; b11; b12; b13; b14; b15].
Proof.
  intros L. do 16 (destruct g as [|? g]; [simpl in L; discriminate|]). destruct g; [|simpl in L; discriminate].
  repeat eexists.
Qed.

Theorem prefix_isolation g g' : v4_or_nil g -> v4_or_nil g' ->
  ~ has_prefix g (hs_key g') /\ ~ has_prefix g (ss_key g') /\ ~ has_prefix g raftid_key /\
  (forall i, has_prefix g (entry_key g' i) -> g = g').
Proof.
  intros Hg Hg'.
  assert (L : length g = 16%nat) by (destruct Hg as [[L _]| ->]; auto).
  assert (L' : length g' = 16%nat) by (destruct Hg' as [[L' _]| ->]; auto).
  unfold has_prefix. rewrite L.
  assert (B0 : forall p q, p <> 0 -> firstn 16 ([p; q] ++ g') = g -> False).
  { intros p q Hp E.
    destruct (sixteen_bytes g L) as (a0 & a1 & a2 & a3 & a4 & a5 & a6 & a7 & a8 & a9 & a10 & a11 & a12 & a13 & a14 & a15 & ->).
    destruct (sixteen_bytes g' L') as (b0 & b1 & b2 & b3 & b4 & b5 & b6 & b7 & b8 & b9 & b10 & b11 & b12 & b13 & b14 & b15 & ->).
    simpl in E. inversion E; subst. clear E.
    destruct Hg as [(_ & A & B)|Hn], Hg' as [(_ & A' & B')|Hn']; unfold is_nil in *; simpl in *.
    - (* byte 8 of g is byte 6 of g' *) zify_div_lia.
    - inversion Hn'; subst. lia.
    - inversion Hn; subst. congruence.
    - inversion Hn; subst. congruence. }
  split; [intros E; apply (B0 104 115 ltac:(lia) E)|]. split; [intros E; apply (B0 115 115 ltac:(lia) E)|]. split.
  - intros E. destruct (sixteen_bytes g L) as (a0 & a1 & a2 & a3 & a4 & a5 & a6 & a7 & a8 & a9 & a10 & a11 & a12 & a13 & a14 & a15 & ->).
    simpl in E. discriminate.
  - intros i E. unfold entry_key in E. rewrite <- L' in E. rewrite firstn_app, Nat.sub_diag, firstn_all in E.
    simpl in E. rewrite app_nil_r in E. auto.
Qed.
