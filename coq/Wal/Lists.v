(* Wal/Lists.v — contiguous entry lists: seeks, slices, batched sets and deletes. *)
From Verif Require Import Base.Prelude Wal.Model.
From Coq Require Import ZifyN ZifyBool ZifyNat.
Open Scope N_scope.

Definition de : entry := {| e_term := 0; e_index := 0; e_data := 0; e_size := 0 |}.

Fixpoint contig (off : N) (l : list entry) : Prop :=
  match l with [] => True | x :: t => e_index x = off /\ contig (off + 1) t end.

Lemma contig_app off l1 l2 : contig off (l1 ++ l2) <-> contig off l1 /\ contig (off + N.of_nat (length l1)) l2.
Proof.
  revert off; induction l1 as [|x l1 IH]; intros off; simpl.
  - rewrite N.add_0_r. tauto.
  - rewrite IH. replace (off + 1 + N.of_nat (length l1)) with (off + N.pos (Pos.of_succ_nat (length l1))) by lia. tauto.
Qed.

Lemma contig_nth off l k : contig off l -> (k < length l)%nat -> e_index (nth k l de) = off + N.of_nat k.
Proof.
  revert off k; induction l as [|x l IH]; intros off k C H; simpl in *; [lia|].
  destruct C as (E & C). destruct k; simpl; [lia|]. rewrite (IH (off + 1)) by (auto; lia). lia.
Qed.

Lemma contig_firstn off l n : contig off l -> contig off (firstn n l).
Proof.
  revert off n; induction l as [|x l IH]; intros off [|n] C; simpl in *; auto. destruct C; split; auto.
Qed.
Lemma contig_skipn off l n : contig off l -> contig (off + N.of_nat n) (skipn n l).
Proof.
  revert off n; induction l as [|x l IH]; intros off [|n] C; simpl in *; auto.
  - rewrite N.add_0_r. auto.
  - destruct C as (E & C). specialize (IH (off + 1) n C). replace (off + N.pos (Pos.of_succ_nat n)) with (off + 1 + N.of_nat n) by lia. auto.
Qed.

Lemma contig_all_ge off l : contig off l -> Forall (fun x => off <= e_index x) l.
Proof.
  revert off; induction l as [|x l IH]; intros off C; simpl in *; constructor.
  - destruct C; lia.
  - destruct C as (_ & C). eapply Forall_impl; [|apply (IH _ C)]. cbv beta; intros; lia.
Qed.

(* ---- seeks ---- *)
Lemma seek_fwd_contig off l i : contig off l ->
  seek_fwd i l = if i <=? off then hd_error l
                 else if i <? off + N.of_nat (length l) then Some (nth (N.to_nat (i - off)) l de) else None.
Proof.
  revert off; induction l as [|x l IH]; intros off C; simpl in *.
  - destruct (N.leb_spec i off); auto. destruct (N.ltb_spec i (off + 0)); auto. lia.
  - destruct C as (E & C). rewrite E. destruct (N.leb_spec i off) as [H|H]; auto.
    rewrite (IH (off + 1) C). destruct (N.leb_spec i (off + 1)) as [H1|H1].
    + assert (i = off + 1) by lia. subst i.
      destruct (N.ltb_spec (off + 1) (off + N.pos (Pos.of_succ_nat (length l)))) as [H2|H2].
      * replace (N.to_nat (off + 1 - off)) with 1%nat by lia. destruct l; simpl in *; auto. lia.
      * destruct l; simpl in *; auto. lia.
    + destruct (N.ltb_spec i (off + 1 + N.of_nat (length l))), (N.ltb_spec i (off + N.pos (Pos.of_succ_nat (length l)))); try lia; auto.
      replace (N.to_nat (i - off)) with (S (N.to_nat (i - (off + 1)))) by lia. auto.
Qed.

Lemma seek_last_spec (l : list entry) : seek_last l = match l with [] => None | _ => Some (last l de) end.
Proof.
  unfold seek_last. destruct l as [|x l]; auto. 
  assert (H : forall (a : entry) l, rev (a :: l) = last (a :: l) de :: rev (removelast (a :: l))).
  { intros a l0. rewrite (app_removelast_last de (l := a :: l0)) at 1 by discriminate. rewrite rev_app_distr. auto. }
  rewrite H. auto.
Qed.

Lemma last_nth {A} (l : list A) d : last l d = nth (length l - 1) l d.
Proof.
  induction l as [|x l IH]; simpl; auto. destruct l as [|y l]; simpl in *; auto.
  rewrite IH. rewrite Nat.sub_0_r. auto.
Qed.

Lemma contig_last off l : contig off l -> l <> [] -> e_index (last l de) = off + N.of_nat (length l) - 1.
Proof.
  intros C H. rewrite last_nth.
  assert (L : (0 < length l)%nat) by (destruct l; simpl; [congruence|lia]).
  rewrite (contig_nth off l) by (auto; lia). lia.
Qed.

Lemma get_entry_contig off l i : contig off l -> off <= i -> i < off + N.of_nat (length l) ->
  get_entry i l = Some (nth (N.to_nat (i - off)) l de).
Proof.
  revert off; induction l as [|x l IH]; intros off C H1 H2; simpl in *; [lia|].
  destruct C as (E & C). rewrite E. destruct (N.eqb_spec off i) as [->|Hn].
  - rewrite N.sub_diag. auto.
  - rewrite (IH (off + 1) C) by lia. replace (N.to_nat (i - off)) with (S (N.to_nat (i - (off + 1)))) by lia. auto.
Qed.

Lemma drop_below_contig off l lo : contig off l -> drop_below lo l = skipn (N.to_nat (lo - off)) l.
Proof.
  revert off; induction l as [|x l IH]; intros off C; simpl in *.
  - destruct (N.to_nat (lo - off)); auto.
  - destruct C as (E & C). rewrite E. destruct (N.ltb_spec off lo) as [H|H].
    + rewrite (IH (off + 1) C). replace (N.to_nat (lo - off)) with (S (N.to_nat (lo - (off + 1)))) by lia. auto.
    + replace (N.to_nat (lo - off)) with O by lia. auto.
Qed.

Lemma take_below_contig off l i : contig off l -> take_below i l = firstn (N.to_nat (i - off)) l.
Proof.
  revert off; induction l as [|x l IH]; intros off C; simpl in *.
  - destruct (N.to_nat (i - off)); auto.
  - destruct C as (E & C). rewrite E. destruct (N.ltb_spec off i) as [H|H].
    + rewrite (IH (off + 1) C). replace (N.to_nat (i - off)) with (S (N.to_nat (i - (off + 1)))) by lia. auto.
    + replace (N.to_nat (i - off)) with O by lia. auto.
Qed.

(* ---- batched sets and deletes over the entry list ---- *)
Definition ents_flush (l : list entry) (b : list bop) : list entry :=
  fold_left (fun l o => match o with BSet e => set_entry e l | BDel i => del_entry i l | _ => l end) b l.

Lemma flush_ents g b : g_ents (flush g b) = ents_flush (g_ents g) b.
Proof.
  unfold flush, ents_flush. revert g; induction b as [|o b IH]; intros g; simpl; auto.
  rewrite IH. destruct o; simpl; auto.
Qed.
Lemma flush_hs_ss_entry_ops g b : Forall (fun o => match o with BSet _ | BDel _ => True | _ => False end) b ->
  g_hs (flush g b) = g_hs g /\ g_ss (flush g b) = g_ss g.
Proof.
  unfold flush. revert g; induction b as [|o b IH]; intros g F; simpl; auto.
  inversion F; subst. destruct (IH (apply_bop g o) H2) as (A & B). rewrite A, B. destruct o; simpl in *; tauto.
Qed.
Lemma ents_flush_app l b1 b2 : ents_flush l (b1 ++ b2) = ents_flush (ents_flush l b1) b2.
Proof. unfold ents_flush. apply fold_left_app. Qed.

Lemma set_entry_after pre rest e : Forall (fun x => e_index x < e_index e) pre ->
  set_entry e (pre ++ rest) = pre ++ set_entry e rest.
Proof.
  induction pre as [|x pre IH]; intros F; simpl; auto. inversion F; subst.
  destruct (N.ltb_spec (e_index e) (e_index x)); [lia|]. destruct (N.eqb_spec (e_index e) (e_index x)); [lia|].
  rewrite IH; auto.
Qed.

Lemma contig_all_lt off l : contig off l -> Forall (fun x => e_index x < off + N.of_nat (length l)) l.
Proof.
  revert off; induction l as [|x l IH]; intros off C; simpl in *; constructor.
  - destruct C; lia.
  - destruct C as (_ & C). eapply Forall_impl; [|apply (IH _ C)]. cbv beta; intros; lia.
Qed.

(* writing a contiguous run [es] that starts inside or right after a contiguous log overwrites position by position *)
Lemma contig_tl off l : contig off l -> contig (off + 1) (tl l).
Proof. destruct l; simpl; tauto. Qed.
Lemma skipn_S_tl {A} n (l : list A) : skipn (S n) l = skipn n (tl l).
Proof. destruct l; simpl; auto. destruct n; auto. Qed.

Lemma sets_contig es : forall off pre rest,
  contig off pre -> contig (off + N.of_nat (length pre)) rest -> contig (off + N.of_nat (length pre)) es ->
  ents_flush (pre ++ rest) (map BSet es) = pre ++ es ++ skipn (length es) rest.
Proof.
  induction es as [|e es IH]; intros off pre rest Cp Cr Ce.
  - simpl. auto.
  - destruct Ce as (E & Ce). cbn [map ents_flush fold_left]. fold (ents_flush (set_entry e (pre ++ rest)) (map BSet es)).
    assert (F : Forall (fun x => e_index x < e_index e) pre) by (rewrite E; apply contig_all_lt; auto).
    rewrite set_entry_after by auto.
    assert (S1 : set_entry e rest = e :: tl rest).
    { destruct rest as [|x rest]; simpl; auto. destruct Cr as (Ex & _).
      destruct (N.ltb_spec (e_index e) (e_index x)); [lia|]. destruct (N.eqb_spec (e_index e) (e_index x)); [auto|lia]. }
    rewrite S1.
    replace (pre ++ e :: tl rest) with ((pre ++ [e]) ++ tl rest) by (rewrite <- app_assoc; auto).
    assert (L : off + N.of_nat (length (pre ++ [e])) = off + N.of_nat (length pre) + 1) by (rewrite app_length; simpl; lia).
    rewrite (IH off (pre ++ [e]) (tl rest)).
    + rewrite <- app_assoc. cbn [app length]. rewrite skipn_S_tl. auto.
    + apply contig_app. split; auto. simpl. split; auto.
    + rewrite L. apply contig_tl; auto.
    + rewrite L. auto.
Qed.

Lemma del_entry_notin i l : Forall (fun x => e_index x <> i) l -> del_entry i l = l.
Proof.
  induction 1 as [|x l Hx Hl IH]; simpl; auto. destruct (N.eqb_spec (e_index x) i); [congruence|]. simpl. f_equal; auto.
Qed.

Lemma del_entry_app i l1 l2 : del_entry i (l1 ++ l2) = del_entry i l1 ++ del_entry i l2.
Proof. unfold del_entry. apply filter_app. Qed.

(* deleting every index of a contiguous suffix removes exactly that suffix *)
Lemma dels_suffix suffix : forall pre off2,
  Forall (fun x => e_index x < off2) pre -> contig off2 suffix ->
  ents_flush (pre ++ suffix) (map (fun e => BDel (e_index e)) suffix) = pre.
Proof.
  induction suffix as [|x s IH]; intros pre off2 F C; simpl.
  - apply app_nil_r.
  - destruct C as (E & C).
    assert (D : del_entry (e_index x) (pre ++ x :: s) = pre ++ s).
    { rewrite del_entry_app. rewrite del_entry_notin by (eapply Forall_impl; [|exact F]; simpl; intros; lia).
      f_equal. simpl. rewrite N.eqb_refl. simpl. apply del_entry_notin.
      eapply Forall_impl; [|apply (contig_all_ge _ _ C)]. cbv beta; intros; lia. }
    rewrite D. apply (IH pre (off2 + 1)); auto. eapply Forall_impl; [|exact F]. cbv beta; intros; lia.
Qed.

Lemma dels_prefix pre : forall tail off off2,
  contig off pre -> off + N.of_nat (length pre) <= off2 -> Forall (fun x => off2 <= e_index x) tail ->
  ents_flush (pre ++ tail) (map (fun e => BDel (e_index e)) pre) = tail.
Proof.
  induction pre as [|x pre IH]; intros tail off off2 C L F; simpl; auto.
  destruct C as (E & C). rewrite N.eqb_refl. simpl.
  assert (D : del_entry (e_index x) (pre ++ tail) = pre ++ tail).
  { apply del_entry_notin. apply Forall_app. split.
    - eapply Forall_impl; [|apply (contig_all_ge _ _ C)]. cbv beta; intros; lia.
    - eapply Forall_impl; [|exact F]. cbv beta; intros. cbn [length] in L. lia. }
  rewrite D. apply (IH tail (off + 1) off2); auto. cbn [length] in L. lia.
Qed.

(* projections of a flushed batch on the hard state and the snapshot *)
Definition hs_flush (x : option hard) (b : list bop) : option hard :=
  fold_left (fun x o => match o with BSetHard h => Some h | BDelHard => None | _ => x end) b x.
Definition ss_flush (x : option snapshot) (b : list bop) : option snapshot :=
  fold_left (fun x o => match o with BSetSnap s => Some s | BDelSnap => None | _ => x end) b x.
Lemma flush_hs g b : g_hs (flush g b) = hs_flush (g_hs g) b.
Proof. unfold flush, hs_flush. revert g; induction b as [|o b IH]; intros g; simpl; auto. rewrite IH. destruct o; auto. Qed.
Lemma flush_ss g b : g_ss (flush g b) = ss_flush (g_ss g) b.
Proof. unfold flush, ss_flush. revert g; induction b as [|o b IH]; intros g; simpl; auto. rewrite IH. destruct o; auto. Qed.
Lemma hs_flush_app x b1 b2 : hs_flush x (b1 ++ b2) = hs_flush (hs_flush x b1) b2.
Proof. apply fold_left_app. Qed.
Lemma ss_flush_app x b1 b2 : ss_flush x (b1 ++ b2) = ss_flush (ss_flush x b1) b2.
Proof. apply fold_left_app. Qed.
Lemma hs_flush_sets x es : hs_flush x (map BSet es) = x.
Proof. induction es; simpl; auto. Qed.
Lemma ss_flush_sets x es : ss_flush x (map BSet es) = x.
Proof. induction es; simpl; auto. Qed.
Lemma hs_flush_dels x (es : list entry) : hs_flush x (map (fun e => BDel (e_index e)) es) = x.
Proof. induction es; simpl; auto. Qed.
Lemma ss_flush_dels x (es : list entry) : ss_flush x (map (fun e => BDel (e_index e)) es) = x.
Proof. induction es; simpl; auto. Qed.

(* size-limited slices *)
Lemma collect_limit S : forall lo hi mx sz, contig lo S ->
  collect S hi mx sz false = limit_size (firstn (N.to_nat (hi - lo)) S) mx sz.
Proof.
  induction S as [|x t IH]; intros lo hi mx sz C; simpl.
  - destruct (N.to_nat (hi - lo)); auto.
  - destruct C as (E & C). rewrite E. destruct (N.leb_spec hi lo) as [H|H].
    + replace (N.to_nat (hi - lo)) with O by lia. auto.
    + replace (N.to_nat (hi - lo)) with (S (N.to_nat (hi - (lo + 1)))) by lia. simpl.
      rewrite Bool.andb_true_r. destruct (mx <? sz + e_size x); auto. f_equal. apply IH; auto.
Qed.

Lemma skipn_nth_cons {A} (l : list A) d : forall k, (k < length l)%nat -> skipn k l = nth k l d :: skipn (S k) l.
Proof. induction l as [|x t IH]; intros [|k] Hk; simpl in *; try lia; auto. apply IH; lia. Qed.

Lemma skipn_skipn_nat {A} (l : list A) : forall a b, skipn a (skipn b l) = skipn (b + a) l.
Proof.
  induction l as [|x t IH]; intros a b.
  - destruct a, b; reflexivity.
  - destruct b; simpl; [reflexivity|apply IH].
Qed.

Lemma last_indep {A} (l : list A) a b : l <> [] -> last l a = last l b.
Proof. induction l as [|x [|y t] IH]; intros H; simpl in *; auto; [congruence|apply IH; discriminate]. Qed.

Lemma match_hd {A B} (l : list A) x (a : B) (f : A -> B) : hd_error l = Some x ->
  match l with [] => a | y :: _ => f y end = f x.
Proof. destruct l; simpl; intros H; inversion H; auto. Qed.
