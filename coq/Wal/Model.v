(* Wal/Model.v — storage/wal/badger.go over a key-value store with write batches, and the reference
   (etcd raft MemoryStorage).  Structured keys (group, kind, index); the byte-level key layout is in Wal/Keys.v.
   Executable; no proofs. *)
From Verif Require Import Base.Prelude.
Open Scope N_scope.

Record entry := { e_term : N; e_index : N; e_data : N; e_size : N }.   (* data: opaque payload; size: protobuf Size() *)
Record snapshot := { sn_index : N; sn_term : N; sn_conf : list N; sn_data : N }.
Record hard := { h_term : N; h_vote : N; h_commit : N }.
Definition empty_snap : snapshot := {| sn_index := 0; sn_term := 0; sn_conf := []; sn_data := 0 |}.
Definition empty_hard : hard := {| h_term := 0; h_vote := 0; h_commit := 0 |}.
Definition is_empty_snap (s : snapshot) : bool := sn_index s =? 0.
Definition is_empty_hard (h : hard) : bool := (h_term h =? 0) && (h_vote h =? 0) && (h_commit h =? 0).

Inductive werr := ECompacted | EUnavailable | ESnapOutOfDate | ENotFound | EEmptyConf | EOther.
Inductive res (A : Type) := Ok (a : A) | Err (e : werr).
Arguments Ok {A} a. Arguments Err {A} e.

(* ------------------------------------------------------------------ the key-value store, one group's slice *)
(* entries sorted by index, ascending, no duplicate indices *)
Record gstore := { g_ents : list entry; g_hs : option hard; g_ss : option snapshot }.
Definition gstore_empty : gstore := {| g_ents := []; g_hs := None; g_ss := None |}.

Fixpoint set_entry (e : entry) (l : list entry) : list entry :=
  match l with
  | [] => [e]
  | x :: t => if e_index e <? e_index x then e :: l
              else if e_index e =? e_index x then e :: t
              else x :: set_entry e t
  end.
Definition del_entry (i : N) (l : list entry) : list entry := filter (fun x => negb (e_index x =? i)) l.

Inductive bop := BSet (e : entry) | BDel (i : N) | BSetHard (h : hard) | BSetSnap (s : snapshot) | BDelHard | BDelSnap.
Definition apply_bop (g : gstore) (o : bop) : gstore :=
  match o with
  | BSet e => {| g_ents := set_entry e (g_ents g); g_hs := g_hs g; g_ss := g_ss g |}
  | BDel i => {| g_ents := del_entry i (g_ents g); g_hs := g_hs g; g_ss := g_ss g |}
  | BSetHard h => {| g_ents := g_ents g; g_hs := Some h; g_ss := g_ss g |}
  | BSetSnap s => {| g_ents := g_ents g; g_hs := g_hs g; g_ss := Some s |}
  | BDelHard => {| g_ents := g_ents g; g_hs := None; g_ss := g_ss g |}
  | BDelSnap => {| g_ents := g_ents g; g_hs := g_hs g; g_ss := None |}
  end.
(* WriteBatch.Flush: the operations in order; for one key the last operation wins *)
Definition flush (g : gstore) (b : list bop) : gstore := fold_left apply_bop b g.

(* iterator Seek(entryKey(i)) forward: first entry with index >= i; reverse: last entry with index <= i *)
Fixpoint seek_fwd (i : N) (l : list entry) : option entry :=
  match l with [] => None | x :: t => if i <=? e_index x then Some x else seek_fwd i t end.
Definition seek_last (l : list entry) : option entry := match rev l with [] => None | x :: _ => Some x end.
Definition get_entry (i : N) (l : list entry) : option entry := find (fun x => e_index x =? i) l.

(* ------------------------------------------------------------------ badgerWAL: a handle = cache, over the store *)
Record cache := { c_snap : option snapshot; c_first : option N; c_last : option N }.
Definition cache_empty : cache := {| c_snap := None; c_first := None; c_last := None |}.
Record wal := { w_disk : gstore; w_cache : cache }.

Definition cached_snap (c : cache) : option snapshot :=
  match c_snap c with Some s => if is_empty_snap s then None else Some s | None => None end.

(* FirstIndex: cached snapshot index + 1, else cached first, else seek(0) + 1 (and cache it) *)
Definition first_index (w : wal) : res N * wal :=
  match cached_snap (w_cache w) with
  | Some s => (Ok (sn_index s + 1), w)
  | None =>
      match c_first (w_cache w) with
      | Some i => (Ok i, w)
      | None => match seek_fwd 0 (g_ents (w_disk w)) with
                | None => (Err ENotFound, w)
                | Some e => (Ok (e_index e + 1),
                             {| w_disk := w_disk w;
                                w_cache := {| c_snap := c_snap (w_cache w); c_first := Some (e_index e + 1); c_last := c_last (w_cache w) |} |})
                end
      end
  end.
Definition last_index (w : wal) : res N :=
  match c_last (w_cache w) with
  | Some i => Ok i
  | None => match seek_last (g_ents (w_disk w)) with Some e => Ok (e_index e) | None => Err ENotFound end
  end.
Definition get_snapshot (w : wal) : snapshot :=
  match cached_snap (w_cache w) with
  | Some s => s
  | None => match g_ss (w_disk w) with Some s => s | None => empty_snap end
  end.
Definition get_hard (w : wal) : hard := match g_hs (w_disk w) with Some h => h | None => empty_hard end.

Definition term_of (w : wal) (i : N) : res N * wal :=
  let '(f, w1) := first_index w in
  match f with
  | Err e => (Err e, w1)
  | Ok first =>
      if i <? first - 1 then (Err ECompacted, w1)
      else match seek_fwd i (g_ents (w_disk w1)) with
           | None => (Err EUnavailable, w1)
           | Some e => if i <? e_index e then (Err ECompacted, w1) else (Ok (e_term e), w1)
           end
  end.

(* getEntries(lo, hi, maxSize) *)
Fixpoint collect (l : list entry) (hi maxSize size : N) (first : bool) : list entry :=
  match l with
  | [] => []
  | x :: t => if hi <=? e_index x then []
              else let size' := size + e_size x in
                   if (maxSize <? size') && negb first then []
                   else x :: collect t hi maxSize size' false
  end.
Fixpoint drop_below (lo : N) (l : list entry) : list entry :=
  match l with [] => [] | x :: t => if e_index x <? lo then drop_below lo t else l end.
Definition entries_of (w : wal) (lo hi maxSize : N) : res (list entry) * wal :=
  let '(f, w1) := first_index w in
  match f with
  | Err e => (Err e, w1)
  | Ok first =>
      if lo <? first then (Err ECompacted, w1)
      else match last_index w1 with
           | Err e => (Err e, w1)
           | Ok last =>
               if last + 1 <? hi then (Err EUnavailable, w1)
               else if hi - lo =? 1
                    then match get_entry lo (g_ents (w_disk w1)) with
                         | Some e => (Ok [e], w1)
                         | None => (Err EOther, w1)        (* badger.ErrKeyNotFound *)
                         end
                    else (Ok (collect (drop_below lo (g_ents (w_disk w1))) hi maxSize 0 true), w1)
           end
  end.

Definition set_c_last (c : cache) (i : N) := {| c_snap := c_snap c; c_first := c_first c; c_last := Some i |}.

(* deleteEntriesFromIndex(batch, from): keys found by iterating the store AS IT IS NOW (not the pending batch) *)
Definition del_from (w : wal) (from : N) : list bop :=
  map (fun e => BDel (e_index e)) (drop_below from (g_ents (w_disk w))).

(* writeSnapshot(batch, snapshot) *)
Definition write_snapshot (c : cache) (s : snapshot) : list bop * cache :=
  if is_empty_snap s then ([], c)
  else ([BSetSnap s; BSet {| e_term := sn_term s; e_index := sn_index s; e_data := 0; e_size := 0 |}],
        {| c_snap := Some s; c_first := c_first c;
           c_last := match c_last c with Some v => if v <? sn_index s then Some (sn_index s) else Some v | None => None end |}).

(* writeEntries(batch, entries) *)
Definition write_entries (w : wal) (es : list entry) : res (list bop) * wal :=
  match es with
  | [] => (Ok [], w)
  | e0 :: _ =>
      let '(f, w1) := first_index w in
      match f with
      | Err e => (Err e, w1)
      | Ok first =>
          let n := N.of_nat (length es) in
          if e_index e0 + n - 1 <? first then (Ok [], w1)
          else let es' := if e_index e0 <? first then skipn (N.to_nat (first - e_index e0)) es else es in
               match last_index w1 with
               | Err e => (Err e, w1)
               | Ok last =>
                   let le := e_index (List.last es' e0) in
                   let w2 := {| w_disk := w_disk w1; w_cache := set_c_last (w_cache w1) le |} in
                   (Ok (map BSet es' ++ (if le <? last then del_from w2 (le + 1) else [])), w2)
               end
      end
  end.

Definition write_hard (h : hard) : list bop := if is_empty_hard h then [] else [BSetHard h].

(* Save(hardState, entries, snapshot).  [fixed = true]: the code after the fix (old log deleted first, then the
   snapshot and its entry, cached last index reset, then the entries).  [fixed = false]: the original order. *)
Definition save (fixed : bool) (w : wal) (h : hard) (es : list entry) (s : snapshot) : res unit * wal :=
  if fixed then
    let '(b1, w1) :=
      if is_empty_snap s then ([], w)
      else let d := del_from w 0 in
           let '(bs, c) := write_snapshot (w_cache w) s in
           (d ++ bs, {| w_disk := w_disk w; w_cache := set_c_last c (sn_index s) |}) in
    let '(r, w2) := write_entries w1 es in
    match r with
    | Err e => (Err e, w2)
    | Ok b2 => (Ok tt, {| w_disk := flush (w_disk w2) (b1 ++ b2 ++ write_hard h); w_cache := w_cache w2 |})
    end
  else
    let '(r, w1) := write_entries w es in
    match r with
    | Err e => (Err e, w1)
    | Ok b1 =>
        let b2 := write_hard h in
        let '(b3, c) := if is_empty_snap s then ([], w_cache w1)
                        else let '(bs, c) := write_snapshot (w_cache w1) s in (bs ++ del_from w1 0, c) in
        (Ok tt, {| w_disk := flush (w_disk w1) (b1 ++ b2 ++ b3); w_cache := c |})
    end.

(* deleteEntriesUntilIndex(batch, until) *)
Fixpoint take_below (until : N) (l : list entry) : list entry :=
  match l with [] => [] | x :: t => if e_index x <? until then x :: take_below until t else [] end.
Definition create_snapshot (w : wal) (i : N) (conf : option (list N)) (data : N) : res snapshot * wal :=
  match conf with
  | None => (Err EEmptyConf, w)
  | Some cs =>
      let '(f, w1) := first_index w in
      match f with
      | Err e => (Err e, w1)
      | Ok first =>
          if i <? first then (Err ESnapOutOfDate, w1)
          else match seek_fwd i (g_ents (w_disk w1)) with
               | None => (Err ENotFound, w1)
               | Some e =>
                   if negb (e_index e =? i) then (Err ENotFound, w1)
                   else
                     let s := {| sn_index := i; sn_term := e_term e; sn_conf := cs; sn_data := data |} in
                     let '(b1, c1) := write_snapshot (w_cache w1) s in
                     match g_ents (w_disk w1) with
                     | [] => (Ok s, w1)
                     | x0 :: _ =>
                         if i <=? e_index x0 then (Err ECompacted, {| w_disk := w_disk w1; w_cache := c1 |})
                         else
                           let b2 := map (fun e => BDel (e_index e)) (take_below i (g_ents (w_disk w1))) in
                           let c2 := {| c_snap := c_snap c1;
                                        c_first := match c_first c1 with Some v => if v <=? i then Some (i + 1) else Some v | None => None end;
                                        c_last := c_last c1 |} in
                           (Ok s, {| w_disk := flush (w_disk w1) (b1 ++ b2); w_cache := c2 |})
                     end
               end
      end
  end.

(* reset(entries) / DeleteGroup.  [fixed]: hard state and snapshot removed too *)
Definition delete_group (fixed : bool) (w : wal) : wal :=
  {| w_disk := flush (w_disk w) (del_from w 0 ++ (if fixed then [BDelHard; BDelSnap] else [])); w_cache := cache_empty |}.
(* NewBadgerWAL over an existing store: cold cache; an entry-less store gets the dummy entry (0, 0) *)
Definition reopen (g : gstore) : wal :=
  let w := {| w_disk := g; w_cache := cache_empty |} in
  match fst (first_index w) with
  | Err _ => {| w_disk := flush g (del_from w 0 ++ [BSet {| e_term := 0; e_index := 0; e_data := 0; e_size := 0 |}]); w_cache := cache_empty |}
  | Ok _ => snd (first_index w)
  end.

(* ------------------------------------------------------------------ reference: etcd raft MemoryStorage *)
Record mem := { m_hard : hard; m_snap : snapshot; m_ents : list entry }.     (* ents[0] is the dummy entry *)
Definition mem_new : mem := {| m_hard := empty_hard; m_snap := empty_snap; m_ents := [{| e_term := 0; e_index := 0; e_data := 0; e_size := 0 |}] |}.
Definition m_offset (m : mem) : N := match m_ents m with e :: _ => e_index e | [] => 0 end.
Definition m_first (m : mem) : N := m_offset m + 1.
Definition m_last (m : mem) : N := m_offset m + N.of_nat (length (m_ents m)) - 1.
Definition m_term (m : mem) (i : N) : res N :=
  if i <? m_offset m then Err ECompacted
  else if N.of_nat (length (m_ents m)) <=? i - m_offset m then Err EUnavailable
  else Ok (e_term (nth (N.to_nat (i - m_offset m)) (m_ents m) {| e_term := 0; e_index := 0; e_data := 0; e_size := 0 |})).
(* limitSize *)
Fixpoint limit_size (l : list entry) (maxSize size : N) : list entry :=
  match l with
  | [] => []
  | x :: t => let size' := size + e_size x in if maxSize <? size' then [] else x :: limit_size t maxSize size'
  end.
Definition m_entries (m : mem) (lo hi maxSize : N) : res (list entry) :=
  if lo <=? m_offset m then Err ECompacted
  else if m_last m + 1 <? hi then Err EOther                   (* the reference panics here; raft never asks *)
  else if (length (m_ents m) =? 1)%nat then Err EUnavailable
  else let sl := firstn (N.to_nat (hi - lo)) (skipn (N.to_nat (lo - m_offset m)) (m_ents m)) in
       match sl with
       | [] => Ok []
       | x :: t => Ok (x :: limit_size t maxSize (e_size x))
       end.
Definition m_apply_snapshot (m : mem) (s : snapshot) : res mem :=
  if sn_index s <=? sn_index (m_snap m) then Err ESnapOutOfDate
  else Ok {| m_hard := m_hard m; m_snap := s; m_ents := [{| e_term := sn_term s; e_index := sn_index s; e_data := 0; e_size := 0 |}] |}.
Definition m_append (m : mem) (es : list entry) : mem :=
  match es with
  | [] => m
  | e0 :: _ =>
      let first := m_first m in
      let last := e_index e0 + N.of_nat (length es) - 1 in
      if last <? first then m
      else let es' := if e_index e0 <? first then skipn (N.to_nat (first - e_index e0)) es else es in
           match es' with
           | [] => m
           | e1 :: _ =>
               let off := e_index e1 - m_offset m in
               {| m_hard := m_hard m; m_snap := m_snap m; m_ents := firstn (N.to_nat off) (m_ents m) ++ es' |}
           end
  end.
(* Save composed as the raft documentation prescribes: snapshot first, then entries, then a non-empty hard state *)
Definition m_save (m : mem) (h : hard) (es : list entry) (s : snapshot) : res mem :=
  let r := if is_empty_snap s then Ok m else m_apply_snapshot m s in
  match r with
  | Err e => Err e
  | Ok m1 => let m2 := m_append m1 es in
             Ok (if is_empty_hard h then m2 else {| m_hard := h; m_snap := m_snap m2; m_ents := m_ents m2 |})
  end.
(* local snapshot-and-compaction: CreateSnapshot(i, cs, data) then Compact(i) *)
Definition m_create_snapshot (m : mem) (i : N) (conf : option (list N)) (data : N) : res (snapshot * mem) :=
  match conf with
  | None => Err EEmptyConf
  | Some cs =>
      if i <=? sn_index (m_snap m) then Err ESnapOutOfDate
      else if m_last m <? i then Err EOther                     (* the reference panics; raft never asks *)
      else
        let k := N.to_nat (i - m_offset m) in
        let t := e_term (nth k (m_ents m) {| e_term := 0; e_index := 0; e_data := 0; e_size := 0 |}) in
        let s := {| sn_index := i; sn_term := t; sn_conf := cs; sn_data := data |} in
        Ok (s, {| m_hard := m_hard m; m_snap := s;
                  m_ents := {| e_term := t; e_index := i; e_data := 0; e_size := 0 |} :: skipn (S k) (m_ents m) |})
  end.

(* ------------------------------------------------------------------ call sequences and observations *)
Inductive call :=
| KSave (h : hard) (es : list entry) (s : snapshot)
| KCreateSnap (i : N) (conf : option (list N)) (data : N)
| KReopen
| KDeleteGroup
| KFirst | KLast | KTerm (i : N) | KEntries (lo hi mx : N) | KSnap | KInit.

Inductive obs :=
| ONone | OErr (e : werr) | ONum (n : N) | OEnts (l : list entry) | OSnapshot (s : snapshot) | OInit (h : hard) (conf : list N).

Definition res_obs {A} (f : A -> obs) (r : res A) : obs := match r with Ok a => f a | Err e => OErr e end.

Definition wal_step (fixed fdel : bool) (w : wal) (c : call) : wal * obs :=
  match c with
  | KSave h es s => let '(r, w') := save fixed w h es s in (w', res_obs (fun _ => ONone) r)
  | KCreateSnap i conf d => let '(r, w') := create_snapshot w i conf d in (w', res_obs OSnapshot r)
  | KReopen => (reopen (w_disk w), ONone)
  | KDeleteGroup => (reopen (w_disk (delete_group fdel w)), ONone)   (* followed by a new store for the same id *)
  | KFirst => let '(r, w') := first_index w in (w', res_obs ONum r)
  | KLast => (w, res_obs ONum (last_index w))
  | KTerm i => let '(r, w') := term_of w i in (w', res_obs ONum r)
  | KEntries lo hi mx => let '(r, w') := entries_of w lo hi mx in (w', res_obs OEnts r)
  | KSnap => (w, OSnapshot (get_snapshot w))
  | KInit => (w, OInit (get_hard w) (sn_conf (get_snapshot w)))
  end.

Definition mem_step (m : mem) (c : call) : mem * obs :=
  match c with
  | KSave h es s => match m_save m h es s with Ok m' => (m', ONone) | Err e => (m, OErr e) end
  | KCreateSnap i conf d => match m_create_snapshot m i conf d with Ok (s, m') => (m', OSnapshot s) | Err e => (m, OErr e) end
  | KReopen => (m, ONone)
  | KDeleteGroup => (mem_new, ONone)
  | KFirst => (m, ONum (m_first m))
  | KLast => (m, ONum (m_last m))
  | KTerm i => (m, res_obs ONum (m_term m i))
  | KEntries lo hi mx => (m, res_obs OEnts (m_entries m lo hi mx))
  | KSnap => (m, OSnapshot (m_snap m))
  | KInit => (m, OInit (m_hard m) (sn_conf (m_snap m)))
  end.

Fixpoint wal_run (fixed fdel : bool) (w : wal) (cs : list call) : list obs :=
  match cs with [] => [] | c :: r => let '(w', o) := wal_step fixed fdel w c in o :: wal_run fixed fdel w' r end.
Fixpoint mem_run (m : mem) (cs : list call) : list obs :=
  match cs with [] => [] | c :: r => let '(m', o) := mem_step m c in o :: mem_run m' r end.
Definition wal_new : wal := reopen gstore_empty.
