(* Wal/Refine.v — the Badger log store refines etcd's MemoryStorage on every call raft may issue. *)
From Verif Require Import Base.Prelude Wal.Model Wal.Lists.
From Coq Require Import ZifyN ZifyBool ZifyNat.
Open Scope N_scope.

Definition hs_of (g : gstore) : hard := match g_hs g with Some h => h | None => empty_hard end.
Definition ss_of (g : gstore) : snapshot := match g_ss g with Some s => s | None => empty_snap end.

Record Sim (w : wal) (m : mem) : Prop := {
  sim_ents : g_ents (w_disk w) = m_ents m;
  sim_ne : m_ents m <> [];
  sim_contig : contig (m_offset m) (m_ents m);
  sim_hs : hs_of (w_disk w) = m_hard m;
  sim_ss : ss_of (w_disk w) = m_snap m;
  sim_snapidx : sn_index (m_snap m) = m_offset m;
  sim_csnap : forall s, cached_snap (w_cache w) = Some s -> s = m_snap m;
  sim_cfirst : cached_snap (w_cache w) = None -> forall i, c_first (w_cache w) = Some i -> i = m_offset m + 1;
  sim_clast : forall i, c_last (w_cache w) = Some i -> i = m_last m
}.

(* what raft issues through Ready / Storage *)
Definition consecutive (es : list entry) : Prop := match es with [] => True | e0 :: _ => contig (e_index e0) es end.
Definition legal (m : mem) (c : call) : Prop :=
  match c with
  | KSave h es s =>
      consecutive es /\
      (if is_empty_snap s
       then match es with [] => True | e0 :: _ => e_index e0 <= m_last m + 1 end
       else sn_index (m_snap m) < sn_index s /\ match es with [] => True | e0 :: _ => e_index e0 = sn_index s + 1 end)
  | KCreateSnap i conf d => conf = None \/ i <= m_last m
  | KEntries lo hi mx => lo < hi /\ hi <= m_last m + 1
  | _ => True
  end.

Lemma m_len_pos m : m_ents m <> [] -> (0 < length (m_ents m))%nat.
Proof. destruct (m_ents m); simpl; [congruence|lia]. Qed.

Lemma m_last_eq m : m_ents m <> [] -> contig (m_offset m) (m_ents m) -> e_index (last (m_ents m) de) = m_last m.
Proof. intros H C. unfold m_last. apply contig_last; auto. Qed.

Lemma hd_m m : m_ents m <> [] -> exists x, hd_error (m_ents m) = Some x /\ e_index x = m_offset m.
Proof. unfold m_offset. destruct (m_ents m) as [|x t]; [congruence|]. intros _. exists x. auto. Qed.

(* ------------------------------------------------------------------ FirstIndex / LastIndex *)
Lemma first_index_sim w m : Sim w m ->
  exists w', first_index w = (Ok (m_offset m + 1), w') /\ Sim w' m /\ w_disk w' = w_disk w /\
             c_snap (w_cache w') = c_snap (w_cache w) /\ c_last (w_cache w') = c_last (w_cache w).
Proof.
  intros HS. unfold first_index. destruct (cached_snap (w_cache w)) as [s|] eqn:E.
  - rewrite (sim_csnap _ _ HS _ E), (sim_snapidx _ _ HS). exists w. auto.
  - destruct (c_first (w_cache w)) as [i|] eqn:E2.
    + rewrite (sim_cfirst _ _ HS E _ E2). exists w. auto.
    + rewrite (sim_ents _ _ HS). pose proof (sim_ne _ _ HS) as NE. pose proof (sim_contig _ _ HS) as C.
      rewrite (seek_fwd_contig _ _ 0 C). destruct (N.leb_spec 0 (m_offset m)); [|lia].
      destruct (hd_m m NE) as (x & -> & Ex).
      rewrite Ex. eexists. split; [reflexivity|]. split; [|simpl; auto].
      destruct HS. constructor; simpl; auto.
      intros _ i Hi. inversion Hi. auto.
Qed.

Lemma last_index_sim w m : Sim w m -> last_index w = Ok (m_last m).
Proof.
  intros HS. unfold last_index. destruct (c_last (w_cache w)) as [i|] eqn:E.
  - rewrite (sim_clast _ _ HS _ E). auto.
  - rewrite (sim_ents _ _ HS), seek_last_spec. pose proof (sim_ne _ _ HS) as NE.
    rewrite <- (m_last_eq m NE (sim_contig _ _ HS)). destruct (m_ents m); [congruence|auto].
Qed.

Lemma get_snapshot_sim w m : Sim w m -> get_snapshot w = m_snap m.
Proof.
  intros HS. unfold get_snapshot. destruct (cached_snap (w_cache w)) eqn:E.
  - apply (sim_csnap _ _ HS _ E).
  - apply (sim_ss _ _ HS).
Qed.

(* ------------------------------------------------------------------ queries *)
Lemma term_sim w m i : Sim w m -> exists w', term_of w i = (m_term m i, w') /\ Sim w' m.
Proof.
  intros HS. unfold term_of. destruct (first_index_sim w m HS) as (w1 & -> & S1 & D1 & _).
  replace (m_offset m + 1 - 1) with (m_offset m) by lia. unfold m_term.
  destruct (N.ltb_spec i (m_offset m)); [exists w1; auto|].
  rewrite D1, (sim_ents _ _ HS), (seek_fwd_contig _ _ i (sim_contig _ _ HS)).
  destruct (N.leb_spec i (m_offset m)) as [H1|H1].
  - assert (i = m_offset m) by lia. subst i. rewrite N.sub_diag.
    destruct (hd_m m (sim_ne _ _ HS)) as (x & Hx & Ex). rewrite Hx, Ex.
    destruct (N.ltb_spec (m_offset m) (m_offset m)); [lia|].
    pose proof (m_len_pos m (sim_ne _ _ HS)).
    destruct (N.leb_spec (N.of_nat (length (m_ents m))) 0); [lia|].
    replace (nth (N.to_nat 0) (m_ents m) _) with x; [exists w1; auto|].
    destruct (m_ents m); simpl in *; congruence.
  - destruct (N.ltb_spec i (m_offset m + N.of_nat (length (m_ents m)))) as [H2|H2].
    + rewrite (contig_nth _ _ _ (sim_contig _ _ HS)) by lia.
      destruct (N.ltb_spec i (m_offset m + N.of_nat (N.to_nat (i - m_offset m)))); [lia|].
      destruct (N.leb_spec (N.of_nat (length (m_ents m))) (i - m_offset m)); [lia|]. exists w1; auto.
    + destruct (N.leb_spec (N.of_nat (length (m_ents m))) (i - m_offset m)); [|lia]. exists w1; auto.
Qed.

Lemma entries_sim w m lo hi mx : Sim w m -> lo < hi -> hi <= m_last m + 1 ->
  exists w', entries_of w lo hi mx = (m_entries m lo hi mx, w') /\ Sim w' m.
Proof.
  intros HS Hlh Hhi. unfold entries_of. destruct (first_index_sim w m HS) as (w1 & -> & S1 & D1 & _).
  unfold m_entries. pose proof (m_len_pos m (sim_ne _ _ HS)) as LP. pose proof (sim_contig _ _ HS) as C.
  destruct (N.ltb_spec lo (m_offset m + 1)), (N.leb_spec lo (m_offset m)); try lia; [exists w1; auto|].
  rewrite (last_index_sim _ _ S1). destruct (N.ltb_spec (m_last m + 1) hi); [lia|].
  unfold m_last in *.
  destruct (Nat.eqb_spec (length (m_ents m)) 1) as [L1|L1]; [lia|].
  rewrite D1, (sim_ents _ _ HS).
  set (k := N.to_nat (lo - m_offset m)).
  assert (Hk : (k < length (m_ents m))%nat) by (unfold k; lia).
  pose proof (skipn_nth_cons (m_ents m) de k Hk) as SK.
  destruct (N.eqb_spec (hi - lo) 1) as [Hone|Hone].
  - rewrite (get_entry_contig _ _ lo C) by lia. fold k. rewrite SK. rewrite Hone. simpl. exists w1; auto.
  - rewrite (drop_below_contig _ _ lo C). fold k. rewrite SK.
    replace (N.to_nat (hi - lo)) with (S (N.to_nat (hi - (lo + 1)))) by lia. cbn [firstn collect].
    assert (Ek : e_index (nth k (m_ents m) de) = lo) by (rewrite (contig_nth _ _ _ C) by auto; unfold k; lia).
    rewrite Ek. destruct (N.leb_spec hi lo); [lia|]. rewrite Bool.andb_false_r. rewrite N.add_0_l.
    rewrite (collect_limit _ (lo + 1)).
    + exists w1; auto.
    + replace (lo + 1) with (m_offset m + N.of_nat (S k)) by (unfold k; lia). apply contig_skipn; auto.
Qed.

(* ------------------------------------------------------------------ Save *)
Lemma skipn_contig_hd (es : list entry) a n : contig a es -> (n < length es)%nat ->
  exists e1, hd_error (skipn n es) = Some e1 /\ e_index e1 = a + N.of_nat n /\ contig (a + N.of_nat n) (skipn n es).
Proof.
  intros C H. rewrite (skipn_nth_cons es de n H). eexists. split; [reflexivity|]. split.
  - apply contig_nth; auto.
  - rewrite <- (skipn_nth_cons es de n H). apply contig_skipn; auto.
Qed.

Lemma m_append_eq m es e0 : hd_error es = Some e0 ->
  m_append m es =
  if e_index e0 + N.of_nat (length es) - 1 <? m_offset m + 1 then m
  else match (if e_index e0 <? m_offset m + 1 then skipn (N.to_nat (m_offset m + 1 - e_index e0)) es else es) with
       | [] => m
       | e1 :: _ => {| m_hard := m_hard m; m_snap := m_snap m;
                       m_ents := firstn (N.to_nat (e_index e1 - m_offset m)) (m_ents m) ++
                                 (if e_index e0 <? m_offset m + 1 then skipn (N.to_nat (m_offset m + 1 - e_index e0)) es else es) |}
       end.
Proof. destruct es; simpl; intros H; inversion H; subst; reflexivity. Qed.

Lemma write_entries_eq w es e0 : hd_error es = Some e0 ->
  write_entries w es =
  let '(f, w1) := first_index w in
  match f with
  | Err e => (Err e, w1)
  | Ok first =>
      if e_index e0 + N.of_nat (length es) - 1 <? first then (Ok [], w1)
      else let es' := if e_index e0 <? first then skipn (N.to_nat (first - e_index e0)) es else es in
           match last_index w1 with
           | Err e => (Err e, w1)
           | Ok last =>
               let le := e_index (List.last es' e0) in
               let w2 := {| w_disk := w_disk w1; w_cache := set_c_last (w_cache w1) le |} in
               (Ok (map BSet es' ++ (if le <? last then del_from w2 (le + 1) else [])), w2)
           end
  end.
Proof. destruct es; simpl; intros H; inversion H; subst; reflexivity. Qed.

(* writing entries e0.. into a log (offset, ents) : the common core of both Save variants *)
Lemma write_entries_sim w m es e0 : Sim w m -> hd_error es = Some e0 -> contig (e_index e0) es ->
  e_index e0 <= m_last m + 1 ->
  exists b w2, write_entries w es = (Ok b, w2) /\ w_disk w2 = w_disk w /\
    ents_flush (m_ents m) b = m_ents (m_append m es) /\
    hs_flush (g_hs (w_disk w)) b = g_hs (w_disk w) /\ ss_flush (g_ss (w_disk w)) b = g_ss (w_disk w) /\
    c_snap (w_cache w2) = c_snap (w_cache w) /\
    (cached_snap (w_cache w) = None -> forall i, c_first (w_cache w2) = Some i -> i = m_offset m + 1) /\
    (forall i, c_last (w_cache w2) = Some i -> i = m_last (m_append m es)) /\
    m_ents (m_append m es) <> [] /\ m_offset (m_append m es) = m_offset m /\ contig (m_offset m) (m_ents (m_append m es)) /\
    m_hard (m_append m es) = m_hard m /\ m_snap (m_append m es) = m_snap m.
Proof.
  intros HS HD CE HL. rewrite (write_entries_eq w es e0 HD), (m_append_eq m es e0 HD).
  assert (LE : (0 < length es)%nat) by (destruct es; simpl in *; [discriminate|lia]).
  destruct (first_index_sim w m HS) as (w1 & -> & S1 & D1 & CS1 & CL1).
  pose proof (sim_contig _ _ HS) as C. pose proof (m_len_pos m (sim_ne _ _ HS)) as LP.
  assert (Hcf : cached_snap (w_cache w) = None -> forall i, c_first (w_cache w1) = Some i -> i = m_offset m + 1).
  { intros E. apply (sim_cfirst _ _ S1). unfold cached_snap in *. rewrite CS1. auto. }
  destruct (N.ltb_spec (e_index e0 + N.of_nat (length es) - 1) (m_offset m + 1)) as [Hb|Hb].
  { (* everything is below the first index: nothing happens *)
    exists [], w1. repeat split; auto; try apply (sim_ne _ _ HS).
    intros i Hi. apply (sim_clast _ _ S1 _ Hi). }
  cbv zeta.
  set (es' := if e_index e0 <? m_offset m + 1 then skipn (N.to_nat (m_offset m + 1 - e_index e0)) es else es).
  set (a := N.max (e_index e0) (m_offset m + 1)).
  assert (H' : exists e1, hd_error es' = Some e1 /\ e_index e1 = a /\ contig a es' /\
                          N.of_nat (length es') = e_index e0 + N.of_nat (length es) - a).
  { unfold es', a. destruct (N.ltb_spec (e_index e0) (m_offset m + 1)) as [Hc|Hc].
    - destruct (skipn_contig_hd es (e_index e0) (N.to_nat (m_offset m + 1 - e_index e0)) CE ltac:(lia)) as (e1 & A & B & D).
      exists e1. rewrite skipn_length. replace (N.max _ _) with (m_offset m + 1) by lia.
      replace (e_index e0 + N.of_nat (N.to_nat (m_offset m + 1 - e_index e0))) with (m_offset m + 1) in * by lia.
      repeat split; auto. lia.
    - exists e0. replace (N.max _ _) with (e_index e0) by lia. repeat split; auto. lia. }
  destruct H' as (e1 & He1 & Ea & Ca & Len').
  assert (NE' : es' <> []) by (destruct es'; [discriminate|congruence]).
  rewrite (last_index_sim _ _ S1).
  set (le := e_index (last es' e0)).
  assert (Ele : le = a + N.of_nat (length es') - 1).
  { unfold le. rewrite (last_indep es' e0 de NE'). apply contig_last; auto. }
  set (k := N.to_nat (a - m_offset m)).
  assert (Hk : (0 < k <= length (m_ents m))%nat) by (unfold k, a, m_last in *; lia).
  assert (Hpre : contig (m_offset m) (firstn k (m_ents m))) by (apply contig_firstn; auto).
  assert (Lpre : length (firstn k (m_ents m)) = k) by (rewrite firstn_length; lia).
  assert (Hrest : contig (m_offset m + N.of_nat k) (skipn k (m_ents m))) by (apply contig_skipn; auto).
  assert (Ak : m_offset m + N.of_nat k = a) by (unfold k, a; lia).
  eexists. eexists. split; [reflexivity|]. simpl w_disk. simpl w_cache.
  (* the entries after the batch *)
  assert (FL : ents_flush (m_ents m)
      (map BSet es' ++ (if le <? m_last m then del_from {| w_disk := w_disk w1; w_cache := set_c_last (w_cache w1) le |} (le + 1) else []))
      = firstn k (m_ents m) ++ es').
  { rewrite ents_flush_app. rewrite <- (firstn_skipn k (m_ents m)) at 1.
    assert (SC : ents_flush (firstn k (m_ents m) ++ skipn k (m_ents m)) (map BSet es') =
                 firstn k (m_ents m) ++ es' ++ skipn (length es') (skipn k (m_ents m))).
    { apply (sets_contig es' (m_offset m)); rewrite ?Lpre, ?Ak; auto. rewrite <- Ak. auto. }
    rewrite SC.
    destruct (N.ltb_spec le (m_last m)) as [Hlt|Hge].
    - unfold del_from. simpl w_disk. rewrite D1, (sim_ents _ _ HS), (drop_below_contig _ _ (le + 1) C).
      assert (SK : skipn (length es') (skipn k (m_ents m)) = skipn (N.to_nat (le + 1 - m_offset m)) (m_ents m)).
      { rewrite skipn_skipn_nat. f_equal. unfold k. lia. }
      rewrite SK. rewrite app_assoc. apply (dels_suffix _ _ (le + 1)).
      + apply Forall_app. split.
        * eapply Forall_impl; [|apply (contig_all_lt _ _ Hpre)]. cbv beta; intros. rewrite Lpre in *. lia.
        * eapply Forall_impl; [|apply (contig_all_lt _ _ Ca)]. cbv beta; intros. lia.
      + replace (le + 1) with (m_offset m + N.of_nat (N.to_nat (le + 1 - m_offset m))) at 1 by (unfold a in *; lia).
        apply contig_skipn; auto.
    - simpl. assert (Z : skipn (length es') (skipn k (m_ents m)) = []).
      { apply skipn_all2. rewrite skipn_length. unfold m_last, k in *. lia. }
      rewrite Z, app_nil_r. auto. }
  (* what the reference computes *)
  set (mm := match es' with
             | [] => m
             | e2 :: _ => {| m_hard := m_hard m; m_snap := m_snap m;
                             m_ents := firstn (N.to_nat (e_index e2 - m_offset m)) (m_ents m) ++ es' |}
             end).
  assert (MA : m_ents mm = firstn k (m_ents m) ++ es').
  { unfold mm. destruct es' as [|e2 t]; [congruence|]. simpl in He1. inversion He1; subst e2. simpl. rewrite Ea. auto. }
  assert (MO : m_offset mm = m_offset m).
  { unfold m_offset. rewrite MA. destruct (m_ents m) as [|x t]; [simpl in *; lia|]. destruct k; [lia|]. auto. }
  split; auto. split; [exact (eq_trans FL (eq_sym MA))|].
  split; [rewrite hs_flush_app, hs_flush_sets; destruct (le <? m_last m); [apply hs_flush_dels|auto]|].
  split; [rewrite ss_flush_app, ss_flush_sets; destruct (le <? m_last m); [apply ss_flush_dels|auto]|].
  split; [simpl; auto|]. split; [simpl; auto|].
  split.
  { intros i Hi. simpl in Hi. inversion Hi; subst i. unfold m_last. rewrite MA, MO, app_length, Lpre. lia. }
  split; [rewrite MA; intros Hn; apply app_eq_nil in Hn; destruct Hn; congruence|].
  split; [exact MO|]. split.
  { rewrite MA. apply contig_app. split; auto. rewrite Lpre, Ak. auto. }
  unfold mm. destruct es'; [congruence|]. auto.
Qed.

Lemma gstore_eta g : g = {| g_ents := g_ents g; g_hs := g_hs g; g_ss := g_ss g |}.
Proof. destruct g; auto. Qed.

(* Save without a snapshot *)
Lemma save_plain_sim w m h es : Sim w m -> consecutive es ->
  match es with [] => True | e0 :: _ => e_index e0 <= m_last m + 1 end ->
  exists w' m', save true w h es empty_snap = (Ok tt, w') /\ m_save m h es empty_snap = Ok m' /\ Sim w' m'.
Proof.
  intros HS CE HL. unfold save, m_save. change (is_empty_snap empty_snap) with true. cbv beta iota zeta.
  destruct es as [|e0 es0].
  - (* hard state only *)
    simpl write_entries. cbv iota beta. simpl app.
    eexists. eexists. split; [reflexivity|]. split; [reflexivity|]. simpl m_append.
    destruct HS. unfold write_hard. destruct (is_empty_hard h) eqn:E; constructor; simpl; auto.
  - destruct (write_entries_sim w m (e0 :: es0) e0 HS eq_refl CE HL) as (b & w2 & -> & D2 & FE & FH & FS & CS & CF & CL & NE & MO & MC & MH & MS).
    simpl app. eexists. eexists. split; [reflexivity|]. split; [reflexivity|].
    set (ma := m_append m (e0 :: es0)) in *.
    assert (EO : m_offset (if is_empty_hard h then ma else {| m_hard := h; m_snap := m_snap ma; m_ents := m_ents ma |}) = m_offset ma)
      by (destruct (is_empty_hard h); auto).
    assert (EE : m_ents (if is_empty_hard h then ma else {| m_hard := h; m_snap := m_snap ma; m_ents := m_ents ma |}) = m_ents ma)
      by (destruct (is_empty_hard h); auto).
    assert (ES : m_snap (if is_empty_hard h then ma else {| m_hard := h; m_snap := m_snap ma; m_ents := m_ents ma |}) = m_snap ma)
      by (destruct (is_empty_hard h); auto).
    constructor; simpl w_disk; simpl w_cache; rewrite ?EO, ?EE, ?ES, ?MO, ?MS.
    + rewrite flush_ents, ents_flush_app, D2, (sim_ents _ _ HS), FE.
      unfold write_hard. destruct (is_empty_hard h); simpl; auto.
    + auto.
    + auto.
    + unfold hs_of. rewrite flush_hs, hs_flush_app, D2, FH. unfold write_hard.
      pose proof (sim_hs _ _ HS) as H1. unfold hs_of in H1.
      destruct (is_empty_hard h); simpl; auto. rewrite H1. auto.
    + unfold ss_of. rewrite flush_ss, ss_flush_app, D2, FS. unfold write_hard.
      pose proof (sim_ss _ _ HS) as H1. unfold ss_of in H1. destruct (is_empty_hard h); simpl; auto.
    + apply (sim_snapidx _ _ HS).
    + intros s Hs. apply (sim_csnap _ _ HS). unfold cached_snap in *. rewrite <- CS. auto.
    + intros Hn. apply CF. unfold cached_snap in *. rewrite <- CS. auto.
    + intros i Hi. rewrite (CL i Hi). unfold m_last. destruct (is_empty_hard h); auto.
Qed.

(* Save with a received snapshot (newer than the current one), optionally followed by entries from index+1 *)
Lemma save_snap_sim w m h es s : Sim w m -> is_empty_snap s = false -> sn_index (m_snap m) < sn_index s ->
  consecutive es -> match es with [] => True | e0 :: _ => e_index e0 = sn_index s + 1 end ->
  exists w' m', save true w h es s = (Ok tt, w') /\ m_save m h es s = Ok m' /\ Sim w' m'.
Proof.
  intros HS NS NEW CE HE. unfold save, m_save, m_apply_snapshot. rewrite NS.
  destruct (N.leb_spec (sn_index s) (sn_index (m_snap m))); [lia|].
  unfold write_snapshot. rewrite NS.
  set (dummy := {| e_term := sn_term s; e_index := sn_index s; e_data := 0; e_size := 0 |}).
  set (c1 := set_c_last _ (sn_index s)).
  set (w1 := {| w_disk := w_disk w; w_cache := c1 |}).
  assert (CS1 : cached_snap (w_cache w1) = Some s) by (unfold cached_snap; simpl; rewrite NS; auto).
  set (m1 := {| m_hard := m_hard m; m_snap := s; m_ents := [dummy] |}).
  (* the entries part *)
  assert (WE : exists w2, write_entries w1 es = (Ok (map BSet es), w2) /\ w_disk w2 = w_disk w /\
                cached_snap (w_cache w2) = Some s /\
                (forall i, c_last (w_cache w2) = Some i -> i = m_last (m_append m1 es)) /\
                m_ents (m_append m1 es) = dummy :: es /\ m_hard (m_append m1 es) = m_hard m /\ m_snap (m_append m1 es) = s).
  { destruct es as [|e0 es0].
    - exists w1. simpl. repeat split; auto. intros i Hi. inversion Hi. unfold m_last, m_offset. simpl. lia.
    - rewrite (write_entries_eq w1 (e0 :: es0) e0 eq_refl), (m_append_eq m1 (e0 :: es0) e0 eq_refl).
      unfold first_index. rewrite CS1. cbv beta iota zeta.
      assert (O1 : m_offset m1 = sn_index s) by reflexivity. rewrite O1.
      destruct (N.ltb_spec (e_index e0 + N.of_nat (length (e0 :: es0)) - 1) (sn_index s + 1)); [simpl length in *; lia|].
      destruct (N.ltb_spec (e_index e0) (sn_index s + 1)); [lia|].
      unfold last_index. simpl c_last.
      set (le := e_index (last (e0 :: es0) e0)).
      assert (Ele : le = e_index e0 + N.of_nat (length (e0 :: es0)) - 1).
      { unfold le. rewrite (last_indep (e0 :: es0) e0 de) by discriminate.
        apply contig_last; [exact CE|discriminate]. }
      assert (LT : (le <? sn_index s) = false) by (apply N.ltb_ge; simpl length in *; lia).
      eexists. rewrite LT, app_nil_r. split; [reflexivity|]. simpl w_disk. simpl w_cache.
      split; auto. split; [unfold cached_snap; simpl; rewrite NS; auto|].
      replace (N.to_nat (e_index e0 - sn_index s)) with 1%nat by lia. simpl firstn. simpl app.
      split; [|auto]. intros i Hi. simpl in Hi. inversion Hi. unfold m_last, m_offset. simpl m_ents. simpl length in *.
      cbv iota. change (e_index dummy) with (sn_index s). lia. }
  destruct WE as (w2 & -> & D2 & CS2 & CL2 & ME & MH & MS).
  eexists. eexists. split; [reflexivity|]. split; [reflexivity|].
  set (ma := m_append m1 es) in *.
  set (mf := if is_empty_hard h then ma else {| m_hard := h; m_snap := m_snap ma; m_ents := m_ents ma |}).
  assert (EE : m_ents mf = dummy :: es) by (unfold mf; destruct (is_empty_hard h); auto).
  assert (EO : m_offset mf = sn_index s) by (unfold m_offset; rewrite EE; auto).
  assert (ES : m_snap mf = s) by (unfold mf; destruct (is_empty_hard h); auto).
  (* the entries on disk after the flush *)
  assert (FE : ents_flush (m_ents m) ((del_from w 0 ++ [BSetSnap s; BSet dummy]) ++ map BSet es ++ write_hard h) = dummy :: es).
  { rewrite !ents_flush_app. unfold del_from. rewrite (sim_ents _ _ HS), (drop_below_contig _ _ 0 (sim_contig _ _ HS)).
    replace (N.to_nat (0 - m_offset m)) with O by lia. simpl skipn.
    pose proof (dels_suffix (m_ents m) [] (m_offset m) (Forall_nil _) (sim_contig _ _ HS)) as DS. simpl app in DS. rewrite DS.
    change (ents_flush [] [BSetSnap s; BSet dummy]) with [dummy].
    assert (SC : ents_flush ([dummy] ++ []) (map BSet es) = [dummy] ++ es ++ skipn (length es) []).
    { apply (sets_contig es (sn_index s)); simpl; auto.
      destruct es as [|e0 es0]; simpl; auto. simpl in CE. rewrite <- HE. auto. }
    simpl app in SC. rewrite SC. replace (skipn (length es) (@nil entry)) with (@nil entry) by (destruct (length es); auto).
    rewrite app_nil_r. unfold write_hard. destruct (is_empty_hard h); auto. }
  constructor; simpl w_disk; simpl w_cache; fold mf; rewrite ?EE, ?EO, ?ES.
  - rewrite flush_ents, D2, (sim_ents _ _ HS). exact FE.
  - discriminate.
  - simpl. split; auto. destruct es as [|e0 es0]; simpl; auto. simpl in CE. rewrite <- HE. auto.
  - unfold hs_of. rewrite flush_hs, D2, !hs_flush_app. unfold del_from. rewrite hs_flush_dels. simpl hs_flush at 2.
    rewrite hs_flush_sets. unfold write_hard, mf. pose proof (sim_hs _ _ HS) as H1. unfold hs_of in H1.
    destruct (is_empty_hard h); simpl; auto. rewrite MH. auto.
  - unfold ss_of. rewrite flush_ss, D2, !ss_flush_app. unfold del_from. rewrite ss_flush_dels. simpl ss_flush at 2.
    rewrite ss_flush_sets. unfold write_hard. destruct (is_empty_hard h); simpl; auto.
  - auto.
  - intros s0 Hs. rewrite CS2 in Hs. inversion Hs. auto.
  - rewrite CS2. discriminate.
  - intros i Hi. rewrite (CL2 i Hi). unfold m_last. unfold mf. destruct (is_empty_hard h); auto.
Qed.

(* ------------------------------------------------------------------ local snapshot + compaction *)
Lemma create_snapshot_sim w m i cs d : Sim w m -> i <= m_last m ->
  exists w', (forall s m', m_create_snapshot m i (Some cs) d = Ok (s, m') -> create_snapshot w i (Some cs) d = (Ok s, w') /\ Sim w' m') /\
             (forall e, m_create_snapshot m i (Some cs) d = Err e -> create_snapshot w i (Some cs) d = (Err e, w') /\ Sim w' m).
Proof.
  intros HS HL. unfold create_snapshot, m_create_snapshot.
  destruct (first_index_sim w m HS) as (w1 & -> & S1 & D1 & CS1 & CL1).
  rewrite (sim_snapidx _ _ HS).
  destruct (N.ltb_spec i (m_offset m + 1)), (N.leb_spec i (m_offset m)); try lia.
  { exists w1. split; intros; [discriminate|]. inversion H1; auto. }
  destruct (N.ltb_spec (m_last m) i); [lia|].
  pose proof (sim_contig _ _ HS) as C. pose proof (m_len_pos m (sim_ne _ _ HS)) as LP.
  rewrite D1, (sim_ents _ _ HS), (seek_fwd_contig _ _ i C).
  destruct (N.leb_spec i (m_offset m)); [lia|].
  unfold m_last in *. destruct (N.ltb_spec i (m_offset m + N.of_nat (length (m_ents m)))); [|lia].
  set (k := N.to_nat (i - m_offset m)).
  assert (Hk : (0 < k < length (m_ents m))%nat) by (unfold k; lia).
  assert (Ek : e_index (nth k (m_ents m) de) = i) by (rewrite (contig_nth _ _ _ C) by lia; unfold k; lia).
  rewrite Ek, N.eqb_refl. simpl negb. cbv iota.
  set (t := e_term (nth k (m_ents m) de)).
  set (s := {| sn_index := i; sn_term := t; sn_conf := cs; sn_data := d |}).
  assert (NS : is_empty_snap s = false) by (unfold is_empty_snap; simpl; apply N.eqb_neq; lia).
  unfold write_snapshot. rewrite NS.
  destruct (hd_m m (sim_ne _ _ HS)) as (x0 & Hx0 & Ex0).
  erewrite (match_hd (m_ents m) x0) by exact Hx0.
  rewrite Ex0. destruct (N.leb_spec i (m_offset m)); [lia|].
  eexists. split; [|intros e He; discriminate]. intros s' m' Hm. inversion Hm; subst s' m'. clear Hm.
  split; [reflexivity|].
  set (dummy := {| e_term := t; e_index := i; e_data := 0; e_size := 0 |}).
  assert (FE : ents_flush (m_ents m) ([BSetSnap s; BSet dummy] ++ map (fun e => BDel (e_index e)) (take_below i (m_ents m)))
             = dummy :: skipn (S k) (m_ents m)).
  { rewrite ents_flush_app. rewrite (take_below_contig _ _ i C). fold k.
    change (ents_flush (m_ents m) [BSetSnap s; BSet dummy]) with (ents_flush (m_ents m) (map BSet [dummy])).
    rewrite <- (firstn_skipn k (m_ents m)) at 1.
    assert (Lpre : length (firstn k (m_ents m)) = k) by (rewrite firstn_length; lia).
    assert (SC : ents_flush (firstn k (m_ents m) ++ skipn k (m_ents m)) (map BSet [dummy]) =
                 firstn k (m_ents m) ++ [dummy] ++ skipn 1 (skipn k (m_ents m))).
    { apply (sets_contig [dummy] (m_offset m)); rewrite ?Lpre.
      - apply contig_firstn; auto.
      - apply contig_skipn; auto.
      - simpl. split; auto. unfold k. lia. }
    rewrite SC. rewrite skipn_skipn_nat. replace (k + 1)%nat with (S k) by lia.
    apply (dels_prefix (firstn k (m_ents m)) _ (m_offset m) i).
    - apply contig_firstn; auto.
    - rewrite Lpre. unfold k. lia.
    - simpl app. constructor; [simpl; lia|].
      eapply Forall_impl; [|apply (contig_all_ge _ _ (contig_skipn (m_offset m) (m_ents m) (S k) C))]. cbv beta; intros. unfold k in *. lia. }
  constructor; cbn [w_disk w_cache m_ents m_snap m_hard].
  - rewrite flush_ents, ?D1, ?(sim_ents _ _ HS). exact FE.
  - discriminate.
  - unfold m_offset. cbn [m_ents contig e_index dummy]. split; auto.
    change (match m_ents m with [] => [] | _ :: l => skipn k l end) with (skipn (S k) (m_ents m)).
    replace (i + 1) with (m_offset m + N.of_nat (S k)) by (unfold k; lia). apply contig_skipn; auto.
  - unfold hs_of. rewrite flush_hs, ?D1, hs_flush_app, hs_flush_dels. simpl. apply (sim_hs _ _ HS).
  - unfold ss_of. rewrite flush_ss, ?D1, ss_flush_app, ss_flush_dels. simpl. auto.
  - reflexivity.
  - intros s0 Hs. unfold cached_snap in Hs. simpl in Hs. rewrite NS in Hs. inversion Hs. auto.
  - unfold cached_snap. simpl. rewrite NS. discriminate.
  - intros j Hj. simpl in Hj. unfold m_last, m_offset. cbn [m_ents e_index dummy length].
    change (match m_ents m with [] => [] | _ :: l => skipn k l end) with (skipn (S k) (m_ents m)). rewrite skipn_length.
    destruct (c_last (w_cache w1)) as [v|] eqn:EL; [|discriminate].
    pose proof (sim_clast _ _ S1 _ EL) as Hv. unfold m_last in Hv.
    assert (Kv : N.of_nat k = i - m_offset m) by (unfold k; lia).
    destruct (N.ltb_spec v i); inversion Hj; subst j; lia.
Qed.

(* ------------------------------------------------------------------ reopen, delete group *)
Lemma reopen_sim w m : Sim w m -> Sim (reopen (w_disk w)) m.
Proof.
  intros HS. unfold reopen.
  assert (S0 : Sim {| w_disk := w_disk w; w_cache := cache_empty |} m).
  { destruct HS. constructor; simpl; auto; try discriminate. }
  destruct (first_index_sim _ _ S0) as (w' & E & S' & _). rewrite E. simpl. exact S'.
Qed.

Lemma delete_group_sim w m : Sim w m -> Sim (reopen (w_disk (delete_group true w))) mem_new.
Proof.
  intros HS. unfold delete_group. simpl w_disk.
  set (g := flush (w_disk w) (del_from w 0 ++ [BDelHard; BDelSnap])).
  assert (GE : g_ents g = []).
  { unfold g. rewrite flush_ents, ents_flush_app. unfold del_from.
    rewrite (sim_ents _ _ HS), (drop_below_contig _ _ 0 (sim_contig _ _ HS)). replace (N.to_nat (0 - m_offset m)) with O by lia. simpl skipn.
    pose proof (dels_suffix (m_ents m) [] (m_offset m) (Forall_nil _) (sim_contig _ _ HS)) as DS. simpl app in DS. rewrite DS. auto. }
  assert (GH : g_hs g = None) by (unfold g; rewrite flush_hs, hs_flush_app; unfold del_from; rewrite hs_flush_dels; auto).
  assert (GS : g_ss g = None) by (unfold g; rewrite flush_ss, ss_flush_app; unfold del_from; rewrite ss_flush_dels; auto).
  unfold reopen, first_index. simpl. rewrite GE. simpl.
  constructor; simpl; auto; try discriminate.
  - rewrite flush_ents. unfold del_from. simpl. rewrite GE. simpl. auto.
  - unfold hs_of. rewrite flush_hs. unfold del_from. simpl. rewrite GE. simpl. rewrite GH. auto.
  - unfold ss_of. rewrite flush_ss. unfold del_from. simpl. rewrite GE. simpl. rewrite GS. auto.
Qed.

Lemma wal_new_sim : Sim wal_new mem_new.
Proof. unfold wal_new, reopen. simpl. constructor; simpl; auto; try discriminate. Qed.

(* ------------------------------------------------------------------ one step, whole histories *)
Theorem wal_step_refines w m c : Sim w m -> legal m c ->
  snd (wal_step true true w c) = snd (mem_step m c) /\ Sim (fst (wal_step true true w c)) (fst (mem_step m c)).
Proof.
  intros HS L. destruct c as [h es s|i conf d| | | | |i|lo hi mx| |]; simpl in L.
  - destruct L as (CE & L). unfold wal_step, mem_step. destruct (is_empty_snap s) eqn:ES.
    + assert (s = empty_snap \/ True) by auto.
      assert (E1 : save true w h es s = save true w h es empty_snap) by (unfold save; rewrite ES; auto).
      assert (E2 : m_save m h es s = m_save m h es empty_snap) by (unfold m_save; rewrite ES; auto).
      destruct (save_plain_sim w m h es HS CE L) as (w' & m' & A & B & S').
      rewrite E1, E2, A, B. simpl. auto.
    + destruct L as (NEW & HE). destruct (save_snap_sim w m h es s HS ES NEW CE HE) as (w' & m' & A & B & S').
      rewrite A, B. simpl. auto.
  - unfold wal_step, mem_step. destruct conf as [cs|].
    + destruct L as [L|L]; [discriminate|]. destruct (create_snapshot_sim w m i cs d HS L) as (w' & A & B).
      destruct (m_create_snapshot m i (Some cs) d) as [[s m']|e] eqn:E.
      * destruct (A s m' eq_refl) as (-> & S'). simpl. auto.
      * destruct (B e eq_refl) as (-> & S'). simpl. auto.
    + simpl. auto.
  - simpl. split; auto. apply reopen_sim; auto.
  - simpl. split; auto. apply (delete_group_sim w m HS).
  - unfold wal_step, mem_step. destruct (first_index_sim w m HS) as (w' & -> & S' & _). simpl. auto.
  - simpl. rewrite (last_index_sim _ _ HS). simpl. auto.
  - unfold wal_step, mem_step. destruct (term_sim w m i HS) as (w' & -> & S'). simpl. auto.
  - destruct L as (L1 & L2). unfold wal_step, mem_step. destruct (entries_sim w m lo hi mx HS L1 L2) as (w' & -> & S'). simpl. auto.
  - simpl. rewrite (get_snapshot_sim _ _ HS). auto.
  - simpl. rewrite (get_snapshot_sim _ _ HS). unfold get_hard. pose proof (sim_hs _ _ HS) as H. unfold hs_of in H. rewrite H. auto.
Qed.

(* every call legal at the point it is issued *)
Fixpoint all_legal (m : mem) (cs : list call) : Prop :=
  match cs with [] => True | c :: r => legal m c /\ all_legal (fst (mem_step m c)) r end.

Theorem wal_run_refines cs : forall w m, Sim w m -> all_legal m cs -> wal_run true true w cs = mem_run m cs.
Proof.
  induction cs as [|c r IH]; intros w m HS L; simpl; auto. destruct L as (L1 & L2).
  destruct (wal_step_refines w m c HS L1) as (A & B).
  destruct (wal_step true true w c) as [w' o], (mem_step m c) as [m' o']. simpl in *. subst. f_equal. apply IH; auto.
Qed.
