(* Wal/Refuted.v — regression witnesses of the two repaired defects (histories found on the real code). *)
From Verif Require Import Base.Prelude Wal.Model.
Open Scope N_scope.

Definition ent (t i : N) : entry := {| e_term := t; e_index := i; e_data := i; e_size := 4 |}.
Definition ten : list entry := map (ent 1) [1; 2; 3; 4; 5; 6; 7; 8; 9; 10].
Definition snap8 : snapshot := {| sn_index := 8; sn_term := 2; sn_conf := [1; 2]; sn_data := 9 |}.
Definition h1 : hard := {| h_term := 1; h_vote := 1; h_commit := 5 |}.
Definition h2 : hard := {| h_term := 2; h_vote := 0; h_commit := 8 |}.

Definition install_calls : list call :=
  [KSave h1 ten empty_snap; KSave h2 [] snap8; KLast; KTerm 8; KReopen; KFirst; KLast].

(* original Save: last index stays 10, Term(8) is unavailable, and after reopening the log is empty (first 1, last 0);
   the reference — and the repaired Save — answer 8, term 2, and 9 / 8 after reopening *)
Theorem install_over_longer_log_refuted :
  skipn 2 (wal_run false true wal_new install_calls) = [ONum 10; OErr EUnavailable; ONone; ONum 1; ONum 0] /\
  skipn 2 (mem_run mem_new install_calls) = [ONum 8; ONum 2; ONone; ONum 9; ONum 8] /\
  skipn 2 (wal_run true true wal_new install_calls) = [ONum 8; ONum 2; ONone; ONum 9; ONum 8].
Proof. repeat split; vm_compute; reflexivity. Qed.

Definition delete_calls : list call :=
  [KSave {| h_term := 3; h_vote := 2; h_commit := 4 |} (map (ent 3) [1; 2; 3; 4]) empty_snap;
   KCreateSnap 3 (Some [1]) 5; KDeleteGroup; KInit; KSnap].

(* original DeleteGroup: a store reopened for the same id still reports the old hard state and snapshot *)
Theorem delete_group_refuted :
  skipn 3 (wal_run true false wal_new delete_calls) =
    [OInit {| h_term := 3; h_vote := 2; h_commit := 4 |} [1]; OSnapshot {| sn_index := 3; sn_term := 3; sn_conf := [1]; sn_data := 5 |}] /\
  skipn 3 (mem_run mem_new delete_calls) = [OInit empty_hard []; OSnapshot empty_snap] /\
  skipn 3 (wal_run true true wal_new delete_calls) = [OInit empty_hard []; OSnapshot empty_snap].
Proof. repeat split; vm_compute; reflexivity. Qed.
