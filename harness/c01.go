package main

// C01 / C07 — the HNSW index: histories of insert / remove / search / save+load on the real index with explicit
// levels, dumped after every operation and compared with the Coq model (full graph in the deterministic regime).

import (
	"bytes"
	"context"
	"fmt"
	"math"
	"strings"

	"github.com/marekgalovic/anndb/index"
	"github.com/marekgalovic/anndb/index/space"
)

func init() { runners["C01"] = runC01 }

type hnCfg struct {
	M, MMax, MMax0, Ef, EfC int
	Heur, Extend, Keep      bool
	Space                   string
}
type hnOp struct {
	Op    string            `json:"op"` // insert remove search reload
	Id    string            `json:"id,omitempty"`
	Vec   int               `json:"vec"` // index into the case's vector pool
	Meta  map[string]string `json:"meta,omitempty"`
	Level int               `json:"level,omitempty"`
	K     int               `json:"k,omitempty"`
}
type hnObs struct {
	Status string                `json:"status,omitempty"`
	Dump   *index.VerifIndexDump `json:"-"`
	Entry  string                `json:"entry,omitempty"`
	Len    int                   `json:"len"`
	Result []hnRes               `json:"result,omitempty"`
	IsRes  bool                  `json:"is_result,omitempty"`
	coq    string
}
type hnRes struct {
	Id    string            `json:"id"`
	Meta  map[string]string `json:"meta,omitempty"`
	Score uint32            `json:"score_bits"`
}
type hnCase struct {
	Cfg    hnCfg      `json:"cfg"`
	Dim    int        `json:"dim"`
	Vecs   [][]uint32 `json:"vecs"`
	Ops    []hnOp     `json:"ops"`
	Regime bool       `json:"regime"`
	Obs    []hnObs    `json:"obs"`
	Note   string     `json:"note,omitempty"`
}

func mkSpace(name string) space.Space {
	switch name {
	case "manhattan":
		return space.NewManhattan()
	case "cosine":
		return space.NewCosine()
	}
	return space.NewEuclidean()
}

func newIndexFor(c *hnCase) *index.Hnsw {
	alg := index.HnswSearchSimple
	if c.Cfg.Heur {
		alg = index.HnswSearchHeuristic
	}
	opts := []index.HnswOption{index.HnswM(c.Cfg.M)}
	// link caps that are the derived defaults (mMax = M, mMax0 = 2M) are left to the constructor to derive
	if c.Cfg.MMax != c.Cfg.M {
		opts = append(opts, index.HnswMmax(c.Cfg.MMax))
	}
	if c.Cfg.MMax0 != 2*c.Cfg.M {
		opts = append(opts, index.HnswMmax0(c.Cfg.MMax0))
	}
	opts = append(opts, index.HnswEf(c.Cfg.Ef), index.HnswEfConstruction(c.Cfg.EfC), index.HnswSearchAlgorithm(alg),
		index.HnswHeuristicExtendCandidates(c.Cfg.Extend), index.HnswHeuristicKeepPruned(c.Cfg.Keep))
	return index.NewHnsw(uint(c.Dim), mkSpace(c.Cfg.Space), opts...)
}

// configMismatch: the parameters the constructed index really uses against the ones the case (and the model) assume
func configMismatch(idx *index.Hnsw, c *hnCase) string {
	g := idx.VerifConfig()
	if g.M != c.Cfg.M || g.MMax != c.Cfg.MMax || g.MMax0 != c.Cfg.MMax0 || g.Ef != c.Cfg.Ef || g.EfConstruction != c.Cfg.EfC ||
		g.Heuristic != c.Cfg.Heur || g.ExtendCandidates != c.Cfg.Extend || g.KeepPruned != c.Cfg.Keep {
		return fmt.Sprintf("index built with M=%d (caps %d/%d requested or derived), ef=%d, efConstruction=%d uses M=%d mMax=%d mMax0=%d ef=%d efConstruction=%d heuristic=%v extend=%v keepPruned=%v",
			c.Cfg.M, c.Cfg.MMax, c.Cfg.MMax0, c.Cfg.Ef, c.Cfg.EfC, g.M, g.MMax, g.MMax0, g.Ef, g.EfConstruction, g.Heuristic, g.ExtendCandidates, g.KeepPruned)
	}
	return ""
}

// metricMismatch: the named metric of the index's space against a float64 reference of that metric (Euclidean: root of
// the sum of squares; Manhattan: sum of absolute differences; cosine: 1 - dot / (|a||b|)).  The distance table of the
// model is computed with the space's own Distance, so a space wired to another metric's kernel would go unnoticed there.
func metricMismatch(c *hnCase) string {
	sp := mkSpace(c.Cfg.Space)
	for i := range c.Vecs {
		for j := range c.Vecs {
			a, bb := f32bitsVec(c.Vecs[i]), f32bitsVec(c.Vecs[j])
			if len(a) != len(bb) {
				continue
			}
			var ss, sa, dot, na, nb float64
			fin := true
			for k := range a {
				x, y := float64(a[k]), float64(bb[k])
				if math.IsNaN(x) || math.IsInf(x, 0) || math.IsNaN(y) || math.IsInf(y, 0) {
					fin = false
				}
				ss += (x - y) * (x - y)
				sa += math.Abs(x - y)
				dot += x * y
				na += x * x
				nb += y * y
			}
			if !fin {
				continue
			}
			var want float64
			switch c.Cfg.Space {
			case "manhattan":
				want = sa
			case "cosine":
				if na == 0 || nb == 0 {
					continue
				}
				want = 1 - dot/math.Sqrt(na*nb)
			default:
				want = math.Sqrt(ss)
			}
			got := float64(sp.Distance(a, bb))
			if math.IsNaN(got) || math.IsInf(got, 0) || math.IsInf(want, 0) || want > 1e30 {
				continue
			}
			if math.Abs(got-want) > 1e-3*(1+math.Abs(want)) {
				return fmt.Sprintf("%s distance of %v and %v is %g through the index's space, %g by the definition of the metric", c.Cfg.Space, a, bb, got, want)
			}
		}
	}
	return ""
}

func distMatrix(c *hnCase) ([][]uint32, bool, bool) {
	sp := mkSpace(c.Cfg.Space)
	n := len(c.Vecs)
	m := make([][]uint32, n)
	rowDistinct, ordered := true, true
	for i := 0; i < n; i++ {
		m[i] = make([]uint32, n)
		seen := map[uint32]bool{}
		for j := 0; j < n; j++ {
			d := sp.Distance(f32bitsVec(c.Vecs[i]), f32bitsVec(c.Vecs[j]))
			if d != d || d < 0 || math.IsInf(float64(d), 0) {
				ordered = false
			}
			m[i][j] = math.Float32bits(d)
			if i != j {
				if seen[m[i][j]] {
					rowDistinct = false
				}
				seen[m[i][j]] = true
			}
		}
	}
	return m, rowDistinct, ordered
}

func runHnCase(c *hnCase) {
	idx := newIndexFor(c)
	c.Obs = nil
	for _, o := range c.Ops {
		var ob hnObs
		switch o.Op {
		case "insert":
			var md index.Metadata
			if o.Meta != nil {
				md = index.Metadata{}
				for k, v := range o.Meta {
					md[k] = v
				}
			}
			err := idx.Insert(mustUUID(o.Id), f32bitsVec(c.Vecs[o.Vec]), md, o.Level)
			ob.Status = errClass(err)
		case "remove":
			ob.Status = errClass(idx.Remove(mustUUID(o.Id)))
		case "reload":
			var buf bytes.Buffer
			// the target already holds other items (a replica brought up to date by a snapshot): Load replaces them
			fresh := newIndexFor(c)
			if len(c.Vecs) > 0 {
				for k, jid := range []string{"ffffffff-0000-4000-8000-00000000000a", "ffffffff-0000-4000-8000-00000000000b", "ffffffff-0000-4000-8000-00000000000c"} {
					fresh.Insert(mustUUID(jid), f32bitsVec(c.Vecs[k%len(c.Vecs)]), index.Metadata{"stale": "yes"}, k%2)
				}
			}
			if err := idx.Save(&buf, false); err != nil {
				ob.Status = "other:save:" + err.Error()
			} else if err := fresh.Load(&buf, false); err != nil {
				ob.Status = "other:load:" + err.Error()
			} else {
				idx = fresh
			}
		case "search":
			ob.IsRes = true
			var res index.SearchResult
			var err error
			panicked, msg := recoverPanic(func() { res, err = idx.Search(context.Background(), f32bitsVec(c.Vecs[o.Vec]), uint(o.K)) })
			if panicked || err != nil {
				ob.Status = fmt.Sprintf("other:%v %s", err, msg)
			}
			for _, it := range res {
				ob.Result = append(ob.Result, hnRes{Id: it.Id.String(), Meta: it.Metadata, Score: math.Float32bits(it.Score)})
			}
		}
		if !ob.IsRes {
			d := idx.VerifDump()
			ob.Dump = &d
			ob.Len = d.Len
			if d.Entry >= 0 {
				ob.Entry = d.EntryId.String()
			}
		}
		c.Obs = append(c.Obs, ob)
	}
}

func coqHnStatus(s string) string {
	switch s {
	case "":
		return "SOk"
	case "exists":
		return "SExists"
	case "notfound":
		return "SNotFound"
	}
	return "SOk (* " + s + " *)"
}

func coqDump(d *index.VerifIndexDump) string {
	var vs []string
	for _, v := range d.Vertices {
		if !v.InMap {
			continue
		}
		lv := make([]string, len(v.Edges))
		for l, es := range v.Edges {
			p := make([]string, len(es))
			for i, e := range es {
				p[i] = fmt.Sprintf("(%s, %s, %d%%Z)", uuidN(e.ToId), b(e.Deleted), e.DistBits)
			}
			lv[l] = "[" + strings.Join(p, "; ") + "]"
		}
		vs = append(vs, fmt.Sprintf("{| vd_id := %s; vd_level := %d%%nat; vd_edges := [%s] |}", uuidN(v.Id), v.Level, strings.Join(lv, "; ")))
	}
	entry := "None"
	if d.Entry >= 0 {
		entry = "Some " + uuidN(d.EntryId)
	}
	return fmt.Sprintf("{| sd_entry := %s; sd_len := %d; sd_bytes := %d; sd_verts := [%s] |}", entry, d.Len, d.BytesSize, strings.Join(vs, ";\n            "))
}

func coqHnCase(c *hnCase, m [][]uint32) string {
	vecs := make([]string, len(c.Vecs))
	for i, v := range c.Vecs {
		vecs[i] = coqVec(v)
	}
	rows := make([]string, len(m))
	for i, r := range m {
		p := make([]string, len(r))
		for j, x := range r {
			p[j] = fmt.Sprint(x)
		}
		rows[i] = "[" + strings.Join(p, "; ") + "]"
	}
	ops := make([]string, len(c.Ops))
	obs := make([]string, len(c.Ops))
	for i, o := range c.Ops {
		switch o.Op {
		case "insert":
			ops[i] = fmt.Sprintf("HInsert %s %s %s %d%%nat", idN(o.Id), coqVec(c.Vecs[o.Vec]), coqMeta(o.Meta), o.Level)
		case "remove":
			ea := "None"
			if c.Obs[i].Entry != "" {
				ea = "(Some " + idN(c.Obs[i].Entry) + ")"
			}
			ops[i] = fmt.Sprintf("HRemove %s %s", idN(o.Id), ea)
		case "search":
			ops[i] = fmt.Sprintf("HSearch %s %d%%nat", coqVec(c.Vecs[o.Vec]), o.K)
		default:
			ops[i] = "HReload"
		}
		if c.Obs[i].IsRes {
			p := make([]string, len(c.Obs[i].Result))
			for k, r := range c.Obs[i].Result {
				p[k] = fmt.Sprintf("(%s, %s, %d%%Z)", idN(r.Id), coqMeta(r.Meta), r.Score)
			}
			obs[i] = "OResult [" + strings.Join(p, "; ") + "]"
		} else {
			obs[i] = fmt.Sprintf("ODump %s %s", coqHnStatus(c.Obs[i].Status), coqDump(c.Obs[i].Dump))
		}
	}
	cf := c.Cfg
	return fmt.Sprintf("{| hc_cfg := {| c_m := %d; c_mmax := %d; c_mmax0 := %d; c_ef := %d; c_efc := %d; c_heur := %s; c_extend := %s; c_keep := %s |}%%nat;\n"+
		"      hc_vecs := [%s];\n      hc_dist := [%s]%%Z;\n      hc_items := [];\n      hc_ops := [%s];\n      hc_obs := [%s];\n      hc_regime := %s |}",
		cf.M, cf.MMax, cf.MMax0, cf.Ef, cf.EfC, b(cf.Heur), b(cf.Extend), b(cf.Keep),
		strings.Join(vecs, "; "), strings.Join(rows, ";\n         "), strings.Join(ops, ";\n         "), strings.Join(obs, ";\n         "), b(c.Regime))
}

func genHnCase(r *rng, maxOps int, wantRegime bool) hnCase {
	c := hnCase{Dim: 1 + r.intn(4)}
	m := []int{1, 2, 3, 16}[r.intn(4)]
	c.Cfg = hnCfg{M: m, MMax: m, MMax0: 2 * m, Keep: true, Heur: r.chance(1, 2), Space: []string{"euclidean", "manhattan", "cosine"}[r.intn(3)]}
	if c.Cfg.Heur && r.chance(1, 4) {
		c.Cfg.Extend = true
	}
	if wantRegime {
		c.Cfg.Ef, c.Cfg.EfC = 100, 100
	} else {
		c.Cfg.Ef, c.Cfg.EfC = []int{1, 2, 5}[r.intn(3)], []int{1, 3, 10}[r.intn(3)]
	}
	nv := 5 + r.intn(10)
	for try := 0; try < 60; try++ {
		c.Vecs = nil
		for i := 0; i < nv; i++ {
			v := make([]uint32, c.Dim)
			zero := true
			for k := range v {
				x := float32(r.intn(61)-30) / 4
				if wantRegime {
					x += float32(r.intn(1000)) / 4096 // break symmetric ties of the grid
				}
				if x != 0 {
					zero = false
				}
				v[k] = f32bits(x)
			}
			if zero {
				v[0] = f32bits(1.25)
			}
			c.Vecs = append(c.Vecs, v)
		}
		_, distinct, ordered := distMatrix(&c)
		if ordered && (distinct || !wantRegime) {
			c.Regime = wantRegime && distinct
			break
		}
	}
	nids := 3 + r.intn(10)
	if c.Regime && nids > nv-1 {
		nids = nv - 1 // in the regime every id owns one vector of the pool (no two live items at distance 0)
	}
	ids := make([]string, nids)
	for i := range ids {
		ids[i] = uuidFrom(r).String()
	}
	n := 5 + r.intn(maxOps)
	for len(c.Ops) < n {
		x := r.intn(100)
		switch {
		case x < 50:
			k := r.intn(nids)
			vi := r.intn(nv)
			if c.Regime {
				vi = k
			}
			c.Ops = append(c.Ops, hnOp{Op: "insert", Id: ids[k], Vec: vi, Meta: genMeta(r), Level: r.intn(4)})
		case x < 72:
			c.Ops = append(c.Ops, hnOp{Op: "remove", Id: ids[r.intn(nids)]})
		case x < 96:
			c.Ops = append(c.Ops, hnOp{Op: "search", Vec: r.intn(nv), K: []int{0, 1, 2, 3, 10}[r.intn(5)]})
		default:
			c.Ops = append(c.Ops, hnOp{Op: "reload"})
		}
	}
	return c
}

// corpus: the two hand-over histories found on the code before the fix (entry point nil with items left; dead entry)
func hnCorpus() []hnCase {
	var extra []hnCase
	ids := []string{"00000000-0000-4000-8000-000000000001", "00000000-0000-4000-8000-000000000002", "00000000-0000-4000-8000-000000000003",
		"00000000-0000-4000-8000-000000000004", "00000000-0000-4000-8000-000000000005"}
	vs := [][]uint32{{f32bits(0)}, {f32bits(1)}, {f32bits(2)}, {f32bits(3)}, {f32bits(0.4)}, {f32bits(0.1)}}
	c := hnCase{Dim: 1, Cfg: hnCfg{M: 1, MMax: 1, MMax0: 2, Ef: 100, EfC: 100, Keep: true, Space: "euclidean"}, Vecs: vs, Regime: false, Note: "entry hand-over"}
	for i := 0; i < 5; i++ {
		c.Ops = append(c.Ops, hnOp{Op: "insert", Id: ids[i], Vec: i, Level: 0})
	}
	// remove the entry's neighbours, then the entry: the entry point must move to a remaining live item
	c.Ops = append(c.Ops, hnOp{Op: "search", Vec: 5, K: 3})
	for _, i := range []int{1, 4, 2, 0} {
		c.Ops = append(c.Ops, hnOp{Op: "remove", Id: ids[i]}, hnOp{Op: "search", Vec: 5, K: 3})
	}
	c.Ops = append(c.Ops, hnOp{Op: "insert", Id: ids[0], Vec: 0, Level: 1}, hnOp{Op: "search", Vec: 5, K: 5}, hnOp{Op: "reload"}, hnOp{Op: "search", Vec: 5, K: 5})
	// a dangling link: pruning dropped Y->X while X (the entry point) keeps X->Y; Y is removed, then X: the hand-over
	// must not pick the tombstoned Y (points 0, 10, 11, 9 on a line, M = 1)
	vs2 := [][]uint32{{f32bits(0)}, {f32bits(10)}, {f32bits(11)}, {f32bits(9)}, {f32bits(10.2)}}
	for _, m := range []int{1, 16} {
		c2 := hnCase{Dim: 1, Cfg: hnCfg{M: m, MMax: m, MMax0: 2 * m, Ef: 100, EfC: 100, Keep: true, Space: "euclidean"}, Vecs: vs2, Regime: false, Note: "hand-over over a dangling link"}
		for i := 0; i < 4; i++ {
			c2.Ops = append(c2.Ops, hnOp{Op: "insert", Id: ids[i], Vec: i, Level: 0})
		}
		c2.Ops = append(c2.Ops, hnOp{Op: "remove", Id: ids[1]}, hnOp{Op: "search", Vec: 4, K: 1}, hnOp{Op: "remove", Id: ids[0]}, hnOp{Op: "search", Vec: 4, K: 1}, hnOp{Op: "search", Vec: 4, K: 3})
		c = append([]hnCase{c}, c2)[0]
		extra = append(extra, c2)
	}
	// everything removed, then save-and-load (a zero-byte snapshot) into an index that holds other items: the loaded
	// index is empty - no entry point, nothing to find - and usable
	c3 := hnCase{Dim: 1, Cfg: hnCfg{M: 2, MMax: 2, MMax0: 4, Ef: 100, EfC: 100, Keep: true, Space: "euclidean"}, Vecs: vs, Regime: false, Note: "empty snapshot into a used index"}
	c3.Ops = append(c3.Ops, hnOp{Op: "insert", Id: ids[0], Vec: 0, Level: 1}, hnOp{Op: "insert", Id: ids[1], Vec: 1, Level: 0},
		hnOp{Op: "remove", Id: ids[0]}, hnOp{Op: "remove", Id: ids[1]}, hnOp{Op: "reload"}, hnOp{Op: "search", Vec: 5, K: 5},
		hnOp{Op: "insert", Id: ids[2], Vec: 2, Level: 0}, hnOp{Op: "search", Vec: 5, K: 5})
	extra = append(extra, c3)
	return append([]hnCase{c}, extra...)
}

func runC01(a *args) error {
	r := newRng(a.seed)
	st := newStats("histories of 5..40 ops (thorough ..120) over 3..12 ids and a pool of 5..14 vectors (dims 1..4): insert 50% (levels 0..3, metadata shapes), remove 22%, search 24% (k in 0,1,2,3,10), save+load 4% (into an index that already holds three other items); M in {1,2,3,16}, simple and heuristic selection (extend 1/8), three metrics; half of the cases in the deterministic regime (row-wise distinct distances, ef=efConstruction=100): full graph compared after every op; the others with ef in {1,2,5}, efC in {1,3,10}: statuses, membership, counters, levels compared; every search checked against the search post-condition; non-trivial = >= 1 removal of a linked item and >= 1 search on >= 2 live items; distinct by hash of (cfg, ops)")
	var cases []hnCase
	if a.replay != "" {
		var c hnCase
		if err := readReplayCase(a.replay, &c); err != nil {
			return err
		}
		cases = append(cases, c)
	} else {
		cases = hnCorpus()
		maxOps := 36
		if a.tier == "thorough" {
			maxOps = 116
		}
		for len(cases) < a.n {
			cases = append(cases, genHnCase(r.fork(), maxOps, len(cases)%2 == 0))
		}
	}
	seen := map[string]bool{}
	var items []string
	for ci := range cases {
		c := &cases[ci]
		m, _, _ := distMatrix(c)
		if why := configMismatch(newIndexFor(c), c); why != "" {
			st.ImplFailures = append(st.ImplFailures, implFailure{Case: ci, What: why, Key: "config-not-as-requested", Input: c.Cfg})
		}
		if why := metricMismatch(c); why != "" {
			st.ImplFailures = append(st.ImplFailures, implFailure{Case: ci, What: why, Key: "space-computes-another-metric", Input: c.Cfg})
		}
		panicked, msg := recoverPanic(func() { runHnCase(c) })
		if panicked {
			st.ImplFailures = append(st.ImplFailures, implFailure{Case: ci, What: "index operation panicked: " + msg, Key: "index-panic", Input: *c})
			continue
		}
		items = append(items, coqHnCase(c, m))
		st.Evaluations++
		st.count("space:" + c.Cfg.Space)
		st.count(fmt.Sprintf("M:%d", c.Cfg.M))
		st.count(fmt.Sprintf("regime:%v", c.Regime))
		if c.Cfg.Heur {
			st.count("heuristic")
		}
		rem, srch := false, false
		for i, o := range c.Ops {
			st.count("op:" + o.Op)
			if o.Op == "remove" && c.Obs[i].Status == "" {
				rem = true
			}
			if o.Op == "search" && i > 0 && len(c.Obs[i].Result) >= 2 {
				srch = true
			}
		}
		h := hashOf([]interface{}{c.Cfg, c.Ops})
		if rem && srch && !seen[h] {
			seen[h] = true
			st.DistinctNontrivial++
		}
	}
	if len(cases) > 0 {
		st.Samples = append(st.Samples, map[string]interface{}{"cfg": cases[0].Cfg, "ops": cases[0].Ops, "vecs": cases[0].Vecs})
	}
	prelude := "From Verif Require Import Base.Prelude Store.Spec Store.Partition Store.Check Hnsw.Model Hnsw.Check.\nOpen Scope N_scope.\n"
	defs := "Definition bad_model := Eval vm_compute in bad_idx hn_case_model_ok cases 0.\n" +
		"Definition bad_oracle := Eval vm_compute in bad_idx hn_case_oracle_ok cases 0.\nPrint bad_model.\nPrint bad_oracle.\n" +
		"Definition info_obs_compared_exactly := Eval vm_compute in map hn_case_exact cases.\nPrint info_obs_compared_exactly.\n" +
		"Definition info_obs_total := Eval vm_compute in map (fun cs => length (hc_obs cs)) cases.\nPrint info_obs_total.\n"
	if err := writeShards(a.out, prelude, "hn_case", items, defs, 10); err != nil {
		return err
	}
	if err := writeJSON(a.out+"/cases.json", cases); err != nil {
		return err
	}
	return writeJSON(a.out+"/stats.json", st)
}
