package main

// C02 / C04 — the partition state machine fed with marshalled log entries through the real partition.process
// (hook VerifApply), observed through the index dump hook.

import (
	"fmt"
	"sort"
	"strings"

	"github.com/marekgalovic/anndb/cluster"
	"github.com/marekgalovic/anndb/index"
	pb "github.com/marekgalovic/anndb/protobuf"
	"github.com/marekgalovic/anndb/storage"
	"github.com/marekgalovic/anndb/storage/raft"

	"github.com/golang/protobuf/proto"
	uuid "github.com/satori/go.uuid"
)

func init() { runners["C02"] = runC02 }

type stItem struct {
	Id    string            `json:"id"`
	Vec   []uint32          `json:"vec"`
	Meta  map[string]string `json:"meta,omitempty"` // nil = no metadata field
	Level int               `json:"level,omitempty"`
}

type stChange struct {
	Kind  string   `json:"kind"` // insert update delete binsert bupdate bdelete
	Items []stItem `json:"items"`
}

type stOutcome struct {
	Batch bool              `json:"batch"`
	Err   string            `json:"err,omitempty"`  // "", exists, notfound, other:<msg>
	Errs  map[string]string `json:"errs,omitempty"` // id -> err
	Crash string            `json:"crash,omitempty"`
	Fatal string            `json:"fatal,omitempty"` // process returned an error (log.Fatal in the apply loop)
}

type stObsItem struct {
	Id   string            `json:"id"`
	Vec  []uint32          `json:"vec"`
	Meta map[string]string `json:"meta"`
}

type stCase struct {
	Dim    int         `json:"dim"`
	Log    []stChange  `json:"log"`
	Outs   []stOutcome `json:"outs"`
	Counts [][2]uint64 `json:"counts"`
	Final  []stObsItem `json:"final"`
	Cut    int         `json:"cut,omitempty"`
	Note   string      `json:"note,omitempty"`
}

func errClass(e error) string {
	switch {
	case e == nil:
		return ""
	case e == index.ItemAlreadyExistsError || e.Error() == index.ItemAlreadyExistsError.Error():
		return "exists"
	case e == index.ItemNotFoundError || e.Error() == index.ItemNotFoundError.Error():
		return "notfound"
	default:
		return "other:" + e.Error()
	}
}

func f32bitsVec(v []uint32) []float32 {
	out := make([]float32, len(v))
	for i, b := range v {
		out[i] = f32frombits(b)
	}
	return out
}

func mustUUID(s string) uuid.UUID { return uuid.Must(uuid.FromString(s)) }

func marshalChange(r *rng, ch stChange) []byte {
	pc := &pb.PartitionChange{NotificationId: uuidFrom(r).Bytes()}
	mk := func(it stItem) *pb.BatchItem {
		return &pb.BatchItem{Id: mustUUID(it.Id).Bytes(), Value: f32bitsVec(it.Vec), Metadata: it.Meta, Level: int32(it.Level)}
	}
	switch ch.Kind {
	case "insert":
		pc.Type = pb.PartitionChangeType_PartitionChangeInsertValue
		it := ch.Items[0]
		pc.Id, pc.Value, pc.Metadata, pc.Level = mustUUID(it.Id).Bytes(), f32bitsVec(it.Vec), it.Meta, int32(it.Level)
	case "update":
		pc.Type = pb.PartitionChangeType_PartitionChangeUpdateValue
		it := ch.Items[0]
		pc.Id, pc.Value, pc.Metadata = mustUUID(it.Id).Bytes(), f32bitsVec(it.Vec), it.Meta
	case "delete":
		pc.Type = pb.PartitionChangeType_PartitionChangeDeleteValue
		pc.Id = mustUUID(ch.Items[0].Id).Bytes()
	case "binsert":
		pc.Type = pb.PartitionChangeType_PartitionChangeBatchInsertValue
		for _, it := range ch.Items {
			pc.BatchItems = append(pc.BatchItems, mk(it))
		}
	case "bupdate":
		pc.Type = pb.PartitionChangeType_PartitionChangeBatchUpdateValue
		for _, it := range ch.Items {
			pc.BatchItems = append(pc.BatchItems, mk(it))
		}
	case "bdelete":
		pc.Type = pb.PartitionChangeType_PartitionChangeBatchDeleteValue
		for _, it := range ch.Items {
			pc.BatchItems = append(pc.BatchItems, &pb.BatchItem{Id: mustUUID(it.Id).Bytes()})
		}
	}
	b, err := proto.Marshal(pc)
	if err != nil {
		panic(err)
	}
	return b
}

// standalone partition: one dataset with one partition over an in-memory Badger, no raft loaded
type soloPartition struct {
	ds   *storage.Dataset
	node *simNode
}

func newSoloPartition(r *rng, dim int, space pb.Space) *soloPartition {
	// the partition's raft group is never loaded: the store is not touched and can be shared by all cases of a run
	quietLogs()
	conn, _ := cluster.NewConn(1, "sim-1", "")
	n := &simNode{id: 1, conn: conn, db: sharedBadger(), datasets: map[uuid.UUID]*storage.Dataset{}}
	n.transport = raft.NewTransport(1, "sim-1", conn)
	meta := newDatasetMeta(r, uint32(dim), space, [][]uint64{{1}}, 1)
	ds, err := storage.VerifNewDataset(cloneDataset(meta), n.db, n.transport, n.conn)
	if err != nil {
		panic(err)
	}
	return &soloPartition{ds: ds, node: n}
}

func (p *soloPartition) close() {}

// apply feeds one entry and captures the outcome delivered through the notificator (registered under a fresh id)
func (p *soloPartition) apply(r *rng, ch stChange) stOutcome {
	data := marshalChange(r, ch)
	// outcome is delivered by Notify(notificationId, …); we register the id from the entry to catch it
	var pc pb.PartitionChange
	proto.Unmarshal(data, &pc)
	nid := uuid.FromBytesOrNil(pc.NotificationId)
	ch2 := p.ds.VerifNotificator(0).VerifCreateWithId(nid, 1)
	defer p.ds.VerifNotificator(0).Remove(nid)
	out := stOutcome{Batch: strings.HasPrefix(ch.Kind, "b")}
	var perr error
	panicked, msg := recoverPanic(func() { perr = p.ds.VerifApply(0, data) })
	if panicked {
		out.Crash = msg
		return out
	}
	if perr != nil {
		out.Fatal = perr.Error()
		return out
	}
	select {
	case v := <-ch2:
		if out.Batch {
			out.Errs = map[string]string{}
			if v != nil {
				if m, ok := v.(map[uuid.UUID]error); ok {
					for id, e := range m {
						out.Errs[id.String()] = errClass(e)
					}
				} else {
					// partitionBatchResult is an unexported named map type: use the hook's converter
					for id, e := range storage.VerifBatchResult(v) {
						out.Errs[id.String()] = errClass(e)
					}
				}
			}
		} else if v != nil {
			out.Err = errClass(v.(error))
		}
	default:
		out.Crash = "no outcome notified"
	}
	return out
}

func (p *soloPartition) contents() ([]stObsItem, [2]uint64, index.VerifIndexDump) {
	d := p.ds.VerifIndex(0).VerifDump()
	var items []stObsItem
	for _, v := range d.Vertices {
		if v.InMap {
			items = append(items, stObsItem{Id: v.Id.String(), Vec: v.Vector, Meta: v.Metadata})
		}
	}
	return items, [2]uint64{uint64(d.Len), d.BytesSize}, d
}

// ---------------------------------------------------------------- generator
var metaKeys = []string{"a", "k1", "name", "ключ", "", "long-key-long-key"}
var metaVals = []string{"", "x", "hello", "\x00\x01", "värde", strings.Repeat("v", 40)}

func genMeta(r *rng) map[string]string {
	switch r.intn(5) {
	case 0, 1:
		return nil
	}
	m := map[string]string{}
	n := r.intn(4)
	for i := 0; i < n; i++ {
		m[metaKeys[r.intn(len(metaKeys))]] = metaVals[r.intn(len(metaVals))]
	}
	if len(m) == 0 {
		return nil // protobuf drops empty maps: indistinguishable on the wire
	}
	return m
}

func genVec(r *rng, dim int) []uint32 {
	v := make([]uint32, dim)
	for i := range v {
		v[i] = f32bits(float32(r.intn(41)-20) / 4)
	}
	return v
}

func genStoreLog(r *rng, dim int, maxLen int) []stChange {
	nids := 3 + r.intn(6)
	ids := make([]string, nids)
	for i := range ids {
		ids[i] = uuidFrom(r).String()
	}
	n := 4 + r.intn(maxLen)
	var log []stChange
	item := func() stItem {
		return stItem{Id: ids[r.intn(nids)], Vec: genVec(r, dim), Meta: genMeta(r), Level: r.intn(4)}
	}
	for len(log) < n {
		c := r.intn(100)
		switch {
		case c < 35:
			log = append(log, stChange{Kind: "insert", Items: []stItem{item()}})
		case c < 55:
			log = append(log, stChange{Kind: "update", Items: []stItem{item()}})
		case c < 70:
			log = append(log, stChange{Kind: "delete", Items: []stItem{item()}})
		default:
			k := []string{"binsert", "bupdate", "bdelete"}[r.intn(3)]
			m := 1 + r.intn(5)
			ch := stChange{Kind: k}
			for i := 0; i < m; i++ {
				ch.Items = append(ch.Items, item())
			}
			log = append(log, ch)
		}
	}
	return log
}

// corpus: the nil-metadata update of an item with metadata (fixed defect), re-insert after remove, duplicates in a batch
func storeCorpus() [][]stChange {
	a, b := "11111111-1111-4111-8111-111111111111", "22222222-2222-4222-8222-222222222222"
	v := []uint32{f32bits(1), f32bits(2)}
	return [][]stChange{
		{{Kind: "insert", Items: []stItem{{Id: a, Vec: v, Meta: map[string]string{"k": "v"}}}},
			{Kind: "update", Items: []stItem{{Id: a, Vec: v}}},
			{Kind: "bupdate", Items: []stItem{{Id: a, Vec: v}, {Id: b, Vec: v}}}},
		{{Kind: "insert", Items: []stItem{{Id: a, Vec: v}}}, {Kind: "delete", Items: []stItem{{Id: a}}},
			{Kind: "insert", Items: []stItem{{Id: a, Vec: v, Meta: map[string]string{"x": "y"}}}}, {Kind: "insert", Items: []stItem{{Id: a, Vec: v}}},
			{Kind: "binsert", Items: []stItem{{Id: b, Vec: v}, {Id: b, Vec: v}, {Id: a, Vec: v}}},
			{Kind: "bdelete", Items: []stItem{{Id: b}, {Id: b}}}, {Kind: "update", Items: []stItem{{Id: b, Vec: v}}}},
	}
}

// ---------------------------------------------------------------- Coq rendering
func idN(s string) string {
	u := mustUUID(s)
	hi, lo := uint64(0), uint64(0)
	for i := 0; i < 8; i++ {
		hi = hi<<8 | uint64(u[i])
		lo = lo<<8 | uint64(u[8+i])
	}
	// big-endian 128-bit number = hi * 2^64 + lo
	return fmt.Sprintf("(%d * 18446744073709551616 + %d)", hi, lo)
}
func coqBytes(s string) string { return bytesList([]byte(s)) }
func coqMeta(m map[string]string) string {
	keys := make([]string, 0, len(m))
	for k := range m {
		keys = append(keys, k)
	}
	sort.Strings(keys)
	parts := make([]string, len(keys))
	for i, k := range keys {
		parts[i] = fmt.Sprintf("(%s, %s)", coqBytes(k), coqBytes(m[k]))
	}
	return "[" + strings.Join(parts, "; ") + "]"
}
func coqVec(v []uint32) string {
	s := make([]string, len(v))
	for i, x := range v {
		s[i] = fmt.Sprint(x)
	}
	return "[" + strings.Join(s, "; ") + "]"
}
func coqChange(ch stChange) string {
	it := func(x stItem, lvl bool, full bool) string {
		if !full {
			return idN(x.Id)
		}
		if lvl {
			return fmt.Sprintf("(%s, %s, %s, %d%%nat)", idN(x.Id), coqVec(x.Vec), coqMeta(x.Meta), x.Level)
		}
		return fmt.Sprintf("(%s, %s, %s)", idN(x.Id), coqVec(x.Vec), coqMeta(x.Meta))
	}
	list := func(lvl, full bool) string {
		p := make([]string, len(ch.Items))
		for i, x := range ch.Items {
			p[i] = it(x, lvl, full)
		}
		return "[" + strings.Join(p, "; ") + "]"
	}
	x := ch.Items[0]
	switch ch.Kind {
	case "insert":
		return fmt.Sprintf("CInsert %s %s %s %d%%nat", idN(x.Id), coqVec(x.Vec), coqMeta(x.Meta), x.Level)
	case "update":
		return fmt.Sprintf("CUpdate %s %s %s", idN(x.Id), coqVec(x.Vec), coqMeta(x.Meta))
	case "delete":
		return fmt.Sprintf("CDelete %s", idN(x.Id))
	case "binsert":
		return "CBatchInsert " + list(true, true)
	case "bupdate":
		return "CBatchUpdate " + list(false, true)
	default:
		return "CBatchDelete " + list(false, false)
	}
}
func coqErr(e string) string {
	switch e {
	case "":
		return "ENone"
	case "exists":
		return "EExists"
	case "notfound":
		return "ENotFound"
	}
	return "ENone (* " + e + " *)"
}
func coqOutcome(o stOutcome) string {
	if !o.Batch {
		return "OSingle " + coqErr(o.Err)
	}
	ids := make([]string, 0, len(o.Errs))
	for id := range o.Errs {
		ids = append(ids, id)
	}
	sort.Strings(ids)
	p := make([]string, len(ids))
	for i, id := range ids {
		p[i] = fmt.Sprintf("(%s, %s)", idN(id), coqErr(o.Errs[id]))
	}
	return "OBatch [" + strings.Join(p, "; ") + "]"
}
func coqStoreCase(c stCase) string {
	log := make([]string, len(c.Log))
	for i, ch := range c.Log {
		log[i] = coqChange(ch)
	}
	outs := make([]string, len(c.Outs))
	for i, o := range c.Outs {
		outs[i] = coqOutcome(o)
	}
	cnt := make([]string, len(c.Counts))
	for i, x := range c.Counts {
		cnt[i] = fmt.Sprintf("(%d, %d)", x[0], x[1])
	}
	fin := make([]string, len(c.Final))
	for i, x := range c.Final {
		fin[i] = fmt.Sprintf("(%s, (%s, %s))", idN(x.Id), coqVec(x.Vec), coqMeta(x.Meta))
	}
	return fmt.Sprintf("{| sc_log := [%s];\n      sc_outs := [%s];\n      sc_counts := [%s];\n      sc_final := [%s] |}",
		strings.Join(log, ";\n        "), strings.Join(outs, "; "), strings.Join(cnt, "; "), strings.Join(fin, ";\n        "))
}

const storePrelude = "From Verif Require Import Base.Prelude Store.Spec Store.Partition Store.Check.\nOpen Scope N_scope.\n"
const storeDefs = "Definition bad_model := Eval vm_compute in bad_idx store_case_model_ok cases 0.\n" +
	"Definition bad_oracle := Eval vm_compute in bad_idx store_case_oracle_ok cases 0.\n" +
	"Print bad_model.\nPrint bad_oracle.\n"

// runStoreLog applies a log to a fresh standalone partition and records outcomes, counters and final contents.
func runStoreLog(r *rng, dim int, log []stChange, st *stats, caseIdx int) stCase {
	p := newSoloPartition(r, dim, pb.Space_Euclidean)
	defer p.close()
	c := stCase{Dim: dim, Log: log}
	for _, ch := range log {
		_, _, dBefore := p.contents()
		o := p.apply(r, ch)
		c.Outs = append(c.Outs, o)
		_, cnt, d := p.contents()
		c.Counts = append(c.Counts, cnt)
		if st != nil {
			st.count("kind:" + ch.Kind)
			// a refused operation changes nothing - not the items, not the counters, and not the graph either (a vertex
			// linked in and left behind is returned by later searches)
			distinctIds := map[string]bool{}
			for _, it := range ch.Items {
				distinctIds[it.Id] = true
			}
			refused := (!o.Batch && (o.Err == "exists" || o.Err == "notfound")) || (o.Batch && len(ch.Items) > 0 && len(o.Errs) == len(distinctIds) && len(distinctIds) == len(ch.Items))
			if refused && o.Crash == "" && o.Fatal == "" {
				st.count("refused-op-compared")
				if fmt.Sprintf("%+v", dBefore) != fmt.Sprintf("%+v", d) {
					st.ImplFailures = append(st.ImplFailures, implFailure{Case: caseIdx, What: fmt.Sprintf("a refused %s (every item answered with an error) changed the index: %d vertices / entry %d before, %d vertices / entry %d after", ch.Kind, len(dBefore.Vertices), dBefore.Entry, len(d.Vertices), d.Entry),
						Key: "refused-op-changed-state:" + ch.Kind, Input: c})
				}
			}
			if o.Crash != "" || o.Fatal != "" {
				st.count("crash-or-fatal")
				st.ImplFailures = append(st.ImplFailures, implFailure{Case: caseIdx, What: "apply of a well-formed entry crashed or returned an error: " + o.Crash + o.Fatal,
					Key: "apply-crash:" + ch.Kind, Input: c})
			}
			for _, e := range o.Errs {
				st.count("err:" + e)
			}
			if !o.Batch {
				st.count("err:" + o.Err)
			}
			// reported size = data bytes + bounded link estimate (Go-side oracle for the float estimate)
			cfg := d.Config
			bound := uint64(d.Len) * (uint64(cfg.MMax0*12+24) + 12*uint64(cfg.MMax*12+24))
			if d.TotalBytes < d.BytesSize || d.TotalBytes-d.BytesSize > bound {
				st.ImplFailures = append(st.ImplFailures, implFailure{Case: caseIdx, What: fmt.Sprintf("BytesSize()=%d outside [data=%d, data+%d]", d.TotalBytes, d.BytesSize, bound),
					Key: "bytes-size-bound", Input: c})
			}
		}
	}
	c.Final, _, _ = p.contents()
	return c
}

func runC02(a *args) error {
	r := newRng(a.seed)
	st := newStats("logs of 4..40 entries (thorough: ..120) over 3..8 ids: insert/update/delete 70%, batch forms 30% (1..5 items, duplicate ids allowed); metadata absent in 40%, else 1..3 keys incl. empty and non-UTF-8 keys/values; every entry marshalled and applied through partition.process; outcomes taken from the notificator; counters and contents from the index dump; non-trivial = at least one failing and one succeeding item and >= 2 distinct ids; distinct by hash of the log")
	var logs [][]stChange
	if a.replay != "" {
		var c stCase
		if err := readReplayCase(a.replay, &c); err != nil {
			return err
		}
		logs = [][]stChange{c.Log}
	} else {
		logs = storeCorpus()
		maxLen := 36
		if a.tier == "thorough" {
			maxLen = 116
		}
		for len(logs) < a.n {
			logs = append(logs, genStoreLog(r.fork(), 2, maxLen))
		}
	}
	var cases []stCase
	var items []string
	seen := map[string]bool{}
	for i, log := range logs {
		c := runStoreLog(r, 2, log, st, i)
		cases = append(cases, c)
		items = append(items, coqStoreCase(c))
		st.Evaluations++
		okN, failN := 0, 0
		idset := map[string]bool{}
		for k, o := range c.Outs {
			for _, it := range log[k].Items {
				idset[it.Id] = true
			}
			if o.Batch {
				failN += len(o.Errs)
				if len(o.Errs) < len(log[k].Items) {
					okN++
				}
			} else if o.Err == "" {
				okN++
			} else {
				failN++
			}
		}
		h := hashOf(log)
		if okN > 0 && failN > 0 && len(idset) >= 2 && !seen[h] {
			seen[h] = true
			st.DistinctNontrivial++
		}
	}
	if a.replay == "" {
		c02RefusedUpdates(r, st)
	}
	if len(cases) > 0 {
		st.Samples = append(st.Samples, cases[0])
	}
	if err := writeShards(a.out, storePrelude, "store_case", items, storeDefs, 30); err != nil {
		return err
	}
	if err := writeJSON(a.out+"/cases.json", cases); err != nil {
		return err
	}
	return writeJSON(a.out+"/stats.json", st)
}

// c02RefusedUpdates: an update whose merged metadata does not fit the snapshot encoding (a key of 300 bytes, a value of
// 70000 bytes - entries a replica can meet in its log) is refused at apply time.  A refused operation is a no-op: the
// item keeps its vector and metadata, Len and BytesSize do not move, the id cannot be inserted again; single and batch.
func c02RefusedUpdates(r *rng, st *stats) {
	shapes := []map[string]string{{strings.Repeat("k", 300): "v"}, {"v": strings.Repeat("x", 70000)}}
	for _, kind := range []string{"update", "bupdate"} {
		for si, bad := range shapes {
			p := newSoloPartition(r, 2, pb.Space_Euclidean)
			id, other := uuidFrom(r).String(), uuidFrom(r).String()
			p.apply(r, stChange{Kind: "insert", Items: []stItem{{Id: id, Vec: genVec(r, 2), Meta: map[string]string{"a": "1"}}}})
			p.apply(r, stChange{Kind: "insert", Items: []stItem{{Id: other, Vec: genVec(r, 2)}}})
			before, cntBefore, _ := p.contents()
			out := p.apply(r, stChange{Kind: kind, Items: []stItem{{Id: id, Vec: genVec(r, 2), Meta: bad}}})
			after, cntAfter, _ := p.contents()
			refused := out.Err != "" || len(out.Errs) > 0
			again := p.apply(r, stChange{Kind: "insert", Items: []stItem{{Id: id, Vec: genVec(r, 2)}}})
			p.close()
			st.count(fmt.Sprintf("refused-update:%s:shape%d:refused=%v", kind, si, refused))
			what := ""
			switch {
			case out.Crash != "" || out.Fatal != "":
				what = "the apply step failed: " + out.Crash + out.Fatal
			case refused && (!sameItems(before, after) || cntBefore != cntAfter):
				what = fmt.Sprintf("the %s was refused, yet the partition changed: %d items / counters %v before, %d items / counters %v after", kind, len(before), cntBefore, len(after), cntAfter)
			case refused && again.Err != "exists":
				what = fmt.Sprintf("after the refused %s the id could be inserted again (outcome %q)", kind, again.Err)
			}
			if what != "" {
				st.ImplFailures = append(st.ImplFailures, implFailure{Case: -1, What: fmt.Sprintf("%s of a stored item with metadata beyond the encoding's bounds (shape %d): %s", kind, si, what), Key: "refused-operation-not-a-noop:" + kind, Input: map[string]interface{}{"kind": kind, "shape": si}})
			}
		}
	}
}
