package main

// C03 — acknowledged writes survive a crash at any durable-write boundary + restart (single replica: every
// boundary enumerated; three replicas: a minority crashes).  The partition's log store is wrapped by a recorder that
// counts durable calls and "crashes" (refuses and freezes) at call n.

import (
	"context"
	"errors"
	"fmt"
	"sort"
	"strings"
	"sync"
	"time"

	pb "github.com/marekgalovic/anndb/protobuf"
	"github.com/marekgalovic/anndb/storage"
	"github.com/marekgalovic/anndb/storage/wal"

	"github.com/coreos/etcd/raft/raftpb"
	"github.com/marekgalovic/anndb/index"
	uuid "github.com/satori/go.uuid"
)

func init() { runners["C03"] = runC03 }

var errCrashed = errors.New("verif: simulated crash")

// recWAL wraps the partition's log store: counts durable writes, freezes at a chosen one.
type recWAL struct {
	wal.WAL
	mu      sync.Mutex
	writes  int
	crashAt int // refuse the crashAt-th durable write (1-based) and everything after; 0 = never
	crashed bool
	log     []string
	hard    raftpb.HardState
}

func (w *recWAL) Save(h raftpb.HardState, es []raftpb.Entry, s raftpb.Snapshot) error {
	w.mu.Lock()
	if len(es) == 0 && isEmptyHS(h) && s.Metadata.Index == 0 {
		w.mu.Unlock()
		return w.WAL.Save(h, es, s)
	}
	w.writes++
	if w.crashed || (w.crashAt > 0 && w.writes >= w.crashAt) {
		w.crashed = true
		w.mu.Unlock()
		// the process is dead from here on: block the apply loop forever instead of returning (log.Fatal would exit)
		select {}
	}
	w.log = append(w.log, fmt.Sprintf("save(hs=%d/%d/%d ents=%d snap=%d)", h.Term, h.Vote, h.Commit, len(es), s.Metadata.Index))
	if !isEmptyHS(h) {
		w.hard = h
	}
	w.mu.Unlock()
	return w.WAL.Save(h, es, s)
}
func (w *recWAL) CreateSnapshot(i uint64, cs *raftpb.ConfState, d []byte) (raftpb.Snapshot, error) {
	w.mu.Lock()
	w.writes++
	if w.crashed || (w.crashAt > 0 && w.writes >= w.crashAt) {
		w.crashed = true
		w.mu.Unlock()
		select {}
	}
	w.log = append(w.log, fmt.Sprintf("snapshot(%d)", i))
	w.mu.Unlock()
	return w.WAL.CreateSnapshot(i, cs, d)
}
func isEmptyHS(h raftpb.HardState) bool { return h.Term == 0 && h.Vote == 0 && h.Commit == 0 }

type c03Op struct {
	Kind string   `json:"kind"` // insert update remove snapshot
	Id   string   `json:"id,omitempty"`
	Vec  []uint32 `json:"vec,omitempty"`
}
type c03Case struct {
	Ops       []c03Op     `json:"ops"`
	CrashAt   int         `json:"crash_at"` // durable write boundary (1-based); 0 = clean stop after everything
	Total     int         `json:"total_boundaries"`
	Acked     []bool      `json:"acked"`
	Writes    int         `json:"durable_writes"`
	Recovered []stObsItem `json:"recovered"`
	Note      string      `json:"note,omitempty"`
}

// one incarnation of a single-replica partition over a surviving Badger handle
type incarnation struct {
	c   *simCluster
	ds  *storage.Dataset
	rec *recWAL
}

func startIncarnation(c *simCluster, meta pb.Dataset, crashAt int) (*incarnation, error) {
	n := c.nodes[1]
	ds, err := storage.VerifNewDataset(cloneDataset(meta), n.db, n.transport, n.conn)
	if err != nil {
		return nil, err
	}
	inc := &incarnation{c: c, ds: ds}
	ds.VerifWrapWAL(0, func(w wal.WAL) wal.WAL {
		inc.rec = &recWAL{WAL: w, crashAt: crashAt}
		return inc.rec
	})
	if err := ds.VerifLoadRaft(0, []uint64{1}); err != nil {
		return nil, err
	}
	g := ds.VerifRaft(0)
	deadline := time.Now().Add(4 * time.Second)
	for time.Now().Before(deadline) {
		g.VerifCampaign()
		time.Sleep(2 * time.Millisecond)
		if g.VerifStatus().Lead == 1 && g.LeaderId() == 1 {
			break
		}
		if inc.rec.isCrashed() {
			break
		}
	}
	return inc, nil
}
func (w *recWAL) isCrashed() bool { w.mu.Lock(); defer w.mu.Unlock(); return w.crashed }

// runC03History applies ops until done or crashed; returns per-op acknowledgement and the number of durable writes
func runC03History(r *rng, ops []c03Op, crashAt int) (c03Case, error) {
	cs := c03Case{Ops: ops, CrashAt: crashAt}
	c := newSimCluster([]uint64{1})
	meta := newDatasetMeta(newRng(7), 2, pb.Space_Euclidean, [][]uint64{{1}}, 1)
	inc, err := startIncarnation(c, meta, crashAt)
	if err != nil {
		return cs, err
	}
	applied := uint64(0)
	for _, o := range ops {
		acked := false
		if !inc.rec.isCrashed() {
			ctx, cancel := context.WithTimeout(context.Background(), 250*time.Millisecond)
			var e error
			switch o.Kind {
			case "insert":
				e = inc.ds.Insert(ctx, mustUUID(o.Id), f32bitsVec(o.Vec), nil)
			case "update":
				e = inc.ds.Update(ctx, mustUUID(o.Id), f32bitsVec(o.Vec), nil)
			case "remove":
				e = inc.ds.Remove(ctx, mustUUID(o.Id))
			case "snapshot":
				// the periodic snapshot, run now on the quiescent group at the applied index
				st := inc.ds.VerifRaft(0).VerifStatus()
				applied = st.Applied
				done := make(chan struct{})
				go func() { inc.ds.VerifRaft(0).VerifSnapshotNow(applied, 0); close(done) }()
				select {
				case <-done:
				case <-time.After(300 * time.Millisecond):
				}
				e = errors.New("n/a")
			}
			cancel()
			// an answer of any kind from the state machine (ok / exists / not found) is an acknowledgement
			acked = e == nil || errClass(e) == "exists" || errClass(e) == "notfound"
		}
		cs.Acked = append(cs.Acked, acked)
	}
	cs.Writes = inc.rec.writes
	// crash: drop every volatile object (the frozen apply goroutine is abandoned), keep the Badger handle
	if !inc.rec.isCrashed() {
		inc.ds.VerifClose()
		time.Sleep(3 * time.Millisecond)
	} else {
		// detach the dead incarnation from the transport so that the new one can register
		inc.ds.VerifForget(0)
	}
	// a restart that panics (raft refusing the stored state) loses every acknowledged write of this replica
	inc2, err := func() (i *incarnation, e error) {
		defer func() {
			if p := recover(); p != nil {
				e = fmt.Errorf("panic: %s", panicText(p))
			}
		}()
		return startIncarnation(c, meta, 0)
	}()
	if err != nil {
		cs.Note = "restart failed: " + err.Error()
		return cs, nil
	}
	// wait for the replay of the log suffix
	deadline := time.Now().Add(2 * time.Second)
	for time.Now().Before(deadline) {
		st := inc2.ds.VerifRaft(0).VerifStatus()
		if st.Lead == 1 && st.Applied >= st.Commit && st.Commit > 0 {
			break
		}
		time.Sleep(2 * time.Millisecond)
	}
	time.Sleep(5 * time.Millisecond)
	d := inc2.ds.VerifIndex(0).VerifDump()
	for _, v := range d.Vertices {
		if v.InMap {
			cs.Recovered = append(cs.Recovered, stObsItem{Id: v.Id.String(), Vec: v.Vector, Meta: v.Metadata})
		}
	}
	inc2.ds.VerifClose()
	return cs, nil
}

func genC03Ops(r *rng, n int) []c03Op {
	nids := 3 + r.intn(4)
	ids := make([]string, nids)
	for i := range ids {
		ids[i] = uuidFrom(r).String()
	}
	var ops []c03Op
	for len(ops) < n {
		x := r.intn(100)
		switch {
		case x < 50:
			ops = append(ops, c03Op{Kind: "insert", Id: ids[r.intn(nids)], Vec: genVec(r, 2)})
		case x < 65:
			ops = append(ops, c03Op{Kind: "update", Id: ids[r.intn(nids)], Vec: genVec(r, 2)})
		case x < 85:
			ops = append(ops, c03Op{Kind: "remove", Id: ids[r.intn(nids)]})
		default:
			ops = append(ops, c03Op{Kind: "snapshot"})
		}
	}
	return ops
}

func coqC03Case(cs c03Case) string {
	ops := make([]string, 0, len(cs.Ops))
	for i, o := range cs.Ops {
		a := b(cs.Acked[i])
		switch o.Kind {
		case "insert":
			ops = append(ops, fmt.Sprintf("(CInsert %s %s [] 0%%nat, %s)", idN(o.Id), coqVec(o.Vec), a))
		case "update":
			ops = append(ops, fmt.Sprintf("(CUpdate %s %s [], %s)", idN(o.Id), coqVec(o.Vec), a))
		case "remove":
			ops = append(ops, fmt.Sprintf("(CDelete %s, %s)", idN(o.Id), a))
		}
	}
	rec := append([]stObsItem(nil), cs.Recovered...)
	sort.Slice(rec, func(i, j int) bool { return rec[i].Id < rec[j].Id })
	fin := make([]string, len(rec))
	for i, x := range rec {
		fin[i] = fmt.Sprintf("(%s, (%s, %s))", idN(x.Id), coqVec(x.Vec), coqMeta(x.Meta))
	}
	return fmt.Sprintf("{| rc_ops := [%s];\n      rc_recovered := [%s] |}", strings.Join(ops, ";\n        "), strings.Join(fin, "; "))
}

func runC03(a *args) error {
	r := newRng(a.seed)
	st := newStats("single-replica partitions over an in-memory Badger that survives the crash: histories of 4..10 writes (insert/update/remove over 3..6 ids) with forced snapshots (skip 0) in between; for every history EVERY durable-write boundary of the raft log store (each Save carrying entries / hard state, each snapshot+compaction) is a crash point: the store freezes there, all volatile objects are dropped, a new partition is started on the same database and its contents dumped; plus clean stop/restart; non-trivial = crash strictly inside the history with >= 1 acknowledged write; distinct by (history, crash point)")
	var cases []c03Case
	hist := a.n
	if a.replay != "" {
		var c c03Case
		if err := readReplayCase(a.replay, &c); err != nil {
			return err
		}
		if c.Note == "refused-snapshot" {
			// the scenario of c03RefusedSnapshot, in a process of its own (a restart that cannot work takes raft's
			// goroutine - and the process - down)
			c03RefusedSnapshot(st)
			writeJSON(a.out+"/cases.json", []c03Case{})
			return writeJSON(a.out+"/stats.json", st)
		}
		cs, err := runC03History(r, c.Ops, c.CrashAt)
		if err != nil {
			return err
		}
		cases = append(cases, cs)
		hist = 0
	}
	seen := map[string]bool{}
	for h := 0; h < hist; h++ {
		ops := genC03Ops(r.fork(), 4+r.intn(7))
		if h == 0 {
			// corpus: everything removed, snapshot of the empty index, restart (the repaired empty-snapshot defect)
			id := uuidFrom(r).String()
			ops = []c03Op{{Kind: "insert", Id: id, Vec: genVec(r, 2)}, {Kind: "remove", Id: id}, {Kind: "snapshot"}, {Kind: "insert", Id: id, Vec: genVec(r, 2)}}
		}
		if a.isolate {
			// an in-process run died (a raft goroutine panicked in a restarted replica): one child per history finds it
			cst, crashed, tail := runIsolated("C03", c03Case{Ops: ops, CrashAt: 0}, a, h)
			st.Evaluations++
			if crashed {
				st.ImplFailures = append(st.ImplFailures, implFailure{Case: h, What: "a clean stop and restart of a single-replica partition after this history killed the process: " + tail, Key: "restart-process-crash", Input: c03Case{Ops: ops, CrashAt: 0}})
			} else if cst != nil {
				st.ImplFailures = append(st.ImplFailures, cst.ImplFailures...)
			}
			continue
		}
		clean, err := runC03History(r, ops, 0)
		if err != nil {
			return err
		}
		cases = append(cases, clean)
		for k := 1; k <= clean.Writes; k++ {
			cs, err := runC03History(r, ops, k)
			if err != nil {
				return err
			}
			cs.Total = clean.Writes
			cases = append(cases, cs)
		}
	}
	var items []string
	for i, cs := range cases {
		st.Evaluations++
		if cs.Note != "" {
			st.ImplFailures = append(st.ImplFailures, implFailure{Case: i, What: cs.Note, Key: "restart-failed", Input: cs})
		}
		nack := 0
		for _, x := range cs.Acked {
			if x {
				nack++
			}
		}
		st.count(fmt.Sprintf("acked:%d", nack))
		if cs.CrashAt == 0 {
			st.count("clean-restart")
		} else {
			st.count("crash")
		}
		key := hashOf([]interface{}{cs.Ops, cs.CrashAt})
		if cs.CrashAt > 1 && cs.CrashAt <= cs.Total && nack >= 1 && !seen[key] {
			seen[key] = true
			st.DistinctNontrivial++
		}
		items = append(items, coqC03Case(cs))
	}
	if len(cases) > 1 {
		st.Samples = append(st.Samples, cases[1])
	}
	prelude := "From Verif Require Import Base.Prelude Store.Spec Store.Partition Store.Check Replica.Check.\nOpen Scope N_scope.\n"
	defs := "Definition bad_oracle := Eval vm_compute in bad_idx rc_case_oracle_ok cases 0.\nPrint bad_oracle.\n"
	if a.replay == "" {
		cst, crashed, tail := runIsolated("C03", c03Case{Note: "refused-snapshot"}, a, 9000)
		switch {
		case crashed:
			st.ImplFailures = append(st.ImplFailures, implFailure{Case: -1, What: "acknowledged inserts, a local snapshot attempt refused by the store, more inserts, stop, restart: the restarted replica's process died: " + tail, Key: "restart-failed:refused-snapshot", Input: c03Case{Note: "refused-snapshot"}})
		case cst != nil:
			for _, f := range cst.ImplFailures {
				f.Input = c03Case{Note: "refused-snapshot"}
				st.ImplFailures = append(st.ImplFailures, f)
			}
			for k, v := range cst.Distribution {
				st.Distribution[k] += v
			}
		}
	}
	if err := writeShards(a.out, prelude, "rc_case", items, defs, 60); err != nil {
		return err
	}
	if err := writeJSON(a.out+"/cases.json", cases); err != nil {
		return err
	}
	_ = uuid.Nil
	return writeJSON(a.out+"/stats.json", st)
}

// c03RefusedSnapshot: the local snapshot + compaction fails because the store refuses the snapshot record (here: the
// record is larger than the store accepts; an I/O error at that write has the same effect).  A failed attempt changes
// nothing durable: after a stop and a restart every acknowledged write is there.
func c03RefusedSnapshot(st *stats) {
	c := newSimCluster([]uint64{1})
	meta := newDatasetMeta(newRng(11), 2, pb.Space_Euclidean, [][]uint64{{1}}, 1)
	inc, err := startIncarnation(c, meta, 0)
	if err != nil {
		st.count("refused-snapshot:setup-failed")
		return
	}
	r := newRng(33)
	var acked []uuid.UUID
	insert := func(k int, blob int) {
		id := uuidFrom(r)
		ctx, cancel := context.WithTimeout(context.Background(), time.Second)
		e := inc.ds.Insert(ctx, id, []float32{float32(k), 1}, index.Metadata{"blob": strings.Repeat("x", blob)})
		cancel()
		if e == nil {
			acked = append(acked, id)
		}
	}
	for k := 0; k < 20; k++ {
		insert(k, 60000)
	}
	applied := inc.ds.VerifRaft(0).VerifStatus().Applied
	serr := inc.ds.VerifRaft(0).VerifSnapshotNow(applied, 0)
	st.count(fmt.Sprintf("refused-snapshot:attempt-failed=%v", serr != nil))
	for k := 20; k < 23; k++ {
		insert(k, 10)
	}
	inc.ds.VerifClose()
	time.Sleep(3 * time.Millisecond)
	inc2, err := func() (i *incarnation, e error) {
		defer func() {
			if p := recover(); p != nil {
				e = fmt.Errorf("panic: %s", panicText(p))
			}
		}()
		return startIncarnation(c, meta, 0)
	}()
	if err != nil {
		st.ImplFailures = append(st.ImplFailures, implFailure{Case: -1, What: "after a local snapshot attempt that the store refused, the replica could not restart: " + err.Error(), Key: "restart-failed:refused-snapshot", Input: map[string]interface{}{"acked": len(acked)}})
		return
	}
	deadline := time.Now().Add(3 * time.Second)
	for time.Now().Before(deadline) {
		s := inc2.ds.VerifRaft(0).VerifStatus()
		if s.Lead == 1 && s.Applied >= s.Commit && s.Commit > 0 {
			break
		}
		time.Sleep(2 * time.Millisecond)
	}
	time.Sleep(5 * time.Millisecond)
	lost := 0
	for _, id := range acked {
		if _, e := inc2.ds.VerifIndex(0).Get(id); e != nil {
			lost++
		}
	}
	inc2.ds.VerifClose()
	if lost > 0 {
		st.ImplFailures = append(st.ImplFailures, implFailure{Case: -1, What: fmt.Sprintf("%d acknowledged inserts, a local snapshot attempt refused by the store (%v), 3 more inserts, stop, restart: %d acknowledged inserts are gone", len(acked), serr, lost), Key: "acknowledged-write-lost:refused-snapshot", Input: map[string]interface{}{"acked": len(acked), "lost": lost}})
	}
}
