package main

// C04 — replicas: byte-identical entries applied to independent partitions, with a snapshot / restore at a cut.

import (
	"fmt"

	pb "github.com/marekgalovic/anndb/protobuf"
)

func init() { runners["C04"] = runC04 }

type c04Case struct {
	Log    []stChange `json:"log"`
	Cut    int        `json:"cut"`
	Used   bool       `json:"used"`
	Full   stCase     `json:"full"`
	Cutrep stCase     `json:"cutrep"`
	Snap   int        `json:"snapshot_bytes"`
}

func sameItems(a, b []stObsItem) bool { return fmt.Sprint(a) == fmt.Sprint(b) }

func runC04(a *args) error {
	r := newRng(a.seed)
	st := newStats("logs as in C02 (3..8 ids, all six change kinds, metadata shapes); three partitions per case: two apply the whole log (byte-identical entries), a third restores the snapshot another partition took after [cut] entries (cut uniform in 0..len, incl. states emptied by removals; half of the restores go into a partition that already holds other items) and applies the rest; non-trivial = cut in (0,len) and >= 1 live item at the cut; distinct by hash of (log, cut)")
	var logs [][]stChange
	var cuts []int
	if a.replay != "" {
		var c c04Case
		if err := readReplayCase(a.replay, &c); err != nil {
			return err
		}
		logs, cuts = [][]stChange{c.Log}, []int{c.Cut}
	} else {
		// corpus: snapshot of an index emptied by removals; cut at 0
		cp := storeCorpus()
		logs = append(logs, cp[1], cp[1], cp[0])
		cuts = append(cuts, 2, 0, 1)
		maxLen := 30
		if a.tier == "thorough" {
			maxLen = 100
		}
		for len(logs) < a.n {
			l := genStoreLog(r.fork(), 2, maxLen)
			logs = append(logs, l)
			cuts = append(cuts, r.intn(len(l)+1))
		}
	}
	var cases []c04Case
	var items []string
	seen := map[string]bool{}
	for i, log := range logs {
		cut := cuts[i]
		c := c04Case{Log: log, Cut: cut, Used: i%2 == 1}
		full := runStoreLog(r, 2, log, st, i)
		full2 := runStoreLog(r, 2, log, nil, i)
		c.Full = full
		if fmt.Sprint(full.Outs) != fmt.Sprint(full2.Outs) || !sameItems(full.Final, full2.Final) {
			st.ImplFailures = append(st.ImplFailures, implFailure{Case: i, What: "two replicas applying the same entries disagree on outcomes or contents", Key: "replica-divergence", Input: c})
		}
		// snapshot at the cut, restore elsewhere, apply the rest
		src := newSoloPartition(r, 2, pb.Space_Euclidean)
		pre := stCase{Log: log}
		for _, ch := range log[:cut] {
			pre.Outs = append(pre.Outs, src.apply(r, ch))
			_, cnt, _ := src.contents()
			pre.Counts = append(pre.Counts, cnt)
		}
		atCut, _, _ := src.contents()
		snap, serr := src.ds.VerifSnapshot(0)
		// the snapshotting replica goes on: it applies the rest and takes a later snapshot while the first one is still
		// referenced (the log store caches it, messages to lagging followers carry it) - the first must not change
		for _, ch := range log[cut:] {
			src.apply(r, ch)
		}
		src.ds.VerifSnapshot(0)
		src.close()
		if serr != nil {
			st.ImplFailures = append(st.ImplFailures, implFailure{Case: i, What: "snapshot failed: " + serr.Error(), Key: "snapshot-error", Input: c})
			continue
		}
		c.Snap = len(snap)
		dst := newSoloPartition(r, 2, pb.Space_Euclidean)
		if c.Used {
			// a follower that already holds other items receives the snapshot
			dst.apply(r, stChange{Kind: "insert", Items: []stItem{{Id: uuidFrom(r).String(), Vec: genVec(r, 2), Meta: map[string]string{"stale": "1"}}}})
			dst.apply(r, stChange{Kind: "insert", Items: []stItem{{Id: uuidFrom(r).String(), Vec: genVec(r, 2)}}})
		}
		var rerr error
		panicked, msg := recoverPanic(func() { rerr = dst.ds.VerifRestore(0, snap) })
		if panicked || rerr != nil {
			st.ImplFailures = append(st.ImplFailures, implFailure{Case: i, What: fmt.Sprintf("restoring the snapshot taken after %d entries failed: %v %s", cut, rerr, msg), Key: "restore-error", Input: c})
			dst.close()
			continue
		}
		restored, _, _ := dst.contents()
		if !sameItems(restored, atCut) {
			st.ImplFailures = append(st.ImplFailures, implFailure{Case: i, What: "contents after restore differ from the contents at the cut", Key: "restore-contents", Input: c})
		}
		rep := pre
		for _, ch := range log[cut:] {
			rep.Outs = append(rep.Outs, dst.apply(r, ch))
			_, cnt, _ := dst.contents()
			rep.Counts = append(rep.Counts, cnt)
		}
		rep.Final, _, _ = dst.contents()
		dst.close()
		c.Cutrep = rep
		if fmt.Sprint(rep.Outs) != fmt.Sprint(full.Outs) || !sameItems(rep.Final, full.Final) {
			st.ImplFailures = append(st.ImplFailures, implFailure{Case: i, What: fmt.Sprintf("replica restored at cut %d and replaying the rest differs from the replica that applied everything", cut), Key: "snapshot-cut-divergence", Input: c})
		}
		cases = append(cases, c)
		items = append(items, coqStoreCase(full), coqStoreCase(rep))
		st.Evaluations++
		st.count(fmt.Sprintf("cut-live:%d", len(atCut)))
		if cut == 0 || cut == len(log) {
			st.count("cut-at-end")
		}
		h := hashOf([]interface{}{log, cut})
		if cut > 0 && cut < len(log) && len(atCut) >= 1 && !seen[h] {
			seen[h] = true
			st.DistinctNontrivial++
		}
	}
	if a.replay == "" {
		c04MetadataAtLimit(r, st)
	}
	if len(cases) > 0 {
		st.Samples = append(st.Samples, map[string]interface{}{"log": cases[0].Log, "cut": cases[0].Cut, "snapshot_bytes": cases[0].Snap})
	}
	// two Coq cases per harness case (full replica, restored replica): index/2 = harness case
	if err := writeShards(a.out, storePrelude, "store_case", items, storeDefs, 30); err != nil {
		return err
	}
	dup := make([]c04Case, 0, 2*len(cases))
	for _, c := range cases {
		dup = append(dup, c, c)
	}
	if err := writeJSON(a.out+"/cases.json", dup); err != nil {
		return err
	}
	return writeJSON(a.out+"/stats.json", st)
}

// c04MetadataAtLimit: an item stored with as many metadata keys as the snapshot encoding holds (65535), then an update
// that brings one more key (single and batch path).  Whatever the apply step decides - refuse, as it does, or accept -
// every replica must decide the same and hold the same contents, the replica restored from a snapshot taken in between
// included (a decision that depends on the iteration order of the stored metadata map differs between replicas).
func c04MetadataAtLimit(r *rng, st *stats) {
	big := make(map[string]string, 65535)
	for k := 0; k < 65535; k++ {
		big[fmt.Sprintf("k%05d", k)] = "v"
	}
	for _, kind := range []string{"update", "bupdate"} {
		id := uuidFrom(r).String()
		log := []stChange{
			{Kind: "insert", Items: []stItem{{Id: id, Vec: genVec(r, 2), Meta: big}}},
			{Kind: kind, Items: []stItem{{Id: id, Vec: genVec(r, 2), Meta: map[string]string{"one-more": "1"}}}},
		}
		type rep struct {
			outs  string
			final []stObsItem
		}
		var reps []rep
		var snap []byte
		for k := 0; k < 3; k++ {
			p := newSoloPartition(r, 2, pb.Space_Euclidean)
			o0 := p.apply(r, log[0])
			if k == 0 {
				snap, _ = p.ds.VerifSnapshot(0)
			}
			o1 := p.apply(r, log[1])
			f, _, _ := p.contents()
			reps = append(reps, rep{fmt.Sprint(o0, o1), f})
			p.close()
		}
		if snap != nil {
			p := newSoloPartition(r, 2, pb.Space_Euclidean)
			if err := p.ds.VerifRestore(0, snap); err == nil {
				o1 := p.apply(r, log[1])
				f, _, _ := p.contents()
				// the first outcome is not re-observed on the restored replica: compare the second and the contents
				reps = append(reps, rep{reps[0].outs, f})
				_ = o1
			}
			p.close()
		}
		st.count("metadata-at-limit:" + kind)
		for k := 1; k < len(reps); k++ {
			if reps[k].outs != reps[0].outs || !sameItems(reps[k].final, reps[0].final) {
				nk := 0
				if len(reps[k].final) > 0 {
					nk = len(reps[k].final[0].Meta)
				}
				n0 := 0
				if len(reps[0].final) > 0 {
					n0 = len(reps[0].final[0].Meta)
				}
				st.ImplFailures = append(st.ImplFailures, implFailure{Case: -1, What: fmt.Sprintf("an item with 65535 metadata keys, then %s with one more key: replica %d and replica 0 disagree (outcomes %s vs %s; %d vs %d stored keys, contents equal: %v)", kind, k, reps[k].outs, reps[0].outs, nk, n0, sameItems(reps[k].final, reps[0].final)), Key: "replica-divergence:metadata-at-limit", Input: map[string]interface{}{"kind": kind, "stored_keys": 65535}})
				break
			}
		}
	}
}
