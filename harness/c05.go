package main

// C05 — raft glue under faults: a 3-replica partition group on a simulated cluster with message loss (nodes cut
// off for a while), crash-restart of replicas (clean and abrupt) through the real boot path, proposals throughout.
// Monitors (the model's obligations evaluated on the real run):
//   M1 every vote grant / append acknowledgement / any message leaves only when the term, vote and entries it attests
//      are durable in the sender's log store (recorded by a wrapper around the store);
//   M2 the durable hard state never moves backwards (term, commit), in particular across a restart;
//   M3 after faults stop, all replicas hold the same contents, explained by the acknowledged writes.

import (
	"context"
	"fmt"
	"sort"
	"strings"
	"sync"
	"time"

	pb "github.com/marekgalovic/anndb/protobuf"
	"github.com/marekgalovic/anndb/storage"
	"github.com/marekgalovic/anndb/storage/wal"

	etcdRaft "github.com/coreos/etcd/raft"
	"github.com/coreos/etcd/raft/raftpb"
	"github.com/golang/protobuf/proto"
	uuid "github.com/satori/go.uuid"
)

func init() { runners["C05"] = runC05 }

// durable view of one replica's log store, maintained by the wrapper
type durView struct {
	mu        sync.Mutex
	hard      raftpb.HardState
	last      uint64
	violation []string
	saves     int
	terms     map[uint64]uint64 // the log as it was made durable: index -> term (an append replaces the suffix)
	sums      map[uint64]uint64 // ... and index -> checksum of the entry's payload as the store holds it
	slowSave  time.Duration     // widen the window between a leader's send and its durable write (bursts)
	logLast   uint64
}

type monWAL struct {
	wal.WAL
	v *durView
}

func payloadSum(b []byte) uint64 {
	h := uint64(1469598103934665603)
	for _, c := range b {
		h = (h ^ uint64(c)) * 1099511628211
	}
	return h
}

func (w *monWAL) Save(h raftpb.HardState, es []raftpb.Entry, s raftpb.Snapshot) error {
	w.v.mu.Lock()
	d := w.v.slowSave
	w.v.mu.Unlock()
	if d > 0 && len(es) > 0 {
		time.Sleep(d)
	}
	err := w.WAL.Save(h, es, s)
	w.v.mu.Lock()
	defer w.v.mu.Unlock()
	if err == nil {
		w.v.saves++
		// the hypotheses of the run-level theorem (Replica/Run.v ready_ok), observed on the real library: without an
		// incoming snapshot, new entries are consecutive, start no later than the end of the durable log and above the
		// durable commit index
		if len(es) > 0 && etcdRaft.IsEmptySnap(s) && w.v.saves > 1 {
			if es[0].Index <= w.v.hard.Commit {
				w.v.violation = append(w.v.violation, fmt.Sprintf("ready contract: a durable write replaces position %d at or below the durable commit index %d", es[0].Index, w.v.hard.Commit))
			}
			if w.v.logLast > 0 && es[0].Index > w.v.logLast+1 {
				w.v.violation = append(w.v.violation, fmt.Sprintf("ready contract: a durable write starts at position %d, the durable log ends at %d", es[0].Index, w.v.logLast))
			}
			for k := 1; k < len(es); k++ {
				if es[k].Index != es[0].Index+uint64(k) {
					w.v.violation = append(w.v.violation, fmt.Sprintf("ready contract: entries of one durable write are not consecutive (%d after %d)", es[k].Index, es[k-1].Index))
					break
				}
			}
		}
		if !isEmptyHS(h) {
			if h.Term < w.v.hard.Term {
				w.v.violation = append(w.v.violation, fmt.Sprintf("durable term went backwards: %d -> %d", w.v.hard.Term, h.Term))
			}
			if h.Commit < w.v.hard.Commit {
				w.v.violation = append(w.v.violation, fmt.Sprintf("durable commit went backwards: %d -> %d", w.v.hard.Commit, h.Commit))
			}
			w.v.hard = h
		}
		if li, e := w.WAL.LastIndex(); e == nil {
			w.v.last = li
		}
		// every durable write is a possible crash point: what the store holds now must be something raft restarts from
		// (its loadState refuses a commit index outside [first index - 1, last index] with a panic)
		if hs, _, e1 := w.WAL.InitialState(); e1 == nil && !isEmptyHS(hs) {
			fi, e2 := w.WAL.FirstIndex()
			li, e3 := w.WAL.LastIndex()
			if e2 == nil && e3 == nil && (hs.Commit+1 < fi || hs.Commit > li) {
				w.v.violation = append(w.v.violation, fmt.Sprintf("after a durable write the store holds commit index %d outside its log [%d, %d]: a crash at this point leaves a replica that cannot restart", hs.Commit, fi-1, li))
			}
		}
		if w.v.terms == nil {
			w.v.terms = map[uint64]uint64{}
			w.v.sums = map[uint64]uint64{}
		}
		if !etcdRaft.IsEmptySnap(s) && s.Metadata.Index >= w.v.logLast {
			w.v.terms = map[uint64]uint64{}
			w.v.sums = map[uint64]uint64{}
			w.v.logLast = s.Metadata.Index
		}
		if len(es) > 0 {
			for _, e := range es {
				w.v.terms[e.Index] = e.Term
				delete(w.v.sums, e.Index)
			}
			last := es[len(es)-1].Index
			for i := last + 1; i <= w.v.logLast; i++ {
				delete(w.v.terms, i)
				delete(w.v.sums, i)
			}
			w.v.logLast = last
			// the payloads as the store holds them now (read back: what a restart or a later append message will see)
			if stored, e := w.WAL.Entries(es[0].Index, last+1, ^uint64(0)); e == nil {
				for _, e := range stored {
					// membership entries are left out: every member writes its own bootstrap entries (each carries
					// the writer's address only), they are equal in effect, not in bytes
					if e.Type == raftpb.EntryNormal {
						w.v.sums[e.Index] = payloadSum(e.Data)
					}
				}
			}
		}
	}
	return err
}

// the history of the recorded finding: a replica that is added to a running group and boots the group from the
// catalogue's current replica list (restart, catalogue snapshot) while its log store is still empty
const pristineTag = " [a replica added to the running group was started from the catalogue's replica list while its log store was empty]"

type c05Event struct {
	Kind  string `json:"kind"` // write cut heal crash restart
	Node  uint64 `json:"node,omitempty"`
	Id    string `json:"id,omitempty"`
	Op    string `json:"op,omitempty"`
	Acked bool   `json:"acked,omitempty"`
}
type c05Case struct {
	Events     []c05Event             `json:"events"`
	Violations []string               `json:"violations"`
	Contents   map[string][]stObsItem `json:"-"`
	Ops        []c03Op                `json:"ops"`
	Acked      []bool                 `json:"acked"`
	Final      []stObsItem            `json:"final"`
	Msgs       int                    `json:"raft_messages_checked"`
	Converged  bool                   `json:"converged"`
}

func runC05Schedule(r *rng, nEvents int, script []string) (c05Case, error) {
	var cs c05Case
	nodes := []uint64{1, 2, 3}
	c := newSimCluster(nodes)
	views := map[uint64]*durView{}
	mons := map[uint64]*monWAL{}
	var vmu sync.Mutex
	c.wrapWAL = func(node uint64, part int, w wal.WAL) wal.WAL {
		vmu.Lock()
		defer vmu.Unlock()
		v, ok := views[node]
		if !ok {
			v = &durView{}
			views[node] = v
		}
		// seed / re-seed from what is durable now (a restart must resume from here)
		if h, _, err := w.InitialState(); err == nil && !isEmptyHS(h) {
			v.mu.Lock()
			if h.Term < v.hard.Term {
				v.violation = append(v.violation, fmt.Sprintf("store reopened with an older term: %d -> %d", v.hard.Term, h.Term))
			}
			// a store that holds a snapshot starts right after it: entries at or below the snapshot index are gone for
			// good (raft would hand them to the state machine again, on top of the snapshot's newer state)
			if sn, e := w.Snapshot(); e == nil && sn.Metadata.Index > 0 {
				if fi, e := w.FirstIndex(); e == nil && fi != sn.Metadata.Index+1 {
					v.violation = append(v.violation, fmt.Sprintf("store reopened with first index %d although it holds a snapshot at index %d: the entries below the snapshot are still there", fi, sn.Metadata.Index))
				}
			}
			// the reopened log must be the log that was made durable: same last index, same term at every index it still holds
			if v.saves > 0 && v.logLast > 0 {
				if li, e := w.LastIndex(); e == nil && li != v.logLast {
					v.violation = append(v.violation, fmt.Sprintf("store reopened with a log it never made durable: last index %d before the restart, %d after", v.logLast, li))
				}
				if fi, e := w.FirstIndex(); e == nil {
					for i := fi; i <= v.logLast; i++ {
						want, known := v.terms[i]
						if t, e := w.Term(i); known && e == nil && t != want {
							v.violation = append(v.violation, fmt.Sprintf("store reopened with term %d at index %d, durable term was %d", t, i, want))
							break
						}
					}
				}
			}
			v.mu.Unlock()
		}
		mw := &monWAL{WAL: w, v: v}
		mons[node] = mw
		return mw
	}
	var mmu sync.Mutex
	msgs := 0
	var viol []string
	c.onRaftMsg = func(from, to uint64, req *pb.RaftMessage) {
		var m raftpb.Message
		if proto.Unmarshal(req.GetMessage(), &m) != nil {
			return
		}
		vmu.Lock()
		v := views[from]
		vmu.Unlock()
		if v == nil {
			return
		}
		v.mu.Lock()
		h, last := v.hard, v.last
		v.mu.Unlock()
		mmu.Lock()
		defer mmu.Unlock()
		msgs++
		switch m.Type {
		case raftpb.MsgVoteResp:
			if !m.Reject && (h.Term < m.Term || h.Vote != m.To) {
				viol = append(viol, fmt.Sprintf("node %d granted its vote to %d for term %d with durable term=%d vote=%d", from, m.To, m.Term, h.Term, h.Vote))
			}
		case raftpb.MsgAppResp:
			if !m.Reject && last < m.Index {
				viol = append(viol, fmt.Sprintf("node %d acknowledged entries up to %d with durable last index %d", from, m.Index, last))
			}
			if h.Term < m.Term {
				viol = append(viol, fmt.Sprintf("node %d sent an append response for term %d with durable term %d", from, m.Term, h.Term))
			}
		case raftpb.MsgHeartbeatResp:
			// only a follower answers heartbeats: its term must be durable before the answer leaves
			if h.Term < m.Term {
				viol = append(viol, fmt.Sprintf("node %d sent a heartbeat response for term %d with durable term %d", from, m.Term, h.Term))
			}
		case raftpb.MsgVote:
			if h.Term < m.Term {
				viol = append(viol, fmt.Sprintf("node %d asked for votes in term %d with durable term %d", from, m.Term, h.Term))
			}
		}
	}
	// the replicas of the group: all three nodes, or - first step "G12" / "G1" - the listed ones, others joining later ("A3")
	group := []uint64{1, 2, 3}
	joinScript := false
	if len(script) > 0 && script[0][0] == 'G' {
		group = nil
		for _, ch := range script[0][1:] {
			group = append(group, uint64(ch-'0'))
		}
		script = script[1:]
		joinScript = true
	}
	meta := newDatasetMeta(r, 2, pb.Space_Euclidean, [][]uint64{append([]uint64(nil), group...)}, uint32(len(group)))
	if err := c.createDataset(meta); err != nil {
		return cs, err
	}
	dsid := uuid.FromBytesOrNil(meta.Id)
	ids := make([]string, 5)
	for i := range ids {
		ids[i] = uuidFrom(r).String()
	}
	alive := map[uint64]bool{}
	for _, n := range group {
		alive[n] = true
	}
	inGroup := func(n uint64) bool {
		for _, m := range group {
			if m == n {
				return true
			}
		}
		return false
	}
	cut := map[uint64]bool{}
	restart := func(n uint64) error {
		node := c.nodes[n]
		ds, err := storage.VerifNewDataset(cloneDataset(meta), node.db, node.transport, node.conn)
		if err != nil {
			return err
		}
		node.datasets[dsid] = ds
		node.dm = storage.VerifNewDatasetManager(ds)
		for _, o := range nodes {
			if o != n {
				ds.VerifSetDataManagerClient(o, &memDataManagerClient{to: c.nodes[o]})
			}
			ds.VerifSetSearchClient(o, &memSearchClient{to: c.nodes[o]})
		}
		ds.VerifWrapWAL(0, func(w wal.WAL) wal.WAL { return c.wrapWAL(n, 0, w) })
		// the allocator loads raft with the partition's node ids on every start; raft refusing the stored state (a panic
		// in RestartNode) is the replica failing to resume from what it made durable
		var lerr error
		if panicked, msg := recoverPanic(func() { lerr = ds.VerifLoadRaft(0, append([]uint64(nil), group...)) }); panicked {
			return fmt.Errorf("panic: %s", msg)
		}
		return lerr
	}
	leaderOf := func() uint64 {
		for _, n := range nodes {
			if alive[n] && !cut[n] {
				if st := c.nodes[n].datasets[dsid].VerifRaft(0).VerifStatus(); st.Lead != 0 && alive[st.Lead] && !cut[st.Lead] {
					return st.Lead
				}
			}
		}
		return 0
	}
	nudge := 0
	ensureLeader := func() {
		deadline := time.Now().Add(3 * time.Second)
		for time.Now().Before(deadline) {
			if leaderOf() != 0 {
				return
			}
			// nudge ONE connected replica at a time, a different one each round, and give the election time to finish:
			// a replica whose log is behind cannot win, and campaigning it over and over only raises the term and
			// resets the others' election timers (no leader, ever - an artefact of the nudging, not of the code)
			var up []uint64
			for _, n := range nodes {
				if alive[n] && !cut[n] {
					up = append(up, n)
				}
			}
			if len(up) > 0 {
				c.nodes[up[nudge%len(up)]].datasets[dsid].VerifRaft(0).VerifCampaign()
				nudge++
			}
			for k := 0; k < 8 && leaderOf() == 0; k++ {
				time.Sleep(20 * time.Millisecond)
			}
		}
	}
	// a scripted prologue ("C1" cut node 1, "W2" write through node 2 - even if it is cut off, as a client of a deposed
	// leader would -, "H" heal, "K1" crash node 1, "R" restart what crashed, "S" let things settle), then random events
	write := func(via uint64, timeout time.Duration) {
		op := c03Op{Kind: []string{"insert", "insert", "update", "remove"}[r.intn(4)], Id: ids[r.intn(len(ids))], Vec: genVec(r, 2)}
		ctx, cancel := context.WithTimeout(context.Background(), timeout)
		var e error
		ds := c.nodes[via].datasets[dsid]
		switch op.Kind {
		case "insert":
			e = ds.Insert(ctx, mustUUID(op.Id), f32bitsVec(op.Vec), nil)
		case "update":
			e = ds.Update(ctx, mustUUID(op.Id), f32bitsVec(op.Vec), nil)
		case "remove":
			e = ds.Remove(ctx, mustUUID(op.Id))
		}
		cancel()
		acked := e == nil || errClass(e) == "exists" || errClass(e) == "notfound"
		cs.Ops = append(cs.Ops, op)
		cs.Acked = append(cs.Acked, acked)
		cs.Events = append(cs.Events, c05Event{Kind: "write", Node: via, Id: op.Id, Op: op.Kind, Acked: acked})
	}
	broken := false                      // a replica could not be restarted: the schedule ends there
	joined := map[uint64]bool{}          // replicas added to the running group by the script
	pristineRestart := map[uint64]bool{} // ... and restarted (from the catalogue's replica list) before their log store held anything
	for _, step := range script {
		if broken {
			break
		}
		var n uint64
		if len(step) > 1 {
			n = uint64(step[1] - '0')
		}
		switch step[0] {
		case 'C':
			cut[n] = true
			c.nodes[n].setUnreachable(true)
			cs.Events = append(cs.Events, c05Event{Kind: "cut", Node: n})
		case 'W':
			if !cut[n] {
				ensureLeader()
				write(n, 600*time.Millisecond)
			} else {
				write(n, 120*time.Millisecond)
			}
		case 'H':
			for m := range cut {
				c.nodes[m].setUnreachable(false)
				delete(cut, m)
				cs.Events = append(cs.Events, c05Event{Kind: "heal", Node: m})
			}
		case 'K':
			c.nodes[n].datasets[dsid].VerifRaft(0).Stop()
			alive[n] = false
			c.nodes[n].setUnreachable(true)
			cs.Events = append(cs.Events, c05Event{Kind: "crash", Node: n})
		case 'R':
			for _, m := range group {
				if !alive[m] {
					c.nodes[m].setUnreachable(false)
					vmu.Lock()
					if v := views[m]; joined[m] && (v == nil || v.saves == 0) {
						pristineRestart[m] = true
					}
					vmu.Unlock()
					if err := restart(m); err != nil {
						viol = append(viol, fmt.Sprintf("restart of node %d failed: %v", m, err))
						broken = true
						break
					}
					alive[m] = true
					cs.Events = append(cs.Events, c05Event{Kind: "restart", Node: m})
				}
			}
		case 'D':
			// appends (and snapshots) to replica n are lost at the sender - an error, as for a link that is down - while
			// heartbeats still pass: the replica falls behind without ever campaigning
			c.nodes[n].mu.Lock()
			c.nodes[n].raftFault = func(m *raftpb.Message) bool { return m.Type == raftpb.MsgApp || m.Type == raftpb.MsgSnap }
			c.nodes[n].mu.Unlock()
			cs.Events = append(cs.Events, c05Event{Kind: "lose-appends", Node: n})
		case 'E':
			// appends to n pass again; the first snapshot message to n still fails (once), after that nothing is lost
			failed := false
			c.nodes[n].mu.Lock()
			c.nodes[n].raftFault = func(m *raftpb.Message) bool {
				if m.Type == raftpb.MsgSnap && !failed {
					failed = true
					return true
				}
				return false
			}
			c.nodes[n].mu.Unlock()
			cs.Events = append(cs.Events, c05Event{Kind: "first-snapshot-message-fails", Node: n})
		case 'L':
			// a long stretch of writes (more log entries than the periodic snapshot waits for), one after the other
			ensureLeader()
			l := leaderOf()
			if l == 0 {
				l = 1
			}
			for k := 0; k < 5200; k++ {
				write(l, 600*time.Millisecond)
			}
		case 'T':
			// the periodic snapshot of the real loop (every 10 s) is taken on replica n while its durable writes are slow
			// and other callers keep writing fresh items through the other replicas: what the snapshot is labelled with
			// must be what the replica has applied
			vmu.Lock()
			if v := views[n]; v != nil {
				v.mu.Lock()
				v.slowSave = 4 * time.Millisecond
				v.mu.Unlock()
			}
			vmu.Unlock()
			var omu sync.Mutex
			var twg sync.WaitGroup
			stopAt := time.Now().Add(10500 * time.Millisecond)
			for wk := 0; wk < 4; wk++ {
				via := group[(wk+1)%len(group)]
				if via == n {
					via = group[(wk+2)%len(group)]
				}
				var wops []c03Op
				for k := 0; k < 4000; k++ {
					wops = append(wops, c03Op{Kind: "insert", Id: uuidFrom(r).String(), Vec: genVec(r, 2)})
				}
				twg.Add(1)
				go func(via uint64, wops []c03Op) {
					defer twg.Done()
					for _, op := range wops {
						if time.Now().After(stopAt) {
							return
						}
						ctx, cancel := context.WithTimeout(context.Background(), 800*time.Millisecond)
						e := c.nodes[via].datasets[dsid].Insert(ctx, mustUUID(op.Id), f32bitsVec(op.Vec), nil)
						cancel()
						omu.Lock()
						cs.Ops = append(cs.Ops, op)
						cs.Acked = append(cs.Acked, e == nil || errClass(e) == "exists")
						omu.Unlock()
					}
				}(via, wops)
			}
			twg.Wait()
			cs.Events = append(cs.Events, c05Event{Kind: "periodic-snapshot-window", Node: n})
			vmu.Lock()
			for _, m := range group {
				if mw := mons[m]; mw != nil {
					if sn, e := mw.WAL.Snapshot(); e == nil {
						cs.Events = append(cs.Events, c05Event{Kind: fmt.Sprintf("stored-snapshot-index:%d", sn.Metadata.Index/1000*1000), Node: m})
					}
				}
			}
			vmu.Unlock()
			vmu.Lock()
			if v := views[n]; v != nil {
				v.mu.Lock()
				v.slowSave = 0
				v.mu.Unlock()
			}
			vmu.Unlock()
		case 'X':
			// a burst: four callers write fresh items through node n at the same moment, while every replica's durable
			// writes are slowed a little (a leader sends an entry before it makes it durable: both must carry the same bytes)
			ensureLeader()
			vmu.Lock()
			for _, v := range views {
				v.mu.Lock()
				v.slowSave = 3 * time.Millisecond
				v.mu.Unlock()
			}
			vmu.Unlock()
			type bres struct {
				op    c03Op
				acked bool
			}
			var bops []c03Op
			for k := 0; k < 4; k++ {
				bops = append(bops, c03Op{Kind: "insert", Id: uuidFrom(r).String(), Vec: genVec(r, 2)})
			}
			resc := make(chan bres, len(bops))
			for _, op := range bops {
				go func(op c03Op) {
					ctx, cancel := context.WithTimeout(context.Background(), 800*time.Millisecond)
					e := c.nodes[n].datasets[dsid].Insert(ctx, mustUUID(op.Id), f32bitsVec(op.Vec), nil)
					cancel()
					resc <- bres{op, e == nil || errClass(e) == "exists"}
				}(op)
			}
			for range bops {
				b := <-resc
				cs.Ops = append(cs.Ops, b.op)
				cs.Acked = append(cs.Acked, b.acked)
				cs.Events = append(cs.Events, c05Event{Kind: "write", Node: n, Id: b.op.Id, Op: "insert", Acked: b.acked})
			}
			vmu.Lock()
			for _, v := range views {
				v.mu.Lock()
				v.slowSave = 0
				v.mu.Unlock()
			}
			vmu.Unlock()
		case 'A', 'a':
			// node n becomes a replica of the running group: the catalogue change is applied on every node (on n itself
			// partition.addNode starts the group's raft node over n's empty log store), then - 'A' - the leader proposes
			// the join ('a': the proposal is left to a later 'J' step, e.g. after n has crashed and restarted)
			if inGroup(n) {
				break
			}
			ensureLeader()
			c.nodes[n].datasets[dsid].VerifWrapWAL(0, func(w wal.WAL) wal.WAL { return c.wrapWAL(n, 0, w) })
			for _, m := range nodes {
				c.nodes[m].datasets[dsid].VerifAddNode(0, n)
			}
			meta.Partitions[0].NodeIds = append(meta.Partitions[0].NodeIds, n)
			group = append(group, n)
			alive[n] = true
			joined[n] = true
			cs.Events = append(cs.Events, c05Event{Kind: "add-replica", Node: n})
			if c.nodes[n].datasets[dsid].VerifRaft(0) == nil {
				viol = append(viol, fmt.Sprintf("node %d was added to the partition and did not start its raft node", n))
				broken = true
				break
			}
			if step[0] == 'a' {
				break
			}
			fallthrough
		case 'J':
			ensureLeader()
			if l := leaderOf(); l == 0 {
				viol = append(viol, "no leader to propose the join")
				broken = true
			} else if err := c.nodes[l].datasets[dsid].VerifRaft(0).ProposeJoinAndWait(n, ""); err != nil {
				viol = append(viol, fmt.Sprintf("the join of node %d was not applied: %v%s", n, err, map[bool]string{true: pristineTag, false: ""}[len(pristineRestart) > 0]))
				broken = true
			}
		case 'S':
			ensureLeader()
			time.Sleep(400 * time.Millisecond)
		case 'P':
			// the periodic local snapshot + log compaction, now, at the replica's applied index
			if alive[n] {
				g := c.nodes[n].datasets[dsid].VerifRaft(0)
				applied := g.VerifStatus().Applied
				done := make(chan struct{})
				go func() { g.VerifSnapshotNow(applied, 0); close(done) }()
				select {
				case <-done:
				case <-time.After(time.Second):
				}
				cs.Events = append(cs.Events, c05Event{Kind: "snapshot", Node: n})
			}
		}
	}
	for len(cs.Events) < nEvents && !broken && !joinScript {
		x := r.intn(100)
		nAlive, nUp := 0, 0
		for _, n := range nodes {
			if alive[n] {
				nAlive++
				if !cut[n] {
					nUp++
				}
			}
		}
		switch {
		case x < 55: // a write through any live, connected node
			ensureLeader()
			var via uint64
			for _, n := range nodes {
				if alive[n] && !cut[n] && (via == 0 || r.chance(1, 2)) {
					via = n
				}
			}
			if via == 0 {
				continue
			}
			op := c03Op{Kind: []string{"insert", "insert", "update", "remove"}[r.intn(4)], Id: ids[r.intn(len(ids))], Vec: genVec(r, 2)}
			ctx, cancel := context.WithTimeout(context.Background(), 600*time.Millisecond)
			var e error
			ds := c.nodes[via].datasets[dsid]
			switch op.Kind {
			case "insert":
				e = ds.Insert(ctx, mustUUID(op.Id), f32bitsVec(op.Vec), nil)
			case "update":
				e = ds.Update(ctx, mustUUID(op.Id), f32bitsVec(op.Vec), nil)
			case "remove":
				e = ds.Remove(ctx, mustUUID(op.Id))
			}
			cancel()
			acked := e == nil || errClass(e) == "exists" || errClass(e) == "notfound"
			cs.Ops = append(cs.Ops, op)
			cs.Acked = append(cs.Acked, acked)
			cs.Events = append(cs.Events, c05Event{Kind: "write", Node: via, Id: op.Id, Op: op.Kind, Acked: acked})
		case x < 67 && nUp == 3: // cut one node off (messages to and from it are lost)
			n := nodes[r.intn(3)]
			cut[n] = true
			c.nodes[n].setUnreachable(true)
			cs.Events = append(cs.Events, c05Event{Kind: "cut", Node: n})
		case x < 80: // heal
			for n := range cut {
				c.nodes[n].setUnreachable(false)
				delete(cut, n)
				cs.Events = append(cs.Events, c05Event{Kind: "heal", Node: n})
			}
		case x < 92 && nAlive == 3 && len(cut) == 0: // crash a replica (clean stop or abrupt), restart it a little later
			n := nodes[r.intn(3)]
			ds := c.nodes[n].datasets[dsid]
			if r.chance(1, 2) {
				ds.VerifClose()
			} else {
				ds.VerifRaft(0).Stop() // Stop also removes the group from the transport; volatile state is dropped below
			}
			alive[n] = false
			c.nodes[n].setUnreachable(true)
			cs.Events = append(cs.Events, c05Event{Kind: "crash", Node: n})
			time.Sleep(10 * time.Millisecond)
		default:
			for _, n := range nodes {
				if !alive[n] {
					c.nodes[n].setUnreachable(false)
					if err := restart(n); err != nil {
						viol = append(viol, fmt.Sprintf("restart of node %d failed: %v", n, err))
						broken = true
						break
					}
					alive[n] = true
					cs.Events = append(cs.Events, c05Event{Kind: "restart", Node: n})
				}
			}
		}
	}
	// faults stop: heal, restart everything, wait for convergence
	for n := range cut {
		c.nodes[n].setUnreachable(false)
	}
	for _, n := range group {
		if !alive[n] {
			c.nodes[n].setUnreachable(false)
			if err := restart(n); err != nil {
				viol = append(viol, fmt.Sprintf("restart of node %d failed: %v", n, err))
				broken = true
				break
			}
			alive[n] = true
		}
	}
	if !broken {
		cut = map[uint64]bool{}
		ensureLeader()
		dump := func(n uint64) []stObsItem {
			var out []stObsItem
			d := c.nodes[n].datasets[dsid].VerifIndex(0).VerifDump()
			for _, v := range d.Vertices {
				if v.InMap {
					out = append(out, stObsItem{Id: v.Id.String(), Vec: v.Vector, Meta: v.Metadata})
				}
			}
			sort.Slice(out, func(i, j int) bool { return out[i].Id < out[j].Id })
			return out
		}
		deadline := time.Now().Add(6 * time.Second)
		for time.Now().Before(deadline) {
			same := true
			for _, n := range group[1:] {
				if fmt.Sprint(dump(n)) != fmt.Sprint(dump(group[0])) {
					same = false
				}
			}
			st1 := c.nodes[group[0]].datasets[dsid].VerifRaft(0).VerifStatus()
			if same && st1.Lead != 0 && st1.Applied == st1.Commit {
				cs.Converged = true
				break
			}
			ensureLeader()
			time.Sleep(30 * time.Millisecond)
		}
		cs.Final = dump(group[0])
		if !cs.Converged {
			diag := ""
			dumps := ""
			for _, n := range group {
				d := dump(n)
				txt := fmt.Sprint(d)
				if len(txt) > 400 {
					txt = fmt.Sprintf("%d items: %s ...", len(d), txt[:400])
				}
				dumps += txt + " | "
			}
			for _, n := range group {
				g := c.nodes[n].datasets[dsid].VerifRaft(0)
				if g == nil {
					diag += fmt.Sprintf(" node %d: no group;", n)
					continue
				}
				s := g.VerifStatus()
				diag += fmt.Sprintf(" node %d: term=%d lead=%d commit=%d applied=%d state=%v;", n, s.Term, s.Lead, s.Commit, s.Applied, s.RaftState)
			}
			viol = append(viol, fmt.Sprintf("replicas did not converge after faults stopped: %s(%s)%s", dumps, diag, map[bool]string{true: pristineTag, false: ""}[len(pristineRestart) > 0]))
		}
	}
	// log matching on what is durable: a position at or below the durable commit index of two replicas holds the same term
	vmu.Lock()
	for _, x := range nodes {
		for _, y := range nodes {
			vx, vy := views[x], views[y]
			if x >= y || vx == nil || vy == nil {
				continue
			}
			vx.mu.Lock()
			vy.mu.Lock()
			lim := vx.hard.Commit
			if vy.hard.Commit < lim {
				lim = vy.hard.Commit
			}
			for i := uint64(1); i <= lim; i++ {
				tx, okx := vx.terms[i]
				ty, oky := vy.terms[i]
				if okx && oky && tx != ty {
					tag := ""
					if pristineRestart[x] || pristineRestart[y] {
						tag = pristineTag
					}
					viol = append(viol, fmt.Sprintf("forked history: nodes %d and %d both hold position %d as committed, with terms %d and %d%s", x, y, i, tx, ty, tag))
					break
				}
				sx, okx2 := vx.sums[i]
				sy, oky2 := vy.sums[i]
				if okx && oky && okx2 && oky2 && tx == ty && sx != sy {
					viol = append(viol, fmt.Sprintf("forked history: nodes %d and %d both hold position %d as committed with term %d, with different payloads (checksums %x and %x)", x, y, i, tx, sx, sy))
					break
				}
			}
			vy.mu.Unlock()
			vx.mu.Unlock()
		}
	}
	vmu.Unlock()
	vmu.Lock()
	for n, v := range views {
		v.mu.Lock()
		for _, s := range v.violation {
			viol = append(viol, fmt.Sprintf("node %d: %s", n, s))
		}
		v.mu.Unlock()
	}
	vmu.Unlock()
	mmu.Lock()
	cs.Msgs = msgs
	cs.Violations = append([]string(nil), viol...)
	mmu.Unlock()
	c.close()
	return cs, nil
}

func runC05(a *args) error {
	r := newRng(a.seed)
	st := newStats("3-replica partition groups on a simulated cluster: nine scripted prologues (the ninth: a replica whose appends are lost while heartbeats pass, brought up to date by a snapshot message that fails once; the eighth: bursts of four concurrent writers with slowed durable writes, payloads of committed positions compared between replicas; the seventh: the recorded finding; the fifth and sixth: a replica added to a running group through partition.addNode and a proposed join; the fourth: a replica brought up to date by a snapshot message after the others compacted) (a deposed leader's uncommitted tail overwritten by a shorter suffix, then a restart of that replica - twice; writes, idling, local snapshot + compaction on every replica, then each replica restarted in turn) and schedules of 25..45 events — writes through any connected node (55%), cutting one node off / healing (message loss in both directions), crash of one replica (clean stop or abrupt) and restart through the real boot path with the partition's node ids; every raft message checked against the sender's durable state (vote grants, append acknowledgements, terms), every Save checked for a hard state moving backwards, every reopened log compared with the log that was made durable (last index, term at every index), convergence and explained contents after faults stop; non-trivial = contains a crash+restart and a cut; distinct by hash of the event list")
	var cases []c05Case
	seen := map[string]bool{}
	for i := 0; i < a.n; i++ {
		var script []string
		switch i {
		case 0:
			// a deposed leader's uncommitted tail is overwritten by a shorter suffix of the new leader, then that replica restarts
			script = []string{"W1", "C1", "W1", "W1", "W1", "W1", "W2", "W3", "H", "S", "K1", "R", "S", "W2"}
		case 1:
			// the same with the restart while the old leader is still cut off
			script = []string{"W1", "C1", "W1", "W1", "W1", "W2", "H", "S", "W3", "K1", "S", "R", "S"}
		case 2:
			// writes, then the group idles (the last commit advance reaches every replica in a Ready that carries nothing
			// else), every replica compacts its log at its applied index, and each is stopped and restarted in turn
			script = []string{"W1", "W2", "W3", "W1", "W2", "S", "P1", "P2", "P3", "K2", "S", "R", "S", "K1", "S", "R", "S", "K3", "S", "R", "S", "W1"}
		case 3:
			// a replica is down while the others write and compact their logs past what it has: on its return the leader
			// brings it up to date with a snapshot message (the received snapshot, the hard state and the entries of that
			// Ready are one durable write); then it goes down and comes back once more: what it stored when it installed
			// the snapshot is what it restarts from
			script = []string{"W1", "W2", "S", "K3", "S", "W1", "W2", "W1", "W2", "S", "P1", "P2", "R", "S", "W1", "S", "K3", "S", "R", "S"}
		case 4:
			// a third replica joins a running two-replica group: it must take the group's log, not start one of its own
			script = []string{"G12", "W1", "W2", "W1", "S", "A3", "S", "W1", "W3", "W2", "S"}
		case 8:
			// a replica falls behind (its appends are lost, heartbeats pass), the others compact their logs, then the
			// first snapshot message to it fails once: it must still be brought up to date
			script = []string{"G123", "W1", "S", "D3", "W1", "W2", "W1", "W2", "S", "P1", "P2", "E3", "S", "W1", "S", "S"}
		case 7:
			// bursts of concurrent writes through the leader and through a follower
			script = []string{"W1", "S", "X1", "X1", "X2", "S", "X1", "X3", "S", "W2", "S"}
		case 6:
			// the recorded finding: node 3 becomes a replica of a running group; before its store holds anything it goes
			// down and comes back booting the group as the allocator does after a catalogue snapshot - with the
			// catalogue's current replica list; then the leader proposes the join
			script = []string{"G12", "W1", "W2", "S", "a3", "K3", "S", "R", "S", "J3", "S", "W1", "W2", "S"}
		case 5:
			// one replica grows to two, then to three
			script = []string{"G1", "W1", "W1", "W1", "S", "A2", "S", "W1", "W2", "A3", "S", "W3", "S"}
		}
		if a.tier == "thorough" && i == 9 {
			// the periodic snapshot of the real loop: more than 5000 entries, then the 10 s tick on a replica whose durable
			// writes are slow while the others take writes; that replica then crashes and restarts from what it stored
			script = []string{"G123", "L", "T1", "S", "K1", "S", "R", "S"}
			simBadgerTable = 48 << 20 // the periodic snapshot of a few thousand items is one value of a few MB
		}
		cs, err := runC05Schedule(r.fork(), 25+r.intn(21), script)
		simBadgerTable = 1 << 20
		if err != nil {
			return err
		}
		cases = append(cases, cs)
		st.Evaluations++
		crash, cutE := false, false
		for _, e := range cs.Events {
			st.count("event:" + e.Kind)
			if e.Kind == "restart" {
				crash = true
			}
			if e.Kind == "cut" {
				cutE = true
			}
		}
		h := hashOf(cs.Events)
		if crash && cutE && !seen[h] {
			seen[h] = true
			st.DistinctNontrivial++
		}
		for _, v := range cs.Violations {
			key := "raft-glue:" + strings.SplitN(v, ":", 2)[0]
			if strings.HasSuffix(v, pristineTag) {
				st.ImplFailures = append(st.ImplFailures, implFailure{Case: i, What: v, Key: "raft-glue:pristine-listed-replica-bootstraps", Input: cs.Events})
				continue
			}
			if strings.Contains(v, "backwards") || strings.Contains(v, "older term") {
				key = "raft-glue:hard-state-regressed"
			} else if strings.Contains(v, "granted its vote") || strings.Contains(v, "acknowledged entries") || strings.Contains(v, "durable term") {
				key = "raft-glue:sent-before-durable"
			} else if strings.Contains(v, "converge") {
				key = "raft-glue:no-convergence"
			} else if strings.Contains(v, "entries below the snapshot") {
				key = "raft-glue:stale-entries-after-snapshot"
			} else if strings.Contains(v, "ready contract") {
				key = "raft-glue:ready-contract"
			} else if strings.Contains(v, "forked history") {
				key = "raft-glue:forked-history"
			} else if strings.Contains(v, "join") || strings.Contains(v, "added to the partition") {
				key = "raft-glue:join-failed"
			}
			st.ImplFailures = append(st.ImplFailures, implFailure{Case: i, What: v, Key: key, Input: cs.Events})
		}
		st.count(fmt.Sprintf("msgs-checked:%dk", cs.Msgs/1000))
	}
	var items []string
	for _, cs := range cases {
		items = append(items, coqC03Case(c03Case{Ops: cs.Ops, Acked: cs.Acked, Recovered: cs.Final}))
	}
	if len(cases) > 0 {
		st.Samples = append(st.Samples, map[string]interface{}{"events": cases[0].Events, "messages_checked": cases[0].Msgs})
	}
	prelude := "From Verif Require Import Base.Prelude Store.Spec Store.Partition Store.Check Replica.Check.\nOpen Scope N_scope.\n"
	defs := "Definition bad_oracle := Eval vm_compute in bad_idx rc_case_oracle_ok cases 0.\nPrint bad_oracle.\n"
	if err := writeShards(a.out, prelude, "rc_case", items, defs, 40); err != nil {
		return err
	}
	if err := writeJSON(a.out+"/cases.json", cases); err != nil {
		return err
	}
	return writeJSON(a.out+"/stats.json", st)
}
