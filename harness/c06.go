package main

// C06 — the Badger raft log against etcd's MemoryStorage and against the Coq models of both, call by call.

import (
	"fmt"
	"strings"

	"github.com/marekgalovic/anndb/storage/wal"

	etcdRaft "github.com/coreos/etcd/raft"
	"github.com/coreos/etcd/raft/raftpb"
	uuid "github.com/satori/go.uuid"
)

func init() { runners["C06"] = runC06 }

type wEntry struct {
	Term  uint64 `json:"t"`
	Index uint64 `json:"i"`
	Data  uint64 `json:"d"` // payload digest; 0 = no data
}
type wSnap struct {
	Index uint64   `json:"i"`
	Term  uint64   `json:"t"`
	Conf  []uint64 `json:"conf"`
	Data  uint64   `json:"d"`
}
type wCall struct {
	K     string    `json:"k"` // save csnap reopen delgroup first last term entries snap init
	Hard  [3]uint64 `json:"hard,omitempty"`
	Ents  []wEntry  `json:"ents,omitempty"`
	Snap  *wSnap    `json:"snap,omitempty"`
	I     uint64    `json:"i,omitempty"`
	NilCS bool      `json:"nilcs,omitempty"`
	Conf  []uint64  `json:"conf,omitempty"`
	Data  uint64    `json:"data,omitempty"`
	Lo    uint64    `json:"lo,omitempty"`
	Hi    uint64    `json:"hi,omitempty"`
	Max   uint64    `json:"max,omitempty"`
	Legal bool      `json:"legal"`
}
type wObs struct {
	Kind string    `json:"kind"` // none err num ents snap init panic
	Err  string    `json:"err,omitempty"`
	Num  uint64    `json:"num,omitempty"`
	Ents []wEntry  `json:"ents,omitempty"`
	Snap *wSnap    `json:"snap,omitempty"`
	Hard [3]uint64 `json:"hard,omitempty"`
	Conf []uint64  `json:"conf,omitempty"`
}
type wCase struct {
	Group string            `json:"group"`
	Calls []wCall           `json:"calls"`
	Obs   []wObs            `json:"obs"` // badgerWAL
	Ref   []wObs            `json:"ref"` // MemoryStorage
	Sizes map[string]uint64 `json:"-"`
}

func payload(d uint64) []byte {
	if d == 0 {
		return nil
	}
	n := int(d%7) + 1
	b := make([]byte, n)
	for i := range b {
		b[i] = byte(d >> (8 * uint(i%8)))
	}
	return b
}
func digest(b []byte) uint64 {
	// payload() is injective on the digests the generator uses (1..255): recover by first byte
	if len(b) == 0 {
		return 0
	}
	return uint64(b[0])
}
func toPbEntry(e wEntry) raftpb.Entry {
	return raftpb.Entry{Term: e.Term, Index: e.Index, Data: payload(e.Data)}
}
func fromPbEntry(e raftpb.Entry) wEntry {
	return wEntry{Term: e.Term, Index: e.Index, Data: digest(e.Data)}
}
func toPbSnap(s *wSnap) raftpb.Snapshot {
	if s == nil {
		return raftpb.Snapshot{}
	}
	return raftpb.Snapshot{Data: payload(s.Data), Metadata: raftpb.SnapshotMetadata{Index: s.Index, Term: s.Term, ConfState: raftpb.ConfState{Nodes: s.Conf}}}
}
func fromPbSnap(s raftpb.Snapshot) *wSnap {
	return &wSnap{Index: s.Metadata.Index, Term: s.Metadata.Term, Conf: s.Metadata.ConfState.Nodes, Data: digest(s.Data)}
}
func werrClass(e error) string {
	switch e {
	case etcdRaft.ErrCompacted:
		return "compacted"
	case etcdRaft.ErrUnavailable:
		return "unavailable"
	case etcdRaft.ErrSnapOutOfDate:
		return "outofdate"
	case wal.EmptyConfStateErr:
		return "emptyconf"
	}
	if e.Error() == "Entry not found" {
		return "notfound"
	}
	return "other"
}

type walUnderTest interface {
	etcdRaft.Storage
	Save(raftpb.HardState, []raftpb.Entry, raftpb.Snapshot) error
	CreateSnapshot(uint64, *raftpb.ConfState, []byte) (raftpb.Snapshot, error)
}

// refStore: etcd MemoryStorage with Save = ApplySnapshot (if any); Append; SetHardState (if not empty), and
// CreateSnapshot = CreateSnapshot; Compact
type refStore struct{ *etcdRaft.MemoryStorage }

func (r *refStore) Save(h raftpb.HardState, es []raftpb.Entry, s raftpb.Snapshot) error {
	if !etcdRaft.IsEmptySnap(s) {
		if err := r.ApplySnapshot(s); err != nil {
			return err
		}
	}
	if err := r.Append(es); err != nil {
		return err
	}
	if !etcdRaft.IsEmptyHardState(h) {
		return r.SetHardState(h)
	}
	return nil
}
func (r *refStore) CreateSnapshot(i uint64, cs *raftpb.ConfState, data []byte) (raftpb.Snapshot, error) {
	if cs == nil {
		return raftpb.Snapshot{}, wal.EmptyConfStateErr
	}
	s, err := r.MemoryStorage.CreateSnapshot(i, cs, data)
	if err != nil {
		return s, err
	}
	return s, r.Compact(i)
}

func doCall(w walUnderTest, c wCall) (o wObs) {
	defer func() {
		if r := recover(); r != nil {
			o = wObs{Kind: "panic", Err: fmt.Sprint(r)}
		}
	}()
	switch c.K {
	case "save":
		var es []raftpb.Entry
		for _, e := range c.Ents {
			es = append(es, toPbEntry(e))
		}
		err := w.Save(raftpb.HardState{Term: c.Hard[0], Vote: c.Hard[1], Commit: c.Hard[2]}, es, toPbSnap(c.Snap))
		if err != nil {
			return wObs{Kind: "err", Err: werrClass(err)}
		}
		return wObs{Kind: "none"}
	case "csnap":
		var cs *raftpb.ConfState
		if !c.NilCS {
			cs = &raftpb.ConfState{Nodes: c.Conf}
		}
		s, err := w.CreateSnapshot(c.I, cs, payload(c.Data))
		if err != nil {
			return wObs{Kind: "err", Err: werrClass(err)}
		}
		return wObs{Kind: "snap", Snap: fromPbSnap(s)}
	case "first":
		v, err := w.FirstIndex()
		if err != nil {
			return wObs{Kind: "err", Err: werrClass(err)}
		}
		return wObs{Kind: "num", Num: v}
	case "last":
		v, err := w.LastIndex()
		if err != nil {
			return wObs{Kind: "err", Err: werrClass(err)}
		}
		return wObs{Kind: "num", Num: v}
	case "term":
		v, err := w.Term(c.I)
		if err != nil {
			return wObs{Kind: "err", Err: werrClass(err)}
		}
		return wObs{Kind: "num", Num: v}
	case "entries":
		es, err := w.Entries(c.Lo, c.Hi, c.Max)
		if err != nil {
			return wObs{Kind: "err", Err: werrClass(err)}
		}
		o := wObs{Kind: "ents", Ents: []wEntry{}}
		for _, e := range es {
			o.Ents = append(o.Ents, fromPbEntry(e))
		}
		return o
	case "snap":
		s, err := w.Snapshot()
		if err != nil {
			return wObs{Kind: "err", Err: werrClass(err)}
		}
		return wObs{Kind: "snap", Snap: fromPbSnap(s)}
	case "init":
		h, cs, err := w.InitialState()
		if err != nil {
			return wObs{Kind: "err", Err: werrClass(err)}
		}
		return wObs{Kind: "init", Hard: [3]uint64{h.Term, h.Vote, h.Commit}, Conf: cs.Nodes}
	}
	return wObs{Kind: "none"}
}

// shadow of the legal-call generator
type wShadow struct {
	first, last, snapIdx, term uint64
	terms                      map[uint64]uint64
}

func genWalCalls(r *rng, n int) []wCall {
	sh := &wShadow{first: 1, last: 0, term: 1, terms: map[uint64]uint64{0: 0}}
	var calls []wCall
	data := func() uint64 { return uint64(1 + r.intn(255)) }
	queries := func() {
		calls = append(calls, wCall{K: "first", Legal: true}, wCall{K: "last", Legal: true}, wCall{K: "snap", Legal: true}, wCall{K: "init", Legal: true})
		lo := int64(sh.first) - 2
		if lo < 0 {
			lo = 0
		}
		for i := uint64(lo); i <= sh.last+2; i++ {
			if r.chance(2, 3) {
				calls = append(calls, wCall{K: "term", I: i, Legal: true})
			}
		}
		if sh.last >= sh.first {
			for k := 0; k < 3; k++ {
				l := sh.first + uint64(r.intn(int(sh.last-sh.first+1)))
				h := l + 1 + uint64(r.intn(int(sh.last-l+1)))
				mx := []uint64{0, 1, 20, 60, 1 << 62}[r.intn(5)]
				calls = append(calls, wCall{K: "entries", Lo: l, Hi: h, Max: mx, Legal: true})
			}
		}
		// calls raft never issues (compared with the model only)
		if r.chance(1, 3) {
			calls = append(calls, wCall{K: "entries", Lo: sh.first - 1, Hi: sh.last + 1, Max: 1 << 62})
			calls = append(calls, wCall{K: "entries", Lo: sh.first, Hi: sh.last + 2 + uint64(r.intn(3)), Max: 100})
			calls = append(calls, wCall{K: "entries", Lo: sh.last + 1, Hi: sh.last + 1, Max: 100})
		}
	}
	for len(calls) < n {
		c := r.intn(100)
		switch {
		case c < 55: // append (possibly conflicting overwrite)
			if r.chance(1, 4) {
				sh.term++
			}
			start := sh.last + 1
			if sh.last >= sh.first && r.chance(1, 3) {
				start = sh.first + uint64(r.intn(int(sh.last-sh.first+1)))
			}
			if sh.first > 1 && r.chance(1, 12) {
				start = sh.first - 1 // reaches into the compacted prefix: Append drops it
			}
			m := 1 + r.intn(5)
			call := wCall{K: "save", Legal: true}
			for i := 0; i < m; i++ {
				call.Ents = append(call.Ents, wEntry{Term: sh.term, Index: start + uint64(i), Data: data()})
			}
			if r.chance(2, 3) {
				call.Hard = [3]uint64{sh.term, uint64(1 + r.intn(3)), sh.snapIdx + uint64(r.intn(int(start+uint64(m)-sh.snapIdx)))}
			}
			lastNew := start + uint64(m) - 1
			if lastNew >= sh.first {
				for i := start; i <= lastNew; i++ {
					sh.terms[i] = sh.term
				}
				sh.last = lastNew
			}
			calls = append(calls, call)
		case c < 65: // hard state only
			calls = append(calls, wCall{K: "save", Legal: true, Hard: [3]uint64{sh.term, uint64(1 + r.intn(3)), sh.last}})
		case c < 75: // received snapshot
			var idx uint64
			if sh.last > sh.snapIdx && r.chance(1, 2) {
				idx = sh.snapIdx + 1 + uint64(r.intn(int(sh.last-sh.snapIdx))) // inside the current log (conflicting suffix)
			} else {
				idx = sh.last + 1 + uint64(r.intn(5))
			}
			sh.term++
			sn := &wSnap{Index: idx, Term: sh.term, Conf: []uint64{1, 2, uint64(3 + r.intn(3))}, Data: data()}
			call := wCall{K: "save", Legal: true, Snap: sn, Hard: [3]uint64{sh.term, 0, idx}}
			sh.first, sh.last, sh.snapIdx = idx+1, idx, idx
			sh.terms[idx] = sh.term
			if r.chance(1, 3) { // entries of the same Ready after the snapshot
				m := 1 + r.intn(3)
				for i := 0; i < m; i++ {
					call.Ents = append(call.Ents, wEntry{Term: sh.term, Index: idx + 1 + uint64(i), Data: data()})
					sh.terms[idx+1+uint64(i)] = sh.term
				}
				sh.last = idx + uint64(m)
			}
			calls = append(calls, call)
		case c < 88: // local snapshot + compaction
			if sh.last > sh.snapIdx {
				idx := sh.snapIdx + 1 + uint64(r.intn(int(sh.last-sh.snapIdx)))
				calls = append(calls, wCall{K: "csnap", Legal: true, I: idx, Conf: []uint64{1, 2, 3}, Data: data()})
				sh.snapIdx, sh.first = idx, idx+1
			} else {
				calls = append(calls, wCall{K: "csnap", Legal: true, I: sh.snapIdx, Conf: []uint64{1}, Data: data()}) // out of date
			}
			if r.chance(1, 6) {
				calls = append(calls, wCall{K: "csnap", Legal: true, I: sh.last, NilCS: true})
			}
		case c < 96:
			calls = append(calls, wCall{K: "reopen", Legal: true})
		default:
			calls = append(calls, wCall{K: "delgroup", Legal: true})
			sh = &wShadow{first: 1, last: 0, term: sh.term, terms: map[uint64]uint64{0: 0}}
		}
		queries()
	}
	return calls
}

func walCorpus() [][]wCall {
	es := func(from, to, term uint64) []wEntry {
		var l []wEntry
		for i := from; i <= to; i++ {
			l = append(l, wEntry{Term: term, Index: i, Data: i})
		}
		return l
	}
	q := []wCall{{K: "first", Legal: true}, {K: "last", Legal: true}, {K: "term", I: 8, Legal: true}, {K: "snap", Legal: true}, {K: "init", Legal: true}}
	// (1) snapshot at 8 installed over entries 1..10, then reopen
	a := []wCall{{K: "save", Legal: true, Ents: es(1, 10, 1), Hard: [3]uint64{1, 1, 5}},
		{K: "save", Legal: true, Snap: &wSnap{Index: 8, Term: 2, Conf: []uint64{1, 2}, Data: 9}, Hard: [3]uint64{2, 0, 8}}}
	a = append(a, q...)
	a = append(a, wCall{K: "reopen", Legal: true})
	a = append(a, q...)
	a = append(a, wCall{K: "save", Legal: true, Ents: es(9, 11, 2)}, wCall{K: "entries", Lo: 9, Hi: 12, Max: 1 << 62, Legal: true})
	// (2) delete group, then a new store for the same id
	b := []wCall{{K: "save", Legal: true, Ents: es(1, 4, 3), Hard: [3]uint64{3, 2, 4}}, {K: "csnap", Legal: true, I: 3, Conf: []uint64{1}, Data: 5}, {K: "delgroup", Legal: true}}
	b = append(b, q...)
	return [][]wCall{a, b}
}

// ---------------------------------------------------------------- Coq rendering
func coqWEntry(e wEntry, size uint64) string {
	return fmt.Sprintf("{| e_term := %d; e_index := %d; e_data := %d; e_size := %d |}", e.Term, e.Index, e.Data, size)
}
func pbSize(e wEntry) uint64 { x := toPbEntry(e); return uint64(x.Size()) }
func coqWEnts(es []wEntry) string {
	p := make([]string, len(es))
	for i, e := range es {
		p[i] = coqWEntry(e, pbSize(e))
	}
	return "[" + strings.Join(p, "; ") + "]"
}
func coqWSnap(s *wSnap) string {
	if s == nil {
		return "empty_snap"
	}
	return fmt.Sprintf("{| sn_index := %d; sn_term := %d; sn_conf := %s; sn_data := %d |}", s.Index, s.Term, u64List(s.Conf), s.Data)
}
func coqHard(h [3]uint64) string {
	return fmt.Sprintf("{| h_term := %d; h_vote := %d; h_commit := %d |}", h[0], h[1], h[2])
}
func coqWCall(c wCall) string {
	switch c.K {
	case "save":
		return fmt.Sprintf("KSave %s %s %s", coqHard(c.Hard), coqWEnts(c.Ents), coqWSnap(c.Snap))
	case "csnap":
		cs := "None"
		if !c.NilCS {
			cs = "(Some " + u64List(c.Conf) + ")"
		}
		return fmt.Sprintf("KCreateSnap %d %s %d", c.I, cs, c.Data)
	case "reopen":
		return "KReopen"
	case "delgroup":
		return "KDeleteGroup"
	case "first":
		return "KFirst"
	case "last":
		return "KLast"
	case "term":
		return fmt.Sprintf("KTerm %d", c.I)
	case "entries":
		return fmt.Sprintf("KEntries %d %d %d", c.Lo, c.Hi, c.Max)
	case "snap":
		return "KSnap"
	}
	return "KInit"
}
func coqWObs(o wObs) string {
	switch o.Kind {
	case "none":
		return "ONone"
	case "err":
		m := map[string]string{"compacted": "ECompacted", "unavailable": "EUnavailable", "outofdate": "ESnapOutOfDate", "notfound": "ENotFound", "emptyconf": "EEmptyConf", "other": "EOther"}
		return "OErr " + m[o.Err]
	case "panic":
		return "OErr EOther"
	case "num":
		return fmt.Sprintf("ONum %d", o.Num)
	case "ents":
		return "OEnts " + coqWEnts(o.Ents)
	case "snap":
		return "OSnapshot " + coqWSnap(o.Snap)
	}
	return fmt.Sprintf("OInit %s %s", coqHard(o.Hard), u64List(o.Conf))
}

func runC06(a *args) error {
	quietLogs()
	r := newRng(a.seed)
	st := newStats("call sequences per group: appends (1..5 entries, 1/3 conflicting overwrites, rare reach into the compacted prefix), hard-state saves, received snapshots (beyond the log or inside it, 1/3 with following entries), local snapshot+compaction (incl. out-of-date and nil conf state), reopen, delete-group; after every mutating call the full set of queries (first, last, snapshot, initial state, Term over [first-2,last+2], 3 Entries ranges with size limits 0/1/20/60/inf) plus calls raft never issues; 1..3 groups (incl. uuid.Nil) interleaved in one Badger DB; non-trivial = contains a snapshot install or compaction and a reopen; distinct by hash of the calls")
	type groupRun struct {
		id    uuid.UUID
		calls []wCall
	}
	var cases []wCase
	var items []string
	addCase := func(gid uuid.UUID, calls []wCall, obs, ref []wObs, ci int) {
		reported := false
		c := wCase{Group: gid.String(), Calls: calls, Obs: obs, Ref: ref}
		cases = append(cases, c)
		cs := make([]string, len(calls))
		os_ := make([]string, len(obs))
		rs := make([]string, len(ref))
		lg := make([]string, len(calls))
		for i := range calls {
			cs[i] = coqWCall(calls[i])
			os_[i] = coqWObs(obs[i])
			rs[i] = coqWObs(ref[i])
			lg[i] = b(calls[i].Legal)
			st.count("call:" + calls[i].K)
			if obs[i].Kind == "err" {
				st.count("err:" + obs[i].Err)
			}
			// Go-side oracle: on calls raft may issue, the Badger store answers exactly as MemoryStorage
			if !reported && calls[i].Legal && fmt.Sprint(obs[i]) != fmt.Sprint(ref[i]) && !(ptrSnapEq(obs[i].Snap, ref[i].Snap) && obs[i].Kind == ref[i].Kind && fmt.Sprint(obs[i].Ents) == fmt.Sprint(ref[i].Ents) && obs[i].Num == ref[i].Num && obs[i].Err == ref[i].Err && obs[i].Hard == ref[i].Hard && fmt.Sprint(obs[i].Conf) == fmt.Sprint(ref[i].Conf)) {
				st.ImplFailures = append(st.ImplFailures, implFailure{Case: ci, What: fmt.Sprintf("call %d (%s): badgerWAL answered %s, MemoryStorage %s", i, cs[i], os_[i], rs[i]),
					Key: "wal-differs-from-reference:" + calls[i].K, Input: c})
				reported = true
			}
		}
		items = append(items, fmt.Sprintf("{| wc_calls := [%s];\n      wc_legal := [%s];\n      wc_obs := [%s];\n      wc_ref := [%s] |}",
			strings.Join(cs, ";\n        "), strings.Join(lg, "; "), strings.Join(os_, ";\n        "), strings.Join(rs, ";\n        ")))
	}
	runGroups := func(groups []groupRun, ci int) {
		db := memBadger()
		defer db.Close()
		n := len(groups)
		ws := make([]walUnderTest, n)
		refs := make([]*refStore, n)
		obs := make([][]wObs, n)
		ref := make([][]wObs, n)
		pos := make([]int, n)
		for g := range groups {
			ws[g] = wal.NewBadgerWAL(db, groups[g].id)
			refs[g] = &refStore{etcdRaft.NewMemoryStorage()}
		}
		for {
			// pick a group that still has calls (interleaving decided by the PRNG)
			var live []int
			for g := range groups {
				if pos[g] < len(groups[g].calls) {
					live = append(live, g)
				}
			}
			if len(live) == 0 {
				break
			}
			g := live[r.intn(len(live))]
			c := groups[g].calls[pos[g]]
			pos[g]++
			switch c.K {
			case "reopen":
				ws[g] = wal.NewBadgerWAL(db, groups[g].id)
				obs[g] = append(obs[g], wObs{Kind: "none"})
				ref[g] = append(ref[g], wObs{Kind: "none"})
			case "delgroup":
				ws[g].(interface{ DeleteGroup() error }).DeleteGroup()
				ws[g] = wal.NewBadgerWAL(db, groups[g].id)
				refs[g] = &refStore{etcdRaft.NewMemoryStorage()}
				obs[g] = append(obs[g], wObs{Kind: "none"})
				ref[g] = append(ref[g], wObs{Kind: "none"})
			default:
				obs[g] = append(obs[g], doCall(ws[g], c))
				ref[g] = append(ref[g], doCall(refs[g], c))
			}
		}
		for g := range groups {
			addCase(groups[g].id, groups[g].calls, obs[g], ref[g], ci)
		}
	}
	if a.replay != "" {
		var c wCase
		if err := readReplayCase(a.replay, &c); err != nil {
			return err
		}
		runGroups([]groupRun{{uuid.FromStringOrNil(c.Group), c.Calls}}, 0)
	} else {
		for i, cs := range walCorpus() {
			runGroups([]groupRun{{uuidFrom(r), cs}}, i)
		}
		maxCalls := 250
		if a.tier == "thorough" {
			maxCalls = 900
		}
		for len(cases) < a.n {
			ng := 1 + r.intn(3)
			var gs []groupRun
			for g := 0; g < ng; g++ {
				id := uuidFrom(r)
				if g == 0 && r.chance(1, 3) {
					id = uuid.Nil
				}
				gs = append(gs, groupRun{id, genWalCalls(r.fork(), 150+r.intn(maxCalls))})
			}
			runGroups(gs, len(cases))
		}
	}
	seen := map[string]bool{}
	for _, c := range cases {
		st.Evaluations++
		inst, reop := false, false
		for _, x := range c.Calls {
			if (x.K == "save" && x.Snap != nil) || x.K == "csnap" {
				inst = true
			}
			if x.K == "reopen" {
				reop = true
			}
		}
		h := hashOf(c.Calls)
		if inst && reop && !seen[h] {
			seen[h] = true
			st.DistinctNontrivial++
		}
	}
	if len(cases) > 0 {
		st.Samples = append(st.Samples, cases[0])
	}
	prelude := "From Verif Require Import Base.Prelude Wal.Model Wal.Check Generated.Facts.\nOpen Scope N_scope.\n" +
		"Definition fixed_save := match wal_save_snapshot_first with Known b => b | Unrecognised _ => true end.\n" +
		"Definition fixed_del := match wal_delete_group_complete with Known b => b | Unrecognised _ => true end.\n"
	defs := "Definition bad_model := Eval vm_compute in bad_idx (wal_case_model_ok fixed_save fixed_del) cases 0.\n" +
		"Definition bad_model_ref := Eval vm_compute in bad_idx wal_case_ref_ok cases 0.\n" +
		"Definition bad_oracle := Eval vm_compute in bad_idx wal_case_oracle_ok cases 0.\n" +
		"Print bad_model.\nPrint bad_model_ref.\nPrint bad_oracle.\n"
	if err := writeShards(a.out, prelude, "wal_case", items, defs, 6); err != nil {
		return err
	}
	if err := writeJSON(a.out+"/cases.json", cases); err != nil {
		return err
	}
	return writeJSON(a.out+"/stats.json", st)
}

func ptrSnapEq(a, b *wSnap) bool {
	if a == nil || b == nil {
		return a == b
	}
	return a.Index == b.Index && a.Term == b.Term && a.Data == b.Data && fmt.Sprint(a.Conf) == fmt.Sprint(b.Conf)
}
