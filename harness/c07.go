package main

// C07 — search quality: exhaustive / random small insert-only collections must answer exactly (against brute
// force with the same space.Distance), on the implementation and on the model; recall@10 on larger random
// collections is measured and reported (a statistic, not a theorem).

import (
	"context"
	"fmt"
	"math"
	"sort"
	"strings"

	"github.com/marekgalovic/anndb/index"
	"github.com/marekgalovic/anndb/index/space"
	imath "github.com/marekgalovic/anndb/math"
)

func init() { runners["C07"] = runC07 }

type exQuery struct {
	Vec int     `json:"vec"`
	K   int     `json:"k"`
	Obs []hnRes `json:"obs"`
}
type exCase struct {
	Cfg     hnCfg      `json:"cfg"`
	Dim     int        `json:"dim"`
	Vecs    [][]uint32 `json:"vecs"`
	Order   []int      `json:"order"` // insertion order: indices into Vecs (item i has id i)
	Levels  []int      `json:"levels"`
	Queries []exQuery  `json:"queries"`
}

func smallId(i int) string { return fmt.Sprintf("00000000-0000-4000-8000-%012d", i+1) }

func permutations(n int) [][]int {
	if n == 0 {
		return [][]int{{}}
	}
	var out [][]int
	for _, p := range permutations(n - 1) {
		for i := 0; i <= len(p); i++ {
			q := append(append(append([]int{}, p[:i]...), n-1), p[i:]...)
			out = append(out, q)
		}
	}
	return out
}

func runExCase(c *exCase, st *stats, ci int) {
	hc := hnCase{Cfg: c.Cfg, Dim: c.Dim, Vecs: c.Vecs}
	idx := newIndexFor(&hc)
	if why := configMismatch(idx, &hc); why != "" {
		st.ImplFailures = append(st.ImplFailures, implFailure{Case: ci, What: why, Key: "config-not-as-requested", Input: c.Cfg})
	}
	if why := metricMismatch(&hc); why != "" {
		st.ImplFailures = append(st.ImplFailures, implFailure{Case: ci, What: why, Key: "space-computes-another-metric", Input: c.Cfg})
	}
	sp := mkSpace(c.Cfg.Space)
	for pos, i := range c.Order {
		idx.Insert(mustUUID(smallId(i)), f32bitsVec(c.Vecs[i]), nil, c.Levels[pos])
	}
	for qi := range c.Queries {
		q := &c.Queries[qi]
		res, _ := idx.Search(context.Background(), f32bitsVec(c.Vecs[q.Vec]), uint(q.K))
		q.Obs = nil
		for _, it := range res {
			q.Obs = append(q.Obs, hnRes{Id: it.Id.String(), Score: math.Float32bits(it.Score)})
		}
		// Go-side exactness oracle (brute force with the same metric)
		type pair struct {
			id string
			d  float32
		}
		var all []pair
		for _, i := range c.Order {
			all = append(all, pair{smallId(i), sp.Distance(f32bitsVec(c.Vecs[q.Vec]), f32bitsVec(c.Vecs[i]))})
		}
		sort.Slice(all, func(a, b int) bool { return all[a].d < all[b].d })
		want := all
		if len(want) > q.K {
			want = want[:q.K]
		}
		ok := len(want) == len(q.Obs)
		for i := 0; ok && i < len(want); i++ {
			if want[i].id != q.Obs[i].Id || math.Float32bits(want[i].d) != q.Obs[i].Score {
				ok = false
			}
		}
		if !ok {
			st.ImplFailures = append(st.ImplFailures, implFailure{Case: ci, What: fmt.Sprintf("small collection (n=%d, M=%d, ef=%d, efC=%d, k=%d): search is not the exact top-k", len(c.Order), c.Cfg.M, c.Cfg.Ef, c.Cfg.EfC, q.K),
				Key: "small-collection-not-exact", Input: *c})
		}
	}
}

func coqExCase(c *exCase, m [][]uint32) string {
	vecs := make([]string, len(c.Vecs))
	for i, v := range c.Vecs {
		vecs[i] = coqVec(v)
	}
	rows := make([]string, len(m))
	for i, r := range m {
		p := make([]string, len(r))
		for j, x := range r {
			p[j] = fmt.Sprint(x)
		}
		rows[i] = "[" + strings.Join(p, "; ") + "]"
	}
	items := make([]string, len(c.Order))
	for pos, i := range c.Order {
		items[pos] = fmt.Sprintf("(%s, %s, [], %d%%nat)", idN(smallId(i)), coqVec(c.Vecs[i]), c.Levels[pos])
	}
	qs := make([]string, len(c.Queries))
	for i, q := range c.Queries {
		p := make([]string, len(q.Obs))
		for k, r := range q.Obs {
			p[k] = fmt.Sprintf("(%s, %d%%Z)", idN(r.Id), r.Score)
		}
		qs[i] = fmt.Sprintf("(%s, %d%%nat, [%s])", coqVec(c.Vecs[q.Vec]), q.K, strings.Join(p, "; "))
	}
	cf := c.Cfg
	return fmt.Sprintf("{| ec_cfg := {| c_m := %d; c_mmax := %d; c_mmax0 := %d; c_ef := %d; c_efc := %d; c_heur := %s; c_extend := %s; c_keep := %s |}%%nat;\n"+
		"      ec_vecs := [%s]; ec_dist := [%s]%%Z;\n      ec_items := [%s];\n      ec_queries := [%s] |}",
		cf.M, cf.MMax, cf.MMax0, cf.Ef, cf.EfC, b(cf.Heur), b(cf.Extend), b(cf.Keep),
		strings.Join(vecs, "; "), strings.Join(rows, "; "), strings.Join(items, "; "), strings.Join(qs, ";\n         "))
}

func genSmallVecs(r *rng, n, dim int, sp string) [][]uint32 {
	for try := 0; try < 80; try++ {
		var vs [][]uint32
		for i := 0; i < n; i++ {
			v := make([]uint32, dim)
			for k := range v {
				v[k] = f32bits(float32(r.intn(61)-30)/4 + float32(1+r.intn(999))/4096)
			}
			vs = append(vs, v)
		}
		c := hnCase{Cfg: hnCfg{Space: sp}, Vecs: vs}
		if _, distinct, ordered := distMatrix(&c); distinct && ordered {
			return vs
		}
	}
	return nil
}

func measureRecall(r *rng, n, dim, queries int, sp string) float64 {
	s := mkSpace(sp)
	idx := index.NewHnsw(uint(dim), s)
	vecs := make([]imath.Vector, n)
	for i := range vecs {
		v := make(imath.Vector, dim)
		for k := range v {
			v[k] = float32(r.intn(20001)-10000) / 1000
		}
		vecs[i] = v
		idx.Insert(uuidFrom(r), v, nil, idx.RandomLevel())
	}
	_ = space.NewEuclidean
	hit, total := 0, 0
	for qn := 0; qn < queries; qn++ {
		q := make(imath.Vector, dim)
		for k := range q {
			q[k] = float32(r.intn(20001)-10000) / 1000
		}
		ds := make([]float32, n)
		for i := range vecs {
			ds[i] = s.Distance(q, vecs[i])
		}
		sorted := append([]float32(nil), ds...)
		sort.Slice(sorted, func(a, b int) bool { return sorted[a] < sorted[b] })
		thr := sorted[9]
		res, _ := idx.Search(context.Background(), q, 10)
		for _, it := range res {
			if it.Score <= thr {
				hit++
			}
		}
		total += 10
	}
	return float64(hit) / float64(total)
}

func runC07(a *args) error {
	r := newRng(a.seed)
	st := newStats("insert-only collections with n <= 2M+1 items and n <= max(ef, k): every insertion order for n <= 5 (M=2) at random levels, random orders for larger n (M in {1,2,3,16}); ef in {1,3,20}, efConstruction in {1,3,200}, k in {1,2,n,n+3}; three metrics, simple and heuristic selection; row-wise distinct distances; every answer compared with brute force (Go) and with the model, whose beam must cover all live vertices; non-trivial = n >= 3; distinct by hash of (cfg, order, levels); plus recall@10 measured on random collections")
	var cases []exCase
	if a.replay != "" {
		var c exCase
		if err := readReplayCase(a.replay, &c); err != nil {
			return err
		}
		cases = append(cases, c)
	} else {
		spaces := []string{"euclidean", "manhattan", "cosine"}
		mk := func(m int, order []int, nvec int) exCase {
			sp := spaces[r.intn(3)]
			dim := 1 + r.intn(3)
			if sp == "cosine" && dim == 1 {
				dim = 2
			}
			c := exCase{Dim: dim, Order: order}
			c.Cfg = hnCfg{M: m, MMax: m, MMax0: 2 * m, Keep: true, Heur: r.chance(1, 2), Space: sp,
				Ef: []int{1, 3, 20}[r.intn(3)], EfC: []int{1, 3, 200}[r.intn(3)]}
			c.Vecs = genSmallVecs(r, nvec+2, dim, sp)
			for range order {
				c.Levels = append(c.Levels, r.intn(4))
			}
			n := len(order)
			for _, k := range []int{1, 2, n, n + 3} {
				if n <= k || n <= c.Cfg.Ef { // covered by the beam
					c.Queries = append(c.Queries, exQuery{Vec: nvec + r.intn(2), K: k})
				}
			}
			c.Queries = append(c.Queries, exQuery{Vec: r.intn(nvec), K: n})
			return c
		}
		// all insertion orders of 1..5 items with M = 2 (2M+1 = 5)
		for n := 1; n <= 5; n++ {
			for _, p := range permutations(n) {
				if n == 5 && a.tier != "thorough" && r.intn(4) != 0 {
					continue
				}
				cases = append(cases, mk(2, p, n))
			}
		}
		for len(cases) < a.n {
			m := []int{1, 2, 3, 16}[r.intn(4)]
			n := 1 + r.intn(2*m+1)
			if n > 12 {
				n = 3 + r.intn(10)
			}
			order := permutations(0)[0]
			perm := make([]int, n)
			for i := range perm {
				perm[i] = i
			}
			for i := n - 1; i > 0; i-- {
				j := r.intn(i + 1)
				perm[i], perm[j] = perm[j], perm[i]
			}
			order = perm
			cases = append(cases, mk(m, order, n))
		}
	}
	seen := map[string]bool{}
	var items []string
	for ci := range cases {
		c := &cases[ci]
		if c.Vecs == nil {
			continue
		}
		runExCase(c, st, ci)
		hc := hnCase{Cfg: c.Cfg, Vecs: c.Vecs}
		m, _, _ := distMatrix(&hc)
		items = append(items, coqExCase(c, m))
		st.Evaluations++
		st.count(fmt.Sprintf("n:%d", len(c.Order)))
		st.count(fmt.Sprintf("efC:%d", c.Cfg.EfC))
		st.count("space:" + c.Cfg.Space)
		h := hashOf([]interface{}{c.Cfg, c.Order, c.Levels})
		if len(c.Order) >= 3 && !seen[h] {
			seen[h] = true
			st.DistinctNontrivial++
		}
	}
	if a.replay == "" {
		// recall floor: measured (statistical clause of the property; reported, not proved)
		sizes := [][2]int{{1500, 8}, {3000, 32}, {2000, 64}}
		if a.tier == "thorough" {
			sizes = [][2]int{{3000, 8}, {3000, 32}, {5000, 64}, {2000, 16}}
		}
		var recalls []float64
		for _, s := range sizes {
			rc := measureRecall(r.fork(), s[0], s[1], 50, "euclidean")
			recalls = append(recalls, rc)
			if rc < 0.8 {
				st.ImplFailures = append(st.ImplFailures, implFailure{Case: -1, What: fmt.Sprintf("mean recall@10 = %.3f < 0.8 on %d random %d-dimensional vectors (default parameters)", rc, s[0], s[1]),
					Key: fmt.Sprintf("recall-below-floor:dim%d", s[1]), Input: map[string]interface{}{"n": s[0], "dim": s[1], "seed": a.seed}})
			}
		}
		st.Extra["recall_at_10_measured"] = recalls
		st.Extra["recall_note"] = "statistical clause: measured on random collections with default parameters, not a theorem"
	}
	if len(cases) > 0 {
		st.Samples = append(st.Samples, cases[len(cases)-1])
	}
	prelude := "From Verif Require Import Base.Prelude Store.Spec Store.Partition Store.Check Hnsw.Model Hnsw.Check.\nOpen Scope N_scope.\n"
	defs := "Definition bad_model := Eval vm_compute in bad_idx ex_case_model_ok cases 0.\n" +
		"Definition bad_oracle := Eval vm_compute in bad_idx ex_case_oracle_ok cases 0.\nPrint bad_model.\nPrint bad_oracle.\n"
	if err := writeShards(a.out, prelude, "ex_case", items, defs, 40); err != nil {
		return err
	}
	if err := writeJSON(a.out+"/cases.json", cases); err != nil {
		return err
	}
	return writeJSON(a.out+"/stats.json", st)
}
