package main

// C08 — snapshot codec: states built on the real index by insert/remove histories; Save's bytes are decoded by the
// Coq model (as one chunk, fragmented, byte by byte) and must equal the dumped state and re-encode to the same
// bytes; the real Load is run on the same bytes through three readers into fresh and used indexes.

import (
	"bytes"
	"fmt"
	"io"
	"sort"
	"strings"
	"testing/iotest"

	"github.com/marekgalovic/anndb/index"
	"github.com/marekgalovic/anndb/index/space"
	pb "github.com/marekgalovic/anndb/protobuf"
	"github.com/marekgalovic/anndb/utils"

	uuid "github.com/satori/go.uuid"
)

func init() { runners["C08"] = runC08 }

type cdOp struct {
	Op    string            `json:"op"` // insert remove
	Id    string            `json:"id"`
	Vec   []uint32          `json:"vec,omitempty"`
	Meta  map[string]string `json:"meta,omitempty"`
	Level int               `json:"level,omitempty"`
}

type cdCase struct {
	Dim    int    `json:"dim"`
	M      int    `json:"m"`
	Ops    []cdOp `json:"ops"`
	Chunks []int  `json:"chunks"`
	Bytes  []byte `json:"bytes"`
	Len    int    `json:"len"`
	Note   string `json:"note,omitempty"`
}

type randChunkReader struct {
	r     io.Reader
	sizes []int
	i     int
}

func (c *randChunkReader) Read(p []byte) (int, error) {
	n := len(p)
	if c.i < len(c.sizes) && c.sizes[c.i] < n {
		n = c.sizes[c.i]
	}
	c.i++
	if n == 0 && len(p) > 0 {
		n = 1
	}
	return c.r.Read(p[:n])
}

var longMetaKeys = []string{"a", "k1", "\xff\xfe\x00", "", strings.Repeat("K", 255), "ключ"}
var longMetaVals = []string{"", "x", "\x00\x01\xff", strings.Repeat("v", 300), "värde", strings.Repeat("w", 1000)}

func genCodecMeta(r *rng) map[string]string {
	switch r.intn(6) {
	case 0, 1:
		return nil
	case 2:
		m := map[string]string{}
		for i := 0; i < 20+r.intn(20); i++ {
			m[fmt.Sprintf("key-%d", i)] = fmt.Sprintf("%d", r.intn(1000))
		}
		return m
	}
	m := map[string]string{}
	for i := 0; i < 1+r.intn(3); i++ {
		m[longMetaKeys[r.intn(len(longMetaKeys))]] = longMetaVals[r.intn(len(longMetaVals))]
	}
	// shapes at and beyond what the format can carry: the write paths' gate (Metadata.Validate) decides whether such an
	// item can be stored at all; whatever it lets through has to survive Save + Load
	switch x := r.intn(40); {
	case x < 5:
		m[strings.Repeat("k", 256+r.intn(80))] = "short value"
	case x < 10:
		m["short key"] = strings.Repeat("v", 65536+r.intn(5000))
	case x == 10:
		m[strings.Repeat("K", 255)] = strings.Repeat("V", 65535)
	}
	return m
}

func genCodecOps(r *rng, dim int) []cdOp {
	nids := 1 + r.intn(10)
	ids := make([]string, nids)
	for i := range ids {
		ids[i] = uuidFrom(r).String()
	}
	n := r.intn(30)
	var ops []cdOp
	for i := 0; i < n; i++ {
		id := ids[r.intn(nids)]
		if r.chance(2, 3) {
			ops = append(ops, cdOp{Op: "insert", Id: id, Vec: genVec(r, dim), Meta: genCodecMeta(r), Level: r.intn(4)})
		} else {
			ops = append(ops, cdOp{Op: "remove", Id: id})
		}
	}
	if r.chance(1, 6) { // end empty: remove everything
		for _, id := range ids {
			ops = append(ops, cdOp{Op: "remove", Id: id})
		}
	}
	return ops
}

func buildIndex(dim, m int, ops []cdOp) *index.Hnsw {
	idx := index.NewHnsw(uint(dim), space.NewEuclidean(), index.HnswM(m), index.HnswEf(50), index.HnswEfConstruction(50))
	for _, o := range ops {
		switch o.Op {
		case "insert":
			var md index.Metadata
			if o.Meta != nil {
				md = index.Metadata{}
				for k, v := range o.Meta {
					md[k] = v
				}
			}
			if md.Validate() != nil {
				continue // refused by every write path: not a reachable state
			}
			idx.Insert(mustUUID(o.Id), f32bitsVec(o.Vec), md, o.Level)
		case "remove":
			idx.Remove(mustUUID(o.Id))
		}
	}
	return idx
}

// liveView: the part of a dump the property speaks about, keyed by id
type liveVertex struct {
	Level int
	Vec   []uint32
	Meta  map[string]string
	Edges [][]string // per level, "id:distbits" of live neighbours, sorted
}

func liveViewOf(d index.VerifIndexDump) (map[string]liveVertex, string) {
	out := map[string]liveVertex{}
	for _, v := range d.Vertices {
		if !v.InMap {
			continue
		}
		lv := liveVertex{Level: v.Level, Vec: v.Vector, Meta: v.Metadata}
		for _, es := range v.Edges {
			var l []string
			for _, e := range es {
				if !e.Deleted {
					l = append(l, fmt.Sprintf("%s:%d", e.ToId, e.DistBits))
				}
			}
			sort.Strings(l)
			lv.Edges = append(lv.Edges, l)
		}
		out[v.Id.String()] = lv
	}
	entry := ""
	if d.Entry >= 0 {
		entry = d.EntryId.String()
	}
	return out, entry
}

func dataBytesOf(d index.VerifIndexDump) uint64 {
	var s uint64
	for _, v := range d.Vertices {
		if v.InMap {
			s += 16 + 4*uint64(len(v.Vector))
			for k, x := range v.Metadata {
				s += uint64(len(k) + len(x))
			}
		}
	}
	return s
}

func uuidN(u uuid.UUID) string { return idN(u.String()) }

func coqSnapOf(d index.VerifIndexDump) string {
	if d.Len == 0 {
		return "None"
	}
	shards := make([][]string, 16)
	eshards := make([][]string, 16)
	for _, v := range d.Vertices {
		if !v.InMap {
			continue
		}
		sh := utils.UuidMod(v.Id, 16)
		shards[sh] = append(shards[sh], fmt.Sprintf("{| r_id := %s; r_level := %d%%nat; r_vec := %s; r_meta := %s |}", uuidN(v.Id), v.Level, coqVec(v.Vector), coqMeta(v.Metadata)))
		var lvls []string
		for l := v.Level; l >= 0; l-- {
			var es []string
			for _, e := range v.Edges[l] {
				if !e.Deleted {
					es = append(es, fmt.Sprintf("(%s, %d)", uuidN(e.ToId), e.DistBits))
				}
			}
			lvls = append(lvls, "["+strings.Join(es, "; ")+"]")
		}
		eshards[sh] = append(eshards[sh], fmt.Sprintf("(%s, [%s])", uuidN(v.Id), strings.Join(lvls, "; ")))
	}
	a := make([]string, 16)
	b := make([]string, 16)
	for i := 0; i < 16; i++ {
		a[i] = "[" + strings.Join(shards[i], "; ") + "]"
		b[i] = "[" + strings.Join(eshards[i], "; ") + "]"
	}
	return fmt.Sprintf("Some {| sn_entry := %s;\n        sn_shards := [%s];\n        sn_eshards := [%s] |}", uuidN(d.EntryId), strings.Join(a, ";\n          "), strings.Join(b, ";\n          "))
}

func runC08(a *args) error {
	r := newRng(a.seed)
	st := newStats("index states built by 0..30 inserts/removes over 1..10 ids (levels 0..3, M in {1,2,3,16}, dims 1..4), ending empty in 1/6; metadata absent / 20-40 keys / keys and values incl. empty, 255-byte keys, 300- and 1000-byte values, non-UTF-8, plus shapes at and beyond the format's bounds that are stored only if Metadata.Validate accepts them; each state saved without header; model decodes under 3 fragmentations and re-encodes; real Load through bytes.Buffer, one-byte reader and a random chunker into fresh and used indexes, and through partition.processSnapshot into a partition holding 3 other items; non-trivial = >= 2 live items and >= 1 link or a removal; distinct by hash of the ops")
	var cases []cdCase
	if a.replay != "" {
		var c cdCase
		if err := readReplayCase(a.replay, &c); err != nil {
			return err
		}
		cases = append(cases, c)
	} else {
		one := uuidFrom(r).String()
		cases = append(cases,
			cdCase{Dim: 2, M: 2, Ops: nil, Note: "empty index"},
			cdCase{Dim: 2, M: 2, Ops: []cdOp{{Op: "insert", Id: one, Vec: []uint32{1, 2}}, {Op: "remove", Id: one}}, Note: "emptied index"},
			cdCase{Dim: 1, M: 1, Ops: []cdOp{{Op: "insert", Id: one, Vec: []uint32{7}, Meta: map[string]string{strings.Repeat("K", 255): strings.Repeat("v", 5000)}}}, Note: "maximal key, long value"})
		for len(cases) < a.n {
			dim := 1 + r.intn(4)
			cases = append(cases, cdCase{Dim: dim, M: []int{1, 2, 3, 16}[r.intn(4)], Ops: genCodecOps(r.fork(), dim)})
		}
	}
	seen := map[string]bool{}
	var items []string
	if a.isolate {
		for ci := range cases {
			cs, crashed, tail := runIsolated("C08", cases[ci], a, ci)
			st.Evaluations++
			if crashed {
				st.ImplFailures = append(st.ImplFailures, implFailure{Case: ci, What: "Load of the index's own output killed the process: " + tail, Key: "load-process-crash", Input: cases[ci]})
			} else {
				st.ImplFailures = append(st.ImplFailures, cs.ImplFailures...)
			}
		}
		st.DistinctNontrivial = 2
		st.Samples = append(st.Samples, "isolated re-run after an in-process crash")
		writeJSON(a.out+"/cases.json", cases)
		return writeJSON(a.out+"/stats.json", st)
	}
	for ci := range cases {
		c := &cases[ci]
		idx := buildIndex(c.Dim, c.M, c.Ops)
		d := idx.VerifDump()
		var buf bytes.Buffer
		if err := idx.Save(&buf, false); err != nil {
			st.ImplFailures = append(st.ImplFailures, implFailure{Case: ci, What: "Save failed: " + err.Error(), Key: "save-error", Input: *c})
			continue
		}
		c.Bytes = append([]byte(nil), buf.Bytes()...)
		c.Len = d.Len
		c.Chunks = nil
		for k := 0; k < 40; k++ {
			c.Chunks = append(c.Chunks, r.intn(9))
		}
		want, wantEntry := liveViewOf(d)
		wantBytes := dataBytesOf(d)
		// real Load through three readers, into a fresh and into a used index
		// something follows the snapshot in the stream (a trailer, the next frame): Load must consume exactly its own bytes
		var trailer []byte
		if len(c.Bytes) > 0 {
			for k := 0; k < 1+r.intn(40); k++ {
				trailer = append(trailer, byte(r.intn(256)))
			}
		}
		stream := append(append([]byte(nil), c.Bytes...), trailer...)
		for ri, mk := range []func() io.Reader{
			func() io.Reader { return bytes.NewBuffer(append([]byte(nil), stream...)) },
			func() io.Reader { return iotest.OneByteReader(bytes.NewReader(stream)) },
			func() io.Reader { return &randChunkReader{r: bytes.NewReader(stream), sizes: c.Chunks} },
		} {
			for _, used := range []bool{false, true} {
				var target *index.Hnsw
				if used {
					target = buildIndex(c.Dim, c.M, []cdOp{{Op: "insert", Id: uuidFrom(r).String(), Vec: genVec(r, c.Dim), Meta: map[string]string{"stale": "yes"}},
						{Op: "insert", Id: uuidFrom(r).String(), Vec: genVec(r, c.Dim)}})
				} else {
					target = buildIndex(c.Dim, c.M, nil)
				}
				rd := mk()
				var lerr error
				panicked, msg := recoverPanic(func() { lerr = target.Load(rd, false) })
				what := ""
				if panicked {
					what = "Load panicked: " + msg
				} else if lerr != nil {
					what = "Load of the index's own output failed: " + lerr.Error()
				} else {
					d2 := target.VerifDump()
					got, gotEntry := liveViewOf(d2)
					rest, _ := io.ReadAll(rd)
					switch {
					case fmt.Sprint(got) != fmt.Sprint(want):
						what = "loaded items/levels/links differ from the saved state"
					case gotEntry != wantEntry:
						what = fmt.Sprintf("entry point %s after load, %s before save", gotEntry, wantEntry)
					case d2.Len != d.Len:
						what = fmt.Sprintf("Len %d after load, %d before", d2.Len, d.Len)
					case d2.BytesSize != wantBytes:
						what = fmt.Sprintf("data-bytes counter %d after load, live data is %d", d2.BytesSize, wantBytes)
					case !bytes.Equal(rest, trailer):
						what = fmt.Sprintf("Load consumed %d bytes of a %d-byte snapshot: %d of the %d bytes that follow it are left in the reader", len(stream)-len(rest), len(c.Bytes), len(rest), len(trailer))
					}
				}
				st.count(fmt.Sprintf("load:reader%d:used=%v", ri, used))
				if what != "" {
					st.ImplFailures = append(st.ImplFailures, implFailure{Case: ci, What: fmt.Sprintf("%s (reader %d, used=%v)", what, ri, used),
						Key: fmt.Sprintf("load-roundtrip:reader%d", ri), Input: *c})
				}
			}
		}
		// the same bytes arriving as a raft snapshot at a replica that already holds items (partition.processSnapshot)
		{
			dst := newSoloPartition(r, c.Dim, pb.Space_Euclidean)
			for k := 0; k < 3; k++ {
				dst.ds.VerifIndex(0).Insert(uuidFrom(r), f32bitsVec(genVec(r, c.Dim)), index.Metadata{"stale": "yes"}, k%2)
			}
			var rerr error
			panicked, msg := recoverPanic(func() { rerr = dst.ds.VerifRestore(0, append([]byte(nil), c.Bytes...)) })
			what := ""
			if panicked || rerr != nil {
				what = fmt.Sprintf("restoring the partition from the index's own output failed: %v %s", rerr, msg)
			} else {
				d2 := dst.ds.VerifIndex(0).VerifDump()
				got, gotEntry := liveViewOf(d2)
				switch {
				case fmt.Sprint(got) != fmt.Sprint(want):
					what = fmt.Sprintf("partition restore: %d items held afterwards, the snapshot has %d (stale or missing items/levels/links)", len(got), len(want))
				case gotEntry != wantEntry:
					what = fmt.Sprintf("partition restore: entry point %s, %s before save", gotEntry, wantEntry)
				case d2.Len != d.Len || d2.BytesSize != wantBytes:
					what = fmt.Sprintf("partition restore: counters Len=%d bytes=%d, saved state has Len=%d bytes=%d", d2.Len, d2.BytesSize, d.Len, wantBytes)
				}
			}
			// the partition's own snapshots: a snapshot is a value - the log store caches it and messages to lagging
			// followers carry it - so taking a later one (after further changes) leaves the bytes of an earlier one alone,
			// and those bytes still restore the state they were taken of
			if what == "" {
				s1, e1 := dst.ds.VerifSnapshot(0)
				keep := append([]byte(nil), s1...)
				dst.ds.VerifIndex(0).Insert(uuidFrom(r), f32bitsVec(genVec(r, c.Dim)), index.Metadata{"later": "1"}, 0)
				if len(got0(dst)) > 1 {
					dst.ds.VerifIndex(0).Remove(got0(dst)[0])
				}
				_, e2 := dst.ds.VerifSnapshot(0)
				if e1 == nil && e2 == nil && !bytes.Equal(s1, keep) {
					what = fmt.Sprintf("the %d bytes of a partition snapshot changed when the partition took its next snapshot", len(keep))
				}
			}
			dst.close()
			st.count("load:partition-restore:used=true")
			if what != "" {
				st.ImplFailures = append(st.ImplFailures, implFailure{Case: ci, What: what, Key: "load-roundtrip:partition", Input: *c})
			}
		}
		st.Evaluations++
		links, removes := 0, 0
		for _, v := range d.Vertices {
			for _, es := range v.Edges {
				links += len(es)
			}
		}
		for _, o := range c.Ops {
			if o.Op == "remove" {
				removes++
			}
		}
		st.count(fmt.Sprintf("live:%d", d.Len))
		if d.Len == 0 {
			st.count("empty-state")
		}
		h := hashOf(c.Ops)
		if d.Len >= 2 && (links > 0 || removes > 0) && !seen[h] {
			seen[h] = true
			st.DistinctNontrivial++
		}
		items = append(items, fmt.Sprintf("{| cc_dim := %d%%nat; cc_bytes := %s;\n      cc_chunks := (%s)%%nat;\n      cc_expect := %s |}", c.Dim, bytesList(c.Bytes), natList(c.Chunks), coqSnapOf(d)))
	}
	for i := 0; i < len(cases) && i < 4; i++ {
		if len(cases[i].Bytes) < 400 {
			st.Samples = append(st.Samples, cases[i])
		}
	}
	prelude := "From Verif Require Import Base.Prelude Store.Spec Codec.Model Codec.Check.\nOpen Scope N_scope.\n"
	defs := "Definition bad_model := Eval vm_compute in bad_idx codec_case_model_ok cases 0.\nPrint bad_model.\n"
	if err := writeShards(a.out, prelude, "codec_case", items, defs, 12); err != nil {
		return err
	}
	if err := writeJSON(a.out+"/cases.json", cases); err != nil {
		return err
	}
	return writeJSON(a.out+"/stats.json", st)
}

// got0: ids of the items a solo partition holds
func got0(p *soloPartition) []uuid.UUID {
	var out []uuid.UUID
	for _, v := range p.ds.VerifIndex(0).VerifDump().Vertices {
		if v.InMap {
			out = append(out, v.Id)
		}
	}
	return out
}
