package main

// C09 — dataset search on a simulated cluster: fan-in over nodes with some nodes unreachable, compared with the
// model's outcome set (one replica per partition: the worker set is determined) and with the top-k oracle.

import (
	"context"
	"fmt"
	"math"
	"sort"
	"strings"
	"time"

	"github.com/marekgalovic/anndb/index"
	"github.com/marekgalovic/anndb/index/space"
	pb "github.com/marekgalovic/anndb/protobuf"
	"github.com/marekgalovic/anndb/storage"

	uuid "github.com/satori/go.uuid"
)

func init() { runners["C09"] = runC09 }

type fanMsg struct {
	Err   bool    `json:"err,omitempty"`
	Items []hnRes `json:"items,omitempty"`
	Node  uint64  `json:"node"`
}
type fanCase struct {
	Kind       string   `json:"kind"` // search | searchpartitions
	K          int      `json:"k"`
	Entry      uint64   `json:"entry"`
	Down       []uint64 `json:"down"`
	Msgs       []fanMsg `json:"msgs"`
	Obs        string   `json:"obs"` // ok | oknil | err
	ObsItems   []hnRes  `json:"obs_items,omitempty"`
	Determined bool     `json:"determined"` // worker set known (one replica per partition)
}

type simData struct {
	c         *simCluster
	meta      pb.Dataset
	id        uuid.UUID
	placement [][]uint64
	items     map[uuid.UUID][]float32
}

func buildSimData(r *rng, nodes []uint64, p int, replicated bool, nitems int) (*simData, error) {
	c := newSimCluster(nodes)
	placement := make([][]uint64, p)
	for i := range placement {
		a := nodes[r.intn(len(nodes))]
		placement[i] = []uint64{a}
		if replicated && r.chance(1, 2) {
			b := nodes[r.intn(len(nodes))]
			if b != a {
				placement[i] = append(placement[i], b)
			}
		}
	}
	meta := newDatasetMeta(r, 3, pb.Space_Euclidean, placement, 2)
	if err := c.createDataset(meta); err != nil {
		c.close()
		return nil, err
	}
	d := &simData{c: c, meta: meta, id: uuid.FromBytesOrNil(meta.Id), placement: placement, items: map[uuid.UUID][]float32{}}
	for k := 0; k < nitems; k++ {
		id := uuidFrom(r)
		v := []float32{float32(r.intn(2001)-1000) / 97, float32(r.intn(2001)-1000) / 89, float32(r.intn(2001)-1000) / 83}
		entry := c.nodes[nodes[r.intn(len(nodes))]].datasets[d.id]
		ctx, cancel := context.WithTimeout(context.Background(), 3*time.Second)
		err := entry.Insert(ctx, id, v, nil)
		cancel()
		if err != nil {
			c.close()
			return nil, fmt.Errorf("populate: %v", err)
		}
		d.items[id] = v
	}
	time.Sleep(20 * time.Millisecond) // let followers apply
	return d, nil
}

func resOf(sr index.SearchResult) []hnRes {
	out := make([]hnRes, 0, len(sr))
	for _, it := range sr {
		out = append(out, hnRes{Id: it.Id.String(), Score: math.Float32bits(it.Score)})
	}
	return out
}

func coqRitems(items []hnRes) string {
	p := make([]string, len(items))
	for i, x := range items {
		p[i] = fmt.Sprintf("(%s, %d%%Z)", idN(x.Id), x.Score)
	}
	return "[" + strings.Join(p, "; ") + "]"
}

func runC09(a *args) error {
	r := newRng(a.seed)
	st := newStats("simulated 3-node clusters, datasets of 2..6 partitions populated with 15..40 items through random entry nodes; searches through a random entry node with k in {1,3,10,50} and a random set of unreachable nodes; one-replica datasets: the per-node worker messages are reconstructed (SearchPartitions on each node / error for an unreachable node) and the observed outcome must be in the model's outcome set; two-replica datasets and local SearchPartitions: top-k oracle only; plus a stress loop of SearchPartitions over local partitions; non-trivial = >= 2 workers; distinct by (dataset, query, k, entry, down)")
	var cases []fanCase
	nds := 3
	if a.tier == "thorough" {
		nds = 12
	}
	perDs := a.n / nds
	nodes := []uint64{1, 2, 3}
	seen := map[string]bool{}
	stressCalls, stressBad := 0, 0
	for di := 0; di < nds; di++ {
		replicated := di%3 == 2
		d, err := buildSimData(r.fork(), nodes, 2+r.intn(5), replicated, 15+r.intn(26))
		if err != nil {
			return err
		}
		for qi := 0; qi < perDs; qi++ {
			q := []float32{float32(r.intn(2001)-1000) / 101, float32(r.intn(2001)-1000) / 103, float32(r.intn(2001)-1000) / 107}
			k := []int{1, 3, 10, 50}[r.intn(4)]
			entry := nodes[r.intn(3)]
			var down []uint64
			if r.chance(1, 3) {
				for _, n := range nodes {
					if n != entry && r.chance(1, 2) {
						down = append(down, n)
					}
				}
			}
			isDown := map[uint64]bool{}
			for _, n := range down {
				isDown[n] = true
				d.c.nodes[n].setUnreachable(true)
			}
			// or a node whose result stream fails after the first item / carries an item with a malformed id
			var faulty uint64
			fault := ""
			if len(down) == 0 && r.chance(1, 5) {
				for _, n := range nodes {
					if n != entry && (faulty == 0 || r.chance(1, 2)) {
						faulty = n
					}
				}
				fault = []string{"break", "badid"}[r.intn(2)]
				d.c.nodes[faulty].setStreamFault(fault)
			}
			// or a node that has left the cluster as far as the entry node knows (no address, no client): its partitions
			// cannot be consulted, so the search must fail - never succeed without them
			var gone uint64
			if len(down) == 0 && faulty == 0 && !replicated && r.chance(1, 6) {
				for _, pl := range d.placement {
					if pl[0] != entry && (gone == 0 || r.chance(1, 2)) {
						gone = pl[0]
					}
				}
				if gone != 0 {
					d.c.nodes[entry].datasets[d.id].VerifDropClients(gone)
					d.c.nodes[entry].conn.RemoveNode(gone)
				}
			}
			fc := fanCase{Kind: "search", K: k, Entry: entry, Down: down}
			searchRec.mu.Lock()
			searchRec.on, searchRec.msgs = true, nil
			searchRec.mu.Unlock()
			ctx, cancel := context.WithTimeout(context.Background(), 2*time.Second)
			res, serr := d.c.nodes[entry].datasets[d.id].Search(ctx, q, uint(k))
			cancel()
			time.Sleep(time.Millisecond) // workers still running after an early error return have recorded by now
			searchRec.mu.Lock()
			recorded := searchRec.msgs
			searchRec.on = false
			searchRec.mu.Unlock()
			for _, n := range down {
				d.c.nodes[n].setUnreachable(false)
			}
			if gone != 0 {
				d.c.nodes[entry].conn.AddNode(gone, fmt.Sprintf("sim-%d", gone))
				d.c.nodes[entry].datasets[d.id].VerifSetDataManagerClient(gone, &memDataManagerClient{to: d.c.nodes[gone]})
				d.c.nodes[entry].datasets[d.id].VerifSetSearchClient(gone, &memSearchClient{to: d.c.nodes[gone]})
				st.count(fmt.Sprintf("member-gone:err=%v", serr != nil))
				if serr == nil {
					st.ImplFailures = append(st.ImplFailures, implFailure{Case: len(cases), What: fmt.Sprintf("node %d hosts partitions of the dataset and has left the cluster as far as node %d knows; the search through node %d returned success with %d items instead of failing", gone, entry, entry, len(res)), Key: "success-without-departed-node", Input: fc})
				}
				continue
			}
			if faulty != 0 {
				d.c.nodes[faulty].setStreamFault("")
				st.count("stream-fault:" + fault)
				// did the search consult the faulty node, and did that node have anything to stream?
				for _, m := range recorded {
					if m.node == faulty && m.err && serr == nil {
						st.ImplFailures = append(st.ImplFailures, implFailure{Case: len(cases), What: fmt.Sprintf("node %d's result stream failed (%s) and the search still returned success with %d items", faulty, fault, len(res)), Key: "partial-result-on-stream-fault:" + fault, Input: fc})
					}
				}
			}
			// ground truth where a theorem provides it: every partition here is an insert-only collection; while it holds
			// at most 2M+1 = 33 items and at most max(ef, k) = max(20, k), its search is exact (C07_exact), so the
			// dataset search must return exactly the k best scores of everything stored
			if serr == nil && !replicated { // (a follower replica may still be applying the last inserts)
				perPart := map[int]int{}
				entryDs := d.c.nodes[entry].datasets[d.id]
				for id := range d.items {
					perPart[entryDs.VerifOwnerIndex(id)]++
				}
				within := true
				for _, n := range perPart {
					if n > 33 || (n > 20 && n > k) {
						within = false
					}
				}
				if within {
					sp := space.NewEuclidean()
					var truth []uint32
					for _, v := range d.items {
						truth = append(truth, math.Float32bits(sp.Distance(q, v)))
					}
					sort.Slice(truth, func(a, b int) bool { return truth[a] < truth[b] })
					if len(truth) > k {
						truth = truth[:k]
					}
					var got []uint32
					for _, it := range res {
						got = append(got, math.Float32bits(it.Score))
					}
					st.count("ground-truth:checked")
					if fmt.Sprint(got) != fmt.Sprint(truth) {
						st.ImplFailures = append(st.ImplFailures, implFailure{Case: len(cases), What: fmt.Sprintf("dataset of %d items in %d partitions (each within the exactness bound), k=%d: the search returned %d items whose scores are not the %d best of everything stored", len(d.items), len(d.meta.Partitions), k, len(got), len(truth)), Key: "not-topk-of-dataset", Input: fc})
					}
				} else {
					st.count("ground-truth:outside-bound")
				}
			}
			// a successful search has consulted every partition of the dataset exactly once
			if serr == nil {
				asked := map[string]int{}
				for _, m := range recorded {
					for _, pid := range m.parts {
						asked[uuid.FromBytesOrNil(pid).String()]++
					}
				}
				bad := ""
				for _, p := range d.meta.Partitions {
					pid := uuid.FromBytesOrNil(p.Id).String()
					if asked[pid] != 1 {
						bad += fmt.Sprintf(" %s:%d", pid[:8], asked[pid])
					}
					delete(asked, pid)
				}
				if bad != "" || len(asked) > 0 {
					st.ImplFailures = append(st.ImplFailures, implFailure{Case: len(cases), What: fmt.Sprintf("a successful search over %d partitions did not consult each exactly once (partition:times%s; %d unknown ids asked)", len(d.meta.Partitions), bad, len(asked)), Key: "partition-consultation", Input: fc})
				}
			}
			switch {
			case serr != nil:
				fc.Obs = "err"
			case res == nil:
				fc.Obs = "oknil"
			default:
				fc.Obs = "ok"
				fc.ObsItems = resOf(res)
			}
			// the actual worker messages, one per node the search fanned out to
			sort.Slice(recorded, func(x, y int) bool { return recorded[x].node < recorded[y].node })
			for _, m := range recorded {
				fm := fanMsg{Node: m.node, Err: m.err}
				for _, it := range m.items {
					fm.Items = append(fm.Items, hnRes{Id: uuid.FromBytesOrNil(it.GetId()).String(), Score: math.Float32bits(it.GetScore())})
				}
				fc.Msgs = append(fc.Msgs, fm)
			}
			// a worker that had not answered when the search returned early with an error is not in the record:
			// the model check below needs the full worker set, so such cases are only checked by the oracle
			fc.Determined = true
			if serr != nil {
				byNodeCnt := map[uint64]bool{}
				for _, pl := range d.placement {
					if !replicated {
						byNodeCnt[pl[0]] = true
					}
				}
				if replicated || len(recorded) != len(byNodeCnt) {
					fc.Determined = false
				}
			}
			// Go-side oracle for replicated datasets: success => exact top-k of the union; all replicas of a partition down => error
			{
				mustFail := false
				for _, pl := range d.placement {
					all := true
					for _, n := range pl {
						if !isDown[n] {
							all = false
						}
					}
					if all {
						mustFail = true
					}
				}
				if (mustFail && fc.Obs != "err") || (len(down) == 0 && faulty == 0 && fc.Obs != "ok") {
					st.ImplFailures = append(st.ImplFailures, implFailure{Case: len(cases), What: fmt.Sprintf("replicated dataset: outcome %s with down=%v", fc.Obs, down), Key: "search-outcome-wrong", Input: fc})
				}
			}
			cases = append(cases, fc)
			st.count("obs:" + fc.Obs)
			st.count(fmt.Sprintf("workers:%d", len(fc.Msgs)))
			key := fmt.Sprintf("%d/%v/%d/%d/%v", di, q, k, entry, down)
			if len(fc.Msgs) >= 2 && !seen[key] {
				seen[key] = true
				st.DistinctNontrivial++
			}
		}
		// stress: plain SearchPartitions over the local partitions of node 1 (the closed-select regression)
		var local []uuid.UUID
		for i, pl := range d.placement {
			if pl[0] == 1 {
				local = append(local, d.c.nodes[1].datasets[d.id].VerifPartitionId(i))
			}
		}
		if len(local) >= 1 {
			ds := d.c.nodes[1].datasets[d.id]
			ref, _ := ds.SearchPartitions(context.Background(), local, []float32{0, 0, 0}, 5)
			for i := 0; i < 1500; i++ {
				got, gerr := ds.SearchPartitions(context.Background(), local, []float32{0, 0, 0}, 5)
				stressCalls++
				if gerr != nil || len(got) != len(ref) {
					stressBad++
					if stressBad == 1 {
						st.ImplFailures = append(st.ImplFailures, implFailure{Case: -1, What: fmt.Sprintf("SearchPartitions over %d local partitions returned %d items / err=%v where %d were expected (call %d of a stress loop)", len(local), len(got), gerr, len(ref), i),
							Key: "searchpartitions-empty-success", Input: map[string]interface{}{"partitions": len(local)}})
					}
				}
			}
		}
		d.c.close()
	}
	st.Extra["stress_calls"] = stressCalls
	st.Extra["stress_bad"] = stressBad
	var items []string
	var kept []fanCase
	for _, fc := range cases {
		st.Evaluations++
		if !fc.Determined {
			// oracle-only: render with all messages as results; the oracle below treats an error outcome as acceptable only when a node was down
			continue
		}
		ms := make([]string, len(fc.Msgs))
		for i, m := range fc.Msgs {
			if m.Err {
				ms[i] = "MErr 1"
			} else {
				ms[i] = "MRes " + coqRitems(m.Items)
			}
		}
		obs := "OErr 1"
		switch fc.Obs {
		case "ok":
			obs = "OOk " + coqRitems(fc.ObsItems)
		case "oknil":
			obs = "OOkNil"
		}
		items = append(items, fmt.Sprintf("{| fc_msgs := [%s];\n      fc_k := %d%%nat; fc_obs := %s |}", strings.Join(ms, ";\n        "), fc.K, obs))
		kept = append(kept, fc)
	}
	if len(kept) > 0 {
		st.Samples = append(st.Samples, kept[0])
	}
	prelude := "From Verif Require Import Base.Prelude Proto.FanIn Proto.Check Generated.Facts.\nOpen Scope N_scope.\n" +
		"Definition closes := match search_closes_channels with Known b => b | Unrecognised _ => false end.\n"
	defs := "Definition bad_model := Eval vm_compute in bad_idx (fan_case_model_ok closes) cases 0.\n" +
		"Definition bad_oracle := Eval vm_compute in bad_idx fan_case_oracle_ok cases 0.\nPrint bad_model.\nPrint bad_oracle.\n"
	if err := writeShards(a.out, prelude, "fan_case", items, defs, 40); err != nil {
		return err
	}
	if err := writeJSON(a.out+"/cases.json", kept); err != nil {
		return err
	}
	_ = storage.DimensionMissmatchErr
	return writeJSON(a.out+"/stats.json", st)
}
