package main

// C10 — routing: utils.UuidMod against the model on generated (id, m) pairs, and "which partition holds the id"
// after writes through every API path and every entry node of a simulated cluster.

import (
	"context"
	"encoding/binary"
	"fmt"
	"strings"
	"time"

	"github.com/marekgalovic/anndb/cluster"
	pb "github.com/marekgalovic/anndb/protobuf"
	"github.com/marekgalovic/anndb/services"
	"github.com/marekgalovic/anndb/storage"
	"github.com/marekgalovic/anndb/storage/raft"
	"github.com/marekgalovic/anndb/utils"

	uuid "github.com/satori/go.uuid"
)

func init() { runners["C10"] = runC10 }

type routeCase struct {
	Id   []byte  `json:"id"`
	M    uint64  `json:"m"`
	Obs  *uint64 `json:"obs"` // nil = panic
	Kind string  `json:"kind"`
	Path string  `json:"path,omitempty"`
}

func bytesList(b []byte) string {
	// long literals overflow Coq's parser: emit pieces of 400 joined with ++
	if len(b) > 400 {
		var parts []string
		for i := 0; i < len(b); i += 400 {
			j := i + 400
			if j > len(b) {
				j = len(b)
			}
			parts = append(parts, bytesList(b[i:j]))
		}
		return "(" + strings.Join(parts, " ++\n   ") + ")"
	}
	s := make([]string, len(b))
	for i, x := range b {
		s[i] = fmt.Sprint(x)
	}
	return "[" + strings.Join(s, "; ") + "]"
}

func genId(r *rng) uuid.UUID {
	var u uuid.UUID
	switch r.intn(8) {
	case 0:
		for i := range u {
			u[i] = 0xff
		}
	case 1:
		// zero
	case 2:
		binary.LittleEndian.PutUint64(u[:8], ^uint64(0))
		binary.LittleEndian.PutUint64(u[8:], r.next())
	case 3:
		binary.LittleEndian.PutUint64(u[:8], r.next())
		binary.LittleEndian.PutUint64(u[8:], ^uint64(0)-uint64(r.intn(5)))
	default:
		binary.LittleEndian.PutUint64(u[:8], r.next())
		binary.LittleEndian.PutUint64(u[8:], r.next())
	}
	return u
}

func runC10(a *args) error {
	r := newRng(a.seed)
	st := newStats("(id, m) pairs: every m in 1..1024 with random and boundary ids (all-FF, zero, max halves), random m up to 2^64-1 incl. 2^63 and 0 (panic); plus holder observations: ids written through Insert/Update/Remove/BatchInsert/BatchUpdate/BatchRemove via every entry node of simulated clusters, holder partition found by scanning all partitions, incl. batches of 10..22 ids spanning all partitions (insert, update, remove of the same batch); non-trivial = m >= 2; distinct by (id, m, kind)")
	var cases []routeCase
	if a.replay != "" {
		var c routeCase
		if err := readReplayCase(a.replay, &c); err != nil {
			return err
		}
		cases = append(cases, c)
	} else {
		for m := uint64(1); m <= 1024; m++ {
			cases = append(cases, routeCase{Id: genId(r).Bytes(), M: m, Kind: "uuidmod"})
		}
		special := []uint64{0, 1 << 63, 1<<63 + 1, ^uint64(0), 1<<32 - 1, 1 << 32, 3, 16}
		for _, m := range special {
			for k := 0; k < 6; k++ {
				cases = append(cases, routeCase{Id: genId(r).Bytes(), M: m, Kind: "uuidmod"})
			}
		}
		for len(cases) < a.n {
			m := r.next()
			if r.chance(1, 2) {
				m = 1 + m%2048
			}
			cases = append(cases, routeCase{Id: genId(r).Bytes(), M: m, Kind: "uuidmod"})
		}
	}
	for i := range cases {
		c := &cases[i]
		if c.Kind != "uuidmod" {
			continue
		}
		var id uuid.UUID
		copy(id[:], c.Id)
		var v uint64
		panicked, _ := recoverPanic(func() { v = utils.UuidMod(id, c.M) })
		if !panicked {
			c.Obs = &v
		} else {
			st.count("panic")
		}
	}
	// every node, and every restart, numbers the partitions as the catalogue entry lists them: several Dataset objects
	// built from one catalogue entry agree on which partition an index denotes and on every id's owner
	if a.replay == "" {
		for _, pc := range []int{1, 2, 3, 8, 64, 1024} {
			rr := r.fork()
			placement := make([][]uint64, pc)
			for i := range placement {
				placement[i] = []uint64{uint64(1 + i%3)}
			}
			meta := newDatasetMeta(rr, 2, pb.Space_Euclidean, placement, 1)
			var objs []*storage.Dataset
			for k := 0; k < 3; k++ {
				conn, _ := cluster.NewConn(uint64(1+k), fmt.Sprintf("sim-%d", 1+k), "")
				// the objects see different replica assignments (the third has applied the removal of the replicas of
				// every third partition, the second a replacement): the owner of an id depends on neither
				view := cloneDataset(meta)
				for i, p := range view.Partitions {
					switch {
					case k == 2 && i%3 == 1:
						p.NodeIds = nil
					case k == 1 && i%2 == 0:
						p.NodeIds = []uint64{uint64(1 + (i+1)%3), uint64(1 + (i+2)%3)}
					}
				}
				d, err := storage.VerifNewDataset(view, sharedBadger(), raft.NewTransport(uint64(1+k), fmt.Sprintf("sim-%d", 1+k), conn), conn)
				if err != nil {
					return err
				}
				objs = append(objs, d)
			}
			bad := ""
			// reading a dataset's description through the service (what `datasets get` does) leaves the catalogue entry -
			// the order of its partitions is the routing table of every node built from it later - as it was
			if _, gerr := services.NewDatasetManagerServer(storage.VerifNewDatasetManager(objs[0])).Get(context.Background(), &pb.GetDatasetRequest{DatasetId: meta.Id}); gerr == nil {
				for i, p := range objs[0].Meta().GetPartitions() {
					if bad == "" && uuid.FromBytesOrNil(p.GetId()) != uuid.FromBytesOrNil(meta.Partitions[i].Id) {
						bad = fmt.Sprintf("after a Get request the catalogue entry lists partition %s at position %d, it was created with %s there (a node built from the next catalogue snapshot routes differently)", uuid.FromBytesOrNil(p.GetId()), i, uuid.FromBytesOrNil(meta.Partitions[i].Id))
					}
				}
			}
			for k, d := range objs {
				for i := 0; i < pc && bad == ""; i++ {
					if d.VerifPartitionId(i) != uuid.FromBytesOrNil(meta.Partitions[i].Id) {
						bad = fmt.Sprintf("object %d holds partition %s at position %d, the catalogue lists %s there", k, d.VerifPartitionId(i), i, uuid.FromBytesOrNil(meta.Partitions[i].Id))
					}
				}
			}
			// read-only calls leave the routing table alone: a size query on a node that hosts some of the partitions
			// and not others (its remote lookups fail here - no peer is reachable), then Len / BytesSize
			for _, d := range objs {
				ctx, cancel := context.WithTimeout(context.Background(), 300*time.Millisecond)
				d.SizeInfo(ctx)
				d.Len(ctx)
				cancel()
			}
			for k, d := range objs {
				for i := 0; i < pc && bad == ""; i++ {
					if d.VerifPartitionId(i) != uuid.FromBytesOrNil(meta.Partitions[i].Id) {
						bad = fmt.Sprintf("after a size query object %d holds partition %s at position %d, the catalogue lists %s there", k, d.VerifPartitionId(i), i, uuid.FromBytesOrNil(meta.Partitions[i].Id))
					}
				}
			}
			for k := 0; k < 200 && bad == ""; k++ {
				id := uuidFrom(rr)
				o0 := objs[0].VerifPartitionId(objs[0].VerifOwnerIndex(id))
				if want := uuid.FromBytesOrNil(meta.Partitions[utils.UuidMod(id, uint64(pc))].Id); o0 != want {
					bad = fmt.Sprintf("id %s is owned by partition %s on object 0, the catalogue entry lists %s at position UuidMod(id, %d)", id, o0, want, pc)
				}
				for j, d := range objs[1:] {
					if o := d.VerifPartitionId(d.VerifOwnerIndex(id)); o != o0 {
						bad = fmt.Sprintf("id %s is owned by partition %s on object 0 and by %s on object %d", id, o0, o, j+1)
					}
				}
			}
			st.count(fmt.Sprintf("catalogue-order:%d", pc))
			if bad != "" {
				st.ImplFailures = append(st.ImplFailures, implFailure{Case: -1, What: fmt.Sprintf("%d partitions, three Dataset objects built from one catalogue entry (two nodes and a restart, with differing views of the replica assignment): %s", pc, bad), Key: "owner-differs-between-nodes", Input: map[string]interface{}{"partitions": pc}})
			}
		}
	}
	// holder observations on simulated clusters
	if a.replay == "" {
		nclusters := 2
		if a.tier == "thorough" {
			nclusters = 8
		}
		for k := 0; k < nclusters; k++ {
			hc, err := routeHolderCases(r.fork(), st)
			if err != nil {
				// the cluster could not be brought up (e.g. its nodes disagree on which partition is which): reported
				// with whatever the checks above have found
				st.ImplFailures = append(st.ImplFailures, implFailure{Case: -1, What: "the simulated cluster could not be set up: " + err.Error(), Key: "cluster-setup", Input: map[string]interface{}{"cluster": k}})
				continue
			}
			cases = append(cases, hc...)
		}
	}
	seen := map[string]bool{}
	var items []string
	for _, c := range cases {
		st.Evaluations++
		st.count("kind:" + c.Kind)
		if c.Path != "" {
			st.count("path:" + c.Path)
		}
		key := fmt.Sprintf("%x/%d/%s", c.Id, c.M, c.Kind+c.Path)
		if c.M >= 2 && !seen[key] {
			seen[key] = true
			st.DistinctNontrivial++
		}
		obs := "None"
		if c.Obs != nil {
			obs = fmt.Sprintf("Some %d", *c.Obs)
		}
		items = append(items, fmt.Sprintf("(%s, %d, %s)", bytesList(c.Id), c.M, obs))
	}
	for i := 0; i < len(cases) && i < 2; i++ {
		st.Samples = append(st.Samples, cases[i])
	}
	if len(cases) > 0 {
		st.Samples = append(st.Samples, cases[len(cases)-1])
	}
	prelude := "From Verif Require Import Base.Prelude Routing.Model.\nOpen Scope N_scope.\n"
	defs := "Definition bad_model := Eval vm_compute in bad_idx route_case_ok cases 0.\n" +
		"Definition bad_oracle := Eval vm_compute in bad_idx route_oracle_ok cases 0.\n" +
		"Print bad_model.\nPrint bad_oracle.\n"
	if err := writeShards(a.out, prelude, "list N * N * option N", items, defs, 1000); err != nil {
		return err
	}
	if err := writeJSON(a.out+"/cases.json", cases); err != nil {
		return err
	}
	return writeJSON(a.out+"/stats.json", st)
}

// routeHolderCases writes ids through every path and entry node and reports which partition ended up holding each.
func routeHolderCases(r *rng, st *stats) ([]routeCase, error) {
	nodes := []uint64{1, 2, 3}
	c := newSimCluster(nodes)
	defer c.close()
	p := 2 + r.intn(6)
	placement := make([][]uint64, p)
	for i := range placement {
		placement[i] = []uint64{nodes[r.intn(3)]}
		if r.chance(1, 3) {
			placement[i] = append(placement[i], nodes[(int(placement[i][0]))%3])
		}
	}
	meta := newDatasetMeta(r, 2, pb.Space_Euclidean, placement, 2)
	if err := c.createDataset(meta); err != nil {
		return nil, err
	}
	dsid := uuid.FromBytesOrNil(meta.Id)
	var out []routeCase
	used := map[uuid.UUID]bool{}
	paths := []string{"Insert", "BatchInsert", "Update", "BatchUpdate", "Remove", "BatchRemove"}
	for k := 0; k < 18; k++ {
		id := genId(r)
		for id == uuid.Nil || used[id] {
			id = uuidFrom(r)
		}
		used[id] = true
		entry := c.nodes[nodes[r.intn(3)]]
		ds := entry.datasets[dsid]
		path := paths[k%len(paths)]
		ctx, cancel := context.WithTimeout(context.Background(), 3*time.Second)
		vec := []float32{float32(k), 1}
		item := []*pb.BatchItem{{Id: id.Bytes(), Value: vec}}
		var err error
		// updates/removes need the item to exist: insert it first through a random node
		if path != "Insert" && path != "BatchInsert" {
			other := c.nodes[nodes[r.intn(3)]].datasets[dsid]
			if e := other.Insert(ctx, id, vec, nil); e != nil {
				cancel()
				return nil, fmt.Errorf("pre-insert: %v", e)
			}
		}
		switch path {
		case "Insert":
			err = ds.Insert(ctx, id, vec, nil)
		case "BatchInsert":
			var errs map[uuid.UUID]error
			errs, err = ds.BatchInsert(ctx, item)
			if err == nil && len(errs) > 0 {
				err = fmt.Errorf("batch errors %v", errs)
			}
		case "Update":
			err = ds.Update(ctx, id, []float32{9, 9}, nil)
		case "BatchUpdate":
			var errs map[uuid.UUID]error
			item[0].Value = []float32{9, 9}
			errs, err = ds.BatchUpdate(ctx, item)
			if err == nil && len(errs) > 0 {
				err = fmt.Errorf("batch errors %v", errs)
			}
		case "Remove":
			err = ds.Remove(ctx, id)
		case "BatchRemove":
			var errs map[uuid.UUID]error
			errs, err = ds.BatchRemove(ctx, item)
			if err == nil && len(errs) > 0 {
				err = fmt.Errorf("batch errors %v", errs)
			}
		}
		cancel()
		if err != nil {
			// a write to the routed partition failed: for update/remove paths this means the path routed elsewhere
			st.count("holder-write-error:" + path)
			st.ImplFailures = append(st.ImplFailures, implFailure{Case: -1, What: fmt.Sprintf("%s of an existing/new id through node %d failed: %v", path, entry.id, err),
				Key: "route-path-disagrees:" + path, Input: map[string]interface{}{"id": id.String(), "path": path, "partitions": p}})
			continue
		}
		time.Sleep(3 * time.Millisecond)
		// which partitions hold it (on the nodes hosting them)?
		holders := map[int]bool{}
		for i, nodesOf := range placement {
			for _, nid := range nodesOf {
				if _, e := c.nodes[nid].datasets[dsid].VerifIndex(i).Get(id); e == nil {
					holders[i] = true
				}
			}
		}
		if path == "Remove" || path == "BatchRemove" {
			if len(holders) != 0 {
				st.ImplFailures = append(st.ImplFailures, implFailure{Case: -1, What: fmt.Sprintf("%s left the id in partitions %v", path, holders),
					Key: "route-path-disagrees:" + path, Input: map[string]interface{}{"id": id.String(), "path": path, "partitions": p}})
			}
			// the remove found the item: it was routed to the partition the insert used; record that owner
			v := uint64(ds.VerifOwnerIndex(id))
			out = append(out, routeCase{Id: id.Bytes(), M: uint64(p), Obs: &v, Kind: "holder", Path: path})
			continue
		}
		if len(holders) != 1 {
			st.ImplFailures = append(st.ImplFailures, implFailure{Case: -1, What: fmt.Sprintf("after %s the id is held by partitions %v (expected exactly one)", path, holders),
				Key: "route-not-exactly-one:" + path, Input: map[string]interface{}{"id": id.String(), "path": path, "partitions": p}})
			continue
		}
		for h := range holders {
			v := uint64(h)
			out = append(out, routeCase{Id: id.Bytes(), M: uint64(p), Obs: &v, Kind: "holder", Path: path})
		}
	}
	// batches spanning several partitions: every item of one call must reach its own owner (grouping by owner)
	holdersOf := func(id uuid.UUID) map[int]bool {
		holders := map[int]bool{}
		for i, nodesOf := range placement {
			for _, nid := range nodesOf {
				if _, e := c.nodes[nid].datasets[dsid].VerifIndex(i).Get(id); e == nil {
					holders[i] = true
				}
			}
		}
		return holders
	}
	for round := 0; round < 2; round++ {
		entry := c.nodes[nodes[r.intn(3)]]
		ds := entry.datasets[dsid]
		var batch []*pb.BatchItem
		var ids []uuid.UUID
		// an item the entry node refuses (wrong dimension) sits in front of the good ones and another in their middle:
		// the good items are routed by their own ids all the same
		refused := map[uuid.UUID]bool{}
		for k := 0; k < 6+2*p; k++ {
			if k == 0 || k == 4 {
				bad := uuidFrom(r)
				refused[bad] = true
				batch = append(batch, &pb.BatchItem{Id: bad.Bytes(), Value: []float32{1}})
			}
			id := uuidFrom(r)
			ids = append(ids, id)
			batch = append(batch, &pb.BatchItem{Id: id.Bytes(), Value: []float32{float32(k), 2}})
		}
		for _, path := range []string{"BatchInsert", "BatchUpdate", "BatchRemove"} {
			ctx, cancel := context.WithTimeout(context.Background(), 5*time.Second)
			var errs map[uuid.UUID]error
			var err error
			switch path {
			case "BatchInsert":
				errs, err = ds.BatchInsert(ctx, batch)
			case "BatchUpdate":
				errs, err = ds.BatchUpdate(ctx, batch)
			case "BatchRemove":
				errs, err = ds.BatchRemove(ctx, batch)
			}
			cancel()
			st.count("holder-multi:" + path)
			// the refused items are reported (insert / update check the vector; a removal carries none), nothing else is
			for bad := range refused {
				if path != "BatchRemove" && errs[bad] == nil && err == nil {
					errs = map[uuid.UUID]error{bad: fmt.Errorf("the wrong-dimension item %s was not refused", bad)}
					break
				}
				delete(errs, bad)
			}
			if err != nil || len(errs) > 0 {
				st.ImplFailures = append(st.ImplFailures, implFailure{Case: -1, What: fmt.Sprintf("%s of %d fresh ids spanning %d partitions through node %d: err=%v, %d item errors %v", path, len(ids), p, entry.id, err, len(errs), errs),
					Key: "route-path-disagrees:" + path + ":multi", Input: map[string]interface{}{"path": path, "partitions": p, "items": len(ids)}})
				break
			}
			time.Sleep(5 * time.Millisecond)
			for _, id := range ids {
				holders := holdersOf(id)
				owner := ds.VerifOwnerIndex(id)
				ok := len(holders) == 1 && holders[owner]
				if path == "BatchRemove" {
					ok = len(holders) == 0
				}
				if !ok {
					st.ImplFailures = append(st.ImplFailures, implFailure{Case: -1, What: fmt.Sprintf("after a %s of %d ids, id %s (owner partition %d) is held by partitions %v", path, len(ids), id, owner, holders),
						Key: "route-not-exactly-one:" + path + ":multi", Input: map[string]interface{}{"id": id.String(), "path": path, "partitions": p}})
					break
				}
				if path == "BatchInsert" {
					v := uint64(owner)
					out = append(out, routeCase{Id: id.Bytes(), M: uint64(p), Obs: &v, Kind: "holder", Path: path})
				}
			}
		}
	}
	return out, nil
}
