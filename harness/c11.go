package main

// C11 — acknowledgements: (1) the proposer / apply-loop hand-shake on a real single-replica partition, with the
// pause hook forcing "applied before the caller waits"; (2) the dataset write path with unreachable owners and
// wrong dimensions; (3) batch error maps.

import (
	"context"
	"fmt"
	"strings"
	"sync"
	"time"

	pb "github.com/marekgalovic/anndb/protobuf"
	"github.com/marekgalovic/anndb/storage"

	uuid "github.com/satori/go.uuid"
)

func init() { runners["C11"] = runC11 }

type ntCase struct {
	Kind    string `json:"kind"`    // forced-apply-first | plain
	Op      string `json:"op"`      // insert-new insert-dup remove-absent update
	Outcome int    `json:"outcome"` // 0 ok, 1 exists, 2 not found
	Obs     string `json:"obs"`     // got:<n> | timeout
}
type wrCase struct {
	Path      string `json:"path"`
	DimOK     bool   `json:"dim_ok"`
	Local     bool   `json:"local"`
	Reachable bool   `json:"reachable"`
	Obs       string `json:"obs"` // ok dim unreachable err
	Stored    bool   `json:"stored"`
}

func errCode(e error) (string, int) {
	switch errClass(e) {
	case "":
		return "got:0", 0
	case "exists":
		return "got:1", 1
	case "notfound":
		return "got:2", 2
	}
	if e == context.DeadlineExceeded || strings.Contains(e.Error(), "deadline") {
		return "timeout", -1
	}
	return "other:" + e.Error(), -2
}

func runC11(a *args) error {
	r := newRng(a.seed)
	st := newStats("(1) single-replica partitions: proposals (insert new / duplicate insert / remove absent / update) with the proposer held at the pause point between Propose and its select until the entry has been applied (forced) or not held (plain), deadline 400 ms; (2) 3-node clusters: Insert/Update/Remove through nodes that host or do not host the owner, with the owner reachable or not, right or wrong dimension; the item's presence on the owner is checked afterwards; (3) batches mixing valid, duplicate, absent and wrong-dimension items; (3b) 72-item batches over 24 partitions on three nodes with one node cut off / undialable, then repeated (duplicates), then removed together with absent ids: an id without an error must have taken effect on its owner; non-trivial = forced cases and unreachable-owner cases; distinct by case parameters")
	var nts []ntCase
	var wrs []wrCase
	// ---- (1) hand-shake
	{
		c := newSimCluster([]uint64{1})
		meta := newDatasetMeta(r, 2, pb.Space_Euclidean, [][]uint64{{1}}, 1)
		if err := c.createDataset(meta); err != nil {
			return err
		}
		ds := c.nodes[1].datasets[uuid.FromBytesOrNil(meta.Id)]
		idx := ds.VerifIndex(0)
		rounds := a.n / 4
		if rounds < 8 {
			rounds = 8
		}
		present := []uuid.UUID{}
		for i := 0; i < rounds; i++ {
			forced := i%2 == 0
			op := []string{"insert-new", "insert-dup", "remove-absent", "update", "update-absent", "remove-present"}[r.intn(6)]
			if len(present) == 0 {
				op = "insert-new"
			}
			id := uuidFrom(r)
			var mu sync.Mutex
			released := false
			if forced {
				// hold the proposer until the apply loop has processed the entry (observable through the index)
				before := idx.Len()
				var target uuid.UUID
				storage.VerifPauseHook = func(name string) {
					if name != "after-propose" {
						return
					}
					deadline := time.Now().Add(300 * time.Millisecond)
					for time.Now().Before(deadline) {
						applied := false
						switch op {
						case "insert-new":
							_, e := idx.Get(target)
							applied = e == nil
						case "update":
							// vector changes to {7,7}
							v, e := idx.Get(target)
							applied = e == nil && len(v) == 2 && v[0] == 7
						default:
							// duplicate insert / absent remove change nothing observable: wait for the apply loop to have had ample time
							time.Sleep(60 * time.Millisecond)
							applied = true
						}
						if applied {
							break
						}
						time.Sleep(time.Millisecond)
					}
					_ = before
					mu.Lock()
					released = true
					mu.Unlock()
				}
				switch op {
				case "insert-new":
					target = id
				case "update":
					target = present[r.intn(len(present))]
					id = target
				}
			} else {
				storage.VerifPauseHook = nil
			}
			ctx, cancel := context.WithTimeout(context.Background(), 400*time.Millisecond)
			var err error
			switch op {
			case "insert-new":
				err = ds.Insert(ctx, id, []float32{float32(i), 1}, nil)
				if err == nil {
					present = append(present, id)
				}
			case "insert-dup":
				id = present[r.intn(len(present))]
				err = ds.Insert(ctx, id, []float32{1, 1}, nil)
			case "remove-absent":
				err = ds.Remove(ctx, id)
			case "update":
				if !forced {
					id = present[r.intn(len(present))]
				}
				err = ds.Update(ctx, id, []float32{7, 7}, nil)
			case "update-absent":
				err = ds.Update(ctx, id, []float32{7, 7}, nil)
			case "remove-present":
				k := r.intn(len(present))
				id = present[k]
				err = ds.Remove(ctx, id)
				if err == nil {
					present = append(present[:k], present[k+1:]...)
				}
			}
			cancel()
			// an acknowledgement is truthful: what was acknowledged is what the index now holds
			if err == nil {
				v, gerr := idx.Get(id)
				bad := ""
				switch op {
				case "update", "update-absent":
					if gerr != nil || len(v) != 2 || v[0] != 7 {
						bad = fmt.Sprintf("%s of %s was acknowledged, the index holds %v (err %v)", op, id, v, gerr)
					}
				case "remove-present", "remove-absent":
					if gerr == nil {
						bad = fmt.Sprintf("%s of %s was acknowledged, the index still holds the item", op, id)
					}
				}
				if bad != "" {
					st.ImplFailures = append(st.ImplFailures, implFailure{Case: i, What: bad, Key: "acknowledged-not-applied:" + op, Input: map[string]interface{}{"op": op, "forced": forced}})
				}
			}
			storage.VerifPauseHook = nil
			obs, _ := errCode(err)
			want := map[string]int{"insert-new": 0, "insert-dup": 1, "remove-absent": 2, "update": 0, "update-absent": 2, "remove-present": 0}[op]
			kind := "plain"
			if forced {
				kind = "forced-apply-first"
			}
			if op == "insert-new" && err != nil {
				// a timed-out insert may still have been applied
				if _, e := idx.Get(id); e == nil {
					present = append(present, id)
				}
			}
			nts = append(nts, ntCase{Kind: kind, Op: op, Outcome: want, Obs: obs})
			st.count("handshake:" + kind + ":" + obs)
			_ = released
		}
		// a caller that gives up (its context is cancelled) at the moment its entry has been applied: whether it still
		// takes its outcome or leaves with the context's error, the next callers get their own outcomes
		for k := 0; k < 12; k++ {
			idA := uuidFrom(r)
			ctxA, cancelA := context.WithCancel(context.Background())
			storage.VerifPauseHook = func(name string) {
				if name != "after-propose" {
					return
				}
				deadline := time.Now().Add(300 * time.Millisecond)
				for time.Now().Before(deadline) {
					if _, e := idx.Get(idA); e == nil {
						break
					}
					time.Sleep(time.Millisecond)
				}
				time.Sleep(2 * time.Millisecond) // the apply loop has delivered the outcome by now
				cancelA()
			}
			errA := ds.Insert(ctxA, idA, []float32{float32(k), 9}, nil)
			storage.VerifPauseHook = nil
			cancelA()
			ctx, cancel := context.WithTimeout(context.Background(), 400*time.Millisecond)
			errB := ds.Remove(ctx, uuidFrom(r))
			errC := ds.Insert(ctx, idA, []float32{1, 1}, nil)
			cancel()
			st.count(fmt.Sprintf("cancelled-after-apply:A-returned-error=%v", errA != nil))
			in := map[string]interface{}{"round": k, "errA": fmt.Sprint(errA)}
			if errB == nil || errClass(errB) != "notfound" {
				st.ImplFailures = append(st.ImplFailures, implFailure{Case: k, What: fmt.Sprintf("after a caller gave up at the moment its insert was applied (it returned %v), the next caller's Remove of an id that is not stored returned %v", errA, errB), Key: "outcome-of-another-caller:remove-absent", Input: in})
			}
			if errC == nil || errClass(errC) != "exists" {
				st.ImplFailures = append(st.ImplFailures, implFailure{Case: k, What: fmt.Sprintf("after a caller gave up at the moment its insert was applied (it returned %v), a second Insert of the same id returned %v", errA, errC), Key: "outcome-of-another-caller:insert-dup", Input: in})
			}
		}
		c.close()
	}
	// ---- (2) write path on a 3-node cluster
	{
		nodes := []uint64{1, 2, 3}
		c := newSimCluster(nodes)
		placement := [][]uint64{{1}, {2}, {3}, {1}}
		meta := newDatasetMeta(r, 2, pb.Space_Euclidean, placement, 1)
		if err := c.createDataset(meta); err != nil {
			return err
		}
		dsid := uuid.FromBytesOrNil(meta.Id)
		rounds := a.n / 2
		for i := 0; i < rounds; i++ {
			id := uuidFrom(r)
			entry := nodes[r.intn(3)]
			ds := c.nodes[entry].datasets[dsid]
			owner := placement[ds.VerifOwnerIndex(id)][0]
			local := owner == entry
			dimOK := !r.chance(1, 4)
			reachable := local || !r.chance(1, 3)
			path := []string{"Insert", "Update", "Remove"}[r.intn(3)]
			ownerDs := c.nodes[owner].datasets[dsid]
			oi := ownerDs.VerifOwnerIndex(id)
			// updates / removes act on an existing item
			if path != "Insert" {
				ctx, cancel := context.WithTimeout(context.Background(), 2*time.Second)
				if e := ownerDs.Insert(ctx, id, []float32{1, 2}, nil); e != nil {
					cancel()
					return fmt.Errorf("pre-insert: %v", e)
				}
				cancel()
			}
			undialable := !reachable && r.chance(1, 2)
			if !reachable {
				if undialable {
					// the entry node has no client and no address for the owner: obtaining the client fails
					ds.VerifDropClients(owner)
					c.nodes[entry].conn.RemoveNode(owner)
				} else {
					c.nodes[owner].setUnreachable(true)
				}
			}
			vec := []float32{3, 4}
			if !dimOK {
				vec = []float32{3, 4, 5}
			}
			ctx, cancel := context.WithTimeout(context.Background(), 2*time.Second)
			var err error
			switch path {
			case "Insert":
				err = ds.Insert(ctx, id, vec, nil)
			case "Update":
				err = ds.Update(ctx, id, vec, nil)
			case "Remove":
				err = ds.Remove(ctx, id)
				dimOK = true
			}
			cancel()
			c.nodes[owner].setUnreachable(false)
			if undialable {
				c.nodes[entry].conn.AddNode(owner, fmt.Sprintf("sim-%d", owner))
				ds.VerifSetDataManagerClient(owner, &memDataManagerClient{to: c.nodes[owner]})
				ds.VerifSetSearchClient(owner, &memSearchClient{to: c.nodes[owner]})
			}
			time.Sleep(2 * time.Millisecond)
			// did the change reach the owner?
			v, gerr := ownerDs.VerifIndex(oi).Get(id)
			stored := false
			switch path {
			case "Insert":
				stored = gerr == nil
			case "Update":
				stored = gerr == nil && len(v) == 2 && v[0] == 3
			case "Remove":
				stored = gerr != nil
			}
			obs := "err"
			switch {
			case err == nil:
				obs = "ok"
			case err == storage.DimensionMissmatchErr:
				obs = "dim"
			case strings.Contains(err.Error(), "unreachable") || strings.Contains(err.Error(), "address not found"):
				obs = "unreachable"
			}
			wrs = append(wrs, wrCase{Path: path, DimOK: dimOK, Local: local, Reachable: reachable, Obs: obs, Stored: stored})
			st.count(fmt.Sprintf("write:%s:local=%v:reach=%v:dim=%v:%s", path, local, reachable, dimOK, obs))
		}
		// ---- (2b) a proposal the group accepts but cannot commit (the second of two replicas is cut off): with no
		// deadline of the caller's own the call must end with an error when the proposal times out - and nothing is stored
		{
			c2 := newSimCluster([]uint64{1, 2})
			meta2 := newDatasetMeta(r, 2, pb.Space_Euclidean, [][]uint64{{1, 2}}, 2)
			if err := c2.createDataset(meta2); err != nil {
				return err
			}
			ds2 := c2.nodes[1].datasets[uuid.FromBytesOrNil(meta2.Id)]
			have := uuidFrom(r)
			ctx0, cancel0 := context.WithTimeout(context.Background(), 2*time.Second)
			if e := ds2.Insert(ctx0, have, []float32{1, 2}, nil); e != nil {
				cancel0()
				return fmt.Errorf("pre-insert (2 replicas): %v", e)
			}
			cancel0()
			c2.nodes[2].setUnreachable(true)
			fresh := uuidFrom(r)
			type outc struct {
				path string
				err  error
			}
			ch := make(chan outc, 3)
			go func() { ch <- outc{"Insert", ds2.Insert(context.Background(), fresh, []float32{3, 4}, nil)} }()
			go func() { ch <- outc{"Update", ds2.Update(context.Background(), have, []float32{3, 4}, nil)} }()
			go func() { ch <- outc{"Remove", ds2.Remove(context.Background(), have)} }()
			for k := 0; k < 3; k++ {
				select {
				case o := <-ch:
					_, gerrF := ds2.VerifIndex(0).Get(fresh)
					vH, gerrH := ds2.VerifIndex(0).Get(have)
					stored := (o.path == "Insert" && gerrF == nil) || (o.path == "Update" && gerrH == nil && len(vH) == 2 && vH[0] == 3) || (o.path == "Remove" && gerrH != nil)
					st.count(fmt.Sprintf("uncommittable:%s:err=%v", o.path, o.err != nil))
					if o.err == nil && !stored {
						st.ImplFailures = append(st.ImplFailures, implFailure{Case: k, What: fmt.Sprintf("%s on a partition that cannot commit (second replica cut off, caller without deadline) returned success; nothing was applied", o.path), Key: "acknowledged-not-applied:" + o.path, Input: map[string]interface{}{"path": o.path, "replicas": 2, "cut": 2}})
					}
				case <-time.After(12 * time.Second):
					st.ImplFailures = append(st.ImplFailures, implFailure{Case: k, What: "a write on a partition that cannot commit did not return within 12 s", Key: "write-never-returns", Input: map[string]interface{}{"replicas": 2, "cut": 2}})
				}
			}
			c2.nodes[2].setUnreachable(false)
			c2.close()
		}
		// ---- (2c) both replicas of one partition take writes at the same time: the same fresh id is inserted through
		// node 1 and through node 2 with different vectors; every entry is applied on both nodes while the other node's
		// caller is waiting, so an outcome delivered to the wrong waiter shows as two successes or as a success for the
		// value that was not stored
		{
			c3 := newSimCluster([]uint64{1, 2})
			meta3 := newDatasetMeta(r, 2, pb.Space_Euclidean, [][]uint64{{1, 2}}, 2)
			if err := c3.createDataset(meta3); err != nil {
				return err
			}
			dsA := c3.nodes[1].datasets[uuid.FromBytesOrNil(meta3.Id)]
			dsB := c3.nodes[2].datasets[uuid.FromBytesOrNil(meta3.Id)]
			// warm up: the group has a leader and both nodes can propose
			for w := 0; w < 3; w++ {
				ctx, cancel := context.WithTimeout(context.Background(), 3*time.Second)
				dsA.Insert(ctx, uuidFrom(r), []float32{0, float32(w)}, nil)
				dsB.Insert(ctx, uuidFrom(r), []float32{1, float32(w)}, nil)
				cancel()
			}
			rounds2 := 20
			for i := 0; i < rounds2; i++ {
				id := uuidFrom(r)
				vA, vB := []float32{10, float32(i)}, []float32{20, float32(i)}
				var errA, errB error
				done := make(chan struct{}, 2)
				go func() {
					ctx, cancel := context.WithTimeout(context.Background(), 3*time.Second)
					errA = dsA.Insert(ctx, id, vA, nil)
					cancel()
					done <- struct{}{}
				}()
				go func() {
					ctx, cancel := context.WithTimeout(context.Background(), 3*time.Second)
					errB = dsB.Insert(ctx, id, vB, nil)
					cancel()
					done <- struct{}{}
				}()
				<-done
				<-done
				time.Sleep(5 * time.Millisecond)
				got, gerr := dsA.VerifIndex(0).Get(id)
				st.count(fmt.Sprintf("symmetric:okA=%v:okB=%v", errA == nil, errB == nil))
				in := map[string]interface{}{"replicas": 2, "round": i, "errA": fmt.Sprint(errA), "errB": fmt.Sprint(errB)}
				switch {
				case errA == nil && errB == nil:
					st.ImplFailures = append(st.ImplFailures, implFailure{Case: i, What: "the same fresh id was inserted through both replicas at once and BOTH callers were told success (one of the two entries is refused when applied)", Key: "both-acknowledged", Input: in})
				case errA == nil && (gerr != nil || len(got) != 2 || got[0] != vA[0]):
					st.ImplFailures = append(st.ImplFailures, implFailure{Case: i, What: fmt.Sprintf("the caller at node 1 was told success but the stored vector is %v (err %v), not the one it wrote", got, gerr), Key: "acknowledged-not-applied:symmetric", Input: in})
				case errB == nil && (gerr != nil || len(got) != 2 || got[0] != vB[0]):
					st.ImplFailures = append(st.ImplFailures, implFailure{Case: i, What: fmt.Sprintf("the caller at node 2 was told success but the stored vector is %v (err %v), not the one it wrote", got, gerr), Key: "acknowledged-not-applied:symmetric", Input: in})
				}
			}
			c3.close()
		}
		// ---- (3) batches: exactly the failing ids are reported
		ds := c.nodes[1].datasets[dsid]
		for b := 0; b < 12; b++ {
			var items []*pb.BatchItem
			want := map[uuid.UUID]string{}
			seenIds := map[uuid.UUID]bool{}
			for k := 0; k < 2+r.intn(6); k++ {
				id := uuidFrom(r)
				vec := []float32{float32(k), 2}
				switch r.intn(4) {
				case 0: // wrong dimension
					vec = []float32{1}
					want[id] = "dim"
				case 1: // duplicate of an earlier item of this batch
					for prev := range seenIds {
						id = prev
						break
					}
					if seenIds[id] {
						want[id] = "exists"
					}
				}
				if want[id] != "dim" {
					seenIds[id] = true
				}
				items = append(items, &pb.BatchItem{Id: id.Bytes(), Value: vec})
			}
			ctx, cancel := context.WithTimeout(context.Background(), 3*time.Second)
			errs, err := ds.BatchInsert(ctx, items)
			cancel()
			if err != nil {
				st.ImplFailures = append(st.ImplFailures, implFailure{Case: -1, What: "BatchInsert failed as a whole: " + err.Error(), Key: "batch-call-error", Input: len(items)})
				continue
			}
			got := map[uuid.UUID]string{}
			for id, e := range errs {
				switch {
				case e == storage.DimensionMissmatchErr:
					got[id] = "dim"
				default:
					got[id] = errClass(e)
				}
			}
			if fmt.Sprint(got) != fmt.Sprint(want) {
				st.ImplFailures = append(st.ImplFailures, implFailure{Case: -1, What: fmt.Sprintf("batch error map %v, expected exactly %v", got, want), Key: "batch-error-map", Input: len(items)})
			}
			st.count("batch")
		}
		c.close()
	}
	// ---- (3b) wide batches: 24 single-replica partitions spread over three nodes, batches of 72 items through node 1.
	// Round A with node 2 cut off (every id it owns must come back with an error, every id reported written must be on
	// its owner), round B the same ids again with node 2 back (what is stored already must be reported, what was not
	// is written), round C removes them together with ids that were never stored.  Many partitions answer at once and
	// the unreachable ones fail before the collector is parked in its receive.
	{
		c4 := newSimCluster([]uint64{1, 2, 3})
		var placement [][]uint64
		for i := 0; i < 24; i++ {
			placement = append(placement, []uint64{uint64(1 + i%3)})
		}
		meta4 := newDatasetMeta(r, 2, pb.Space_Euclidean, placement, 1)
		if err := c4.createDataset(meta4); err != nil {
			return err
		}
		dsid4 := uuid.FromBytesOrNil(meta4.Id)
		ds := c4.nodes[1].datasets[dsid4]
		ownerOf := func(id uuid.UUID) (uint64, int) {
			p := ds.VerifOwnerIndex(id)
			return placement[p][0], p
		}
		stored := func(id uuid.UUID) bool {
			o, p := ownerOf(id)
			_, e := c4.nodes[o].datasets[dsid4].VerifIndex(p).Get(id)
			return e == nil
		}
		wide := 3
		if a.tier == "thorough" {
			wide = 12
		}
		for round := 0; round < wide; round++ {
			var ids []uuid.UUID
			var items []*pb.BatchItem
			for k := 0; k < 72; k++ {
				id := uuidFrom(r)
				ids = append(ids, id)
				items = append(items, &pb.BatchItem{Id: id.Bytes(), Value: []float32{float32(k), float32(round)}})
			}
			absent := []uuid.UUID{}
			for k := 0; k < 24; k++ {
				absent = append(absent, uuidFrom(r))
			}
			for _, phase := range []string{"A", "B", "U", "C", "D"} {
				before := map[uuid.UUID]bool{}
				for _, id := range append(append([]uuid.UUID(nil), ids...), absent...) {
					before[id] = stored(id)
				}
				if phase == "A" {
					c4.nodes[2].setUnreachable(true)
					if round%2 == 1 {
						ds.VerifDropClients(2)
						c4.nodes[1].conn.RemoveNode(2)
					}
				}
				ctx, cancel := context.WithTimeout(context.Background(), 8*time.Second)
				var errs map[uuid.UUID]error
				var err error
				batch := items
				switch phase {
				case "C":
					batch = nil
					for _, id := range append(append([]uuid.UUID(nil), ids...), absent...) {
						batch = append(batch, &pb.BatchItem{Id: id.Bytes()})
					}
					errs, err = ds.BatchRemove(ctx, batch)
				case "U", "D":
					// U: update what is stored together with ids that are not (those must be reported); D: after the
					// removal nothing is stored any more - every id must be reported
					batch = nil
					for _, id := range append(append([]uuid.UUID(nil), ids...), absent...) {
						batch = append(batch, &pb.BatchItem{Id: id.Bytes(), Value: []float32{42, float32(round)}})
					}
					errs, err = ds.BatchUpdate(ctx, batch)
				default:
					errs, err = ds.BatchInsert(ctx, batch)
				}
				cancel()
				if phase == "A" {
					c4.nodes[2].setUnreachable(false)
					if round%2 == 1 {
						c4.nodes[1].conn.AddNode(2, "sim-2")
						ds.VerifSetDataManagerClient(2, &memDataManagerClient{to: c4.nodes[2]})
					}
				}
				st.count(fmt.Sprintf("wide-batch:%s:err=%v", phase, err != nil))
				if err != nil {
					// the whole call failed: nothing was acknowledged
					continue
				}
				lost, over := 0, 0
				example := ""
				for _, it := range batch {
					id := uuid.FromBytesOrNil(it.GetId())
					reported := errs[id] != nil
					now := stored(id)
					var applied bool // did this call's item take effect?
					switch phase {
					case "C":
						applied = before[id] && !now
					case "U", "D":
						o, p := ownerOf(id)
						v, e := c4.nodes[o].datasets[dsid4].VerifIndex(p).Get(id)
						applied = before[id] && e == nil && len(v) == 2 && v[0] == 42
					default:
						applied = !before[id] && now
					}
					if !reported && !applied {
						lost++
						if example == "" {
							o, p := ownerOf(id)
							example = fmt.Sprintf("id %s (partition %d on node %d): stored before=%v after=%v, no error reported", id, p, o, before[id], now)
						}
					}
					if reported && applied {
						over++
					}
				}
				in := map[string]interface{}{"round": round, "phase": phase, "partitions": 24, "items": len(batch)}
				if lost > 0 {
					st.ImplFailures = append(st.ImplFailures, implFailure{Case: round, What: fmt.Sprintf("wide batch, phase %s: %d of %d items were acknowledged (no error for their id) although they did not take effect, e.g. %s", phase, lost, len(batch), example), Key: "batch-acknowledged-not-applied", Input: in})
				}
				if over > 0 {
					st.ImplFailures = append(st.ImplFailures, implFailure{Case: round, What: fmt.Sprintf("wide batch, phase %s: %d items that took effect were reported as failed", phase, over), Key: "batch-error-for-applied", Input: in})
				}
			}
		}
		c4.close()
	}
	// ---- render
	var items []string
	for _, n := range nts {
		st.Evaluations++
		sched := "[Create 0; Propose 0; StartWait 0; ApplyNotify 0; Deadline 0]%nat"
		if n.Kind == "forced-apply-first" {
			sched = "[Create 0; Propose 0; ApplyNotify 0; StartWait 0; Deadline 0]%nat"
		}
		obs := "RTimeout"
		if strings.HasPrefix(n.Obs, "got:") {
			obs = "RGot " + n.Obs[4:]
		} else if n.Obs != "timeout" {
			obs = "RGot 99"
		}
		items = append(items, fmt.Sprintf("inl {| nc_outcome := %d; nc_sched := %s; nc_obs := %s |}", n.Outcome, sched, obs))
	}
	for _, w := range wrs {
		st.Evaluations++
		m := map[string]string{"ok": "WOk", "dim": "WErrDim", "unreachable": "WErrUnreachable", "err": "WErr 1"}
		items = append(items, fmt.Sprintf("inr {| wc_dim_ok := %s; wc_local := %s; wc_reachable := %s; wc_owner := WOk; wc_obs := %s; wc_stored := %s |}",
			b(w.DimOK), b(w.Local), b(w.Reachable), m[w.Obs], b(w.Stored)))
	}
	nt := 0
	seen := map[string]bool{}
	for _, n := range nts {
		if n.Kind == "forced-apply-first" && !seen[n.Op+n.Obs] {
			seen[n.Op+n.Obs] = true
			nt++
		}
	}
	for _, w := range wrs {
		k := fmt.Sprint(w)
		if !w.Reachable && !seen[k] {
			seen[k] = true
			nt++
		}
	}
	st.DistinctNontrivial = nt
	if len(nts) > 0 {
		st.Samples = append(st.Samples, nts[0])
	}
	if len(wrs) > 0 {
		st.Samples = append(st.Samples, wrs[0])
	}
	prelude := "From Verif Require Import Base.Prelude Proto.Notify Proto.Check Generated.Facts.\nOpen Scope N_scope.\n" +
		"Definition buf := match propose_notif_buf with Known n => n | Unrecognised _ => 1%nat end.\n" +
		"Definition perr := match proxy_returns_err with Known b => b | Unrecognised _ => true end.\n" +
		"Definition model_ok (c : notif_case + write_case) := match c with inl n => notif_case_model_ok buf n | inr w => write_case_model_ok perr w end.\n" +
		"Definition oracle_ok (c : notif_case + write_case) := match c with inl n => notif_case_oracle_ok n | inr w => write_case_oracle_ok w end.\n"
	defs := "Definition bad_model := Eval vm_compute in bad_idx model_ok cases 0.\n" +
		"Definition bad_oracle := Eval vm_compute in bad_idx oracle_ok cases 0.\nPrint bad_model.\nPrint bad_oracle.\n"
	if err := writeShards(a.out, prelude, "notif_case + write_case", items, defs, 200); err != nil {
		return err
	}
	all := []interface{}{}
	for _, n := range nts {
		all = append(all, n)
	}
	for _, w := range wrs {
		all = append(all, w)
	}
	if err := writeJSON(a.out+"/cases.json", all); err != nil {
		return err
	}
	return writeJSON(a.out+"/stats.json", st)
}
